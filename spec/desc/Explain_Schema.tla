----------------------------- MODULE Explain_Schema -----------------------------
(***************************************************************************)
(* Diagnosis of rejected events: for every event of the given trace print  *)
(* the defects the specification sees and the values it expects, so that   *)
(* the runner can name the accessor paths on which the real code differs   *)
(* (used for the violation report and for matching known findings).        *)
(***************************************************************************)
EXTENDS SchemaCases, Json, IOUtils

Trace == ndJsonDeserialize(IOEnv.TRACE)
VARIABLE l
Init == l = 1
Explain(e) ==
  IF e.op \in {"file", "linked"} /\ "panic" \notin DOMAIN e.out /\ (e.op = "file" \/ "file" \in DOMAIN e.out) THEN
    LET f == FileOf(e)
        d == Defects(f, e.allow)
    IN [l |-> l, defects |-> d, canon |-> CanonicalDefaults(f),
        exp |-> IF d = {} THEN AcceptedExp(f, e.allow, (Want(e) \cup {"ok"}) \cap DOMAIN e.out) ELSE [ok |-> FALSE],
        laws |-> IF "snap" \in DOMAIN e.out THEN ViewLaws(e.out.snap) ELSE TRUE]
  ELSE IF e.op = "xlate" /\ "panic" \notin DOMAIN e.out THEN
    \* domain = FALSE: the generator's pair is not what the specification calls a translation (a harness defect, not a finding)
    [l |-> l, defects |-> {}, canon |-> TRUE, laws |-> TRUE, domain |-> XlateWellFormed(e),
     exp |-> IF XlateWellFormed(e) THEN XlateExpect(e) ELSE [none |-> TRUE]]
  ELSE [l |-> l, defects |-> {}, canon |-> TRUE, exp |-> [none |-> TRUE], laws |-> TRUE]
Next == /\ l <= Len(Trace) /\ l' = l + 1
        /\ PrintT("@@" \o ToJson(Explain(Trace[l])))
=============================================================================
