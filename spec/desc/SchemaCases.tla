----------------------------- MODULE SchemaCases -----------------------------
(***************************************************************************)
(* What the specification demands of one harness case of module "desc"     *)
(* (shared by tours and trace validation).                                 *)
(*                                                                         *)
(*  op "file"    e.file (abstract file), e.allow, e.want (keys to decide)  *)
(*  op "linked"  a file linked into the harness; its abstract file is      *)
(*               e.out.file (the descriptor proto of the real descriptor)  *)
(*  keys: ok     NewFile's verdict = no definite defect                    *)
(*        snap   accessor snapshot = Views(file)                           *)
(*        back   ToFileDescriptorProto(NewFile(p)) = Normal(file)          *)
(*        rt     NewFile(ToFileDescriptorProto(d)) reproduces d            *)
(*        nsame  protodesc result = the descriptor generated code built    *)
(*        bsnap, bsame, blazy   filedesc.Builder on the same proto: Views, *)
(*               equal to protodesc's, independent of traversal order      *)
(*  mode (trace events only): "valid" -- a generator vouches for validity; *)
(*  "mutant" -- nobody does: a defect demands rejection, an accepted file  *)
(*  must show Views (canonical defaults) and satisfy the view laws, and a  *)
(*  rejection of a file without listed defect is not judged.               *)
(***************************************************************************)
EXTENDS SchemaInject, SchemaViews

Range(seq) == {seq[i] : i \in 1..Len(seq)}

FileOf(e) == IF e.op = "linked" THEN e.out.file ELSE e.file

\* expectation for an accepted file, restricted to the wanted keys
Accepted(f, allow, want) ==
  LET v == Views(f, allow) IN
  [k \in want \cap {"ok", "snap", "back", "rt", "nsame", "bsnap", "bsame", "blazy"} |->
     CASE k = "ok" -> TRUE
       [] k = "snap" -> v
       [] k = "bsnap" -> v
       [] k = "back" -> Normal(f, allow)
       [] OTHER -> TRUE]

Expect(e) ==
  CASE e.op \in {"file", "linked"} ->
         LET f == FileOf(e) IN
         IF Defects(f, e.allow) = {} THEN Accepted(f, e.allow, Range(e.want) \cup {"ok"}) ELSE [ok |-> FALSE]
    [] e.op = "defaults" ->
         [ef |-> EditionDefaults(e.edition), bef |-> EditionDefaults(e.edition)]
    [] OTHER -> [unknown_op |-> TRUE]

AgreeWith(e, x) == \A k \in DOMAIN x : k \in DOMAIN e.out /\ e.out[k] = x[k]

\* the runtime-relevant semantics of a message type: everything wire / JSON / text behaviour can depend on (C38).
\* A proto2 / proto3 type and its editions translation must have the same semantics; names of the types
\* themselves, declaration order and the way the semantics is spelled (keywords vs features) are not part of it.
SemField(s) == [num |-> s.num, name |-> s.name, json |-> s.json, text |-> s.text, kind |-> s.kind, card |-> s.card,
                presence |-> s.presence, packed |-> s.packed, list |-> s.list, map |-> s.map, utf8 |-> s.effutf8,
                oneof |-> s.realoneof, hd |-> s.hd, def |-> s.def, msg |-> s.msgidx,
                enumclosed |-> s.enumclosed, enumnums |-> s.enumnums]
SemMsg(m) == [fields |-> Map(m.fields, SemField), xr |-> m.xr, req |-> m.req]

Agree(e) ==
  CASE e.op \in {"file", "linked"} ->
         LET f == FileOf(e)
             mode == IF "mode" \in DOMAIN e THEN e.mode ELSE "valid"
         IN IF "panic" \in DOMAIN e.out THEN FALSE
            ELSE IF e.op = "linked" /\ ~e.out.domain THEN e.out.ok    \* outside the abstract domain: only acceptance is judged
            ELSE IF Defects(f, e.allow) # {} THEN e.out.ok = FALSE
            ELSE IF mode = "mutant" THEN
                   (e.out.ok => /\ ("snap" \in DOMAIN e.out => ViewLaws(e.out.snap))
                                /\ (CanonicalDefaults(f) => AgreeWith(e, Accepted(f, e.allow, Range(e.want)))))
            ELSE /\ AgreeWith(e, Accepted(f, e.allow, Range(e.want) \cup {"ok"}))
                 /\ ("snap" \in DOMAIN e.out => ViewLaws(e.out.snap))
    [] e.op = "fuzz" -> /\ "panic" \notin DOMAIN e.out
                        /\ \A k \in {"snap1", "snap2"} : k \in DOMAIN e.out => ViewLaws(e.out[k])
    [] e.op = "pairschema" -> /\ "panic" \notin DOMAIN e.out
                              /\ Map(e.out.a, SemMsg) = Map(e.out.b, SemMsg)
    [] e.op = "pair" -> /\ "panic" \notin DOMAIN e.out /\ "panic" \notin DOMAIN e.out.a /\ "panic" \notin DOMAIN e.out.b
                        /\ e.out.a = e.out.b
    [] OTHER -> AgreeWith(e, Expect(e))
=============================================================================
