----------------------------- MODULE SchemaCases -----------------------------
(***************************************************************************)
(* What the specification demands of one harness case of module "desc"     *)
(* (shared by tours and trace validation).                                 *)
(*                                                                         *)
(*  op "file"    e.file (abstract file), e.allow, e.want (keys to decide)  *)
(*  op "linked"  a file linked into the harness; its abstract file is      *)
(*               e.out.file (the descriptor proto of the real descriptor)  *)
(*  op "xlate"   e.file (proto2 / proto3), e.xfile (its editions           *)
(*               translation), e.tgt (the input message), e.items (string  *)
(*               occurrences): lock-step runtime behaviour, SchemaXlate    *)
(*  keys: ok     NewFile's verdict = no definite defect                    *)
(*        snap   accessor snapshot = Views(file)                           *)
(*        back   ToFileDescriptorProto(NewFile(p)) = Normal(file)          *)
(*        rt     NewFile(ToFileDescriptorProto(d)) reproduces d            *)
(*        nsame  protodesc result = the descriptor generated code built    *)
(*        bsnap, bsame, blazy   filedesc.Builder on the same proto: Views, *)
(*               equal to protodesc's, independent of traversal order      *)
(*  mode (trace events only): "valid" -- a generator vouches for validity; *)
(*  "mutant" -- nobody does: a defect demands rejection, an accepted file  *)
(*  must show Views (canonical defaults) and satisfy the view laws, and a  *)
(*  rejection of a file without listed defect is not judged.               *)
(***************************************************************************)
EXTENDS SchemaXlate

Range(seq) == {seq[i] : i \in 1..Len(seq)}

FileOf(e) == IF e.op = "linked" THEN e.out.file ELSE e.file
\* the keys to decide; a linked file with unresolvable imports is not compared with the generated descriptor, which
\* resolves through Go types what no resolver can
Want(e) == Range(e.want) \ (IF e.op = "linked" /\ ~e.allow THEN {} ELSE {"nsame"})

\* filedesc.Builder is specified for descriptor protos as protoc writes them: references fully qualified, types and labels given
AbsOrEmpty(s) == s = "" \/ IsAbsolute(s)
BuilderDomain(f) ==
  /\ \A i \in 1..Len(f.msgs) : \A j \in 1..Len(f.msgs[i].fields) :
        LET x == f.msgs[i].fields[j] IN AbsOrEmpty(x.tname) /\ x.type # 0 /\ x.label # 0
  /\ \A i \in 1..Len(f.exts) : AbsOrEmpty(f.exts[i].tname) /\ AbsOrEmpty(f.exts[i].extendee) /\ f.exts[i].type # 0 /\ f.exts[i].label # 0
  /\ \A i \in 1..Len(f.svcs) : \A j \in 1..Len(f.svcs[i].methods) : AbsOrEmpty(f.svcs[i].methods[j].in) /\ AbsOrEmpty(f.svcs[i].methods[j].out)

\* expectation for an accepted file, restricted to the wanted keys
AcceptedExp(f, allow, want) ==
  LET v == Views(f, allow) IN
  [k \in want \cap ({"ok", "snap", "back", "rt", "nsame"} \cup (IF BuilderDomain(f) THEN {"bsnap", "bsame", "blazy"} ELSE {})) |->
     CASE k = "ok" -> TRUE
       [] k = "snap" -> v
       [] k = "bsnap" -> v
       [] k = "back" -> Normal(f, allow)
       [] OTHER -> TRUE]

Expect(e) ==
  CASE e.op \in {"file", "linked"} ->
         LET f == FileOf(e) IN
         IF Defects(f, e.allow) = {} THEN AcceptedExp(f, e.allow, Want(e) \cup {"ok"}) ELSE [ok |-> FALSE]
    [] e.op = "defaults" ->
         [ef |-> EditionDefaults(e.edition), bef |-> EditionDefaults(e.edition)]
    [] e.op = "xlate" -> XlateExpect(e)
    [] OTHER -> [unknown_op |-> TRUE]

AgreeWith(e, x) == \A k \in DOMAIN x : k \in DOMAIN e.out /\ e.out[k] = x[k]

\* the runtime-relevant semantics of a message type: everything wire / JSON / text behaviour can depend on (C38).
\* A proto2 / proto3 type and its editions translation must have the same semantics; names of the types
\* themselves, declaration order and the way the semantics is spelled (keywords vs features) are not part of it.
SemField(s, strict) ==
  [num |-> s.num, name |-> s.name, json |-> s.json, text |-> s.text, kind |-> s.kind, card |-> s.card,
   presence |-> s.presence, list |-> s.list, map |-> s.map, oneof |-> s.realoneof, hd |-> s.hd, def |-> s.def, msg |-> s.msgidx,
   enumclosed |-> s.enumclosed, enumnums |-> s.enumnums,
   \* the wire form of repeated scalars and UTF-8 validation of strings: part of the semantics of an exact translation only
   packed |-> strict /\ s.packed, utf8 |-> strict /\ s.kind = KString /\ s.effutf8]
SemMsg(m, strict) == [fields |-> Map(m.fields, LAMBDA s : SemField(s, strict)), xr |-> m.xr, req |-> m.req]

Agree(e) ==
  CASE e.op \in {"file", "linked"} ->
         LET f == FileOf(e)
             mode == IF "mode" \in DOMAIN e THEN e.mode ELSE "valid"
         IN IF "panic" \in DOMAIN e.out THEN FALSE
            ELSE IF e.op = "linked" /\ ~e.out.domain THEN e.out.ok    \* outside the abstract domain: only acceptance is judged
            ELSE IF Defects(f, e.allow) # {} THEN e.out.ok = FALSE
            ELSE IF mode = "mutant" THEN
                   (e.out.ok => /\ ("snap" \in DOMAIN e.out => ViewLaws(e.out.snap))
                                /\ (CanonicalDefaults(f) => AgreeWith(e, AcceptedExp(f, e.allow, Want(e)))))
            ELSE /\ AgreeWith(e, AcceptedExp(f, e.allow, Want(e) \cup {"ok"}))
                 /\ ("snap" \in DOMAIN e.out => ViewLaws(e.out.snap))
                 /\ ("bsnap" \in DOMAIN e.out => ViewLaws(e.out.bsnap))
    [] e.op = "fuzz" -> /\ "panic" \notin DOMAIN e.out
                        /\ \A k \in {"snap1", "snap2"} : k \in DOMAIN e.out => ViewLaws(e.out[k])
    [] e.op = "pairschema" -> /\ "panic" \notin DOMAIN e.out
                              /\ Map(e.out.a, LAMBDA m : SemMsg(m, e.strict)) = Map(e.out.b, LAMBDA m : SemMsg(m, e.strict))
    [] e.op = "xlate" -> /\ "panic" \notin DOMAIN e.out
                         /\ (XlatePremise(e) => XlateWellFormed(e) /\ XlateAgree(e))
    [] e.op = "pairgen" -> "panic" \notin DOMAIN e.out     \* building a message through reflection must not panic
    [] e.op = "pair" -> /\ "panic" \notin DOMAIN e.out /\ "panic" \notin DOMAIN e.out.a /\ "panic" \notin DOMAIN e.out.b
                        /\ LET a == e.out.a  b == e.out.b IN
                           IF e.strict THEN a = b /\ e.out.cross
                           \* not an exact translation (packing, UTF-8 validation differ): equal content, JSON and verdicts up to UTF-8
                           ELSE IF a.ok /\ b.ok THEN /\ e.out.cross /\ a.jsonok = b.jsonok /\ a.init = b.init
                                                     /\ (a.jsonok => a.json = b.json /\ a.jsonrt = b.jsonrt)
                                                     /\ a.textok = b.textok /\ (a.textok => a.textrt = b.textrt)
                           ELSE IF a.ok # b.ok THEN (IF a.ok THEN b.utf8err ELSE a.utf8err)
                           ELSE TRUE
    [] OTHER -> AgreeWith(e, Expect(e))
=============================================================================
