----------------------------- MODULE Trace_Schema -----------------------------
(***************************************************************************)
(* Trace validation for the descriptor family (C34-C38): every event       *)
(* recorded from the real code (linked files, seeded random schemas,       *)
(* mutated schemas, fuzzed protos, proto2/proto3-vs-editions pairs) must   *)
(* satisfy SchemaCases!Agree.  One TLC step per event; rejected line       *)
(* numbers are collected so that the rest of the trace is still checked.   *)
(***************************************************************************)
EXTENDS SchemaCases, Json, IOUtils

CONSTANTS Tier
Trace == ndJsonDeserialize(IOEnv.TRACE)

VARIABLES l, bad
Init == l = 1 /\ bad = <<>>
Next == /\ l <= Len(Trace)
        /\ bad' = IF Agree(Trace[l]) THEN bad ELSE Append(bad, l)
        /\ l' = l + 1
        /\ TLCSet(1, <<l + 1, bad'>>)
Accepted2 == LET r == TLCGet(1) IN
            /\ PrintT("TRACE-RESULT " \o ToJson([done |-> r[1] - 1, total |-> Len(Trace), bad |-> r[2]]))
            /\ r[1] = Len(Trace) + 1
=============================================================================
