----------------------------- MODULE SchemaSpace -----------------------------
(***************************************************************************)
(* The schema space of protobuf descriptors (C34-C38).                     *)
(*                                                                         *)
(* An *abstract file* f is a flat rendering of a FileDescriptorProto:      *)
(*   f.path, f.pkg, f.syntax ("proto2" | "proto3" | "editions"),           *)
(*   f.edition, f.feat (explicit file-level features), f.dep, f.legacy,    *)
(*   f.deps    <<[path, public, missing]>>          imports                *)
(*   f.optdeps <<path>>                              option imports        *)
(*   f.imps    environment: declarations of other files that names in f    *)
(*             can denote ([full, k, file, vis, closed, vals, xr, mset,    *)
(*             mapent]); supplied by the resolver, not by the file         *)
(*   f.msgs    messages in depth-first pre-order, each with parent (0 =    *)
(*             file, k = message k < own index), feat, mapentry, mset,     *)
(*             fields, oneofs, rr/rn (reserved ranges/names), xr           *)
(*   f.enums   enums grouped by parent (file first), f.exts likewise,      *)
(*   f.svcs    services with methods.                                      *)
(* Type references (tname, extendee, in, out) are kept *as written*; the   *)
(* specification defines how they resolve (ResolveRef: innermost scope     *)
(* first, local declarations before imported ones, only imported files).   *)
(*                                                                         *)
(* Views(f, allow) is what every protoreflect accessor of the descriptor   *)
(* built from f must return (the harness' Snapshot, key by key): names by  *)
(* parent-join, indices, first-wins keyed lookups, kinds, cardinalities,   *)
(* presence / packedness / closedness / UTF-8 / delimited encoding from    *)
(* the resolved edition features, defaults, JSON and text names, oneof and *)
(* map links, ranges with membership probes, required numbers, options.    *)
(***************************************************************************)
EXTENDS SchemaNames, FeatureResolve, FiniteSets, TLC

MinOf(S) == CHOOSE x \in S : \A y \in S : x <= y
\* 0-based index of the first element of seq equal to v, -1 if none
FirstIdx(seq, v) == LET S == {i \in 1..Len(seq) : seq[i] = v} IN IF S = {} THEN -1 ELSE MinOf(S) - 1
\* TLCEval: build the sequence once instead of re-evaluating the element expression at every access
Map(seq, Op(_)) == TLCEval([i \in 1..Len(seq) |-> Op(seq[i])])
RECURSIVE Flatten(_)
Flatten(ss) == IF ss = <<>> THEN <<>> ELSE Head(ss) \o Flatten(Tail(ss))

MaxInt == 2147483647
Dec1(x) == IF x <= -MaxInt THEN -MaxInt ELSE x - 1
Inc1(x) == IF x >= MaxInt THEN MaxInt ELSE x + 1
Clamp(x) == IF x > MaxInt THEN MaxInt ELSE IF x < -MaxInt THEN -MaxInt ELSE x
ProbePoints(lo, hi) == <<Dec1(lo), Clamp(lo), Inc1(lo), Dec1(hi), Clamp(hi), Inc1(hi)>>

KMessage == 11
KGroup == 10
KEnum == 14
KString == 9
KBytes == 12
ValidKinds == 1..18
Unpackable == {KString, KBytes, KMessage, KGroup}

FileEF(f) == Merge(EditionDefaults(EditionOf(f.syntax, f.edition)), f.feat)

\* ---------------------------------------------------------------- context: full names, resolved features, positions
RECURSIVE MsgCtxUpTo(_, _, _)
MsgCtxUpTo(f, fef, n) ==
  IF n = 0 THEN <<>>
  ELSE LET prev == MsgCtxUpTo(f, fef, n - 1)
           m == f.msgs[n]
           top == m.parent = 0
       IN Append(prev, [full  |-> Join(IF top THEN f.pkg ELSE prev[m.parent].full, m.name),
                        ef    |-> Merge(IF top THEN fef ELSE prev[m.parent].ef, m.feat),
                        depth |-> IF top THEN 1 ELSE prev[m.parent].depth + 1,
                        pos   |-> Cardinality({k \in 1..(n - 1) : f.msgs[k].parent = m.parent})])

ScopeFull(f, mc, parent) == IF parent = 0 THEN f.pkg ELSE mc[parent].full
ScopeEF(fef, mc, parent) == IF parent = 0 THEN fef ELSE mc[parent].ef
ScopeDepth(mc, parent) == IF parent = 0 THEN 0 ELSE mc[parent].depth

EnumCtx(f, fef, mc) ==
  TLCEval([i \in 1..Len(f.enums) |->
     LET e == f.enums[i] IN
     [full |-> Join(ScopeFull(f, mc, e.parent), e.name),
      ef   |-> Merge(ScopeEF(fef, mc, e.parent), e.feat),
      pos  |-> Cardinality({k \in 1..(i - 1) : f.enums[k].parent = e.parent})]])

\* full names of every other local declaration (fields, oneofs, enum values, extensions, services, methods)
OtherNames(f, mc, ec) ==
  UNION {{Join(mc[i].full, f.msgs[i].fields[j].name) : j \in 1..Len(f.msgs[i].fields)} : i \in 1..Len(f.msgs)}
  \cup UNION {{Join(mc[i].full, f.msgs[i].oneofs[j].name) : j \in 1..Len(f.msgs[i].oneofs)} : i \in 1..Len(f.msgs)}
  \cup UNION {{Join(ScopeFull(f, mc, f.enums[i].parent), f.enums[i].vals[j].name) : j \in 1..Len(f.enums[i].vals)} : i \in 1..Len(f.enums)}
  \cup {Join(ScopeFull(f, mc, f.exts[i].parent), f.exts[i].name) : i \in 1..Len(f.exts)}
  \cup {Join(f.pkg, f.svcs[i].name) : i \in 1..Len(f.svcs)}
  \cup UNION {{Join(Join(f.pkg, f.svcs[i].name), f.svcs[i].methods[j].name) : j \in 1..Len(f.svcs[i].methods)} : i \in 1..Len(f.svcs)}

Ctx(f, allow) ==
  LET fef == FileEF(f)
      mc == MsgCtxUpTo(f, fef, Len(f.msgs))
      ec == EnumCtx(f, fef, mc)
  IN [fef |-> fef, mc |-> mc, ec |-> ec, others |-> TLCEval(OtherNames(f, mc, ec)), allow |-> allow]

\* ---------------------------------------------------------------- name resolution (reflect/protodesc/desc_resolve.go)
NoHit == [k |-> "", loc |-> FALSE, i |-> 0, vis |-> FALSE]
Lookup(ctx, f, name) ==
  LET ms == {i \in 1..Len(ctx.mc) : ctx.mc[i].full = name} IN
  IF ms # {} THEN [k |-> "m", loc |-> TRUE, i |-> MinOf(ms), vis |-> TRUE]
  ELSE LET es == {i \in 1..Len(ctx.ec) : ctx.ec[i].full = name} IN
  IF es # {} THEN [k |-> "e", loc |-> TRUE, i |-> MinOf(es), vis |-> TRUE]
  ELSE IF name \in ctx.others THEN [k |-> "o", loc |-> TRUE, i |-> 0, vis |-> TRUE]
  ELSE LET rs == {i \in 1..Len(f.imps) : f.imps[i].full = name} IN
  IF rs # {} THEN [k |-> f.imps[MinOf(rs)].k, loc |-> FALSE, i |-> MinOf(rs), vis |-> f.imps[MinOf(rs)].vis]
  ELSE NoHit

Unresolved(st) == [st |-> st, k |-> "", loc |-> FALSE, i |-> 0, full |-> ""]
\* search scope, then its parents; a declaration of a file that is not imported is skipped but remembered
RECURSIVE ResolveIn(_, _, _, _, _)
ResolveIn(ctx, f, scope, ref, hidden) ==
  LET name == Join(scope, ref)
      r == Lookup(ctx, f, name)
  IN IF r.k # "" /\ r.vis THEN [st |-> "ok", k |-> r.k, loc |-> r.loc, i |-> r.i, full |-> name]
     ELSE LET h == hidden \/ r.k # "" IN
          IF scope = "" THEN Unresolved(IF h THEN "notimported" ELSE "notfound")
          ELSE ResolveIn(ctx, f, ParentName(scope), ref, h)
ResolveRef(ctx, f, scope, ref) ==
  IF ~IsRef(ref) THEN Unresolved("badname")
  ELSE IF IsAbsolute(ref) THEN ResolveIn(ctx, f, "", StripDot(ref), FALSE)
  ELSE ResolveIn(ctx, f, scope, ref, FALSE)

\* the full name a placeholder gets (relative references keep an invalid "*." prefix)
PlaceholderName(ref) == IF IsAbsolute(ref) THEN StripDot(ref) ELSE "*." \o ref

\* findMessageDescriptor / findEnumDescriptor: [st, full, ph, r]
FindKind(ctx, f, scope, ref, want) ==
  LET r == ResolveRef(ctx, f, scope, ref) IN
  IF r.st = "notfound" /\ ctx.allow THEN [st |-> "ok", full |-> PlaceholderName(ref), ph |-> TRUE, r |-> r]
  ELSE IF r.st # "ok" THEN [st |-> r.st, full |-> "", ph |-> FALSE, r |-> r]
  ELSE IF r.k # want THEN [st |-> "wrongkind", full |-> "", ph |-> FALSE, r |-> r]
  ELSE [st |-> "ok", full |-> r.full, ph |-> FALSE, r |-> r]

\* findTarget: resolves the type of a field whose declared kind is k (0 = not given)
NoTarget(st, k) == [st |-> st, kind |-> k, enum |-> "", enumph |-> FALSE, msg |-> "", msgph |-> FALSE, r |-> Unresolved("")]
Target(ctx, f, scope, k, ref) ==
  IF k = KEnum THEN
    LET t == FindKind(ctx, f, scope, ref, "e") IN
    [st |-> t.st, kind |-> k, enum |-> t.full, enumph |-> t.ph, msg |-> "", msgph |-> FALSE, r |-> t.r]
  ELSE IF k \in {KMessage, KGroup} THEN
    LET t == FindKind(ctx, f, scope, ref, "m") IN
    [st |-> t.st, kind |-> k, enum |-> "", enumph |-> FALSE, msg |-> t.full, msgph |-> t.ph, r |-> t.r]
  ELSE IF k = 0 THEN
    LET r == ResolveRef(ctx, f, scope, ref) IN
    IF r.st = "notfound" /\ ctx.allow
      THEN [st |-> "ok", kind |-> 0, enum |-> PlaceholderName(ref), enumph |-> TRUE, msg |-> PlaceholderName(ref), msgph |-> TRUE, r |-> r]
    ELSE IF r.st # "ok" THEN NoTarget(r.st, 0)
    ELSE IF r.k = "e" THEN [st |-> "ok", kind |-> KEnum, enum |-> r.full, enumph |-> FALSE, msg |-> "", msgph |-> FALSE, r |-> r]
    ELSE IF r.k = "m" THEN [st |-> "ok", kind |-> KMessage, enum |-> "", enumph |-> FALSE, msg |-> r.full, msgph |-> FALSE, r |-> r]
    ELSE NoTarget("wrongkind", 0)
  ELSE IF ref # "" THEN NoTarget("strayname", k)
  ELSE IF k \notin ValidKinds THEN NoTarget("badkind", k)
  ELSE NoTarget("ok", k)

\* properties of a resolved message / enum target
TargetIsMapEntry(f, t) == /\ t.msg # "" /\ ~t.msgph
                          /\ IF t.r.loc THEN f.msgs[t.r.i].mapentry ELSE f.imps[t.r.i].mapent
EnumVals(f, t) == IF t.enum = "" \/ t.enumph THEN <<>> ELSE IF t.r.loc THEN f.enums[t.r.i].vals ELSE f.imps[t.r.i].vals
EnumClosed(ctx, f, t) == IF t.enum = "" \/ t.enumph THEN FALSE
                         ELSE IF t.r.loc THEN ~ctx.ec[t.r.i].ef.open ELSE f.imps[t.r.i].closed

\* ---------------------------------------------------------------- one field (or extension), resolved
\* scope: full name of the declaring message (field) or of the declaration scope (extension)
FieldCore(ctx, f, scope, pef, inMapEntry, x, isExt) ==
  LET ef0 == Merge(pef, x.feat)
      ef == IF x.packed = "" THEN ef0 ELSE [ef0 EXCEPT !.packed = (x.packed = "t")]
      \* the kind as declared, or -- `type` omitted (0) -- the kind of the declaration that type_name denotes
      t == Target(ctx, f, scope, x.type, x.tname)
      \* message_encoding = DELIMITED makes every message-kind field a group, however the kind was arrived at
      \* (the resolved feature decides, not the spelling of the descriptor proto)
      kd == IF t.kind = KMessage /\ ef.delim THEN KGroup ELSE t.kind
      ismapentry == TargetIsMapEntry(f, t)
      \* maps never use delimited encoding
      k1 == IF ~isExt /\ kd = KGroup /\ (ismapentry \/ inMapEntry) THEN KMessage ELSE kd
      \* an absent label reads as LABEL_OPTIONAL (the proto2 default of the descriptor field)
      card == IF ~isExt /\ ef.lr THEN 2 ELSE IF x.label = 0 THEN 1 ELSE x.label
  IN [ef |-> ef, t |-> t, kind |-> k1, card |-> card, ismap |-> ~isExt /\ ismapentry]

\* proto2 groups and their editions translation: text format uses the message name
GroupLike(x, c, isExt, scope) ==
  /\ c.kind = KGroup
  /\ c.t.msg # "" /\ ~c.t.msgph /\ c.t.r.loc
  /\ Lower(LastName(c.t.msg)) = x.name
  /\ ParentName(c.t.msg) = scope

ZeroDefault(f, c) ==
  IF c.card = 3 \/ c.kind \in {KMessage, KGroup, 0} THEN [valid |-> FALSE, s |-> ""]
  ELSE IF c.kind = 8 THEN [valid |-> TRUE, s |-> "false"]
  ELSE IF c.kind \in {KString, KBytes} THEN [valid |-> TRUE, s |-> ""]
  ELSE IF c.kind = KEnum THEN
    LET vs == EnumVals(f, c.t) IN [valid |-> TRUE, s |-> IF Len(vs) = 0 THEN "0" ELSE ToString(vs[1].num)]
  ELSE [valid |-> TRUE, s |-> "0"]

\* value of the enum default named s: the first value with that name
EnumDefault(f, c, s) ==
  LET vs == EnumVals(f, c.t)
      S == {i \in 1..Len(vs) : vs[i].name = s}
  IN IF S # {} THEN [found |-> TRUE, num |-> vs[MinOf(S)].num]
     ELSE [found |-> FALSE, num |-> IF Len(vs) = 0 THEN 0 ELSE vs[1].num]

\* a field of unknown kind (`type` omitted, type_name unresolvable but tolerated): a default that is an identifier can only
\* be the name of a value of the (placeholder) enum
UnknownEnumKind(c) == c.kind = 0 /\ c.t.enumph
ExplicitDefault(f, c, x) ==
  IF c.kind = KEnum \/ UnknownEnumKind(c) THEN [valid |-> TRUE, s |-> ToString(EnumDefault(f, c, x.def).num)]
  ELSE [valid |-> TRUE, s |-> x.def]

OptView(x, kind) ==
  [packed |-> IF kind = "field" THEN x.packed ELSE "", lazy |-> IF kind = "field" THEN x.lazy ELSE FALSE, dep |-> x.dep,
   mapentry |-> IF kind = "msg" THEN x.mapentry ELSE FALSE, mset |-> IF kind = "msg" THEN x.mset ELSE FALSE,
   alias |-> IF kind = "enum" THEN x.alias ELSE FALSE, feat |-> IF kind = "val" THEN NoFS ELSE x.feat]

\* keyed lookups over one field list: first element having the key among its keys
FieldKeys(names, jsons, texts, nums, glike) ==
  [names |-> names, jsons |-> jsons, texts |-> texts, nums |-> nums, glike |-> glike]
\* The key of a field is its exact JSON / text name: the lookup returns the FIRST field with that key.  The lower-cased
\* name of a group-like field is a compatibility alias, not a key: it answers only when no field at all has that exact
\* name (it must never shadow a field's own name, wherever that field is declared).
FirstKeyed(keys, glike, s) ==
  LET E == {i \in 1..Len(keys) : keys[i] = s}
      A == {i \in 1..Len(keys) : glike[i] /\ Lower(keys[i]) = s}
  IN IF E # {} THEN MinOf(E) - 1 ELSE IF A # {} THEN MinOf(A) - 1 ELSE -1
FirstWithJSON(K, s) == FirstKeyed(K.jsons, K.glike, s)
FirstWithText(K, s) == FirstKeyed(K.texts, K.glike, s)

FieldView(ctx, f, scope, sdepth, x, c, isExt, j, K, oneofs) ==
  LET glike == GroupLike(x, c, isExt, scope)
      full == Join(scope, x.name)
      isMsetExt == /\ isExt /\ x.name = "message_set_extension" /\ c.t.msg # ""
                   /\ ParentName(full) = c.t.msg
      extendee == IF isExt THEN FindKind(ctx, f, scope, x.extendee, "m") ELSE [st |-> "ok", full |-> scope, ph |-> FALSE, r |-> Unresolved("")]
      msetExt == isMsetExt /\ ~extendee.ph /\ (IF extendee.r.loc THEN f.msgs[extendee.r.i].mset ELSE f.imps[extendee.r.i].mset)
      json == IF isExt THEN (IF msetExt THEN "[" \o ParentName(full) \o "]" ELSE "[" \o full \o "]")
              ELSE IF x.hj THEN x.json ELSE JSONCamel(x.name)
      text == IF isExt THEN json ELSE IF glike THEN LastName(c.t.msg) ELSE x.name
      hasmsg == c.t.msg # ""
      presence == c.card # 3 /\ (isExt \/ c.ef.fp \/ hasmsg \/ x.oneof # 0)
      optkw == (f.syntax = "proto2" /\ c.card = 1 /\ (isExt \/ x.oneof = 0)) \/ x.p3opt
      packed == c.card = 3 /\ c.kind \notin Unpackable /\ c.ef.packed
      def == IF x.hd THEN ExplicitDefault(f, c, x) ELSE ZeroDefault(f, c)
      entry == IF c.ismap THEN f.msgs[c.t.r.i] ELSE [fields |-> <<>>]
      entryNums == Map(entry.fields, LAMBDA y : y.num)
      key == FirstIdx(entryNums, 1)
      val == FirstIdx(entryNums, 2)
  IN [name |-> x.name, full |-> full, pos |-> j - 1, idx |-> j - 1,
      byname |-> IF isExt THEN K.byname ELSE FirstIdx(K.names, x.name),
      parent |-> scope, depth |-> sdepth + 1, root |-> TRUE, syntax |-> f.syntax, ph |-> FALSE, opts |-> "=",
      bynum |-> IF isExt THEN -1 ELSE FirstIdx(K.nums, x.num),
      byjson |-> IF isExt THEN -1 ELSE FirstWithJSON(K, json),
      bytext |-> IF isExt THEN -1 ELSE FirstWithText(K, text),
      byjsonlo |-> IF isExt THEN -1 ELSE FirstWithJSON(K, Lower(json)),
      bytextlo |-> IF isExt THEN -1 ELSE FirstWithText(K, Lower(text)),
      num |-> x.num, card |-> c.card, kind |-> c.kind, hj |-> x.hj, json |-> json, text |-> text,
      presence |-> presence, optkw |-> optkw, packed |-> packed,
      list |-> c.card = 3 /\ ~c.ismap, map |-> c.ismap, ext |-> isExt, weak |-> FALSE, lazy |-> x.lazy,
      mapkey |-> IF c.ismap /\ key >= 0 THEN Join(c.t.msg, entry.fields[key + 1].name) ELSE "",
      mapval |-> IF c.ismap /\ val >= 0 THEN Join(c.t.msg, entry.fields[val + 1].name) ELSE "",
      hd |-> x.hd, defvalid |-> def.valid, def |-> def.s,
      defenum |-> IF x.hd /\ (c.kind = KEnum \/ UnknownEnumKind(c)) THEN x.def ELSE "",
      oneof |-> IF isExt THEN 0 ELSE x.oneof,
      oneofn |-> IF isExt \/ x.oneof = 0 THEN "" ELSE Join(scope, oneofs[x.oneof].name),
      cmsg |-> extendee.full, cmsgph |-> extendee.ph,
      enum |-> c.t.enum, enumph |-> c.t.enumph, msg |-> c.t.msg, msgph |-> c.t.msgph,
      utf8 |-> c.ef.utf8, ef |-> c.ef, o |-> OptView(x, "field")]

RangeProbes(rs, incl) ==
  Flatten([k \in 1..Len(rs) |->
     Map(ProbePoints(rs[k][1], rs[k][2]),
         LAMBDA n : [n |-> n, has |-> \E q \in 1..Len(rs) : rs[q][1] <= n /\ (IF incl THEN n <= rs[q][2] ELSE n < rs[q][2])])])
NameProbes(rn, names) ==
  Map(rn \o names, LAMBDA s : [s |-> s, has |-> \E q \in 1..Len(rn) : rn[q] = s])

MsgView(ctx, f, i) ==
  LET m == f.msgs[i]
      mc == ctx.mc[i]
      n == Len(m.fields)
      cores == TLCEval([j \in 1..n |-> FieldCore(ctx, f, mc.full, mc.ef, m.mapentry, m.fields[j], FALSE)])
      glikes == TLCEval([j \in 1..n |-> GroupLike(m.fields[j], cores[j], FALSE, mc.full)])
      names == TLCEval([j \in 1..n |-> m.fields[j].name])
      jsons == TLCEval([j \in 1..n |-> IF m.fields[j].hj THEN m.fields[j].json ELSE JSONCamel(m.fields[j].name)])
      texts == TLCEval([j \in 1..n |-> IF glikes[j] THEN LastName(cores[j].t.msg) ELSE m.fields[j].name])
      nums == TLCEval([j \in 1..n |-> m.fields[j].num])
      K == FieldKeys(names, jsons, texts, nums, glikes)
      onames == Map(m.oneofs, LAMBDA o : o.name)
      sibNames == [k \in 1..Len(f.msgs) |-> IF f.msgs[k].parent = m.parent THEN f.msgs[k].name ELSE ""]
      sibs == {k \in 1..Len(f.msgs) : f.msgs[k].parent = m.parent}
      firstSib == MinOf({k \in sibs : f.msgs[k].name = m.name})
      req == {j \in 1..n : cores[j].card = 2}
  IN [name |-> m.name, full |-> mc.full, pos |-> mc.pos, idx |-> mc.pos, byname |-> ctx.mc[firstSib].pos,
      parent |-> ScopeFull(f, ctx.mc, m.parent), depth |-> mc.depth, root |-> TRUE, syntax |-> f.syntax, ph |-> FALSE, opts |-> "=",
      mapentry |-> m.mapentry, mset |-> m.mset, vis |-> m.vis,
      fields |-> [j \in 1..n |-> FieldView(ctx, f, mc.full, mc.depth, m.fields[j], cores[j], FALSE, j, K, m.oneofs)],
      oneofs |-> [k \in 1..Len(m.oneofs) |->
                    LET mem == {j \in 1..n : m.fields[j].oneof = k}
                        memSeq == SelectSeq([j \in 1..n |-> j], LAMBDA j : j \in mem)
                    IN [name |-> m.oneofs[k].name, full |-> Join(mc.full, m.oneofs[k].name), pos |-> k - 1, idx |-> k - 1,
                        byname |-> FirstIdx(onames, m.oneofs[k].name),
                        parent |-> mc.full, depth |-> mc.depth + 1, root |-> TRUE, syntax |-> f.syntax, ph |-> FALSE, opts |-> "=",
                        synth |-> f.syntax = "proto3" /\ Cardinality(mem) = 1 /\ (\A j \in mem : m.fields[j].p3opt),
                        members |-> Map(memSeq, LAMBDA j : j - 1),
                        \* first-wins: a member is what the keyed lookups of the oneof return iff no earlier member shares a key
                        keyed |-> Map(memSeq, LAMBDA j : IF \A q \in mem : q < j => (names[q] # names[j] /\ nums[q] # nums[j]
                                                                                      /\ jsons[q] # jsons[j] /\ texts[q] # texts[j])
                                                         THEN 1 ELSE 0),
                        feat |-> NoFS]],
      req |-> Map(SelectSeq([j \in 1..n |-> j], LAMBDA j : j \in req), LAMBDA j : m.fields[j].num),
      reqp |-> [j \in 1..n |-> [n |-> m.fields[j].num, has |-> \E q \in req : m.fields[q].num = m.fields[j].num]],
      rr |-> m.rr, rrp |-> RangeProbes(m.rr, FALSE),
      rn |-> m.rn, rnp |-> NameProbes(m.rn, names),
      xr |-> m.xr, xrp |-> RangeProbes(m.xr, FALSE), xropts |-> Map(m.xr, LAMBDA r : "="),
      nmsgs |-> Cardinality({k \in 1..Len(f.msgs) : f.msgs[k].parent = i}),
      nenums |-> Cardinality({k \in 1..Len(f.enums) : f.enums[k].parent = i}),
      nexts |-> Cardinality({k \in 1..Len(f.exts) : f.exts[k].parent = i}),
      miss |-> TRUE, ef |-> mc.ef, o |-> OptView(m, "msg")]

EnumView(ctx, f, i) ==
  LET e == f.enums[i]
      ec == ctx.ec[i]
      scope == ScopeFull(f, ctx.mc, e.parent)
      sdepth == ScopeDepth(ctx.mc, e.parent)
      vnames == Map(e.vals, LAMBDA v : v.name)
      vnums == Map(e.vals, LAMBDA v : v.num)
      firstSib == MinOf({k \in 1..Len(f.enums) : f.enums[k].parent = e.parent /\ f.enums[k].name = e.name})
  IN [name |-> e.name, full |-> ec.full, pos |-> ec.pos, idx |-> ec.pos, byname |-> ctx.ec[firstSib].pos,
      parent |-> scope, depth |-> sdepth + 1, root |-> TRUE, syntax |-> f.syntax, ph |-> FALSE, opts |-> "=",
      closed |-> ~ec.ef.open, vis |-> e.vis,
      vals |-> [j \in 1..Len(e.vals) |->
                  [name |-> e.vals[j].name, full |-> Join(scope, e.vals[j].name), pos |-> j - 1, idx |-> j - 1,
                   byname |-> FirstIdx(vnames, e.vals[j].name), parent |-> ec.full, depth |-> sdepth + 2, root |-> TRUE,
                   syntax |-> f.syntax, ph |-> FALSE, opts |-> "=",
                   bynum |-> FirstIdx(vnums, e.vals[j].num), num |-> e.vals[j].num, dep |-> e.vals[j].dep]],
      rr |-> e.rr, rrp |-> RangeProbes(e.rr, TRUE),
      rn |-> e.rn, rnp |-> NameProbes(e.rn, vnames),
      miss |-> TRUE, ef |-> ec.ef, o |-> OptView(e, "enum")]

ExtView(ctx, f, i) ==
  LET x == f.exts[i]
      scope == ScopeFull(f, ctx.mc, x.parent)
      c == FieldCore(ctx, f, scope, ScopeEF(ctx.fef, ctx.mc, x.parent), FALSE, x, TRUE)
      pos == Cardinality({k \in 1..(i - 1) : f.exts[k].parent = x.parent})
      firstSib == MinOf({k \in 1..Len(f.exts) : f.exts[k].parent = x.parent /\ f.exts[k].name = x.name})
      firstPos == Cardinality({k \in 1..(firstSib - 1) : f.exts[k].parent = x.parent})
      v == FieldView(ctx, f, scope, ScopeDepth(ctx.mc, x.parent), x, c, TRUE, pos + 1, [byname |-> firstPos], <<>>)
  IN v

SvcView(ctx, f, i) ==
  LET s == f.svcs[i]
      full == Join(f.pkg, s.name)
      snames == Map(f.svcs, LAMBDA y : y.name)
      mnames == Map(s.methods, LAMBDA y : y.name)
  IN [name |-> s.name, full |-> full, pos |-> i - 1, idx |-> i - 1, byname |-> FirstIdx(snames, s.name),
      parent |-> f.pkg, depth |-> 1, root |-> TRUE, syntax |-> f.syntax, ph |-> FALSE, opts |-> "=", dep |-> s.dep,
      methods |-> [j \in 1..Len(s.methods) |->
                     LET y == s.methods[j]
                         tin == FindKind(ctx, f, full, y.in, "m")
                         tout == FindKind(ctx, f, full, y.out, "m")
                     IN [name |-> y.name, full |-> Join(full, y.name), pos |-> j - 1, idx |-> j - 1, byname |-> FirstIdx(mnames, y.name),
                         parent |-> full, depth |-> 2, root |-> TRUE, syntax |-> f.syntax, ph |-> FALSE, opts |-> "=",
                         in |-> tin.full, inph |-> tin.ph, out |-> tout.full, outph |-> tout.ph, cs |-> y.cs, ss |-> y.ss, dep |-> y.dep]],
      miss |-> TRUE]

FileOptView(f) == [packed |-> "", lazy |-> FALSE, dep |-> f.dep, mapentry |-> FALSE, mset |-> FALSE, alias |-> FALSE, feat |-> f.feat]

ViewsWith(ctx, f) ==
  [path |-> f.path, pkg |-> f.pkg, name |-> LastName(f.pkg), syntax |-> f.syntax,
   edition |-> IF f.syntax = "editions" THEN f.edition ELSE 0,
   root |-> TRUE, opts |-> "=", ef |-> ctx.fef, o |-> FileOptView(f),
   deps |-> Map(f.deps, LAMBDA d : [path |-> d.path, public |-> d.public, ph |-> d.missing]),
   optdeps |-> f.optdeps,
   nmsgs |-> Cardinality({k \in 1..Len(f.msgs) : f.msgs[k].parent = 0}),
   nenums |-> Cardinality({k \in 1..Len(f.enums) : f.enums[k].parent = 0}),
   nexts |-> Cardinality({k \in 1..Len(f.exts) : f.exts[k].parent = 0}),
   nsvcs |-> Len(f.svcs), miss |-> TRUE,
   msgs |-> [i \in 1..Len(f.msgs) |-> MsgView(ctx, f, i)],
   enums |-> [i \in 1..Len(f.enums) |-> EnumView(ctx, f, i)],
   exts |-> [i \in 1..Len(f.exts) |-> ExtView(ctx, f, i)],
   svcs |-> [i \in 1..Len(f.svcs) |-> SvcView(ctx, f, i)]]

Views(f, allow) == ViewsWith(Ctx(f, allow), f)

\* ---------------------------------------------------------------- the proto that ToFileDescriptorProto gives back (C34)
\* Documented normalisation: references become absolute (placeholders of relative references stay relative), an
\* omitted type is filled in from the resolved target, extension JSON names are the camel-cased field names;
\* everything else is preserved.
AbsRef(t, full, ph, ref) == IF full = "" THEN ref ELSE IF ph /\ ~IsAbsolute(ref) THEN ref ELSE "." \o full
NormalField(ctx, f, scope, pef, inMapEntry, x, isExt) ==
  LET c == FieldCore(ctx, f, scope, pef, inMapEntry, x, isExt)
      tfull == IF c.t.msg # "" THEN c.t.msg ELSE c.t.enum
      tph == c.t.msgph \/ c.t.enumph
      ee == FindKind(ctx, f, scope, x.extendee, "m")
      k == IF x.type = 0 THEN c.t.kind ELSE x.type
  IN [x EXCEPT !.tname = IF x.tname = "" THEN "" ELSE AbsRef(c.t, tfull, tph, x.tname),
               !.type = k,
               !.label = IF x.label = 0 THEN 1 ELSE x.label,
               !.json = IF isExt /\ x.hj THEN JSONCamel(x.name) ELSE x.json,
               !.extendee = IF isExt THEN AbsRef(ee, ee.full, ee.ph, x.extendee) ELSE x.extendee]
NormalWith(ctx, f) ==
  [f EXCEPT
     !.msgs = [i \in 1..Len(f.msgs) |->
                 [f.msgs[i] EXCEPT !.fields = [j \in 1..Len(f.msgs[i].fields) |->
                     NormalField(ctx, f, ctx.mc[i].full, ctx.mc[i].ef, f.msgs[i].mapentry, f.msgs[i].fields[j], FALSE)]]],
     !.exts = [i \in 1..Len(f.exts) |->
                 NormalField(ctx, f, ScopeFull(f, ctx.mc, f.exts[i].parent), ScopeEF(ctx.fef, ctx.mc, f.exts[i].parent), FALSE, f.exts[i], TRUE)],
     !.svcs = [i \in 1..Len(f.svcs) |->
                 [f.svcs[i] EXCEPT !.methods = [j \in 1..Len(f.svcs[i].methods) |->
                     LET y == f.svcs[i].methods[j]
                         full == Join(f.pkg, f.svcs[i].name)
                         tin == FindKind(ctx, f, full, y.in, "m")
                         tout == FindKind(ctx, f, full, y.out, "m")
                     IN [y EXCEPT !.in = AbsRef(tin, tin.full, tin.ph, y.in), !.out = AbsRef(tout, tout.full, tout.ph, y.out)]]]]]
Normal(f, allow) == NormalWith(Ctx(f, allow), f)
=============================================================================
