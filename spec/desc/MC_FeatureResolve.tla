--------------------------- MODULE MC_FeatureResolve ---------------------------
(***************************************************************************)
(* Exhaustive placement of feature overrides (C38).  A fixed editions      *)
(* skeleton (a message with scalar, string, repeated, message, enum and    *)
(* map fields, a nested message with a nested enum, a top-level enum, a    *)
(* oneof, two extensions) receives up to MaxOverrides explicit settings,   *)
(* each any (feature, value) at any placement: file, message, nested       *)
(* message, every field, both enums, both extensions.                      *)
(* Laws checked by TLC:                                                    *)
(*   TwoDefinitionsAgree  for the chain of every declaration,              *)
(*                        ResolveFold = ResolveNearest                     *)
(*   ViewsUseResolve      the features Views reports for a declaration are *)
(*                        ResolveNearest of its file-message-...-self      *)
(*                        chain (packed: overridden by an explicit option) *)
(*   Semantics            presence / closedness / packedness / delimited   *)
(*                        kind in Views follow from the resolved features  *)
(* Both skeletons also start in their *untyped* form (`type` omitted on    *)
(* every message / enum field and extension, the kind inferred from        *)
(* type_name) and then receive every message_encoding setting at every     *)
(* placement: the delimited kind must not depend on how the kind is spelt. *)
(* Every reachable valid file is emitted; the replay compares the resolved *)
(* features and derived accessors of protodesc.NewFile and filedesc.Builder*)
(* with Views.                                                             *)
(***************************************************************************)
EXTENDS SchemaBuild, SchemaCases, Json

CONSTANTS MaxOverrides, Edition, Skel     \* Skel: "small" | "full"

F(name, num, label, type, tname) == NewField(name, num, label, type, tname)
FullSkeleton ==
  [EmptyFile("editions", Edition, NoFS) EXCEPT
     !.msgs = <<[NewMsg("M1", 0) EXCEPT
                   !.fields = <<F("f1", 1, 1, 5, ""), F("f2", 2, 1, 9, ""), F("f3", 3, 3, 5, ""), F("f4", 4, 1, KMessage, ".p.M1.M2"),
                                F("f5", 5, 1, KEnum, ".p.E1"), F("f6", 6, 3, KMessage, ".p.M1.F6Entry"),
                                [F("f7", 7, 1, 9, "") EXCEPT !.oneof = 1], [F("f8", 8, 1, KMessage, ".p.M1") EXCEPT !.oneof = 1]>>,
                   !.oneofs = <<[name |-> "o1"]>>,
                   !.xr = << <<1000, 2000>> >>],
                [NewMsg("M2", 1) EXCEPT !.fields = <<F("g1", 1, 3, 9, ""), F("g2", 2, 1, KEnum, ".p.M1.M2.E2")>>],
                [NewMsg("F6Entry", 1) EXCEPT !.mapentry = TRUE, !.fields = <<F("key", 1, 1, 9, ""), F("value", 2, 1, KMessage, ".p.M1.M2")>>],
                [NewMsg("M3", 0) EXCEPT !.fields = <<F("h1", 1, 1, 5, "")>>]>>,
     !.enums = <<NewEnum("E1", 0, <<Val("E1_A", 0), Val("E1_B", 1)>>), NewEnum("E2", 2, <<Val("E2_A", 0), Val("E2_B", 2)>>)>>,
     !.exts = <<[F("x1", 1000, 3, 5, "") EXCEPT !.extendee = ".p.M1"],
                [F("x2", 1001, 1, KMessage, ".p.M1.M2") EXCEPT !.extendee = ".p.M1", !.parent = 2]>>]

SmallSkeleton ==
  [EmptyFile("editions", Edition, NoFS) EXCEPT
     !.msgs = <<[NewMsg("M1", 0) EXCEPT
                   !.fields = <<F("f1", 1, 1, 9, ""), F("f3", 3, 3, 5, ""), F("f4", 4, 1, KMessage, ".p.M1.M2"),
                                [F("f7", 7, 1, 5, "") EXCEPT !.oneof = 1]>>,
                   !.oneofs = <<[name |-> "o1"]>>,
                   !.xr = << <<1000, 2000>> >>],
                [NewMsg("M2", 1) EXCEPT !.fields = <<F("g2", 2, 1, KEnum, ".p.M1.M2.E2")>>],
                [NewMsg("M3", 0) EXCEPT !.fields = <<F("h1", 1, 1, 5, "")>>]>>,
     !.enums = <<NewEnum("E2", 2, <<Val("E2_A", 0), Val("E2_B", 2)>>)>>,
     !.exts = <<[F("x1", 1000, 3, 5, "") EXCEPT !.extendee = ".p.M1"],
                [F("x2", 1001, 1, KMessage, ".p.M1.M2") EXCEPT !.extendee = ".p.M1", !.parent = 2]>>]
Skeleton == IF Skel = "small" THEN SmallSkeleton ELSE FullSkeleton
\* the same skeleton with every default inverted at an outer level, so that an override *back* to the default is visible
Inverted ==
  [Skeleton EXCEPT !.feat = [NoFS EXCEPT !.me = "DELIMITED", !.rfe = "EXPANDED", !.utf8 = "NONE", !.jf = "LEGACY_BEST_EFFORT",
                                         !.et = "CLOSED", !.ga = "API_OPEN", !.gl = "t"],
                   !.msgs[Len(Skeleton.msgs)].feat = [NoFS EXCEPT !.fp = "LEGACY_REQUIRED"]]

\* the same files as a per-file parser writes them: `type` omitted wherever type_name says what the field is
UntypedField(x) == IF x.type \in {KMessage, KEnum} THEN [x EXCEPT !.type = 0] ELSE x
Untyped(f) == [f EXCEPT !.msgs = [i \in 1..Len(f.msgs) |-> [f.msgs[i] EXCEPT !.fields = [j \in 1..Len(f.msgs[i].fields) |-> UntypedField(f.msgs[i].fields[j])]]],
                        !.exts = [i \in 1..Len(f.exts) |-> UntypedField(f.exts[i])]]
IsUntyped(f) == \E i \in 1..Len(f.msgs) : \E j \in 1..Len(f.msgs[i].fields) : f.msgs[i].fields[j].type = 0

Settings ==
  {[k |-> "fp", v |-> v] : v \in {"IMPLICIT", "EXPLICIT", "LEGACY_REQUIRED"}}
  \cup {[k |-> "et", v |-> v] : v \in {"OPEN", "CLOSED"}}
  \cup {[k |-> "rfe", v |-> v] : v \in {"PACKED", "EXPANDED"}}
  \cup {[k |-> "utf8", v |-> v] : v \in {"VERIFY", "NONE"}}
  \cup {[k |-> "me", v |-> v] : v \in {"DELIMITED", "LENGTH_PREFIXED"}}
  \cup {[k |-> "jf", v |-> v] : v \in {"ALLOW", "LEGACY_BEST_EFFORT"}}
  \cup {[k |-> "gl", v |-> v] : v \in {"t", "f"}}
  \cup {[k |-> "ga", v |-> v] : v \in {"API_OPEN", "API_HYBRID", "API_OPAQUE"}}
  \cup {[k |-> "gs", v |-> v] : v \in {"STRIP_ENUM_PREFIX_KEEP", "STRIP_ENUM_PREFIX_GENERATE_BOTH", "STRIP_ENUM_PREFIX_STRIP"}}

\* placements: where an explicit setting can go
Placements ==
  {<<"file">>} \cup {<<"msg", i>> : i \in {k \in 1..Len(Skeleton.msgs) : ~Skeleton.msgs[k].mapentry}}
  \cup UNION {{<<"field", i, j>> : j \in 1..Len(Skeleton.msgs[i].fields)} : i \in {k \in 1..Len(Skeleton.msgs) : ~Skeleton.msgs[k].mapentry}}
  \cup {<<"enum", i>> : i \in 1..Len(Skeleton.enums)} \cup {<<"ext", i>> : i \in 1..Len(Skeleton.exts)}

FeatAt(f, p) ==
  CASE p[1] = "file" -> f.feat
    [] p[1] = "msg" -> f.msgs[p[2]].feat
    [] p[1] = "field" -> f.msgs[p[2]].fields[p[3]].feat
    [] p[1] = "enum" -> f.enums[p[2]].feat
    [] p[1] = "ext" -> f.exts[p[2]].feat
SetAt(f, p, s) ==
  CASE p[1] = "file" -> [f EXCEPT !.feat[s.k] = s.v]
    [] p[1] = "msg" -> [f EXCEPT !.msgs[p[2]].feat[s.k] = s.v]
    [] p[1] = "field" -> [f EXCEPT !.msgs[p[2]].fields[p[3]].feat[s.k] = s.v]
    [] p[1] = "enum" -> [f EXCEPT !.enums[p[2]].feat[s.k] = s.v]
    [] p[1] = "ext" -> [f EXCEPT !.exts[p[2]].feat[s.k] = s.v]

VARIABLES file, n
ASSUME Valid(Skeleton, FALSE) /\ Valid(Inverted, FALSE) /\ Valid(Untyped(Skeleton), FALSE) /\ Valid(Untyped(Inverted), FALSE)
Init == file \in {Skeleton, Inverted, Untyped(Skeleton), Untyped(Inverted)} /\ n = 0
\* from the inverted skeleton the quick tier only places settings *back* to the edition default
BackToDefault == {[k |-> "fp", v |-> "EXPLICIT"], [k |-> "et", v |-> "OPEN"], [k |-> "rfe", v |-> "PACKED"], [k |-> "utf8", v |-> "VERIFY"],
                  [k |-> "me", v |-> "LENGTH_PREFIXED"], [k |-> "jf", v |-> "ALLOW"], [k |-> "gl", v |-> "f"]}
\* the untyped skeletons receive every message_encoding setting at every placement (what an omitted `type` can affect)
MessageEncodings == {[k |-> "me", v |-> "DELIMITED"], [k |-> "me", v |-> "LENGTH_PREFIXED"]}
SettingsFrom(f) == IF IsUntyped(f) THEN MessageEncodings
                   ELSE IF Tier = "quick" /\ f.feat # NoFS THEN BackToDefault ELSE Settings
Next == /\ n < MaxOverrides
        /\ \E p \in Placements, s \in SettingsFrom(file) :
              /\ FeatAt(file, p)[s.k] = ""
              /\ file' = SetAt(file, p, s)
              /\ Valid(file', FALSE)
        /\ n' = n + 1
View == file

\* ---- laws
Ed == EditionOf(file.syntax, file.edition)
RECURSIVE MsgChain(_, _)
MsgChain(f, i) == IF i = 0 THEN <<f.feat>> ELSE MsgChain(f, f.msgs[i].parent) \o <<f.msgs[i].feat>>
Chains(f) ==
  {MsgChain(f, i) : i \in 0..Len(f.msgs)}
  \cup UNION {{MsgChain(f, i) \o <<f.msgs[i].fields[j].feat>> : j \in 1..Len(f.msgs[i].fields)} : i \in 1..Len(f.msgs)}
  \cup {MsgChain(f, f.enums[i].parent) \o <<f.enums[i].feat>> : i \in 1..Len(f.enums)}
  \cup {MsgChain(f, f.exts[i].parent) \o <<f.exts[i].feat>> : i \in 1..Len(f.exts)}
TwoDefinitionsAgree == \A c \in Chains(file) : ResolveFold(Ed, c) = ResolveNearest(Ed, c)

WithPacked(ef, x) == IF x.packed = "" THEN ef ELSE [ef EXCEPT !.packed = (x.packed = "t")]
ViewsUseResolve(v) ==
  /\ v.ef = ResolveNearest(Ed, <<file.feat>>)
  /\ \A i \in 1..Len(file.msgs) :
        /\ v.msgs[i].ef = ResolveNearest(Ed, MsgChain(file, i))
        /\ \A j \in 1..Len(file.msgs[i].fields) :
              v.msgs[i].fields[j].ef = WithPacked(ResolveNearest(Ed, MsgChain(file, i) \o <<file.msgs[i].fields[j].feat>>), file.msgs[i].fields[j])
  /\ \A i \in 1..Len(file.enums) : v.enums[i].ef = ResolveNearest(Ed, MsgChain(file, file.enums[i].parent) \o <<file.enums[i].feat>>)
  /\ \A i \in 1..Len(file.exts) : v.exts[i].ef = WithPacked(ResolveNearest(Ed, MsgChain(file, file.exts[i].parent) \o <<file.exts[i].feat>>), file.exts[i])

Semantics(v) ==
  /\ \A i \in 1..Len(v.enums) : v.enums[i].closed = ~v.enums[i].ef.open
  /\ \A i \in 1..Len(v.msgs) : \A j \in 1..Len(v.msgs[i].fields) :
        LET s == v.msgs[i].fields[j] IN
        /\ s.packed = (s.card = 3 /\ s.kind \notin Unpackable /\ s.ef.packed)
        /\ s.presence = (s.card # 3 /\ (s.ef.fp \/ s.msg # "" \/ s.oneof # 0))
        /\ (s.kind = KGroup) = (s.ef.delim /\ s.msg # "" /\ ~s.map /\ ~v.msgs[i].mapentry)
        /\ (s.card = 2) = s.ef.lr
        /\ s.utf8 = s.ef.utf8
  /\ \A i \in 1..Len(v.exts) : (v.exts[i].kind = KGroup) = (v.exts[i].ef.delim /\ v.exts[i].msg # "")

Laws == LET v == TLCEval(Views(file, FALSE)) IN ViewsUseResolve(v) /\ Semantics(v)

Case == [op |-> "file", file |-> file', allow |-> FALSE, want |-> <<"snap", "bsnap", "bsame", "blazy", "rt">>, rule |-> "none"]
Emit == PrintT("@@" \o ToJson(Case @@ [exp |-> Expect(Case)]))
=============================================================================
