----------------------------- MODULE SchemaViews -----------------------------
(***************************************************************************)
(* Internal consistency of descriptor views (C36), stated on a snapshot    *)
(* alone (no abstract file needed, so the laws also judge descriptors for  *)
(* which nothing is predicted, e.g. accepted mutants):                     *)
(*   Get(i).Index() = i;  ByName / ByNumber / ByJSONName / ByTextName      *)
(*   return the first element with that key;  FullName = parent's full     *)
(*   name joined with Name;  Parent chains end at the file;  Has on        *)
(*   reserved / extension ranges and names = membership;  RequiredNumbers  *)
(*   = the required fields;  Oneof <-> ContainingOneof and MapKey /        *)
(*   MapValue links are mutual;  list sizes agree with the declarations.   *)
(* TLC checks ViewLaws(Views(f)) for every reachable abstract file (the    *)
(* specification's own Views is consistent) and ViewLaws(snapshot) for     *)
(* every recorded snapshot.                                                *)
(***************************************************************************)
EXTENDS SchemaSpace

\* elements of a flat list that are siblings of s (same parent, same depth)
Sibs(all, s) == {i \in 1..Len(all) : all[i].parent = s.parent /\ all[i].depth = s.depth}

BaseLaw(s) == /\ s.idx = s.pos /\ s.pos >= 0
              /\ s.root /\ s.depth >= 1 /\ ~s.ph
              /\ s.full = Join(s.parent, s.name)

\* the first sibling with the same name answers ByName
ByNameLaw(all, s) == LET S == {i \in Sibs(all, s) : all[i].name = s.name} IN s.byname = all[MinOf(S)].pos
ListLaw(seq) == \A i \in 1..Len(seq) :
                  /\ BaseLaw(seq[i]) /\ seq[i].pos = i - 1
                  /\ seq[i].byname = FirstIdx(Map(seq, LAMBDA y : y.name), seq[i].name)
\* flat lists: positions of siblings are 0, 1, 2, ... in order
FlatLaw(all) == \A i \in 1..Len(all) :
                  /\ BaseLaw(all[i]) /\ ByNameLaw(all, all[i])
                  /\ all[i].pos = Cardinality({k \in Sibs(all, all[i]) : k < i})

RangeHasLaw(rs, probes, incl) ==
  \A k \in 1..Len(probes) :
     probes[k].has = (\E q \in 1..Len(rs) : rs[q][1] <= probes[k].n /\ (IF incl THEN probes[k].n <= rs[q][2] ELSE probes[k].n < rs[q][2]))
NameHasLaw(rn, probes) == \A k \in 1..Len(probes) : probes[k].has = (\E q \in 1..Len(rn) : rn[q] = probes[k].s)

\* Keyed lookups by JSON / text name: the first field whose *exact* name is the key; only when there is none, the first
\* group-like field whose lower-cased name is the key (the alias is a compatibility extra and never wins over a name).
EffectiveGroupLike(s) == s.text # s.name
JSONKeyHit(s, key) == s.json = key
TextKeyHit(s, key) == s.text = key
JSONAliasHit(s, key) == EffectiveGroupLike(s) /\ Lower(s.json) = key
TextAliasHit(s, key) == EffectiveGroupLike(s) /\ Lower(s.text) = key
FirstHit(fs, Hit(_, _), Alias(_, _), key) ==
  LET E == {i \in 1..Len(fs) : Hit(fs[i], key)}
      A == {i \in 1..Len(fs) : Alias(fs[i], key)}
  IN IF E # {} THEN MinOf(E) - 1 ELSE IF A # {} THEN MinOf(A) - 1 ELSE -1

FieldLaw(snap, m, s) ==
  /\ s.bynum = FirstIdx(Map(m.fields, LAMBDA y : y.num), s.num)
  /\ s.byjson = FirstHit(m.fields, JSONKeyHit, JSONAliasHit, s.json)
  /\ s.bytext = FirstHit(m.fields, TextKeyHit, TextAliasHit, s.text)
  /\ s.byjsonlo = FirstHit(m.fields, JSONKeyHit, JSONAliasHit, Lower(s.json))
  /\ s.bytextlo = FirstHit(m.fields, TextKeyHit, TextAliasHit, Lower(s.text))
  /\ ~s.ext /\ s.cmsg = m.full /\ ~s.cmsgph /\ s.parent = m.full /\ s.depth = m.depth + 1
  /\ s.list = (s.card = 3 /\ ~s.map)
  /\ (s.packed => s.card = 3 /\ s.kind \notin Unpackable)
  /\ (s.presence => s.card # 3)
  /\ (s.oneof = 0) = (s.oneofn = "")
  /\ (s.oneof # 0 => /\ s.oneof <= Len(m.oneofs) /\ s.oneofn = m.oneofs[s.oneof].full
                     /\ s.presence /\ (s.pos \in {m.oneofs[s.oneof].members[q] : q \in 1..Len(m.oneofs[s.oneof].members)}))
  /\ (~s.map => s.mapkey = "" /\ s.mapval = "")
  /\ (s.map => /\ s.kind = KMessage /\ s.msg # ""
               /\ \A k \in 1..Len(snap.msgs) : snap.msgs[k].full = s.msg =>
                     /\ snap.msgs[k].mapentry
                     /\ LET e == snap.msgs[k]
                            K == {q \in 1..Len(e.fields) : e.fields[q].num = 1}
                            V == {q \in 1..Len(e.fields) : e.fields[q].num = 2}
                        IN /\ s.mapkey = IF K = {} THEN "" ELSE e.fields[MinOf(K)].full
                           /\ s.mapval = IF V = {} THEN "" ELSE e.fields[MinOf(V)].full)
  /\ (s.msg # "" /\ ~s.msgph => (s.map = (\E k \in 1..Len(snap.msgs) : snap.msgs[k].full = s.msg /\ snap.msgs[k].mapentry))
                                 \/ (\A k \in 1..Len(snap.msgs) : snap.msgs[k].full # s.msg))
  /\ (s.defenum # "" => s.hd /\ (s.kind = KEnum \/ (s.kind = 0 /\ s.enumph)))

MsgLaw(snap, m) ==
  /\ ListLaw(m.fields) /\ ListLaw(m.oneofs)
  /\ \A j \in 1..Len(m.fields) : FieldLaw(snap, m, m.fields[j])
  /\ \A k \in 1..Len(m.oneofs) :
        LET o == m.oneofs[k]
            mem == SelectSeq([j \in 1..Len(m.fields) |-> j - 1], LAMBDA p : m.fields[p + 1].oneof = k)
        IN /\ o.members = mem /\ o.parent = m.full /\ o.depth = m.depth + 1
           /\ Len(o.keyed) = Len(o.members)
  /\ m.req = Map(SelectSeq([j \in 1..Len(m.fields) |-> j], LAMBDA j : m.fields[j].card = 2), LAMBDA j : m.fields[j].num)
  /\ \A k \in 1..Len(m.reqp) : m.reqp[k].has = (\E q \in 1..Len(m.req) : m.req[q] = m.reqp[k].n)
  /\ RangeHasLaw(m.rr, m.rrp, FALSE) /\ RangeHasLaw(m.xr, m.xrp, FALSE) /\ NameHasLaw(m.rn, m.rnp)
  /\ Len(m.xropts) = Len(m.xr)
  /\ m.nmsgs = Cardinality({k \in 1..Len(snap.msgs) : snap.msgs[k].parent = m.full /\ snap.msgs[k].depth = m.depth + 1})
  /\ m.nenums = Cardinality({k \in 1..Len(snap.enums) : snap.enums[k].parent = m.full /\ snap.enums[k].depth = m.depth + 1})
  /\ m.nexts = Cardinality({k \in 1..Len(snap.exts) : snap.exts[k].parent = m.full /\ snap.exts[k].depth = m.depth + 1})
  /\ m.miss

EnumLaw(e) ==
  /\ \A i \in 1..Len(e.vals) :
        LET v == e.vals[i] IN
        /\ v.idx = v.pos /\ v.pos = i - 1 /\ v.root /\ ~v.ph
        /\ v.parent = e.full /\ v.depth = e.depth + 1
        /\ v.full = Join(e.parent, v.name)        \* enum values are siblings of their enum
        /\ v.byname = FirstIdx(Map(e.vals, LAMBDA y : y.name), v.name)
        /\ v.bynum = FirstIdx(Map(e.vals, LAMBDA y : y.num), v.num)
  /\ RangeHasLaw(e.rr, e.rrp, TRUE) /\ NameHasLaw(e.rn, e.rnp)
  /\ e.miss

SvcLaw(snap, s) ==
  /\ s.parent = snap.pkg /\ s.depth = 1
  /\ ListLaw(s.methods)
  /\ \A j \in 1..Len(s.methods) : s.methods[j].parent = s.full /\ s.methods[j].depth = 2
  /\ s.miss

ViewLaws(snap) ==
  /\ snap.root /\ snap.miss /\ snap.name = LastName(snap.pkg)
  /\ FlatLaw(snap.msgs) /\ FlatLaw(snap.enums) /\ FlatLaw(snap.exts) /\ ListLaw(snap.svcs)
  /\ \A i \in 1..Len(snap.msgs) :
        LET m == snap.msgs[i] IN
        /\ MsgLaw(snap, m)
        /\ IF m.depth = 1 THEN m.parent = snap.pkg
           ELSE \E k \in 1..(i - 1) : snap.msgs[k].full = m.parent /\ snap.msgs[k].depth = m.depth - 1   \* parents precede (pre-order)
  /\ \A i \in 1..Len(snap.enums) :
        /\ EnumLaw(snap.enums[i])
        /\ IF snap.enums[i].depth = 1 THEN snap.enums[i].parent = snap.pkg
           ELSE \E k \in 1..Len(snap.msgs) : snap.msgs[k].full = snap.enums[i].parent /\ snap.msgs[k].depth = snap.enums[i].depth - 1
  /\ \A i \in 1..Len(snap.exts) :
        LET x == snap.exts[i] IN
        /\ x.ext /\ x.oneof = 0 /\ ~x.map /\ x.list = (x.card = 3) /\ x.presence = (x.card # 3)
        /\ IF x.depth = 1 THEN x.parent = snap.pkg
           ELSE \E k \in 1..Len(snap.msgs) : snap.msgs[k].full = x.parent /\ snap.msgs[k].depth = x.depth - 1
  /\ \A i \in 1..Len(snap.svcs) : SvcLaw(snap, snap.svcs[i])
  /\ snap.nmsgs = Cardinality({k \in 1..Len(snap.msgs) : snap.msgs[k].depth = 1})
  /\ snap.nenums = Cardinality({k \in 1..Len(snap.enums) : snap.enums[k].depth = 1})
  /\ snap.nexts = Cardinality({k \in 1..Len(snap.exts) : snap.exts[k].depth = 1})
  /\ snap.nsvcs = Len(snap.svcs)
=============================================================================
