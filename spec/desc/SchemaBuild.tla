----------------------------- MODULE SchemaBuild -----------------------------
(***************************************************************************)
(* The schema-construction state machine (DESIGN 4.6): an abstract file    *)
(* grows by guarded Add / Set actions.  Construction is canonical: messages*)
(* are appended in depth-first pre-order (a new message may only hang off  *)
(* the file or the right-most path), enums and extensions in parent order, *)
(* fields at the end of the first or the last message -- so every schema   *)
(* of the bounded space has essentially one construction.  A step is only  *)
(* taken if the result is Valid: the machine never leaves the valid space. *)
(*                                                                         *)
(* Steps(f) is the set of successor files; the MC_ modules wrap it.        *)
(***************************************************************************)
EXTENDS SchemaValid

CONSTANTS Tier        \* "quick" | "thorough"

NewField(name, num, label, type, tname) ==
  [name |-> name, num |-> num, label |-> label, type |-> type, tname |-> tname, hj |-> FALSE, json |-> "",
   hd |-> FALSE, def |-> "", oneof |-> 0, p3opt |-> FALSE, packed |-> "", lazy |-> FALSE, dep |-> FALSE,
   feat |-> NoFS, extendee |-> "", parent |-> 0]
NewMsg(name, parent) ==
  [name |-> name, parent |-> parent, feat |-> NoFS, mapentry |-> FALSE, mset |-> FALSE, dep |-> FALSE, vis |-> 0,
   fields |-> <<>>, oneofs |-> <<>>, rr |-> <<>>, rn |-> <<>>, xr |-> <<>>]
Val(name, num) == [name |-> name, num |-> num, dep |-> FALSE]
NewEnum(name, parent, vals) ==
  [name |-> name, parent |-> parent, feat |-> NoFS, alias |-> FALSE, dep |-> FALSE, vis |-> 0, vals |-> vals, rr |-> <<>>, rn |-> <<>>]
EmptyFile(syntax, edition, feat) ==
  [path |-> "t.proto", pkg |-> "p", syntax |-> syntax, edition |-> edition, feat |-> feat, dep |-> FALSE, legacy |-> FALSE,
   deps |-> <<>>, optdeps |-> <<>>, imps |-> <<>>, msgs |-> <<>>, enums |-> <<>>, exts |-> <<>>, svcs |-> <<>>]

\* ---- the environment: one other file, dep.proto
DepMsg == [full |-> "dep.DM", k |-> "m", file |-> "dep.proto", vis |-> TRUE, closed |-> FALSE, vals |-> <<>>,
           xr |-> << <<1000, 2000>> >>, mset |-> FALSE, mapent |-> FALSE]
DepClosed == [full |-> "dep.DC", k |-> "e", file |-> "dep.proto", vis |-> TRUE, closed |-> TRUE,
              vals |-> <<Val("DC_A", 1), Val("DC_B", 2)>>, xr |-> <<>>, mset |-> FALSE, mapent |-> FALSE]
DepOpen == [full |-> "dep.DO", k |-> "e", file |-> "dep.proto", vis |-> TRUE, closed |-> FALSE,
            vals |-> <<Val("DO_A", 0), Val("DO_B", 5)>>, xr |-> <<>>, mset |-> FALSE, mapent |-> FALSE]
DepImport == [path |-> "dep.proto", public |-> FALSE, missing |-> FALSE]

Thorough == Tier = "thorough"
MaxMsgs == IF Thorough THEN 3 ELSE 2
MaxEnums == IF Thorough THEN 2 ELSE 1
MaxFields == IF Thorough THEN 3 ELSE 2     \* per message
MaxVals == 3
MaxExts == IF Thorough THEN 2 ELSE 1

InitFiles ==
  {EmptyFile("proto2", 0, NoFS), EmptyFile("proto3", 0, NoFS), EmptyFile("editions", Ed2023, NoFS)}
  \cup {EmptyFile("editions", Ed2023, [NoFS EXCEPT !.fp = "IMPLICIT"]),
        EmptyFile("editions", Ed2023, [NoFS EXCEPT !.me = "DELIMITED"]),
        EmptyFile("editions", Ed2023, [NoFS EXCEPT !.et = "CLOSED"])}
  \cup (IF Thorough THEN {EmptyFile("editions", Ed2024, NoFS),
                          EmptyFile("editions", Ed2023, [NoFS EXCEPT !.rfe = "EXPANDED", !.utf8 = "NONE"]),
                          [EmptyFile("proto2", 0, NoFS) EXCEPT !.pkg = ""],
                          [EmptyFile("proto3", 0, NoFS) EXCEPT !.pkg = "p.q"]}
        ELSE {})

\* ---- helpers
NM(f) == Len(f.msgs)
RECURSIVE RightPath(_, _)
RightPath(f, i) == IF i = 0 THEN {} ELSE {i} \cup RightPath(f, f.msgs[i].parent)
MsgFullOf(f, i) == MsgCtxUpTo(f, FileEF(f), i)[i].full
EnumFullOf(f, i) == LET e == f.enums[i] IN Join(IF e.parent = 0 THEN f.pkg ELSE MsgFullOf(f, e.parent), e.name)
RECURSIVE MaxNum(_, _)
MaxNum(fields, i) == IF i > Len(fields) THEN 0 ELSE LET r == MaxNum(fields, i + 1) IN IF fields[i].num > r THEN fields[i].num ELSE r
NextNum(m) == MaxNum(m.fields, 1) + 1
FieldName(n) == CASE n = 2 -> "foo_bar2" [] OTHER -> "f" \o ToString(n)
Targets(f) == IF NM(f) = 0 THEN {} ELSE {1, NM(f)}
Plain(m) == ~m.mapentry

AppendField(f, i, x) == [f EXCEPT !.msgs[i].fields = Append(@, x)]
LastField(f) == LET m == f.msgs[NM(f)] IN m.fields[Len(m.fields)]
SetLast(f, x) == [f EXCEPT !.msgs[NM(f)].fields[Len(f.msgs[NM(f)].fields)] = x]

\* ---- structural actions
AddMessage(f) ==
  {[f EXCEPT !.msgs = Append(@, NewMsg("M" \o ToString(NM(f) + 1), p))] :
     p \in {q \in {0} \cup RightPath(f, NM(f)) : q = 0 \/ Plain(f.msgs[q])}}

AddEnum(f) ==
  LET lastp == IF f.enums = <<>> THEN 0 ELSE f.enums[Len(f.enums)].parent
      k == Len(f.enums) + 1
      nm == "E" \o ToString(k)
  IN {[f EXCEPT !.enums = Append(@, NewEnum(nm, p, <<Val(nm \o "_A", first)>>))] :
        p \in {q \in lastp..NM(f) : q = 0 \/ Plain(f.msgs[q])}, first \in {0, 1}}

EnumSteps(f) ==
  IF f.enums = <<>> THEN {}
  ELSE LET k == Len(f.enums)
           e == f.enums[k]
           n == Len(e.vals)
           nextnum == e.vals[n].num + 1
       IN (IF n < MaxVals THEN {[f EXCEPT !.enums[k].vals = Append(@, Val(e.name \o "_V" \o ToString(n), nextnum))]} ELSE {})
          \cup (IF n < MaxVals /\ ~e.alias
                THEN {[f EXCEPT !.enums[k].vals = Append(@, Val(e.name \o "_ALIAS", e.vals[1].num)), !.enums[k].alias = TRUE]} ELSE {})
          \cup (IF e.rr = <<>> THEN {[f EXCEPT !.enums[k].rr = << <<100, 200>>, <<-5, -5>> >>, !.enums[k].rn = <<"RSV">>]} ELSE {})

ScalarShapes == {[t |-> 5, l |-> 1], [t |-> 9, l |-> 1], [t |-> 5, l |-> 3], [t |-> 9, l |-> 3], [t |-> 5, l |-> 2]}
               \cup (IF Thorough THEN {[t |-> 1, l |-> 1], [t |-> 8, l |-> 1], [t |-> 12, l |-> 1], [t |-> 13, l |-> 3], [t |-> 18, l |-> 1]} ELSE {})
ZeroDefaultShapes == {[t |-> 9, d |-> ""], [t |-> 12, d |-> ""], [t |-> 5, d |-> "0"], [t |-> 8, d |-> "false"]}
RefStyles == IF Thorough THEN {"abs", "rel"} ELSE {"abs"}
RefTo(full, name, style) == IF style = "abs" THEN "." \o full ELSE name

AddField(f) ==
  UNION {
    LET m == f.msgs[i]
        n == NextNum(m)
        nm == FieldName(Len(m.fields) + 1)
    IN IF ~Plain(m) \/ Len(m.fields) >= MaxFields THEN {}
       \* LABEL_REQUIRED (like TYPE_GROUP) is proto2 spelling; editions files say it with features
       ELSE {AppendField(f, i, NewField(nm, n, s.l, s.t, "")) : s \in {q \in ScalarShapes : q.l # 2 \/ f.syntax = "proto2"}}
            \cup {AppendField(f, i, NewField(nm, n, l, KMessage, RefTo(MsgFullOf(f, r), f.msgs[r].name, st))) :
                    r \in {q \in 1..NM(f) : Plain(f.msgs[q])}, l \in {1, 3} \cup (IF f.syntax = "proto2" THEN {2} ELSE {}), st \in RefStyles}
            \cup {AppendField(f, i, NewField(nm, n, l, KEnum, RefTo(EnumFullOf(f, r), f.enums[r].name, st))) :
                    r \in 1..Len(f.enums), l \in {1, 3}, st \in RefStyles}
            \* the same with `type` omitted (parsers that work file by file leave it out): the kind comes from what type_name denotes
            \cup {AppendField(f, i, NewField(nm, n, l, 0, "." \o MsgFullOf(f, r))) : r \in {q \in 1..NM(f) : Plain(f.msgs[q])}, l \in {1, 3}}
            \cup {AppendField(f, i, NewField(nm, n, 1, 0, "." \o EnumFullOf(f, r))) : r \in 1..Len(f.enums)}
            \cup (IF f.deps = <<>> THEN {}
                  ELSE {AppendField(f, i, NewField(nm, n, 1, KMessage, ".dep.DM")),
                        AppendField(f, i, NewField(nm, n, 1, KEnum, ".dep.DC")),
                        AppendField(f, i, NewField(nm, n, 1, KEnum, ".dep.DO"))}
                       \cup (IF Thorough THEN {AppendField(f, i, NewField(nm, n, 1, 0, ".dep.DM")), AppendField(f, i, NewField(nm, n, 1, 0, ".dep.DO"))} ELSE {}))
            \cup {AppendField(f, i, [NewField(nm, 536870911, 1, 5, "") EXCEPT !.name = "fmax"])}
            \* fields declared with a default that is the zero value of their kind: HasDefault, though Default() is unchanged
            \* (proto3 has no defaults; Valid filters the files where presence is implicit)
            \cup (IF f.syntax = "proto3" THEN {}
                  ELSE {AppendField(f, i, [NewField(nm, n, 1, z.t, "") EXCEPT !.hd = TRUE, !.def = z.d]) : z \in ZeroDefaultShapes}
                       \cup {AppendField(f, i, [NewField(nm, n, 1, KEnum, "." \o EnumFullOf(f, r)) EXCEPT !.hd = TRUE, !.def = f.enums[r].vals[1].name]) :
                               r \in 1..Len(f.enums)})
    : i \in Targets(f)}

\* composite additions at the end of the last message
AddComposite(f) ==
  IF NM(f) = 0 THEN {}
  ELSE LET i == NM(f)
           m == f.msgs[i]
           n == NextNum(m)
           k == Len(m.fields) + 1
           full == MsgFullOf(f, i)
           room == Plain(m) /\ Len(m.fields) < MaxFields
           gname == "G" \o ToString(NM(f) + 1)
           mname == "mf" \o ToString(k)
           ename == MapEntryName(mname)
           entry(kt, vt, vref) == [NewMsg(ename, i) EXCEPT !.mapentry = TRUE,
                                     !.fields = <<NewField("key", 1, 1, kt, ""), NewField("value", 2, 1, vt, vref)>>]
           mapWith(kt, vt, vref) == [AppendField(f, i, NewField(mname, n, 3, KMessage, "." \o Join(full, ename)))
                                       EXCEPT !.msgs = Append(@, entry(kt, vt, vref))]
           oname == "o" \o ToString(Len(m.oneofs) + 1)
           \* a group-like field (proto2 group; under editions a DELIMITED message field named after its nested message type)
           \* with an explicit json_name, and the message it is named after
           glike(num, json) == IF f.syntax = "proto2"
                               THEN [NewField(Lower(gname), num, 1, KGroup, "." \o Join(full, gname)) EXCEPT !.hj = TRUE, !.json = json]
                               ELSE [NewField(Lower(gname), num, 1, KMessage, "." \o Join(full, gname)) EXCEPT !.hj = TRUE, !.json = json, !.feat.me = "DELIMITED"]
           gmsg == [NewMsg(gname, i) EXCEPT !.fields = <<NewField("a", 1, 1, 5, "")>>]
           \* another field whose exact JSON name is the lower-casing of the group-like field's JSON name: by its own name, or by json_name
           akaByName(num) == NewField("aka", num, 1, 5, "")
           akaByJSON(num) == [NewField("f" \o ToString(k), num, 1, 9, "") EXCEPT !.hj = TRUE, !.json = "aka"]
           withFields(xs) == [f EXCEPT !.msgs[i].fields = @ \o xs, !.msgs = Append(@, gmsg)]
           noSynth == \A q \in 1..Len(m.fields) : ~m.fields[q].p3opt
           lastIn == Len(m.fields) > 0 /\ Len(m.oneofs) > 0 /\ m.fields[Len(m.fields)].oneof = Len(m.oneofs) /\ noSynth
       IN IF ~room \/ NM(f) >= MaxMsgs + 1 THEN {}
          ELSE \* a proto2 group: the field and its message, named after each other
               (IF f.syntax = "proto2"
                THEN {[AppendField(f, i, NewField(Lower(gname), n, 1, KGroup, "." \o Join(full, gname)))
                         EXCEPT !.msgs = Append(@, [NewMsg(gname, i) EXCEPT !.fields = <<NewField("a", 1, 1, 5, "")>>])]}
                ELSE {})
               \* the lower-cased alias of a group-like field against another field's exact JSON name, in both declaration orders
               \cup (IF f.syntax # "proto3" /\ Len(m.fields) + 2 <= MaxFields
                     THEN {withFields(<<glike(n, "AKA"), akaByName(n + 1)>>), withFields(<<akaByName(n), glike(n + 1, "AKA")>>),
                           withFields(<<glike(n, "AKA"), akaByJSON(n + 1)>>), withFields(<<akaByJSON(n), glike(n + 1, "AKA")>>)}
                     ELSE {})
               \* a group-like field of an editions file on its own (text name = message name, lower-cased aliases)
               \cup (IF f.syntax = "editions" THEN {withFields(<<glike(n, "gJson")>>)} ELSE {})
               \* maps
               \cup {mapWith(5, 5, ""), mapWith(9, 9, "")}
               \cup {mapWith(9, KMessage, "." \o MsgFullOf(f, 1))}
               \cup {mapWith(5, KEnum, "." \o EnumFullOf(f, r)) : r \in 1..Len(f.enums)}
               \* oneofs
               \cup (IF noSynth THEN {[AppendField(f, i, [NewField("m" \o ToString(k), n, 1, 5, "") EXCEPT !.oneof = Len(m.oneofs) + 1])
                                         EXCEPT !.msgs[i].oneofs = Append(@, [name |-> oname])]} ELSE {})
               \* two members that share a JSON name (protodesc accepts that): keyed lookups must stay first-wins
               \cup (IF noSynth /\ Len(m.fields) + 1 < MaxFields + 1
                     THEN {[f EXCEPT !.msgs[i].oneofs = Append(@, [name |-> oname]),
                                     !.msgs[i].fields = @ \o <<[NewField("m" \o ToString(k), n, 1, 5, "") EXCEPT !.oneof = Len(m.oneofs) + 1, !.hj = TRUE, !.json = "sameJson"],
                                                              [NewField("m" \o ToString(k + 1), n + 1, 1, 9, "") EXCEPT !.oneof = Len(m.oneofs) + 1, !.hj = TRUE, !.json = "sameJson"]>>]}
                     ELSE {})
               \cup (IF lastIn THEN {AppendField(f, i, [NewField("m" \o ToString(k), n, 1, t, "") EXCEPT !.oneof = Len(m.oneofs)]) : t \in {5, 9}}
                                    \cup {AppendField(f, i, [NewField("m" \o ToString(k), n, 1, KMessage, "." \o full) EXCEPT !.oneof = Len(m.oneofs)])}
                     ELSE {})
               \* proto3 optional: a synthetic oneof
               \cup (IF f.syntax = "proto3"
                     THEN {[AppendField(f, i, [NewField("p" \o ToString(k), n, 1, t, "") EXCEPT !.oneof = Len(m.oneofs) + 1, !.p3opt = TRUE])
                              EXCEPT !.msgs[i].oneofs = Append(@, [name |-> "_p" \o ToString(k)])] : t \in {5, 9}}
                     ELSE {})

\* modifiers of the last field of the last message
FieldFeatures == {[k |-> "fp", v |-> "IMPLICIT"], [k |-> "fp", v |-> "LEGACY_REQUIRED"], [k |-> "fp", v |-> "EXPLICIT"],
                  [k |-> "me", v |-> "DELIMITED"], [k |-> "me", v |-> "LENGTH_PREFIXED"],
                  [k |-> "rfe", v |-> "EXPANDED"], [k |-> "rfe", v |-> "PACKED"],
                  [k |-> "utf8", v |-> "NONE"]}
ModifyField(f) ==
  IF NM(f) = 0 \/ f.msgs[NM(f)].fields = <<>> \/ ~Plain(f.msgs[NM(f)]) THEN {}
  ELSE LET x == LastField(f)
           m == f.msgs[NM(f)]
           first == m.fields[1]
           firstJSON == IF first.hj THEN first.json ELSE JSONCamel(first.name)
           untouched == ~x.hj /\ ~x.hd /\ x.packed = "" /\ ~x.lazy /\ ~x.dep /\ x.feat = NoFS
           \* (an explicit default that equals the zero value -- "", 0, false, the first enum value -- is still a declared default)
           defaults == CASE x.type = 5 -> {"-7", "0"} [] x.type = 9 -> {"hello", ""} [] x.type = 8 -> {"true", "false"} [] x.type = 1 -> {"1.5", "inf", "0"}
                         [] x.type = 12 -> {"abc", ""} [] x.type = 13 -> {"7", "0"} [] x.type = 18 -> {"-9", "0"}
                         [] x.type = KEnum -> LET t == Target(Ctx(f, FALSE), f, MsgFullOf(f, NM(f)), KEnum, x.tname)
                                                  vs == EnumVals(f, t)
                                              IN {vs[q].name : q \in 1..Len(vs)}
                         [] OTHER -> {}
       IN IF ~untouched THEN {}
          ELSE {SetLast(f, [x EXCEPT !.hj = TRUE, !.json = "customName"])}
               \cup (IF Len(m.fields) > 1 THEN {SetLast(f, [x EXCEPT !.hj = TRUE, !.json = firstJSON])} ELSE {})
               \cup {SetLast(f, [x EXCEPT !.hd = TRUE, !.def = d]) : d \in defaults}
               \cup (IF f.syntax # "editions" THEN {SetLast(f, [x EXCEPT !.packed = v]) : v \in {"t", "f"}} ELSE {})
               \cup {SetLast(f, [x EXCEPT !.lazy = TRUE]), SetLast(f, [x EXCEPT !.dep = TRUE])}
               \* (field_presence is a feature of singular fields)
               \cup (IF f.syntax = "editions"
                     THEN {SetLast(f, [x EXCEPT !.feat[ff.k] = ff.v]) : ff \in {q \in FieldFeatures : q.k # "fp" \/ x.label = 1}} ELSE {})

MsgFeatures == {[k |-> "fp", v |-> "IMPLICIT"], [k |-> "me", v |-> "DELIMITED"], [k |-> "et", v |-> "CLOSED"], [k |-> "jf", v |-> "LEGACY_BEST_EFFORT"],
                [k |-> "ga", v |-> "API_OPAQUE"]}
ModifyMsg(f) ==
  IF NM(f) = 0 \/ ~Plain(f.msgs[NM(f)]) THEN {}
  ELSE LET i == NM(f)
           m == f.msgs[i]
       IN (IF m.rr = <<>> THEN {[f EXCEPT !.msgs[i].rr = << <<100, 200>>, <<536870911, 536870912>> >>, !.msgs[i].rn = <<"rsv">>]} ELSE {})
          \cup (IF m.xr = <<>> THEN {[f EXCEPT !.msgs[i].xr = << <<1000, 2000>> >>]} ELSE {})
          \cup (IF ~m.dep THEN {[f EXCEPT !.msgs[i].dep = TRUE]} ELSE {})
          \cup (IF f.syntax = "editions" /\ m.feat = NoFS /\ m.fields = <<>>
                THEN {[f EXCEPT !.msgs[i].feat[ff.k] = ff.v] : ff \in MsgFeatures} ELSE {})

EnumFeatures == {[k |-> "et", v |-> "CLOSED"], [k |-> "et", v |-> "OPEN"], [k |-> "jf", v |-> "LEGACY_BEST_EFFORT"], [k |-> "gl", v |-> "t"]}
ModifyEnum(f) ==
  IF f.enums = <<>> THEN {}
  ELSE LET k == Len(f.enums) IN
       IF f.syntax = "editions" /\ f.enums[k].feat = NoFS THEN {[f EXCEPT !.enums[k].feat[ff.k] = ff.v] : ff \in EnumFeatures} ELSE {}

AddDep(f) == IF f.deps = <<>>
             THEN {[f EXCEPT !.deps = <<DepImport>>, !.imps = <<DepMsg, DepClosed, DepOpen>>],
                   [f EXCEPT !.deps = <<[path |-> "dep2.proto", public |-> FALSE, missing |-> FALSE], [DepImport EXCEPT !.public = TRUE]>>,
                             !.imps = <<DepMsg, DepClosed, DepOpen>>]}
             ELSE {}

AddExtension(f) ==
  IF Len(f.exts) >= MaxExts \/ f.syntax = "proto3" THEN {}
  ELSE LET lastp == IF f.exts = <<>> THEN 0 ELSE f.exts[Len(f.exts)].parent
           k == Len(f.exts) + 1
           ext(p, ee, l, t, tn) == [NewField("x" \o ToString(k), 1000 + k, l, t, tn) EXCEPT !.extendee = ee, !.parent = p]
           extendees == {"." \o MsgFullOf(f, q) : q \in {r \in 1..NM(f) : f.msgs[r].xr # <<>>}}
                        \cup (IF f.deps = <<>> THEN {} ELSE {".dep.DM"})
       IN {[f EXCEPT !.exts = Append(@, [ext(p, ee, s.l, s.t, "") EXCEPT !.packed = s.p, !.lazy = s.z])] :
             p \in {q \in lastp..NM(f) : q = 0 \/ Plain(f.msgs[q])}, ee \in extendees,
             s \in {[t |-> 5, l |-> 1, p |-> "", z |-> FALSE], [t |-> 5, l |-> 3, p |-> "", z |-> FALSE], [t |-> 9, l |-> 1, p |-> "", z |-> TRUE]}
                   \cup (IF f.syntax = "proto2" THEN {[t |-> 5, l |-> 3, p |-> "t", z |-> FALSE]} ELSE {})}
          \cup (IF NM(f) = 0 THEN {}
                ELSE {[f EXCEPT !.exts = Append(@, [ext(p, ee, 1, KMessage, "." \o MsgFullOf(f, 1)) EXCEPT !.lazy = TRUE])] :
                        p \in {q \in lastp..NM(f) : q = 0 \/ Plain(f.msgs[q])}, ee \in extendees}
                     \* `type` omitted
                     \cup {[f EXCEPT !.exts = Append(@, ext(p, ee, 1, 0, "." \o MsgFullOf(f, 1)))] :
                             p \in {q \in lastp..NM(f) : q = 0 \/ Plain(f.msgs[q])}, ee \in extendees})

AddService(f) ==
  IF NM(f) = 0 \/ ~Plain(f.msgs[1]) THEN {}
  ELSE IF f.svcs = <<>>
    THEN {[f EXCEPT !.svcs = <<[name |-> "S1", dep |-> FALSE,
                                methods |-> <<[name |-> "Do", in |-> "." \o MsgFullOf(f, 1), out |-> "." \o MsgFullOf(f, 1), cs |-> FALSE, ss |-> FALSE, dep |-> FALSE]>>]>>]}
    ELSE IF Len(f.svcs[1].methods) = 1
      THEN {[f EXCEPT !.svcs[1].methods = Append(@, [name |-> "Stream", in |-> f.msgs[1].name, out |-> f.msgs[NM(f)].name, cs |-> TRUE, ss |-> TRUE, dep |-> TRUE])]}
      ELSE {}

Candidates(f) ==
  (IF NM(f) < MaxMsgs THEN AddMessage(f) ELSE {})
  \cup (IF Len(f.enums) < MaxEnums THEN AddEnum(f) ELSE {})
  \cup EnumSteps(f) \cup AddField(f) \cup AddComposite(f) \cup ModifyField(f) \cup ModifyMsg(f) \cup ModifyEnum(f)
  \cup AddDep(f) \cup AddExtension(f) \cup AddService(f)

\* the construction step: any candidate that stays inside the valid space
Steps(f) == {g \in Candidates(f) : Valid(g, FALSE)}
=============================================================================
