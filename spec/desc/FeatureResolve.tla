--------------------------- MODULE FeatureResolve ---------------------------
(***************************************************************************)
(* Editions feature resolution (C38).                                      *)
(*                                                                         *)
(* A *feature set* FS is a record of explicit settings, "" = unset:        *)
(*   fp  field_presence          EXPLICIT | IMPLICIT | LEGACY_REQUIRED     *)
(*   et  enum_type               OPEN | CLOSED                             *)
(*   rfe repeated_field_encoding PACKED | EXPANDED                         *)
(*   utf8 utf8_validation        VERIFY | NONE                             *)
(*   me  message_encoding        LENGTH_PREFIXED | DELIMITED               *)
(*   jf  json_format             ALLOW | LEGACY_BEST_EFFORT                *)
(*   gl  (pb.go).legacy_unmarshal_json_enum   "t" | "f"                    *)
(*   ga  (pb.go).api_level       API_LEVEL_UNSPECIFIED | API_OPEN | ...    *)
(*   gs  (pb.go).strip_enum_prefix                                         *)
(* The *resolved features* EF of a declaration are the edition defaults    *)
(* overridden by the nearest explicit setting along the chain              *)
(* file -> message -> ... -> (field | enum | extension).                   *)
(*                                                                         *)
(* Two independent definitions are given:                                  *)
(*   ResolveFold     what the implementations do: start from the defaults  *)
(*                   and merge every feature set of the chain, outermost   *)
(*                   first;                                                *)
(*   ResolveNearest  the property's wording: per feature, the innermost    *)
(*                   chain element that sets it, else the edition default. *)
(* MC_FeatureResolve checks that they agree.                               *)
(***************************************************************************)
EXTENDS Integers, Sequences

FeatureKeys == {"fp", "et", "rfe", "utf8", "me", "jf", "gl", "ga", "gs"}
NoFS == [fp |-> "", et |-> "", rfe |-> "", utf8 |-> "", me |-> "", jf |-> "", gl |-> "", ga |-> "", gs |-> ""]

ApiLevel(s) == CASE s = "API_OPEN" -> 1 [] s = "API_HYBRID" -> 2 [] s = "API_OPAQUE" -> 3 [] OTHER -> 0
StripPrefix(s) == CASE s = "STRIP_ENUM_PREFIX_KEEP" -> 1 [] s = "STRIP_ENUM_PREFIX_GENERATE_BOTH" -> 2
                    [] s = "STRIP_ENUM_PREFIX_STRIP" -> 3 [] OTHER -> 0

\* ---- edition defaults (internal/editiondefaults/editions_defaults.binpb; editions are numbered as in descriptor.proto)
EdProto2 == 998
EdProto3 == 999
Ed2023 == 1000
Ed2024 == 1001
EditionDefaults(ed) ==
  IF ed < EdProto3 THEN     \* EDITION_LEGACY .. proto2
    [fp |-> TRUE, lr |-> FALSE, open |-> FALSE, packed |-> FALSE, utf8 |-> FALSE, delim |-> FALSE, json |-> FALSE,
     gl |-> TRUE, gs |-> 1, ga |-> 0]
  ELSE IF ed < Ed2023 THEN  \* proto3
    [fp |-> FALSE, lr |-> FALSE, open |-> TRUE, packed |-> TRUE, utf8 |-> TRUE, delim |-> FALSE, json |-> TRUE,
     gl |-> FALSE, gs |-> 1, ga |-> 0]
  ELSE IF ed < Ed2024 THEN  \* edition 2023
    [fp |-> TRUE, lr |-> FALSE, open |-> TRUE, packed |-> TRUE, utf8 |-> TRUE, delim |-> FALSE, json |-> TRUE,
     gl |-> FALSE, gs |-> 1, ga |-> 0]
  ELSE                      \* edition 2024 and later known editions
    [fp |-> TRUE, lr |-> FALSE, open |-> TRUE, packed |-> TRUE, utf8 |-> TRUE, delim |-> FALSE, json |-> TRUE,
     gl |-> FALSE, gs |-> 1, ga |-> 3]

EditionOf(syntax, edition) == IF syntax = "proto2" THEN EdProto2 ELSE IF syntax = "proto3" THEN EdProto3 ELSE edition

\* ---- definition 1: merge, outermost first
Merge(ef, fs) ==
  [fp     |-> IF fs.fp = "" THEN ef.fp ELSE fs.fp \in {"EXPLICIT", "LEGACY_REQUIRED"},
   lr     |-> IF fs.fp = "" THEN ef.lr ELSE fs.fp = "LEGACY_REQUIRED",
   open   |-> IF fs.et = "" THEN ef.open ELSE fs.et = "OPEN",
   packed |-> IF fs.rfe = "" THEN ef.packed ELSE fs.rfe = "PACKED",
   utf8   |-> IF fs.utf8 = "" THEN ef.utf8 ELSE fs.utf8 = "VERIFY",
   delim  |-> IF fs.me = "" THEN ef.delim ELSE fs.me = "DELIMITED",
   json   |-> IF fs.jf = "" THEN ef.json ELSE fs.jf = "ALLOW",
   gl     |-> IF fs.gl = "" THEN ef.gl ELSE fs.gl = "t",
   gs     |-> IF fs.gs = "" THEN ef.gs ELSE StripPrefix(fs.gs),
   ga     |-> IF fs.ga = "" THEN ef.ga ELSE ApiLevel(fs.ga)]

RECURSIVE MergeAll(_, _, _)
MergeAll(ef, chain, i) == IF i > Len(chain) THEN ef ELSE MergeAll(Merge(ef, chain[i]), chain, i + 1)
ResolveFold(ed, chain) == MergeAll(EditionDefaults(ed), chain, 1)

\* ---- definition 2: nearest explicit setting
\* index of the innermost chain element that sets feature k (0 if none)
Nearest(chain, k) == LET S == {i \in 1..Len(chain) : chain[i][k] # ""} IN
                     IF S = {} THEN 0 ELSE CHOOSE i \in S : \A j \in S : j <= i
ResolveNearest(ed, chain) ==
  LET d == EditionDefaults(ed)
      V(k) == chain[Nearest(chain, k)][k]
      Set(k) == Nearest(chain, k) # 0
  IN [fp     |-> IF Set("fp") THEN V("fp") \in {"EXPLICIT", "LEGACY_REQUIRED"} ELSE d.fp,
      lr     |-> IF Set("fp") THEN V("fp") = "LEGACY_REQUIRED" ELSE d.lr,
      open   |-> IF Set("et") THEN V("et") = "OPEN" ELSE d.open,
      packed |-> IF Set("rfe") THEN V("rfe") = "PACKED" ELSE d.packed,
      utf8   |-> IF Set("utf8") THEN V("utf8") = "VERIFY" ELSE d.utf8,
      delim  |-> IF Set("me") THEN V("me") = "DELIMITED" ELSE d.delim,
      json   |-> IF Set("jf") THEN V("jf") = "ALLOW" ELSE d.json,
      gl     |-> IF Set("gl") THEN V("gl") = "t" ELSE d.gl,
      gs     |-> IF Set("gs") THEN StripPrefix(V("gs")) ELSE d.gs,
      ga     |-> IF Set("ga") THEN ApiLevel(V("ga")) ELSE d.ga]
=============================================================================
