----------------------------- MODULE MC_SchemaSpace -----------------------------
(***************************************************************************)
(* Exhaustive exploration of the bounded schema space (C34-C37) and of its *)
(* invalid neighbourhood (C35).                                            *)
(*   state: file (abstract file), steps, defect (injected rule or "none")  *)
(*   Build:  one construction step inside the valid space                  *)
(*   Inject: one invalidity injection (terminal)                           *)
(* Laws checked by TLC on the specification itself:                        *)
(*   StaysValid        the construction machine never leaves Valid         *)
(*   InjectionInvalid  every injection exhibits its defect class (class "":*)
(*                     the file is valid)                                  *)
(*   ViewsConsistent   Views(file) satisfies the C36 view laws             *)
(*   NormalForm        Normal is idempotent and does not change Views;     *)
(*                     AllowUnresolvable is irrelevant for a valid file    *)
(* Every transition is emitted as a tour line for property Prop.           *)
(***************************************************************************)
EXTENDS SchemaInject, SchemaCases, Json

CONSTANTS MaxSteps, Prop

VARIABLES file, steps, defect
vars == <<file, steps, defect>>
View == <<file, defect>>
NoDefect == [rule |-> "none", class |-> ""]

\* the quick C35 run starts from the three plain files only (its state space is multiplied by ~30 injections per file)
Starts == IF Prop = "C35" /\ Tier = "quick" THEN {g \in InitFiles : g.feat = NoFS} ELSE InitFiles
Init == file \in Starts /\ steps = 0 /\ defect = NoDefect
Build == /\ defect = NoDefect /\ steps < MaxSteps
         /\ \E g \in Steps(file) : file' = g
         /\ steps' = steps + 1 /\ defect' = NoDefect
Inject == /\ Prop = "C35" /\ defect = NoDefect
          /\ \E inj \in Injections(file) : file' = inj.file /\ defect' = [rule |-> inj.rule, class |-> inj.class]
          /\ steps' = steps
Next == Build \/ Inject

StaysValid == defect = NoDefect => Valid(file, FALSE)
InjectionInvalid == defect # NoDefect =>
                      IF defect.class = "" THEN Valid(file, FALSE) /\ Valid(file, TRUE)     \* a position case whose ranges are apart
                      ELSE IF defect.class \in UnresolvableClasses THEN defect.class \in Defects(file, FALSE)
                      ELSE defect.class \in Defects(file, TRUE) /\ Defects(file, FALSE) # {}
ViewsConsistent == defect = NoDefect => ViewLaws(Views(file, FALSE))
NormalForm == defect = NoDefect =>
                LET n == Normal(file, FALSE) IN
                /\ Normal(n, FALSE) = n
                /\ Views(n, FALSE) = Views(file, FALSE)
                /\ Views(file, TRUE) = Views(file, FALSE)
                /\ Valid(n, FALSE)

WantOf == CASE Prop = "C34" -> <<"snap", "back", "rt">>
            [] Prop = "C35" -> <<>>
            [] Prop = "C36" -> <<"snap", "bsnap">>
            [] Prop = "C37" -> <<"bsnap", "bsame", "blazy">>
            [] OTHER -> <<"snap">>
Case(allow) == [op |-> "file", file |-> file', allow |-> allow, want |-> WantOf, rule |-> defect'.rule]
EmitOne(allow) == LET c == Case(allow) IN PrintT("@@" \o ToJson(c @@ [exp |-> Expect(c)]))
Emit == IF Prop = "C35" THEN EmitOne(FALSE) /\ EmitOne(TRUE) ELSE EmitOne(FALSE)
=============================================================================
