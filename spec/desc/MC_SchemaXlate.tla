--------------------------- MODULE MC_SchemaXlate ---------------------------
(***************************************************************************)
(* proto2 / proto3 files against their editions translation (C38, second   *)
(* half).                                                                  *)
(*   state:  file (a proto2 / proto3 abstract file), steps, tgt + items    *)
(*           (an input for one of its messages)                            *)
(*   Build:  one construction step of the schema machine, from the empty   *)
(*           proto2 / proto3 files                                         *)
(*   Feed:   append one string occurrence to the input -- any string-typed *)
(*           field of the input message or string-typed extension of it    *)
(*           (the message may be an imported one, e.g. an options message  *)
(*           that a proto3 file extends) x a payload alphabet of empty,    *)
(*           ASCII, well-formed 2- and 3-byte, and ill-formed (stray       *)
(*           continuation, truncated, 0xFF, overlong) UTF-8                *)
(* besides the machine's small files two hand-written bases (proto2 and    *)
(* proto3) with singular / repeated / required / oneof / optional strings, *)
(* a group, packed options and string extensions at file and message scope.*)
(* Law checked by TLC on every reachable file:  TranslationLaw  (the       *)
(* translation is valid and has the same runtime-relevant semantics).      *)
(* Every Feed transition is emitted as a tour line: both files are built   *)
(* by the real code, the input is decoded / re-encoded / printed by both,  *)
(* and the verdicts must be the specification's.                           *)
(***************************************************************************)
EXTENDS SchemaBuild, SchemaCases, Json

CONSTANTS MaxSteps, MaxItems

F(name, num, label, type, tname) == NewField(name, num, label, type, tname)

Base2 ==
  [EmptyFile("proto2", 0, NoFS) EXCEPT
     !.msgs = <<[NewMsg("M1", 0) EXCEPT
                   !.fields = <<F("s1", 1, 1, 9, ""), F("r1", 2, 3, 9, ""), F("q1", 3, 2, 9, ""),
                                [F("o1", 4, 1, 9, "") EXCEPT !.oneof = 1], [F("o2", 5, 1, 5, "") EXCEPT !.oneof = 1],
                                F("g2", 6, 1, KGroup, ".p.M1.G2"), [F("n1", 7, 3, 5, "") EXCEPT !.packed = "t"],
                                [F("d1", 8, 1, 9, "") EXCEPT !.hd = TRUE, !.def = "hello"], F("e1", 9, 1, KEnum, ".p.E1")>>,
                   !.oneofs = <<[name |-> "o"]>>,
                   !.xr = << <<1000, 2000>> >>],
                [NewMsg("G2", 1) EXCEPT !.fields = <<F("a", 1, 1, 9, "")>>]>>,
     !.enums = <<NewEnum("E1", 0, <<Val("E1_A", 1), Val("E1_B", 2)>>)>>,
     !.exts = <<[F("sx", 1001, 1, 9, "") EXCEPT !.extendee = ".p.M1"],
                [F("rx", 1002, 3, 9, "") EXCEPT !.extendee = ".p.M1", !.parent = 1]>>]

OptionsImp == [full |-> "google.protobuf.MessageOptions", k |-> "m", file |-> "google/protobuf/descriptor.proto", vis |-> TRUE,
               closed |-> FALSE, vals |-> <<>>, xr |-> << <<1000, 536870912>> >>, mset |-> FALSE, mapent |-> FALSE]
Base3 ==
  [EmptyFile("proto3", 0, NoFS) EXCEPT
     !.deps = <<[path |-> "google/protobuf/descriptor.proto", public |-> FALSE, missing |-> FALSE]>>,
     !.imps = <<OptionsImp>>,
     !.msgs = <<[NewMsg("M1", 0) EXCEPT
                   !.fields = <<F("s1", 1, 1, 9, ""), F("r1", 2, 3, 9, ""),
                                [F("o1", 3, 1, 9, "") EXCEPT !.oneof = 1], [F("o2", 4, 1, 5, "") EXCEPT !.oneof = 1],
                                F("b1", 5, 1, 12, ""), [F("n1", 6, 3, 5, "") EXCEPT !.packed = "f"], F("e1", 7, 1, KEnum, ".p.E1"),
                                F("m1", 8, 1, KMessage, ".p.M1"),
                                [F("p1", 9, 1, 9, "") EXCEPT !.oneof = 2, !.p3opt = TRUE]>>,
                   !.oneofs = <<[name |-> "o"], [name |-> "_p1"]>>]>>,
     !.enums = <<NewEnum("E1", 0, <<Val("E1_A", 0), Val("E1_B", 2)>>)>>,
     \* (extensions are listed by parent, the file's first)
     !.exts = <<[F("sx", 1001, 1, 9, "") EXCEPT !.extendee = ".google.protobuf.MessageOptions"],
                [F("px", 1003, 1, 9, "") EXCEPT !.extendee = ".google.protobuf.MessageOptions", !.p3opt = TRUE],
                [F("rx", 1002, 3, 9, "") EXCEPT !.extendee = ".google.protobuf.MessageOptions", !.parent = 1]>>]
Bases == {Base2, Base3}
ASSUME \A g \in Bases : /\ Valid(g, FALSE) /\ Translatable(g)
                         /\ \A i \in 1..(Len(g.exts) - 1) : g.exts[i].parent <= g.exts[i + 1].parent     \* canonical order

Payloads == {<<>>, <<97>>, <<195, 169>>, <<226, 130, 172>>,          \* "", "a", U+00E9, U+20AC
             <<255>>, <<195>>, <<128>>, <<192, 128>>}                \* never valid, truncated, stray continuation, overlong NUL
            \cup (IF Tier = "thorough" THEN {<<97, 255>>, <<237, 160, 128>>, <<240, 159, 152, 128>>} ELSE {})   \* ..., surrogate, U+1F600

NoTgt == [loc |-> TRUE, i |-> 0]
VARIABLES file, steps, tgt, items
View == <<file, tgt, items>>

Init == /\ file \in Bases \cup {EmptyFile("proto2", 0, NoFS), EmptyFile("proto3", 0, NoFS)}
        /\ steps = 0 /\ tgt = NoTgt /\ items = <<>>

Build == /\ items = <<>> /\ file \notin Bases /\ steps < MaxSteps
         /\ \E g \in Steps(file) : file' = g
         /\ steps' = steps + 1 /\ UNCHANGED <<tgt, items>>

\* input messages: every plain local message, every imported message
InputMsgs == {[loc |-> TRUE, i |-> i] : i \in {k \in 1..Len(file.msgs) : ~file.msgs[k].mapentry}}
           \cup {[loc |-> FALSE, i |-> i] : i \in {k \in 1..Len(file.imps) : file.imps[k].k = "m"}}
ItemTargets(t) ==
  (IF t.loc THEN {[x |-> FALSE, j |-> j] : j \in 1..Len(file.msgs[t.i].fields)} ELSE {})
  \cup {[x |-> TRUE, j |-> j] : j \in 1..Len(file.exts)}
Feed == /\ Len(items) < MaxItems
        /\ \E t \in InputMsgs : \E it \in ItemTargets(t), p \in Payloads :
              /\ items = <<>> \/ t = tgt
              /\ tgt' = t /\ items' = Append(items, [x |-> it.x, j |-> it.j, p |-> p])
              /\ ItemsInDomain(Ctx(file, FALSE), file, tgt', items')
              /\ SetOnce(file, tgt', items')
        /\ UNCHANGED <<file, steps>>
Next == Build \/ Feed

XlateLaw == items = <<>> => Translatable(file) /\ TranslationLaw(file)
\* the specification's own verdicts for a file and for its translation coincide (a consequence of the law, checked independently)
VerdictsCoincide == items # <<>> => InputOK(file, tgt, items) = InputOK(Translate(file), tgt, items)

Case == [op |-> "xlate", file |-> file', xfile |-> Translate(file'), tgt |-> tgt', items |-> items']
Emit == IF items' # <<>> THEN PrintT("@@" \o ToJson(Case @@ [exp |-> Expect(Case)])) ELSE TRUE
=============================================================================
