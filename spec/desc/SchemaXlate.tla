----------------------------- MODULE SchemaXlate -----------------------------
(***************************************************************************)
(* A proto2 / proto3 file and its editions translation (C38, second half). *)
(*                                                                         *)
(*   Translate(f)   the edition-2023 file that says with features what the *)
(*                  proto2 / proto3 file f says with syntax and keywords:  *)
(*                    proto2  file: enum_type CLOSED, repeated_field_      *)
(*                            encoding EXPANDED, utf8_validation NONE,     *)
(*                            json_format LEGACY_BEST_EFFORT;              *)
(*                            required -> field_presence LEGACY_REQUIRED,  *)
(*                            group -> message + message_encoding          *)
(*                            DELIMITED, [packed = true] -> PACKED         *)
(*                    proto3  file: field_presence IMPLICIT;               *)
(*                            optional (proto3_optional + synthetic oneof) *)
(*                            -> field_presence EXPLICIT, no oneof;        *)
(*                            [packed = false] -> EXPANDED                 *)
(*   SemView(v)     the runtime-relevant semantics of a file's Views:      *)
(*                  everything wire / JSON / text behaviour of its         *)
(*                  messages and extensions can depend on (numbers, names, *)
(*                  kinds, cardinalities, presence, packedness, UTF-8      *)
(*                  validation of strings, closedness of enums, oneofs,    *)
(*                  defaults, ranges) -- not the spelling (syntax,         *)
(*                  keywords, options vs features).                        *)
(*   Law (TLC, MC_SchemaXlate):  SemView(Views(Translate(f))) =            *)
(*                  SemView(Views(f)) and Translate(f) is valid, for every *)
(*                  valid proto2 / proto3 file of the schema space.        *)
(*                                                                         *)
(* Runtime equivalence, op "xlate": both files are built, an input for one *)
(* message (a local message, or an imported one that the file extends) is  *)
(* a sequence of length-delimited occurrences of string-typed fields and   *)
(* extensions  [x, j, p]  (x: extension?, j: index in msgs[i].fields or in *)
(* exts, p: payload bytes).  The specification demands                     *)
(*   adec, bdec   Unmarshal (by the original, by the translation) accepts  *)
(*         the input  iff  every occurrence of a field whose *resolved*    *)
(*         utf8_validation is VERIFY is well-formed UTF-8 (VUtf8!ValidUTF8)*)
(*         -- for fields and for extensions alike;                         *)
(*   aenc, benc   Marshal of the message holding these values: the same    *)
(*         verdict (demanded of inputs that set every singular target      *)
(*         once, so that the message holds exactly the given values);      *)
(*   same  every observation (verdicts, deterministic bytes, size, JSON,   *)
(*         text) of the original equals that of the translation;           *)
(*   agdec, agenc, bgdec, bgenc   the same verdicts when the input message *)
(*         is an options message of descriptor.proto, observed on its      *)
(*         generated Go type (extensions of option messages are what a     *)
(*         proto3 file can declare).                                       *)
(***************************************************************************)
EXTENDS SchemaValid, SchemaViews, VUtf8

XFeat2 == [NoFS EXCEPT !.et = "CLOSED", !.rfe = "EXPANDED", !.utf8 = "NONE", !.jf = "LEGACY_BEST_EFFORT"]
XFeat3 == [NoFS EXCEPT !.fp = "IMPLICIT"]

XField(x) ==
  LET a == IF x.label = 2 THEN [x EXCEPT !.label = 1, !.feat.fp = "LEGACY_REQUIRED"] ELSE x
      b == IF a.type = KGroup THEN [a EXCEPT !.type = KMessage, !.feat.me = "DELIMITED"] ELSE a
      c == IF b.packed = "" THEN b ELSE [b EXCEPT !.packed = "", !.feat.rfe = IF b.packed = "t" THEN "PACKED" ELSE "EXPANDED"]
  IN IF c.p3opt THEN [c EXCEPT !.p3opt = FALSE, !.oneof = 0, !.feat.fp = "EXPLICIT"] ELSE c

\* oneof k of message m stands for a proto3 `optional`
SynthOneof(syntax, m, k) ==
  LET mem == {q \in 1..Len(m.fields) : m.fields[q].oneof = k} IN
  syntax = "proto3" /\ Cardinality(mem) = 1 /\ (\A q \in mem : m.fields[q].p3opt)

XMsg(syntax, m) ==
  LET real == SelectSeq([k \in 1..Len(m.oneofs) |-> k], LAMBDA k : ~SynthOneof(syntax, m, k)) IN
  [m EXCEPT !.fields = Map(m.fields, XField),
            !.oneofs = [k \in 1..Len(real) |-> m.oneofs[real[k]]]]

Translate(f) ==
  [f EXCEPT !.syntax = "editions", !.edition = Ed2023,
            !.feat = IF f.syntax = "proto2" THEN XFeat2 ELSE XFeat3,
            !.msgs = Map(f.msgs, LAMBDA m : XMsg(f.syntax, m)),
            !.exts = Map(f.exts, XField)]

\* the files Translate is defined on: proto2 / proto3, no features of their own
Translatable(f) ==
  /\ f.syntax \in {"proto2", "proto3"} /\ f.feat = NoFS
  /\ \A i \in 1..Len(f.msgs) : f.msgs[i].feat = NoFS /\ (\A j \in 1..Len(f.msgs[i].fields) : f.msgs[i].fields[j].feat = NoFS)
  /\ \A i \in 1..Len(f.enums) : f.enums[i].feat = NoFS
  /\ \A i \in 1..Len(f.exts) : f.exts[i].feat = NoFS

\* ---- semantics of a view
SemFieldView(v, m, s) ==
  [num |-> s.num, name |-> s.name, full |-> s.full, json |-> s.json, text |-> s.text, kind |-> s.kind, card |-> s.card,
   presence |-> s.presence, list |-> s.list, map |-> s.map, mapkey |-> s.mapkey, mapval |-> s.mapval,
   ext |-> s.ext, cmsg |-> s.cmsg, msg |-> s.msg, enum |-> s.enum, hd |-> s.hd, def |-> s.def, defenum |-> s.defenum,
   packed |-> s.packed, utf8 |-> s.kind = KString /\ s.utf8,
   \* membership in a real oneof (the synthetic oneof of a proto3 optional is spelling)
   oneof |-> IF s.ext \/ s.oneof = 0 THEN "" ELSE IF m.oneofs[s.oneof].synth THEN "" ELSE s.oneofn,
   byjson |-> s.byjson, bytext |-> s.bytext, bynum |-> s.bynum]
SemView(v) ==
  [msgs |-> [i \in 1..Len(v.msgs) |->
               LET m == v.msgs[i] IN
               [full |-> m.full, mapentry |-> m.mapentry, mset |-> m.mset, req |-> m.req, xr |-> m.xr, rr |-> m.rr, rn |-> m.rn,
                fields |-> [j \in 1..Len(m.fields) |-> SemFieldView(v, m, m.fields[j])],
                oneofs |-> Map(SelectSeq(m.oneofs, LAMBDA o : ~o.synth), LAMBDA o : [full |-> o.full, members |-> o.members])]],
   enums |-> [i \in 1..Len(v.enums) |-> [full |-> v.enums[i].full, closed |-> v.enums[i].closed,
                                          vals |-> Map(v.enums[i].vals, LAMBDA y : [name |-> y.name, num |-> y.num])]],
   exts |-> [i \in 1..Len(v.exts) |-> SemFieldView(v, [oneofs |-> <<>>], v.exts[i])],
   svcs |-> [i \in 1..Len(v.svcs) |-> [full |-> v.svcs[i].full,
                                        methods |-> Map(v.svcs[i].methods, LAMBDA y : [name |-> y.name, in |-> y.in, out |-> y.out, cs |-> y.cs, ss |-> y.ss])]]]

TranslationLaw(f) ==
  LET g == Translate(f) IN
  /\ Valid(g, FALSE)
  /\ SemView(Views(g, FALSE)) = SemView(Views(f, FALSE))

\* ---- runtime: inputs made of string occurrences
\* the field or extension an item denotes, resolved in file g (tgt.loc: the input message is g.msgs[tgt.i], else g.imps[tgt.i])
ItemCore(ctx, g, tgt, it) ==
  IF it.x THEN LET x == g.exts[it.j] IN
               FieldCore(ctx, g, ScopeFull(g, ctx.mc, x.parent), ScopeEF(ctx.fef, ctx.mc, x.parent), FALSE, x, TRUE)
  ELSE LET m == g.msgs[tgt.i] IN FieldCore(ctx, g, ctx.mc[tgt.i].full, ctx.mc[tgt.i].ef, m.mapentry, m.fields[it.j], FALSE)
\* the items are well-typed: string fields of the input message, string extensions of it
ItemsInDomain(ctx, g, tgt, items) ==
  /\ IF tgt.loc THEN tgt.i \in 1..Len(g.msgs) ELSE tgt.i \in 1..Len(g.imps)
  /\ \A k \in 1..Len(items) :
        LET it == items[k] IN
        /\ IF it.x THEN it.j \in 1..Len(g.exts) ELSE tgt.loc /\ it.j \in 1..Len(g.msgs[tgt.i].fields)
        /\ LET c == ItemCore(ctx, g, tgt, it) IN
           /\ c.kind = KString /\ ~c.ismap
           /\ (it.x => FindKind(ctx, g, ScopeFull(g, ctx.mc, g.exts[it.j].parent), g.exts[it.j].extendee, "m").full
                       = (IF tgt.loc THEN ctx.mc[tgt.i].full ELSE g.imps[tgt.i].full))
\* UTF-8 validation is a resolved feature of the field or extension: nothing else decides whether a string is checked
Enforced(ctx, g, tgt, it) == ItemCore(ctx, g, tgt, it).ef.utf8
InputOK(g, tgt, items) ==
  LET ctx == Ctx(g, FALSE) IN \A k \in 1..Len(items) : Enforced(ctx, g, tgt, items[k]) => ValidUTF8(items[k].p)
\* every singular target at most once, at most one member per oneof: the message then holds exactly the given values
SetOnce(g, tgt, items) ==
  \A a, b \in 1..Len(items) : a < b =>
     LET ia == items[a]  ib == items[b]
         xa == IF ia.x THEN g.exts[ia.j] ELSE g.msgs[tgt.i].fields[ia.j]
         xb == IF ib.x THEN g.exts[ib.j] ELSE g.msgs[tgt.i].fields[ib.j]
     IN IF ia.x # ib.x THEN TRUE
        ELSE IF ia.j = ib.j THEN xa.label = 3
        ELSE ia.x \/ xa.oneof = 0 \/ xa.oneof # xb.oneof

\* an options message of descriptor.proto exists as a generated Go type as well: its table-driven codec is observed besides
\* the dynamic message (keys ag*, bg*), with the same demands
DescriptorPath == "google/protobuf/descriptor.proto"
XlateExpect(e) ==
  LET f == e.file
      g == e.xfile
      oka == InputOK(f, e.tgt, e.items)
      okb == InputOK(g, e.tgt, e.items)
      once == SetOnce(f, e.tgt, e.items)
      gen == ~e.tgt.loc /\ f.imps[e.tgt.i].file = DescriptorPath
      keys == {"built", "same", "adec", "bdec"} \cup (IF once THEN {"aenc", "benc"} ELSE {})
              \cup (IF gen THEN {"agdec", "bgdec"} ELSE {}) \cup (IF gen /\ once THEN {"agenc", "bgenc"} ELSE {})
  IN [k \in keys |-> IF k \in {"built", "same"} THEN TRUE
                     ELSE IF k \in {"adec", "aenc", "agdec", "agenc"} THEN oka ELSE okb]

\* a recorded xlate event: the property's premise (a valid proto2 / proto3 file), and what the generator owes the
\* specification (the pair is the translation, the input is made of string occurrences of the input message)
XlatePremise(e) == Translatable(e.file) /\ Valid(e.file, FALSE)
XlateWellFormed(e) == /\ e.xfile = Translate(e.file)
                      /\ ItemsInDomain(Ctx(e.file, FALSE), e.file, e.tgt, e.items)
XlateAgree(e) == LET x == XlateExpect(e) IN \A k \in DOMAIN x : k \in DOMAIN e.out /\ e.out[k] = x[k]
=============================================================================
