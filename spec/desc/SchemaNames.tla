----------------------------- MODULE SchemaNames -----------------------------
(***************************************************************************)
(* Names of protobuf declarations as TLA+ strings, and the name            *)
(* derivations that descriptors expose:                                    *)
(*   Join / ParentName / LastName   full names by parent-join              *)
(*   Lower                          ASCII lower-casing (group-like fields) *)
(*   JSONCamel                      default JSON name of a field           *)
(*   MapEntryName                   implied name of a map entry message    *)
(*   IsIdent / IsFullIdent          identifier validity                    *)
(* TLC evaluates Len, \o and SubSeq on strings, so characters are the      *)
(* one-character substrings Ch(s, i).                                      *)
(***************************************************************************)
EXTENDS Integers, Sequences

Ch(s, i) == SubSeq(s, i, i)

LowerMap == [A |-> "a", B |-> "b", C |-> "c", D |-> "d", E |-> "e", F |-> "f", G |-> "g", H |-> "h", I |-> "i",
             J |-> "j", K |-> "k", L |-> "l", M |-> "m", N |-> "n", O |-> "o", P |-> "p", Q |-> "q", R |-> "r",
             S |-> "s", T |-> "t", U |-> "u", V |-> "v", W |-> "w", X |-> "x", Y |-> "y", Z |-> "z"]
UpperMap == [a |-> "A", b |-> "B", c |-> "C", d |-> "D", e |-> "E", f |-> "F", g |-> "G", h |-> "H", i |-> "I",
             j |-> "J", k |-> "K", l |-> "L", m |-> "M", n |-> "N", o |-> "O", p |-> "P", q |-> "Q", r |-> "R",
             s |-> "S", t |-> "T", u |-> "U", v |-> "V", w |-> "W", x |-> "X", y |-> "Y", z |-> "Z"]
Digits == {"0", "1", "2", "3", "4", "5", "6", "7", "8", "9"}

IsUpperCh(c) == c \in DOMAIN LowerMap
IsLowerCh(c) == c \in DOMAIN UpperMap
LowerCh(c) == IF IsUpperCh(c) THEN LowerMap[c] ELSE c
UpperCh(c) == IF IsLowerCh(c) THEN UpperMap[c] ELSE c
IsIdentCh(c) == IsUpperCh(c) \/ IsLowerCh(c) \/ c \in Digits \/ c = "_"

RECURSIVE LowerFrom(_, _)
LowerFrom(s, i) == IF i > Len(s) THEN "" ELSE LowerCh(Ch(s, i)) \o LowerFrom(s, i + 1)
Lower(s) == LowerFrom(s, 1)

\* strs.JSONCamelCase: drop underscores, upper-case a lower-case letter that follows one
RECURSIVE CamelFrom(_, _, _)
CamelFrom(s, i, up) ==
  IF i > Len(s) THEN ""
  ELSE LET c == Ch(s, i) IN
       IF c = "_" THEN CamelFrom(s, i + 1, TRUE)
       ELSE (IF up THEN UpperCh(c) ELSE c) \o CamelFrom(s, i + 1, FALSE)
JSONCamel(s) == CamelFrom(s, 1, FALSE)

\* strs.MapEntryName: CamelCase (first letter and letters after '_' upper-cased, '_' dropped) + "Entry"
MapEntryName(s) == CamelFrom(s, 1, TRUE) \o "Entry"

Join(a, b) == IF a = "" THEN b ELSE a \o "." \o b

\* position of the last '.' in s (0 if none)
RECURSIVE LastDotFrom(_, _)
LastDotFrom(s, i) == IF i = 0 THEN 0 ELSE IF Ch(s, i) = "." THEN i ELSE LastDotFrom(s, i - 1)
LastDot(s) == LastDotFrom(s, Len(s))
ParentName(s) == LET d == LastDot(s) IN IF d = 0 THEN "" ELSE SubSeq(s, 1, d - 1)
LastName(s) == LET d == LastDot(s) IN SubSeq(s, d + 1, Len(s))

\* protoreflect.Name.IsValid: [A-Za-z_][A-Za-z0-9_]*
IsIdent(s) == /\ Len(s) > 0
              /\ Ch(s, 1) \notin Digits
              /\ \A i \in 1..Len(s) : IsIdentCh(Ch(s, i))

\* protoreflect.FullName.IsValid: identifiers separated by single dots
RECURSIVE FullIdentFrom(_, _, _)
FullIdentFrom(s, i, start) ==   \* start: position i begins a component
  IF i > Len(s) THEN ~start
  ELSE LET c == Ch(s, i) IN
       IF c = "." THEN (~start /\ FullIdentFrom(s, i + 1, TRUE))
       ELSE /\ IsIdentCh(c)
            /\ (start => c \notin Digits)
            /\ FullIdentFrom(s, i + 1, FALSE)
IsFullIdent(s) == Len(s) > 0 /\ FullIdentFrom(s, 1, TRUE)

IsAbsolute(ref) == Len(ref) > 0 /\ Ch(ref, 1) = "."
StripDot(ref) == SubSeq(ref, 2, Len(ref))
\* a type reference as written: ".a.B" or "a.B"
IsRef(ref) == IF IsAbsolute(ref) THEN IsFullIdent(StripDot(ref)) ELSE IsFullIdent(ref)

HasPrefix(s, p) == Len(s) >= Len(p) /\ SubSeq(s, 1, Len(p)) = p
=============================================================================
