----------------------------- MODULE SchemaValid -----------------------------
(***************************************************************************)
(* Definite schema errors (C35).  Defects(f, allow) is the set of error    *)
(* classes an abstract file exhibits -- a declarative definition that does *)
(* not follow the order in which protodesc.NewFile happens to check them:  *)
(* duplicate names or numbers, invalid or overlapping ranges, use of       *)
(* reserved names/numbers, fields in extension ranges, malformed map       *)
(* entries or groups, non-consecutive or empty oneofs, proto3-forbidden    *)
(* constructs, unresolvable references without AllowUnresolvable, invalid  *)
(* packed / enum / presence combinations.  Valid(f, allow) == no defect.   *)
(* A valid file must be accepted, a file with a defect must be rejected.   *)
(***************************************************************************)
EXTENDS SchemaSpace

MaxFieldNumber == 536870911
FirstReserved == 19000
LastReserved == 19999

Tag(cond, name) == IF cond THEN {name} ELSE {}
HasDup(seq) == Cardinality({seq[i] : i \in 1..Len(seq)}) < Len(seq)
InRanges(rs, n, incl) == \E q \in 1..Len(rs) : rs[q][1] <= n /\ (IF incl THEN n <= rs[q][2] ELSE n < rs[q][2])

\* [lo, hi] inclusive bounds of range k
Lo(rs, k) == rs[k][1]
Hi(rs, k, incl) == IF incl THEN rs[k][2] ELSE rs[k][2] - 1
RangesInverted(rs, incl) == \E k \in 1..Len(rs) : Lo(rs, k) > Hi(rs, k, incl)
RangesOverlap(rs, incl) == \E a, b \in 1..Len(rs) : a < b /\ ~(Hi(rs, a, incl) < Lo(rs, b) \/ Hi(rs, b, incl) < Lo(rs, a))
CrossOverlap(rs, qs) == \E a \in 1..Len(rs), b \in 1..Len(qs) : ~(Hi(rs, a, FALSE) < Lo(qs, b) \/ Hi(qs, b, FALSE) < Lo(rs, a))
FieldRangeBad(rs, mset) ==
  \E k \in 1..Len(rs) : \/ Lo(rs, k) < 1 \/ Hi(rs, k, FALSE) < 1
                        \/ (~mset /\ (Lo(rs, k) > MaxFieldNumber \/ Hi(rs, k, FALSE) > MaxFieldNumber))

\* every declared full name, with multiplicity
DeclNames(ctx, f) ==
  [i \in 1..Len(f.msgs) |-> ctx.mc[i].full]
  \o [i \in 1..Len(f.enums) |-> ctx.ec[i].full]
  \o Flatten([i \in 1..Len(f.msgs) |-> Map(f.msgs[i].fields, LAMBDA x : Join(ctx.mc[i].full, x.name))])
  \o Flatten([i \in 1..Len(f.msgs) |-> Map(f.msgs[i].oneofs, LAMBDA x : Join(ctx.mc[i].full, x.name))])
  \o Flatten([i \in 1..Len(f.enums) |-> Map(f.enums[i].vals, LAMBDA x : Join(ScopeFull(f, ctx.mc, f.enums[i].parent), x.name))])
  \o [i \in 1..Len(f.exts) |-> Join(ScopeFull(f, ctx.mc, f.exts[i].parent), f.exts[i].name)]
  \o [i \in 1..Len(f.svcs) |-> Join(f.pkg, f.svcs[i].name)]
  \o Flatten([i \in 1..Len(f.svcs) |-> Map(f.svcs[i].methods, LAMBDA x : Join(Join(f.pkg, f.svcs[i].name), x.name))])

SimpleNames(f) ==
  Map(f.msgs, LAMBDA x : x.name) \o Map(f.enums, LAMBDA x : x.name) \o Map(f.exts, LAMBDA x : x.name) \o Map(f.svcs, LAMBDA x : x.name)
  \o Flatten(Map(f.msgs, LAMBDA m : Map(m.fields, LAMBDA x : x.name) \o Map(m.oneofs, LAMBDA x : x.name)))
  \o Flatten(Map(f.enums, LAMBDA e : Map(e.vals, LAMBDA x : x.name)))
  \o Flatten(Map(f.svcs, LAMBDA s : Map(s.methods, LAMBDA x : x.name)))

FileDefects(ctx, f) ==
  Tag(f.syntax \notin {"proto2", "proto3", "editions"}, "syntax")
  \cup Tag(f.path = "", "path")
  \cup Tag(f.syntax = "editions" /\ (f.edition < EdProto2 \/ (f.edition > Ed2024 /\ f.edition # 9999)), "edition")
  \cup Tag(f.pkg # "" /\ ~IsFullIdent(f.pkg), "package")
  \cup Tag(\E i \in 1..Len(f.deps) : f.deps[i].missing /\ ~ctx.allow, "import_unresolved")
  \cup Tag(HasDup(Map(f.deps, LAMBDA d : d.path)) \/ (\E i \in 1..Len(f.deps) : f.deps[i].path = f.path), "import_dup")
  \cup Tag(LET ns == SimpleNames(f) IN \E i \in 1..Len(ns) : ~IsIdent(ns[i]), "badname")
  \cup Tag(HasDup(DeclNames(ctx, f)), "dupname")

TargetDefect(st, allow) ==
  CASE st = "ok" -> {}
    [] st = "notfound" -> {"unresolved"}
    [] st = "notimported" -> {"notimported"}
    [] st = "badname" -> {"badref"}
    [] st = "wrongkind" -> {"wrongkind"}
    [] st = "strayname" -> {"strayname"}
    [] st = "badkind" -> {"badkind"}
    [] OTHER -> {"unresolved"}

\* presence and default rules shared by fields and extensions
Presence(c, x, isExt) == c.card # 3 /\ (isExt \/ c.ef.fp \/ c.t.msg # "" \/ x.oneof # 0)
DefaultDefects(ctx, f, c, x, isExt) ==
  IF ~x.hd \/ c.t.st # "ok" THEN {}
  ELSE Tag(c.kind = KEnum /\ ~EnumDefault(f, c, x.def).found /\ ~(ctx.allow /\ IsIdent(x.def)), "default_enum")
       \cup Tag(UnknownEnumKind(c) /\ ~IsIdent(x.def), "default_enum")     \* (only an enum value name can be taken on trust)
       \cup Tag(~Presence(c, x, isExt), "default_implicit")
       \cup Tag(c.kind \in {KMessage, KGroup} \/ c.card = 3, "default_composite")

\* a proto2 group (pre-editions) must be declared next to its field and be named after it
GroupDefects(ctx, f, c, x, full) ==
  IF c.kind # KGroup \/ c.t.st # "ok" THEN {}
  ELSE Tag(f.syntax = "proto3", "group_proto3")
       \cup Tag(c.t.msgph, "group_unresolved")
       \cup Tag(~c.t.msgph /\ EditionOf(f.syntax, f.edition) < Ed2023
                /\ (\/ ParentName(full) # ParentName(c.t.msg)
                    \/ ~IsUpperCh(Ch(LastName(c.t.msg), 1))
                    \/ x.name # Lower(LastName(c.t.msg))), "group_shape")

MapKeyKinds == {8, 5, 17, 15, 3, 18, 16, 13, 7, 4, 6, 9}   \* bool, (s|sf)int32/64, (f)uint32/64, string
MapDefects(ctx, f, c, x, full) ==
  IF ~c.ismap \/ ~c.t.r.loc THEN Tag(c.ismap, "map_scope")
  ELSE LET e == f.msgs[c.t.r.i]
           ei == c.t.r.i
           emc == ctx.mc[ei]
           cores == TLCEval([j \in 1..Len(e.fields) |-> FieldCore(ctx, f, emc.full, emc.ef, TRUE, e.fields[j], FALSE)])
           Shape(j, nm, num) == /\ e.fields[j].name = nm /\ e.fields[j].num = num /\ cores[j].card = 1
                                /\ e.fields[j].oneof = 0 /\ ~e.fields[j].hd
       IN Tag(ParentName(full) # ParentName(c.t.msg), "map_scope")
          \cup Tag(e.name # MapEntryName(x.name), "map_name")
          \cup Tag(c.card # 3, "map_label")
          \cup Tag(Len(e.fields) # 2, "map_fields")
          \cup Tag(Len(e.xr) > 0, "map_xr")
          \cup Tag((\E k \in 1..Len(f.msgs) : f.msgs[k].parent = ei) \/ (\E k \in 1..Len(f.enums) : f.enums[k].parent = ei)
                   \/ (\E k \in 1..Len(f.exts) : f.exts[k].parent = ei), "map_nested")
          \cup (IF Len(e.fields) # 2 THEN {}
                ELSE Tag(~Shape(1, "key", 1), "map_key") \cup Tag(~Shape(2, "value", 2), "map_value")
                     \cup Tag(cores[1].kind \notin MapKeyKinds, "map_keykind")
                     \cup Tag(LET vs == EnumVals(f, cores[2].t) IN Len(vs) > 0 /\ vs[1].num # 0, "map_enum_zero"))

FieldDefects(ctx, f, i, j) ==
  LET m == f.msgs[i]
      mc == ctx.mc[i]
      x == m.fields[j]
      c == FieldCore(ctx, f, mc.full, mc.ef, m.mapentry, x, FALSE)
      full == Join(mc.full, x.name)
      members(k) == {q \in 1..Len(m.fields) : m.fields[q].oneof = k}
  IN TargetDefect(c.t.st, ctx.allow)
     \cup Tag(\E q \in 1..Len(m.rn) : m.rn[q] = x.name, "field_reserved_name")
     \cup Tag(x.num < 1 \/ x.num > MaxFieldNumber, "field_number")
     \cup Tag(c.card \notin {1, 2, 3}, "field_label")
     \cup Tag(InRanges(m.rr, x.num, FALSE), "field_reserved_number")
     \cup Tag(InRanges(m.xr, x.num, FALSE), "field_in_extension_range")
     \cup Tag(x.extendee # "", "field_extendee")
     \cup Tag(x.oneof > Len(m.oneofs), "oneof_index")
     \* proto3_optional is the spelling of "optional" in proto3: a singular field that is the only member of its own
     \* (synthetic) oneof -- a field in no oneof at all would be an "optional" field without presence
     \cup Tag(x.p3opt /\ (f.syntax # "proto3" \/ c.card # 1 \/ x.oneof = 0
                          \/ (x.oneof # 0 /\ x.oneof <= Len(m.oneofs) /\ Cardinality(members(x.oneof)) # 1)), "proto3_optional")
     \cup Tag(x.packed = "t" /\ ~(c.card = 3 /\ c.kind \notin Unpackable /\ ~c.ismap), "packed")
     \cup (IF c.t.st = "ok" THEN GroupDefects(ctx, f, c, x, full) \cup MapDefects(ctx, f, c, x, full)
                                 \cup DefaultDefects(ctx, f, c, x, FALSE) ELSE {})
     \cup Tag(f.syntax = "proto3" /\ c.card = 2, "proto3_required")
     \cup Tag(f.syntax = "proto3" /\ c.t.st = "ok" /\ EnumClosed(ctx, f, c.t), "proto3_closed_enum")
     \cup Tag(c.card = 1 /\ c.t.st = "ok" /\ ~Presence(c, x, FALSE) /\ EnumClosed(ctx, f, c.t), "implicit_closed_enum")

MsgDefects(ctx, f, i) ==
  LET m == f.msgs[i]
      mc == ctx.mc[i]
      n == Len(m.fields)
      members(k) == {q \in 1..n : m.fields[q].oneof = k}
      synth(k) == f.syntax = "proto3" /\ Cardinality(members(k)) = 1 /\ (\A q \in members(k) : m.fields[q].p3opt)
      cards == TLCEval([q \in 1..n |-> FieldCore(ctx, f, mc.full, mc.ef, m.mapentry, m.fields[q], FALSE).card])
      card(q) == cards[q]
  IN Tag(HasDup(m.rn), "reserved_name_dup")
     \cup Tag(FieldRangeBad(m.rr, m.mset) \/ RangesInverted(m.rr, FALSE), "reserved_range")
     \cup Tag(RangesOverlap(m.rr, FALSE), "reserved_overlap")
     \cup Tag(FieldRangeBad(m.xr, m.mset) \/ RangesInverted(m.xr, FALSE), "extension_range")
     \cup Tag(RangesOverlap(m.xr, FALSE), "extension_overlap")
     \cup Tag(CrossOverlap(m.rr, m.xr), "reserved_extension_overlap")
     \cup Tag(HasDup(Map(m.fields, LAMBDA x : x.num)), "field_number_dup")
     \cup Tag(m.mset /\ (~f.legacy \/ f.syntax = "proto3" \/ n > 0 \/ Len(m.xr) = 0), "messageset")
     \cup Tag(f.syntax = "proto3" /\ Len(m.xr) > 0, "proto3_extension_range")
     \cup UNION {FieldDefects(ctx, f, i, j) : j \in 1..n}
     \cup Tag(\E k \in 1..Len(m.oneofs) : members(k) = {}, "oneof_empty")
     \cup Tag(\E k \in 1..Len(m.oneofs) : \E a, b \in members(k) : \E q \in (a + 1)..(b - 1) : q \notin members(k), "oneof_gap")
     \cup Tag(\E k \in 1..Len(m.oneofs) : ~synth(k) /\ (\E q \in members(k) : card(q) # 1), "oneof_label")
     \cup Tag(\E a, b \in 1..Len(m.oneofs) : a < b /\ members(a) # {} /\ members(b) # {} /\ synth(a) /\ ~synth(b), "oneof_order")

EnumDefects(ctx, f, i) ==
  LET e == f.enums[i]
      nums == Map(e.vals, LAMBDA v : v.num)
  IN Tag(HasDup(e.rn), "reserved_name_dup")
     \cup Tag(RangesInverted(e.rr, TRUE), "enum_reserved_range")
     \cup Tag(RangesOverlap(e.rr, TRUE), "enum_reserved_overlap")
     \cup Tag(Len(e.vals) = 0, "enum_empty")
     \cup Tag(HasDup(nums) /\ ~e.alias, "enum_number_dup")
     \cup Tag(e.alias /\ ~HasDup(nums), "enum_alias_unused")
     \cup Tag(ctx.ec[i].ef.open /\ Len(e.vals) > 0 /\ e.vals[1].num # 0, "enum_open_first")
     \cup Tag(\E j \in 1..Len(e.vals) : \E q \in 1..Len(e.rn) : e.rn[q] = e.vals[j].name, "enum_reserved_name")
     \cup Tag(\E j \in 1..Len(e.vals) : InRanges(e.rr, e.vals[j].num, TRUE), "enum_reserved_number")

OptionMessages == {"google.protobuf.FileOptions", "google.protobuf.EnumOptions", "google.protobuf.EnumValueOptions",
                   "google.protobuf.MessageOptions", "google.protobuf.FieldOptions", "google.protobuf.OneofOptions",
                   "google.protobuf.ExtensionRangeOptions", "google.protobuf.ServiceOptions", "google.protobuf.MethodOptions"}

ExtDefects(ctx, f, i) ==
  LET x == f.exts[i]
      scope == ScopeFull(f, ctx.mc, x.parent)
      c == FieldCore(ctx, f, scope, ScopeEF(ctx.fef, ctx.mc, x.parent), FALSE, x, TRUE)
      full == Join(scope, x.name)
      ee == FindKind(ctx, f, scope, x.extendee, "m")
      resolved == ee.st = "ok" /\ ~ee.ph
      ranges == IF ~resolved THEN <<>> ELSE IF ee.r.loc THEN f.msgs[ee.r.i].xr ELSE f.imps[ee.r.i].xr
      mset == resolved /\ (IF ee.r.loc THEN f.msgs[ee.r.i].mset ELSE f.imps[ee.r.i].mset)
  IN TargetDefect(ee.st, ctx.allow) \cup TargetDefect(c.t.st, ctx.allow)
     \cup Tag(x.num < 0 \/ (FirstReserved <= x.num /\ x.num <= LastReserved), "extension_number")
     \cup Tag(c.card \notin {1, 3}, "extension_label")
     \cup Tag(x.hj /\ x.json # JSONCamel(x.name), "extension_json_name")
     \cup Tag(x.oneof # 0, "extension_oneof")
     \cup Tag(resolved /\ ~InRanges(ranges, x.num, FALSE), "extension_not_in_range")
     \cup Tag(mset /\ ~(c.kind \in {0, KMessage} /\ c.card = 1), "extension_messageset")
     \cup Tag(x.packed = "t" /\ ~(c.card = 3 /\ c.kind \notin Unpackable), "packed")
     \cup (IF c.t.st = "ok" THEN GroupDefects(ctx, f, c, x, full) \cup DefaultDefects(ctx, f, c, x, TRUE) ELSE {})
     \cup Tag(c.t.st = "ok" /\ TargetIsMapEntry(f, c.t), "extension_map_entry")
     \cup Tag(f.syntax = "proto3" /\ ee.st = "ok" /\ ee.full \notin OptionMessages, "proto3_extension")

SvcDefects(ctx, f, i) ==
  LET s == f.svcs[i]
      full == Join(f.pkg, s.name)
  IN UNION {TargetDefect(FindKind(ctx, f, full, s.methods[j].in, "m").st, ctx.allow)
            \cup TargetDefect(FindKind(ctx, f, full, s.methods[j].out, "m").st, ctx.allow) : j \in 1..Len(s.methods)}

DefectsWith(ctx, f) ==
  FileDefects(ctx, f)
  \cup UNION {MsgDefects(ctx, f, i) : i \in 1..Len(f.msgs)}
  \cup UNION {EnumDefects(ctx, f, i) : i \in 1..Len(f.enums)}
  \cup UNION {ExtDefects(ctx, f, i) : i \in 1..Len(f.exts)}
  \cup UNION {SvcDefects(ctx, f, i) : i \in 1..Len(f.svcs)}

Defects(f, allow) == DefectsWith(Ctx(f, allow), f)
Valid(f, allow) == Defects(f, allow) = {}

\* ---- the domain on which Views is demanded of an *accepted* file whose validity nobody vouches for:
\* default texts must be in the canonical form that formatting a parsed default reproduces
IntKinds == {3, 4, 5, 6, 7, 13, 15, 16, 17, 18}
RECURSIVE AllDigits(_, _)
AllDigits(s, i) == i > Len(s) \/ (Ch(s, i) \in Digits /\ AllDigits(s, i + 1))
CanonInt(s) == \/ s = "0"
               \/ (Len(s) > 0 /\ Ch(s, 1) \in (Digits \ {"0"}) /\ AllDigits(s, 2))
               \/ (Len(s) > 1 /\ Ch(s, 1) = "-" /\ Ch(s, 2) \in (Digits \ {"0"}) /\ AllDigits(s, 3))
CanonFloats == {"0", "1.5", "-2", "5", "inf", "-inf", "nan", "1e+30", "3.5"}
CanonDefault(kind, s) ==
  IF kind \in IntKinds THEN CanonInt(s)
  ELSE IF kind \in {1, 2} THEN s \in CanonFloats
  ELSE TRUE
CanonicalDefaults(f) ==
  /\ \A i \in 1..Len(f.msgs) : \A j \in 1..Len(f.msgs[i].fields) :
        LET x == f.msgs[i].fields[j] IN x.hd => CanonDefault(x.type, x.def)
  /\ \A i \in 1..Len(f.exts) : f.exts[i].hd => CanonDefault(f.exts[i].type, f.exts[i].def)
=============================================================================
