----------------------------- MODULE SchemaInject -----------------------------
(***************************************************************************)
(* Invalidity injections (C35).  Injections(f) is the set of all           *)
(* [rule, class, file] such that `file` is the valid abstract file f with  *)
(* one targeted edit that makes it *definitely* invalid, `class` being the *)
(* defect class (SchemaValid) the edit must exhibit.  One rule per         *)
(* definite-error rule of protodesc (desc.go, desc_init.go,                *)
(* desc_resolve.go, desc_validate.go) and internal/filedesc/desc_list.go.  *)
(* MC_SchemaSpace checks class \in Defects(file) for every injection of    *)
(* every reachable valid file, and the tour demands that NewFile rejects   *)
(* it (unresolvable references: only without AllowUnresolvable).           *)
(* RangePositionCases adds, for ranges, the whole neighbourhood: every     *)
(* relative position of two ranges, the invalid ones with their class, the *)
(* valid ones (class "": ranges apart or merely touching) to be accepted.  *)
(***************************************************************************)
EXTENDS SchemaBuild

Inj(rule, class, g) == [rule |-> rule, class |-> class, file |-> g]
Idx(seq) == 1..Len(seq)

FileInjections(f) ==
  {Inj("syntax_unknown", "syntax", [f EXCEPT !.syntax = "proto4"]),
   Inj("path_empty", "path", [f EXCEPT !.path = ""]),
   Inj("package_invalid", "package", [f EXCEPT !.pkg = "p..q"]),
   Inj("import_unresolvable", "import_unresolved", [f EXCEPT !.deps = Append(@, [path |-> "missing.proto", public |-> FALSE, missing |-> TRUE])]),
   Inj("import_self", "import_dup", [f EXCEPT !.deps = Append(@, [path |-> f.path, public |-> FALSE, missing |-> FALSE])])}
  \cup (IF f.syntax = "editions" THEN {Inj("edition_unknown", "edition", [f EXCEPT !.edition = 0]),
                                       Inj("edition_legacy", "edition", [f EXCEPT !.edition = 900]),
                                       Inj("edition_future", "edition", [f EXCEPT !.edition = 1002])} ELSE {})
  \cup (IF f.deps # <<>> THEN {Inj("import_twice", "import_dup", [f EXCEPT !.deps = Append(@, f.deps[1])])} ELSE {})

MsgInjections(f) ==
  UNION {
    LET m == f.msgs[i] IN
    {Inj("message_name_invalid", "badname", [f EXCEPT !.msgs[i].name = "1bad"]),
     Inj("reserved_range_empty", "reserved_range", [f EXCEPT !.msgs[i].rr = Append(@, <<7, 7>>)]),
     Inj("reserved_range_inverted", "reserved_range", [f EXCEPT !.msgs[i].rr = Append(@, <<9, 8>>)]),
     Inj("reserved_range_zero", "reserved_range", [f EXCEPT !.msgs[i].rr = Append(@, <<0, 3>>)]),
     Inj("reserved_range_too_big", "reserved_range", [f EXCEPT !.msgs[i].rr = Append(@, <<536870911, 536870913>>)]),
     Inj("reserved_ranges_overlap", "reserved_overlap", [f EXCEPT !.msgs[i].rr = @ \o << <<300, 310>>, <<309, 320>> >>]),
     Inj("reserved_name_twice", "reserved_name_dup", [f EXCEPT !.msgs[i].rn = @ \o <<"dup", "dup">>]),
     Inj("extension_range_zero", "extension_range", [f EXCEPT !.msgs[i].xr = Append(@, <<0, 3>>)]),
     Inj("extension_range_inverted", "extension_range", [f EXCEPT !.msgs[i].xr = Append(@, <<3000, 2999>>)]),
     Inj("extension_ranges_overlap", "extension_overlap", [f EXCEPT !.msgs[i].xr = @ \o << <<5000, 5010>>, <<5009, 5020>> >>]),
     Inj("reserved_extension_overlap", "reserved_extension_overlap",
         [f EXCEPT !.msgs[i].rr = Append(@, <<400, 410>>), !.msgs[i].xr = Append(@, <<405, 420>>)]),
     Inj("oneof_empty", "oneof_empty", [f EXCEPT !.msgs[i].oneofs = Append(@, [name |-> "empty_oneof"])]),
     Inj("messageset", "messageset", [f EXCEPT !.msgs[i].mset = TRUE])}
    \cup (IF f.syntax = "proto3" THEN {Inj("proto3_extension_range", "proto3_extension_range", [f EXCEPT !.msgs[i].xr = Append(@, <<1000, 2000>>)])} ELSE {})
    \cup (IF \E k \in 1..(i - 1) : f.msgs[k].parent = m.parent
          THEN {Inj("message_name_twice", "dupname", [f EXCEPT !.msgs[i].name = f.msgs[CHOOSE k \in 1..(i - 1) : f.msgs[k].parent = m.parent].name])}
          ELSE {})
    \* a second member of an existing oneof after an unrelated field: non-consecutive
    \cup (IF Len(m.oneofs) > 0 /\ (\E q \in Idx(m.fields) : m.fields[q].oneof = 1) /\ ~m.mapentry
          THEN {Inj("oneof_not_consecutive", "oneof_gap",
                    [f EXCEPT !.msgs[i].fields = @ \o <<NewField("gap_a", 900, 1, 5, ""), [NewField("gap_b", 901, 1, 5, "") EXCEPT !.oneof = 1]>>])}
          ELSE {})
    : i \in Idx(f.msgs)}

FieldInjections(f) ==
  UNION { UNION {
    LET m == f.msgs[i]
        x == m.fields[j]
        set(y) == [f EXCEPT !.msgs[i].fields[j] = y]
        scalar == x.type \notin {0, KMessage, KGroup, KEnum}     \* (0: `type` omitted, the field is what type_name denotes)
    IN
    {Inj("field_number_zero", "field_number", set([x EXCEPT !.num = 0])),
     Inj("field_number_negative", "field_number", set([x EXCEPT !.num = -1])),
     Inj("field_number_too_big", "field_number", set([x EXCEPT !.num = 536870912])),
     Inj("field_label_unknown", "field_label", set([x EXCEPT !.label = 4])),
     Inj("field_name_invalid", "badname", set([x EXCEPT !.name = "a.b"])),
     Inj("field_name_empty", "badname", set([x EXCEPT !.name = ""])),
     Inj("field_uses_reserved_name", "field_reserved_name", [f EXCEPT !.msgs[i].rn = Append(@, x.name)]),
     Inj("field_uses_reserved_number", "field_reserved_number", [f EXCEPT !.msgs[i].rr = Append(@, <<x.num, x.num + 1>>)]),
     Inj("field_in_extension_range", "field_in_extension_range", [f EXCEPT !.msgs[i].xr = Append(@, <<x.num, x.num + 1>>)]),
     Inj("field_with_extendee", "field_extendee", set([x EXCEPT !.extendee = "." \o MsgFullOf(f, i)])),
     Inj("oneof_index_out_of_range", "oneof_index", set([x EXCEPT !.oneof = Len(m.oneofs) + 1])),
     Inj("kind_unknown", "badkind", set([x EXCEPT !.type = 19, !.tname = ""]))}
    \cup (IF j > 1 THEN {Inj("field_name_twice", "dupname", set([x EXCEPT !.name = m.fields[1].name])),
                         Inj("field_number_twice", "field_number_dup", set([x EXCEPT !.num = m.fields[1].num]))} ELSE {})
    \cup (IF \E k \in Idx(f.msgs) : f.msgs[k].parent = i
          THEN {Inj("field_named_like_nested_message", "dupname", set([x EXCEPT !.name = f.msgs[CHOOSE k \in Idx(f.msgs) : f.msgs[k].parent = i].name]))}
          ELSE {})
    \cup (IF x.label # 3 \/ x.type \in Unpackable THEN {Inj("packed_not_packable", "packed", set([x EXCEPT !.packed = "t"]))} ELSE {})
    \cup (IF scalar THEN {Inj("type_name_on_scalar", "strayname", set([x EXCEPT !.tname = "." \o MsgFullOf(f, i)]))} ELSE {})
    \cup (IF x.type \in {0, KMessage, KGroup, KEnum}
          THEN {Inj("type_unresolvable", "unresolved", set([x EXCEPT !.tname = ".p.Missing"])),
                Inj("type_unresolvable_relative", "unresolved", set([x EXCEPT !.tname = "Missing.Type"])),
                Inj("type_name_malformed", "badref", set([x EXCEPT !.tname = ".p..M"])),
                Inj("type_name_empty", "badref", set([x EXCEPT !.tname = ""]))}
          ELSE {})
    \cup (IF x.type = KMessage /\ f.enums # <<>> THEN {Inj("message_type_names_enum", "wrongkind", set([x EXCEPT !.tname = "." \o EnumFullOf(f, 1)]))} ELSE {})
    \* `type` omitted and type_name denotes neither a message nor an enum
    \cup (IF x.type = 0 THEN {Inj("untyped_names_field", "wrongkind", set([x EXCEPT !.tname = "." \o Join(MsgFullOf(f, i), x.name)]))} ELSE {})
    \cup (IF x.type = KEnum THEN {Inj("enum_type_names_message", "wrongkind", set([x EXCEPT !.tname = "." \o MsgFullOf(f, i)])),
                                  Inj("enum_type_names_field", "wrongkind", set([x EXCEPT !.tname = "." \o Join(MsgFullOf(f, i), x.name)]))} ELSE {})
    \cup (IF x.type = KEnum /\ x.label = 1 THEN {Inj("default_names_no_value", "default_enum", set([x EXCEPT !.hd = TRUE, !.def = "NO_SUCH_VALUE"]))} ELSE {})
    \cup (IF x.label = 3 /\ scalar THEN {Inj("default_on_repeated", "default_composite", set([x EXCEPT !.hd = TRUE, !.def = IF x.type = 9 THEN "x" ELSE "1"]))} ELSE {})
    \cup (IF x.type = KMessage /\ x.label = 1 THEN {Inj("default_on_message", "default_composite", set([x EXCEPT !.hd = TRUE, !.def = "x"]))} ELSE {})
    \cup (IF x.oneof # 0 /\ ~x.p3opt THEN {Inj("oneof_member_repeated", "oneof_label", set([x EXCEPT !.label = 3]))} ELSE {})
    \* proto3-forbidden constructs
    \cup (IF f.syntax = "proto3" /\ x.label = 1 /\ x.oneof = 0
          THEN {Inj("proto3_required", "proto3_required", set([x EXCEPT !.label = 2]))}
               \cup (IF scalar THEN {Inj("proto3_default", "default_implicit", set([x EXCEPT !.hd = TRUE, !.def = IF x.type = 9 THEN "x" ELSE "1"]))} ELSE {})
          ELSE {})
    \cup (IF f.syntax = "proto3" /\ x.type = KMessage /\ ~m.mapentry /\ ~(\E k \in Idx(f.msgs) : f.msgs[k].mapentry /\ "." \o MsgFullOf(f, k) = x.tname)
          THEN {Inj("proto3_group", "group_proto3", set([x EXCEPT !.type = KGroup]))} ELSE {})
    \cup (IF f.syntax # "proto3" /\ x.label = 1 THEN {Inj("proto3_optional_outside_proto3", "proto3_optional", set([x EXCEPT !.p3opt = TRUE]))} ELSE {})
    \cup (IF f.syntax = "proto3" /\ x.label = 3 THEN {Inj("proto3_optional_repeated", "proto3_optional", set([x EXCEPT !.p3opt = TRUE]))} ELSE {})
    \* proto3_optional without the synthetic oneof it stands for (no oneof_decl, no oneof_index)
    \cup (IF f.syntax = "proto3" /\ x.label = 1 /\ x.oneof = 0 /\ ~x.p3opt
          THEN {Inj("proto3_optional_outside_oneof", "proto3_optional", set([x EXCEPT !.p3opt = TRUE]))} ELSE {})
    \* ... or moved out of its oneof, leaving the declaration behind
    \cup (IF f.syntax = "proto3" /\ x.p3opt /\ x.oneof # 0
          THEN {Inj("proto3_optional_oneof_index_dropped", "proto3_optional", set([x EXCEPT !.oneof = 0]))} ELSE {})
    \* a closed enum of another file where only open enums may be used
    \cup (IF f.syntax = "proto3" /\ x.label = 1 /\ x.oneof = 0 /\ ~x.hd /\ ~m.mapentry /\ x.type \notin {KMessage, KGroup}
          THEN {Inj("proto3_field_of_closed_enum", "proto3_closed_enum",
                    [f EXCEPT !.deps = <<DepImport>>, !.imps = <<DepMsg, DepClosed, DepOpen>>,
                              !.msgs[i].fields[j] = [x EXCEPT !.type = KEnum, !.tname = ".dep.DC"]])}
          ELSE {})
    \* ... also where the field has explicit presence (oneof member, proto3 optional)
    \cup (IF f.syntax = "proto3" /\ x.oneof # 0 /\ ~m.mapentry /\ x.type \notin {KMessage, KGroup}
          THEN {Inj("proto3_oneof_member_of_closed_enum", "proto3_closed_enum",
                    [f EXCEPT !.deps = <<DepImport>>, !.imps = <<DepMsg, DepClosed, DepOpen>>,
                              !.msgs[i].fields[j] = [x EXCEPT !.type = KEnum, !.tname = ".dep.DC"]])}
          ELSE {})
    \cup (IF f.syntax = "editions" /\ x.label = 1 /\ x.oneof = 0 /\ ~x.hd /\ ~m.mapentry /\ x.type \notin {KMessage, KGroup}
          THEN {Inj("implicit_field_of_closed_enum", "implicit_closed_enum",
                    [f EXCEPT !.deps = <<DepImport>>, !.imps = <<DepMsg, DepClosed, DepOpen>>,
                              !.msgs[i].fields[j] = [x EXCEPT !.type = KEnum, !.tname = ".dep.DC", !.feat.fp = "IMPLICIT"]])}
          ELSE {})
    \* presence / enum combinations under editions
    \cup (IF f.syntax = "editions" /\ x.hd /\ x.oneof = 0 /\ x.type # KMessage
          THEN {Inj("default_with_implicit_presence", "default_implicit", set([x EXCEPT !.feat.fp = "IMPLICIT"]))} ELSE {})
    \cup (IF f.syntax = "editions" /\ x.type = KEnum /\ x.label = 1 /\ x.oneof = 0 /\ ~x.hd
             /\ EnumClosed(Ctx(f, FALSE), f, Target(Ctx(f, FALSE), f, MsgFullOf(f, i), KEnum, x.tname))
          THEN {Inj("closed_enum_with_implicit_presence", "implicit_closed_enum", set([x EXCEPT !.feat.fp = "IMPLICIT"]))} ELSE {})
    \* groups (proto2)
    \cup (IF x.type = KGroup /\ f.syntax = "proto2"
          THEN {Inj("group_field_not_lowercase_of_message", "group_shape", set([x EXCEPT !.name = "other_name"])),
                Inj("group_message_in_other_scope", "group_shape", set([x EXCEPT !.tname = "." \o MsgFullOf(f, 1)]))} ELSE {})
    \* maps
    \cup (IF m.mapentry /\ j = 1
          THEN {Inj("map_key_float", "map_keykind", set([x EXCEPT !.type = 2])),
                Inj("map_key_bytes", "map_keykind", set([x EXCEPT !.type = 12])),
                Inj("map_key_number", "map_key", set([x EXCEPT !.num = 3])),
                Inj("map_key_name", "map_key", set([x EXCEPT !.name = "k"])),
                Inj("map_key_repeated", "map_key", set([x EXCEPT !.label = 3])),
                Inj("map_entry_third_field", "map_fields", [f EXCEPT !.msgs[i].fields = Append(@, NewField("extra", 3, 1, 5, ""))]),
                Inj("map_entry_one_field", "map_fields", [f EXCEPT !.msgs[i].fields = <<x>>]),
                Inj("map_entry_extension_range", "map_xr", [f EXCEPT !.msgs[i].xr = <<<<10, 20>>>>]),
                Inj("map_entry_name", "map_name", [f EXCEPT !.msgs[i].name = "WrongEntry",
                      !.msgs[m.parent].fields = [q \in Idx(f.msgs[m.parent].fields) |->
                          IF f.msgs[m.parent].fields[q].tname = "." \o MsgFullOf(f, i)
                          THEN [f.msgs[m.parent].fields[q] EXCEPT !.tname = "." \o Join(MsgFullOf(f, m.parent), "WrongEntry")]
                          ELSE f.msgs[m.parent].fields[q]]])}
          ELSE {})
    \cup (IF m.mapentry /\ j = 2 THEN {Inj("map_value_default", "map_value", set([x EXCEPT !.hd = TRUE, !.def = IF x.type = 9 THEN "x" ELSE "1"]))} ELSE {})
    \cup (IF ~m.mapentry /\ x.label = 3 /\ x.type = KMessage /\ (\E k \in Idx(f.msgs) : f.msgs[k].mapentry /\ "." \o MsgFullOf(f, k) = x.tname)
          THEN {Inj("map_field_not_repeated", "map_label", set([x EXCEPT !.label = 1])),
                Inj("map_field_packed", "packed", set([x EXCEPT !.packed = "t"]))} ELSE {})
    : j \in Idx(f.msgs[i].fields)} : i \in Idx(f.msgs)}

EnumInjections(f) ==
  UNION {
    LET e == f.enums[i]
        open == Ctx(f, FALSE).ec[i].ef.open
    IN
    {Inj("enum_without_values", "enum_empty", [f EXCEPT !.enums[i].vals = <<>>]),
     Inj("enum_reserved_range_inverted", "enum_reserved_range", [f EXCEPT !.enums[i].rr = Append(@, <<5, 4>>)]),
     Inj("enum_reserved_ranges_overlap", "enum_reserved_overlap", [f EXCEPT !.enums[i].rr = @ \o << <<50, 60>>, <<60, 70>> >>]),
     Inj("enum_reserved_name_twice", "reserved_name_dup", [f EXCEPT !.enums[i].rn = @ \o <<"dup", "dup">>]),
     Inj("enum_value_uses_reserved_name", "enum_reserved_name", [f EXCEPT !.enums[i].rn = Append(@, e.vals[1].name)]),
     Inj("enum_value_uses_reserved_number", "enum_reserved_number", [f EXCEPT !.enums[i].rr = Append(@, <<e.vals[1].num, e.vals[1].num>>)]),
     Inj("enum_name_invalid", "badname", [f EXCEPT !.enums[i].name = "9E"])}
    \cup (IF ~e.alias THEN {Inj("allow_alias_without_alias", "enum_alias_unused", [f EXCEPT !.enums[i].alias = TRUE])} ELSE {})
    \cup (IF ~e.alias /\ Len(e.vals) > 1 THEN {Inj("enum_number_twice", "enum_number_dup", [f EXCEPT !.enums[i].vals[2].num = e.vals[1].num])} ELSE {})
    \cup (IF Len(e.vals) > 1 THEN {Inj("enum_value_name_twice", "dupname", [f EXCEPT !.enums[i].vals[2].name = e.vals[1].name])} ELSE {})
    \cup (IF open THEN {Inj("open_enum_first_value_nonzero", "enum_open_first", [f EXCEPT !.enums[i].vals[1].num = 77])} ELSE {})
    \cup (IF \E k \in Idx(f.msgs) : f.msgs[k].parent = e.parent
          THEN {Inj("enum_value_named_like_sibling_message", "dupname",
                    [f EXCEPT !.enums[i].vals[1].name = f.msgs[CHOOSE k \in Idx(f.msgs) : f.msgs[k].parent = e.parent].name])}
          ELSE {})
    : i \in Idx(f.enums)}

ExtInjections(f) ==
  UNION {
    LET x == f.exts[i]
        set(y) == [f EXCEPT !.exts[i] = y]
    IN
    {Inj("extension_number_outside_ranges", "extension_not_in_range", set([x EXCEPT !.num = 5])),
     Inj("extension_number_reserved", "extension_number", set([x EXCEPT !.num = 19500])),
     Inj("extension_number_negative", "extension_number", set([x EXCEPT !.num = -3])),
     Inj("extension_required", "extension_label", set([x EXCEPT !.label = 2])),
     Inj("extension_in_oneof", "extension_oneof", set([x EXCEPT !.oneof = 1])),
     Inj("extension_json_name", "extension_json_name", set([x EXCEPT !.hj = TRUE, !.json = "other"])),
     Inj("extendee_unresolvable", "unresolved", set([x EXCEPT !.extendee = ".p.Missing"])),
     Inj("extendee_empty", "badref", set([x EXCEPT !.extendee = ""]))}
    \cup (IF f.enums # <<>> THEN {Inj("extendee_names_enum", "wrongkind", set([x EXCEPT !.extendee = "." \o EnumFullOf(f, 1)]))} ELSE {})
    \cup (IF x.label = 1 \/ x.type \in Unpackable THEN {Inj("extension_packed_not_packable", "packed", set([x EXCEPT !.packed = "t"]))} ELSE {})
    \cup (IF \E k \in Idx(f.msgs) : f.msgs[k].mapentry
          THEN {Inj("extension_of_map_entry_type", "extension_map_entry",
                    set([x EXCEPT !.type = KMessage, !.label = 1, !.tname = "." \o MsgFullOf(f, CHOOSE k \in Idx(f.msgs) : f.msgs[k].mapentry)]))}
          ELSE {})
    : i \in Idx(f.exts)}
  \cup (IF f.syntax = "proto3" /\ f.msgs # <<>> /\ ~f.msgs[1].mapentry
        THEN {Inj("proto3_extension", "proto3_extension",
                  [f EXCEPT !.exts = Append(@, [NewField("px", 1000, 1, 5, "") EXCEPT !.extendee = "." \o MsgFullOf(f, 1), !.parent = IF f.exts = <<>> THEN 0 ELSE f.exts[Len(f.exts)].parent])])}
        ELSE {})

SvcInjections(f) ==
  UNION {
    {Inj("method_input_unresolvable", "unresolved", [f EXCEPT !.svcs[i].methods[1].in = ".p.Missing"]),
     Inj("method_output_unresolvable", "unresolved", [f EXCEPT !.svcs[i].methods[1].out = "Missing"]),
     Inj("service_name_invalid", "badname", [f EXCEPT !.svcs[i].name = "S-1"])}
    \cup (IF f.enums # <<>> THEN {Inj("method_input_names_enum", "wrongkind", [f EXCEPT !.svcs[i].methods[1].in = "." \o EnumFullOf(f, 1)])} ELSE {})
    \cup (IF Len(f.svcs[i].methods) > 1 THEN {Inj("method_name_twice", "dupname", [f EXCEPT !.svcs[i].methods[2].name = f.svcs[i].methods[1].name])} ELSE {})
    \cup (IF f.msgs # <<>> /\ f.msgs[1].parent = 0 THEN {Inj("service_named_like_message", "dupname", [f EXCEPT !.svcs[i].name = f.msgs[1].name])} ELSE {})
    : i \in Idx(f.svcs)}

\* a declaration of a file that is not imported
ImportInjections(f) ==
  IF f.deps = <<>> \/ ~(\E i \in Idx(f.msgs) : \E j \in Idx(f.msgs[i].fields) : HasPrefix(f.msgs[i].fields[j].tname, ".dep.")) THEN {}
  ELSE {Inj("type_of_file_not_imported", "notimported",
            [f EXCEPT !.deps = <<>>, !.imps = [k \in Idx(f.imps) |-> [f.imps[k] EXCEPT !.vis = FALSE]]])}

\* ---- every relative position of two ranges (C35: overlapping ranges are rejected, ranges that merely touch are not)
\* A fixed range A and every range B with ends on a grid around A's ends (disjoint, touching on either side, sharing
\* exactly A's first / last number, crossing either end, nested, equal, containing, single numbers), for reserved x
\* reserved and extension x extension (both list orders), reserved x extension and extension x reserved.  The
\* specification decides overlap on inclusive ends (SchemaValid!RangesOverlap / CrossOverlap); class "" says that the
\* two ranges are apart and the file is still valid -- it must be accepted.
PosA == <<400, 410>>                                              \* end exclusive: numbers 400..409
PosGrid == {395, 399, 400, 401, 405, 409, 410, 411, 415}
PosB == {b \in PosGrid \X PosGrid : b[1] < b[2]}
EnumPosA == <<50, 60>>                                            \* end inclusive: numbers 50..60
EnumPosGrid == {45, 49, 50, 51, 55, 59, 60, 61, 65}
EnumPosB == {b \in EnumPosGrid \X EnumPosGrid : b[1] <= b[2]}
\* the ranges of a message do not interact with anything else in it: one bare message per file is enough (quick tier)
PositionHost(f, i) == /\ f.msgs[i].fields = <<>> /\ f.msgs[i].rr = <<>> /\ f.msgs[i].xr = <<>> /\ ~f.msgs[i].mapentry /\ ~f.msgs[i].mset
                      /\ (Thorough \/ (Len(f.msgs) = 1 /\ f.enums = <<>> /\ f.deps = <<>> /\ f.svcs = <<>> /\ ~f.msgs[i].dep /\ f.msgs[i].feat = NoFS))
EnumPositionHost(f, i) == /\ f.enums[i].rr = <<>> /\ Len(f.enums[i].vals) = 1 /\ f.enums[i].vals[1].num = 0
                          /\ (Thorough \/ (Len(f.enums) = 1 /\ f.msgs = <<>> /\ f.deps = <<>> /\ f.enums[i].feat = NoFS))
RangePositionCases(f) ==
  UNION {
    IF ~PositionHost(f, i) THEN {}
    ELSE UNION {
      LET same == RangesOverlap(<<PosA, b>>, FALSE)
          cross == CrossOverlap(<<PosA>>, <<b>>)
      IN {Inj("reserved_ranges_position", IF same THEN "reserved_overlap" ELSE "", [f EXCEPT !.msgs[i].rr = <<PosA, b>>]),
          Inj("reserved_ranges_position", IF same THEN "reserved_overlap" ELSE "", [f EXCEPT !.msgs[i].rr = <<b, PosA>>])}
         \cup (IF f.syntax = "proto3" THEN {}
               ELSE {Inj("extension_ranges_position", IF same THEN "extension_overlap" ELSE "", [f EXCEPT !.msgs[i].xr = <<PosA, b>>]),
                     Inj("extension_ranges_position", IF same THEN "extension_overlap" ELSE "", [f EXCEPT !.msgs[i].xr = <<b, PosA>>]),
                     Inj("reserved_extension_position", IF cross THEN "reserved_extension_overlap" ELSE "",
                         [f EXCEPT !.msgs[i].rr = <<PosA>>, !.msgs[i].xr = <<b>>]),
                     Inj("extension_reserved_position", IF cross THEN "reserved_extension_overlap" ELSE "",
                         [f EXCEPT !.msgs[i].xr = <<PosA>>, !.msgs[i].rr = <<b>>])})
      : b \in PosB}
    : i \in Idx(f.msgs)}
  \cup UNION {
    IF ~EnumPositionHost(f, i) THEN {}
    ELSE UNION {
      LET same == RangesOverlap(<<EnumPosA, b>>, TRUE)
      IN {Inj("enum_reserved_ranges_position", IF same THEN "enum_reserved_overlap" ELSE "", [f EXCEPT !.enums[i].rr = <<EnumPosA, b>>]),
          Inj("enum_reserved_ranges_position", IF same THEN "enum_reserved_overlap" ELSE "", [f EXCEPT !.enums[i].rr = <<b, EnumPosA>>])}
      : b \in EnumPosB}
    : i \in Idx(f.enums)}

Injections(f) == FileInjections(f) \cup MsgInjections(f) \cup FieldInjections(f) \cup EnumInjections(f)
                 \cup ExtInjections(f) \cup SvcInjections(f) \cup ImportInjections(f) \cup RangePositionCases(f)

\* classes that AllowUnresolvable turns into placeholders instead of errors
UnresolvableClasses == {"unresolved", "import_unresolved"}
=============================================================================
