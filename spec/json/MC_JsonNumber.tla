--------------------------- MODULE MC_JsonNumber ---------------------------
(***************************************************************************)
(* All character strings up to MaxLen over a number alphabet (one state    *)
(* per string).  TLC checks on every string                                *)
(*   SyntaxAgree   structural grammar = DFA = transcription of parseNumber  *)
(*                 (alone, and followed by every delimiter class)          *)
(*   MeaningAgree  value semantics = transcription of parseNumberParts +   *)
(*                 normalizeToIntString + ParseInt/ParseUint, all kinds    *)
(*   GrammarAgree  the document grammar and the token machine agree with   *)
(*                 the number grammar on the bare literal                  *)
(*   DecimalSelf   (once) JsonDecimal against native integers and the      *)
(*                 bytes <-> decimal conversions on the boundary values    *)
(* and emits the tour: EmitDoc (C21: the literal alone and in every        *)
(* delimiter context as a document) or EmitNum (C22: the literal, bare and *)
(* quoted, for every scalar kind).                                         *)
(***************************************************************************)
EXTENDS JsonCases, Json, FiniteSets

CONSTANTS Alphabet, MaxLen, EmitLen, Kinds, Ctxs     \* strings up to MaxLen are checked, those up to EmitLen also emitted

VARIABLE s
Init == s = <<>>
Next == Len(s) < MaxLen /\ \E c \in Alphabet : s' = Append(s, c)

Delims == {32, 10, 44, 93, 125, 58, 34, 0, 47}
SyntaxAgree ==
  /\ NumParts(s).ok = DfaAccepts(s)
  /\ ImplNumberLen(s, 1) = (IF DfaAccepts(s) THEN Len(s) ELSE 0)
  /\ \A d \in Delims : ImplNumberLen(Append(s, d), 1) = (IF DfaAccepts(s) THEN Len(s) ELSE 0)
MeaningAgree ==
  IsNumber(s) => LET p == NumParts(s) IN \A k \in IntKinds : ImplInt(p, k) = IntMeaning(p, k)
GrammarAgree ==
  /\ ValidJson(s) = IsNumber(s)
  /\ DecAccepts(s) = IsNumber(s)
  /\ (IsNumber(s) => ParseDoc(s).c = <<Tok("num", s)>> /\ DecRun(s).c = <<Tok("num", s)>>)

Boundary == {<<0,0,0,0,0,0,0,0>>, <<1,0,0,0,0,0,0,0>>, <<255,255,255,127,0,0,0,0>>, <<0,0,0,128,0,0,0,0>>,
             <<255,255,255,255,0,0,0,0>>, <<0,0,0,0,1,0,0,0>>, <<255,255,255,255,255,255,255,127>>,
             <<0,0,0,0,0,0,0,128>>, <<255,255,255,255,255,255,255,255>>, <<21,205,91,7,0,0,0,0>>, <<0,0,100,167,179,182,224,13>>}
DecimalSelf ==
  s # <<>> \/
  /\ \A n \in 0..400 : /\ ToNat(DecToBytes(NatToDec(n), 8)) = n
                        /\ BytesToDec(FromNat8(n)) = NatToDec(n)
  /\ \A n \in {65535, 65536, 16777215, 16777216, 999999999, 1000000000, 2147483647} :
        ToNat(DecToBytes(NatToDec(n), 8)) = n /\ BytesToDec(FromNat8(n)) = NatToDec(n)
  /\ \A b \in Boundary : DecToBytes(BytesToDec(b), 8) = b
  /\ BytesToDec(<<255,255,255,255,255,255,255,255>>) = Dec2p64m1
  /\ BytesToDec(<<0,0,0,0,0,0,0,128>>) = Dec2p63
  /\ BytesToDec(<<0,0,0,128,0,0,0,0>>) = Dec2p31
  /\ \A a, b \in 0..120 : (CmpDec(NatToDec(a), NatToDec(b)) = (IF a < b THEN -1 ELSE IF a > b THEN 1 ELSE 0))
  \* IEEE bits of small integers against known patterns: 1.0, 3.0, 16777215, 2^53-1
  /\ FloatBitsOfInt(1, FALSE) = <<0,0,128,63,0,0,0,0>> /\ FloatBitsOfInt(3, TRUE) = <<0,0,64,192,0,0,0,0>>
  /\ FloatBitsOfInt(16777215, FALSE) = <<255,255,127,75,0,0,0,0>>
  /\ DoubleBitsOfInt(<<1,0,0,0,0,0,0,0>>, FALSE) = <<0,0,0,0,0,0,240,63>>
  /\ DoubleBitsOfInt(<<3,0,0,0,0,0,0,0>>, TRUE) = <<0,0,0,0,0,0,8,192>>
  /\ DoubleBitsOfInt(<<255,255,255,255,255,255,31,0>>, FALSE) = <<255,255,255,255,255,255,63,67>>
  \* base64 against RFC 4648 test vectors: "foobar"
  /\ B64Encode(<<102>>) = <<90,103,61,61>> /\ B64Encode(<<102,111>>) = <<90,109,56,61>>
  /\ B64Encode(<<102,111,111>>) = <<90,109,57,118>> /\ B64Encode(<<102,111,111,98>>) = <<90,109,57,118,89,103,61,61>>
  /\ B64Meaning(<<90,109,57,118,89,103,61,61>>) = [cls |-> "ok", v |-> <<102,111,111,98>>]
  /\ B64Meaning(<<90,109,57,118,89,103>>) = [cls |-> "ok", v |-> <<102,111,111,98>>]
  /\ B64Meaning(<<90,109,57,118,89,103,61>>).cls = "bad"

\* ---- tour
Docs(x) == {x, Append(x, 32), <<91>> \o x \o <<93>>, <<91>> \o x \o <<44, 49, 93>>,
            <<123, 34, 97, 34, 58>> \o x \o <<125>>, <<34>> \o x \o <<34>>, <<32>> \o x \o <<10>>}
EmitDoc == Len(s') > EmitLen \/ \A d \in Docs(s') : PrintT("@@" \o ToJson([op |-> "doc", s |-> d] @@ [exp |-> Expect([op |-> "doc", s |-> d])]))
NumCase(k, ctx, lit) == [op |-> "num", k |-> k, ctx |-> ctx, lit |-> lit]
WrapperKinds == {"int32", "int64", "uint32", "uint64", "float", "double", "bytes"}
EmitNum == Len(s') > EmitLen \/ \A k \in Kinds : \A ctx \in Ctxs : \A lit \in {s', <<34>> \o s' \o <<34>>} :
             (ctx = "w" /\ k \notin WrapperKinds) \/ PrintT("@@" \o ToJson(NumCase(k, ctx, lit) @@ [exp |-> Expect(NumCase(k, ctx, lit))]))
=============================================================================
