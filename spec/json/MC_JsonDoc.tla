----------------------------- MODULE MC_JsonDoc -----------------------------
(***************************************************************************)
(* All byte strings that are concatenations of at most MaxSyms symbols of  *)
(* a symbol alphabet (each symbol a short byte sequence: a structural      *)
(* character, a complete literal / number / string, whitespace - or, for   *)
(* the string configurations, a quote, an escape, a UTF-8 fragment).       *)
(* One state per string.  TLC checks on every string                       *)
(*   Equivalence  the token machine (JsonDecoderSpec, implementation       *)
(*                shaped) accepts s as a document  iff  the RFC grammar     *)
(*                (JsonGrammar) does and every \u surrogate is paired      *)
(*   SameTokens   and then both build the same canonical tokens            *)
(*   WsLaw        removing the whitespace symbols of a valid text gives a  *)
(*                valid text with the same canonical tokens                *)
(*   NumberLaw    every number token of a valid text satisfies the number  *)
(*                grammar, every string token is well-formed UTF-8         *)
(* and emits each string as a "doc" tour case with the verdicts demanded   *)
(* of the real json.Decoder, structpb.Value and the other target types.    *)
(***************************************************************************)
EXTENDS JsonCases, Json

CONSTANTS MaxTokens, MaxBad, MaxStrings,   \* bound (number of symbols) per alphabet; 0 switches an alphabet off
          MaxEdits                          \* number of symbol edits applied to each base document (mode "edits")

Str(q) == <<34>> \o q \o <<34>>
\* { } [ ] , : "a" 1 -1 1.5 1e2 true null space
TokenSymbols == {<<123>>, <<125>>, <<91>>, <<93>>, <<44>>, <<58>>, Str(<<97>>), <<49>>, <<45,49>>, <<49,46,53>>, <<49,101,50>>,
                 WTrue, WNull, <<32>>}
\* [ ] , space and near-miss tokens: tru true nul null fals false True NaN - +1 01 1. .5 1e -0 0 1E+2 0x1 tab-in-string 'a'
BadTokenSymbols == {<<91>>, <<93>>, <<44>>, <<32>>, <<116,114,117>>, WTrue, <<110,117,108>>, WNull, <<102,97,108,115>>, WFalse,
                    <<84,114,117,101>>, <<78,97,78>>, <<45>>, <<43,49>>, <<48,49>>, <<49,46>>, <<46,53>>, <<49,101>>, <<45,48>>, <<48>>,
                    <<49,69,43,50>>, <<48,120,49>>, Str(<<9>>), <<39,97,39>>, <<10>>}
\* inside a string (the opening quote is the prefix): quote, escapes good and bad, surrogate escapes, controls, UTF-8 good and bad
StringSymbols == {<<34>>, <<92,92>>, <<92,34>>, <<92,110>>, <<92,47>>, <<92,120>>, <<92>>, <<92,117,100,56,51,100>>, <<92,117,100,101,48,48>>,
                  <<92,117,68,56,48,48>>, <<92,117,48,48,52,49>>, <<92,117,48,48>>, <<92,117,48,48,103,48>>, <<97>>, <<31>>, <<127>>, <<195,169>>, <<195>>, <<169>>,
                  <<237,160,128>>, <<226,130,172>>, <<240,159,152,128>>, <<244,144,128,128>>, <<192,175>>, <<239,191,189>>, <<32>>, <<58>>}
\* base documents (as symbol sequences) whose edit neighbourhoods are explored: every insertion, deletion and
\* replacement of one structural symbol (missing/doubled/trailing commas, missing colons and values, unbalanced brackets ...)
SComma == <<44>>  SColon == <<58>>  SA == Str(<<97>>)  S1 == <<49>>  SSp == <<32>>
Bases == { <<<<91>>, S1, SComma, S1, <<93>>>>,                                                              \* [1,1]
           <<<<123>>, SA, SColon, S1, SComma, SA, SColon, <<91>>, WTrue, <<93>>, <<125>>>>,                  \* {"a":1,"a":[true]}
           <<<<91>>, <<91>>, <<93>>, SComma, <<123>>, <<125>>, <<93>>>>,                                    \* [[],{}]
           <<<<123>>, SA, SColon, <<123>>, SA, SColon, WNull, <<125>>, <<125>>>>,                            \* {"a":{"a":null}}
           <<SSp, <<91>>, SSp, SA, SSp, SComma, <<45,49>>, SSp, <<93>>, <<10>>>>,                            \* _[_"a"_,-1_]\n
           <<<<91>>, <<49,46,53>>, SComma, <<49,101,50>>, SComma, WFalse, <<93>>>> }                         \* [1.5,1e2,false]
EditSymbols == {<<91>>, <<93>>, <<123>>, <<125>>, SComma, SColon, SA, S1, SSp, WNull}
Edited(q) == {[i \in 1..(Len(q) + 1) |-> IF i < k THEN q[i] ELSE IF i = k THEN e ELSE q[i - 1]] : k \in 1..(Len(q) + 1), e \in EditSymbols}   \* insert
             \cup {[i \in 1..(Len(q) - 1) |-> IF i < k THEN q[i] ELSE q[i + 1]] : k \in 1..Len(q)}                                            \* delete
             \cup {[q EXCEPT ![k] = e] : k \in 1..Len(q), e \in EditSymbols}                                                                  \* replace
RECURSIVE Flatten(_, _, _)
Flatten(q, i, skipWs) == IF i > Len(q) THEN <<>>
                         ELSE (IF skipWs /\ q[i] \in {<<32>>, <<10>>} THEN <<>> ELSE q[i]) \o Flatten(q, i + 1, skipWs)

Modes == (IF MaxTokens > 0 THEN {"tokens"} ELSE {}) \cup (IF MaxBad > 0 THEN {"badtokens"} ELSE {}) \cup (IF MaxStrings > 0 THEN {"strings"} ELSE {})
Symbols(m) == CASE m = "tokens" -> TokenSymbols [] m = "badtokens" -> BadTokenSymbols [] m = "strings" -> StringSymbols
MaxSyms(m) == CASE m = "tokens" -> MaxTokens [] m = "badtokens" -> MaxBad [] m = "strings" -> MaxStrings [] m = "edits" -> MaxEdits
WsSymbols == {<<32>>, <<10>>}
Prefix(m) == IF m = "strings" THEN <<34>> ELSE <<>>

\* mode: which alphabet this string is drawn from (one initial state per alphabet, one per base document in mode "edits");
\* syms: the symbol sequence of the document in mode "edits" (<<>> otherwise)
VARIABLES mode, s, nows, n, syms
vars == <<mode, s, nows, n, syms>>
Init == \/ mode \in Modes /\ s = Prefix(mode) /\ nows = Prefix(mode) /\ n = 0 /\ syms = <<>>
        \/ MaxEdits > 0 /\ mode = "edits" /\ n = 0 /\ syms \in Bases /\ s = Flatten(syms, 1, FALSE) /\ nows = Flatten(syms, 1, TRUE)
Next == /\ n < MaxSyms(mode)
        /\ n' = n + 1
        /\ mode' = mode
        /\ IF mode = "edits"
           THEN \E q \in Edited(syms) : syms' = q /\ s' = Flatten(q, 1, FALSE) /\ nows' = Flatten(q, 1, TRUE)
           ELSE /\ syms' = syms
                /\ \E y \in Symbols(mode) : /\ s' = s \o y
                                            /\ nows' = IF y \in WsSymbols THEN nows ELSE nows \o y
View == <<mode, s>>
CheckWs == mode # "strings"     \* in the strings alphabet the space symbol is string content

Equivalence == LET g == ParseDoc(s) IN DecAccepts(s) = (g.ok /\ ~g.lone)
SameTokens == DecAccepts(s) => DecRun(s).c = ParseDoc(s).c
WsLaw == CheckWs => LET g == ParseDoc(s) IN g.ok => LET h == ParseDoc(nows) IN h.ok /\ h.c = g.c
RECURSIVE Utf8Ok(_, _)
Utf8Ok(t, i) == i > Len(t) \/ (Utf8Len(t, i) > 0 /\ Utf8Ok(t, i + Utf8Len(t, i)))
NumberLaw == LET g == ParseDoc(s) IN
             g.ok => \A i \in 1..Len(g.c) : /\ (g.c[i].k = "num" => DfaAccepts(g.c[i].t))
                                            /\ (g.c[i].k \in {"str", "name"} => Utf8Ok(g.c[i].t, 1))

\* the same four laws with the two parses shared (TLC caches LET values), used by the checks for speed
Laws == LET g == ParseDoc(s)  d == DecRun(s)  acc == d.acc /\ d.c # <<>> IN
        /\ acc = (g.ok /\ ~g.lone)
        /\ (acc => d.c = g.c)
        /\ (CheckWs /\ g.ok /\ nows # s => LET h == ParseDoc(nows) IN h.ok /\ h.c = g.c)
        /\ (g.ok => \A i \in 1..Len(g.c) : /\ (g.c[i].k = "num" => DfaAccepts(g.c[i].t))
                                            /\ (g.c[i].k \in {"str", "name"} => Utf8Ok(g.c[i].t, 1)))

Emit == PrintT("@@" \o ToJson([op |-> "doc", s |-> s'] @@ [exp |-> Expect([op |-> "doc", s |-> s'])]))
=============================================================================
