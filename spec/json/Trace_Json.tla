----------------------------- MODULE Trace_Json -----------------------------
(***************************************************************************)
(* Trace validation for the JSON family (C21, C22, C26): every event       *)
(* recorded from the real code by harness modules json / jsonnum /         *)
(* jsonuniq must agree with the specification: cases with a predictable    *)
(* observation are compared key by key with Expect / ExpectUniq, marshal   *)
(* outputs are parsed and judged by JsonGrammar (both layouts valid, same  *)
(* value).  One TLC step per event; rejected line numbers are collected.   *)
(***************************************************************************)
EXTENDS JsonCases, JsonFieldSet, Json, IOUtils

Trace == ndJsonDeserialize(IOEnv.TRACE)

VARIABLES l, bad
UniqOps == {"members", "nest", "fuzz", "ints"}
Agree(e) == IF e.op \in UniqOps
            THEN LET x == ExpectUniq(e) IN \A k \in DOMAIN x : k \in DOMAIN e.out /\ e.out[k] = x[k]
            ELSE Judge(e)
Init == l = 1 /\ bad = <<>>
Next == /\ l <= Len(Trace)
        /\ bad' = IF Agree(Trace[l]) THEN bad ELSE Append(bad, l)
        /\ l' = l + 1
        /\ TLCSet(1, <<l + 1, bad'>>)
Accepted == LET r == TLCGet(1) IN
            /\ PrintT("TRACE-RESULT " \o ToJson([done |-> r[1] - 1, total |-> Len(Trace), bad |-> r[2]]))
            /\ r[1] = Len(Trace) + 1
=============================================================================
