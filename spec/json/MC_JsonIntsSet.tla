--------------------------- MODULE MC_JsonIntsSet ---------------------------
(***************************************************************************)
(* All histories of Set / Clear up to Depth operations on internal/set.Ints *)
(* over elements on both sides of the 64 boundary and at the ends of the   *)
(* uint64 range.  TLC checks that the transcription (64-bit word + hash    *)
(* set) refines the plain set `abs`:  Has = membership for every element,  *)
(* Len = cardinality; and emits, for every transition, the whole history   *)
(* followed by a Has probe of every element and Len as one tour case.      *)
(***************************************************************************)
EXTENDS JsonIntsSet, Json, TLC

CONSTANTS Depth

Elems == {El(0), El(1), El(62), El(63), El(64), El(65), El(127), El(128),
          <<0,0,0,0,1,0,0,0>>, <<63,0,0,0,1,0,0,0>>, <<0,0,0,0,0,0,0,128>>, <<255,255,255,255,255,255,255,255>>}
ElemSeq == <<El(0), El(1), El(62), El(63), El(64), El(65), El(127), El(128),
             <<0,0,0,0,1,0,0,0>>, <<63,0,0,0,1,0,0,0>>, <<0,0,0,0,0,0,0,128>>, <<255,255,255,255,255,255,255,255>>>>

VARIABLES x, abs, hist
Init == x = EmptyInts /\ abs = {} /\ hist = <<>>
Next == /\ Len(hist) < Depth
        /\ \E n \in Elems : \E o \in {"set", "clear"} :
             /\ x' = IF o = "set" THEN IntsSet(x, n) ELSE IntsClear(x, n)
             /\ abs' = IF o = "set" THEN abs \cup {n} ELSE abs \ {n}
             /\ hist' = Append(hist, [o |-> o, n |-> n])
View == <<x, abs>>

Refines == /\ \A n \in Elems : IntsHas(x, n) = (n \in abs)
           /\ IntsLen(x) = Cardinality(abs)
           /\ \A n \in Elems : Small(n) = (n \in {El(k) : k \in 0..63})
Probes == [i \in 1..Len(ElemSeq) |-> [o |-> "has", n |-> ElemSeq[i]]] \o <<[o |-> "len", n |-> El(0)]>>
Emit == LET c == [op |-> "ints", steps |-> hist' \o Probes] IN PrintT("@@" \o ToJson(c @@ [exp |-> ExpectInts(c)]))
=============================================================================
