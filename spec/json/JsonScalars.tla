---------------------------- MODULE JsonScalars ----------------------------
(***************************************************************************)
(* Meaning of one JSON scalar token for a protobuf scalar kind (C22):      *)
(*                                                                         *)
(*  integer kinds  a number token, or a string token whose content is a    *)
(*                 number literal, whose *value* (JsonNumber.IntByValue)   *)
(*                 is an integer in the kind's range; anything else is     *)
(*                 rejected                                                *)
(*  float kinds    number tokens and quoted numbers, "NaN", "Infinity",    *)
(*                 "-Infinity".  Binary rounding is not expressible here:  *)
(*                 strconv.ParseFloat is an uninterpreted function whose   *)
(*                 value is observed by the harness (out.fx: decoded bits  *)
(*                 = ParseFloat(literal) bits).  Specified exactly are:    *)
(*                 the syntax, definite overflow / definite range by the   *)
(*                 decimal order of magnitude, and the bits of every       *)
(*                 integer-valued literal below 2^24 (float) / 2^53        *)
(*                 (double) in any notation (they are exactly              *)
(*                 representable, so no rounding is involved)              *)
(*  bytes          RFC 4648 base64, standard or URL-safe alphabet (never   *)
(*                 mixed), with complete padding or none                   *)
(*  enum           value name, or an int32 number                         *)
(* and the text protojson writes for a scalar (64-bit integers as strings, *)
(* bytes as padded standard base64, enums by name).                        *)
(***************************************************************************)
EXTENDS JsonGrammar

BaseKind(k) ==
  CASE k \in {"int32", "sint32", "sfixed32"} -> "int32"
    [] k \in {"int64", "sint64", "sfixed64"} -> "int64"
    [] k \in {"uint32", "fixed32"} -> "uint32"
    [] k \in {"uint64", "fixed64"} -> "uint64"
    [] OTHER -> k

\* ---------------------------------------------------------------- base64
StdAlphabet == <<65,66,67,68,69,70,71,72,73,74,75,76,77,78,79,80,81,82,83,84,85,86,87,88,89,90,
                 97,98,99,100,101,102,103,104,105,106,107,108,109,110,111,112,113,114,115,116,117,118,119,120,121,122,
                 48,49,50,51,52,53,54,55,56,57,43,47>>
\* value 0..63 of character c in the standard (url = FALSE) or URL-safe alphabet, -1 if it is not in it
B64Val(c, url) ==
  IF c >= 65 /\ c <= 90 THEN c - 65
  ELSE IF c >= 97 /\ c <= 122 THEN c - 71
  ELSE IF c >= 48 /\ c <= 57 THEN c + 4
  ELSE IF ~url /\ c = 43 THEN 62 ELSE IF ~url /\ c = 47 THEN 63
  ELSE IF url /\ c = 45 THEN 62 ELSE IF url /\ c = 95 THEN 63
  ELSE -1
B64Encode(b) ==        \* padded standard encoding
  LET n == Len(b)
      G(i) == IF i <= n THEN b[i] ELSE 0
      Quad(q) == LET x == G(3*q - 2) y == G(3*q - 1) z == G(3*q) have == n - 3*(q - 1) IN
                 <<StdAlphabet[x \div 4 + 1], StdAlphabet[(x % 4) * 16 + y \div 16 + 1],
                   IF have >= 2 THEN StdAlphabet[(y % 16) * 4 + z \div 64 + 1] ELSE 61,
                   IF have >= 3 THEN StdAlphabet[(z % 64) + 1] ELSE 61>>
      RECURSIVE Quads(_)
      Quads(q) == IF 3*(q - 1) >= n THEN <<>> ELSE Quad(q) \o Quads(q + 1)
  IN Quads(1)

RECURSIVE TrailingPads(_, _)
TrailingPads(s, i) == IF i >= 1 /\ s[i] = 61 THEN TrailingPads(s, i - 1) ELSE Len(s) - i
\* [cls |-> "ok" | "bad" | "lenient", v |-> bytes]
\*   ok       well-formed and canonical: must be accepted with value v
\*   bad      not base64: must be rejected
\*   lenient  forms on which encoding/base64 is lenient and C22 is silent (embedded CR/LF, non-zero trailing bits)
B64Meaning(s) ==
  LET pads == TrailingPads(s, Len(s))
      body == SubSeq(s, 1, Len(s) - pads)
      n == Len(body)
      url == \E i \in 1..n : body[i] = 45 \/ body[i] = 95
      vals == [i \in 1..n |-> B64Val(body[i], url)]
      nbytes == (n * 6) \div 8
      ByteAt(j) == LET bit == 8 * (j - 1)  q == bit \div 6 + 1  o == bit % 6 IN    \* 8 bits starting at bit offset o of sextet q
                   IF o = 0 THEN vals[q] * 4 + vals[q + 1] \div 16
                   ELSE IF o = 2 THEN (vals[q] % 16) * 16 + vals[q + 1] \div 4
                   ELSE (vals[q] % 4) * 64 + vals[q + 1]
      spare == IF n % 4 = 2 THEN vals[n] % 16 ELSE IF n % 4 = 3 THEN vals[n] % 4 ELSE 0
  IN IF \E i \in 1..Len(s) : s[i] = 10 \/ s[i] = 13 THEN [cls |-> "lenient", v |-> <<>>]
     ELSE IF \E i \in 1..n : vals[i] < 0 THEN [cls |-> "bad", v |-> <<>>]          \* foreign character, mixed alphabets, inner '='
     ELSE IF n % 4 = 1 THEN [cls |-> "bad", v |-> <<>>]
     ELSE IF pads > 0 /\ pads # (4 - (n % 4)) % 4 THEN [cls |-> "bad", v |-> <<>>]    \* padding must complete the last quantum
     ELSE IF spare # 0 THEN [cls |-> "lenient", v |-> [j \in 1..nbytes |-> ByteAt(j)]]
     ELSE [cls |-> "ok", v |-> [j \in 1..nbytes |-> ByteAt(j)]]

\* ---------------------------------------------------------------- IEEE bits of small integers
\* left shift of a byte vector by k bits, same length
ShlBytes(b, k) ==
  [i \in 1..Len(b) |->
     LET q == k \div 8  o == k % 8
         lo == IF i - q >= 1 THEN b[i - q] ELSE 0
         lo1 == IF i - q - 1 >= 1 THEN b[i - q - 1] ELSE 0
     IN ((lo * Pow2(o)) % 256) + (lo1 \div Pow2(8 - o))]
\* float64 bits (8 bytes LE) of the integer with magnitude bytes m (8 bytes, 0 < m < 2^53)
DoubleBitsOfInt(m, neg) ==
  LET L == BitLen(m)
      sh == ShlBytes(m, 53 - L)                        \* bit 52 is now the leading one
      e11 == 1023 + L - 1
  IN [i \in 1..8 |-> IF i <= 6 THEN sh[i]
                     ELSE IF i = 7 THEN (sh[7] % 16) + (e11 % 16) * 16
                     ELSE (e11 \div 16) + (IF neg THEN 128 ELSE 0)]
\* float32 bits (as 8 bytes LE, upper four zero) of the native integer 0 < n < 2^24
FloatBitsOfInt(n, neg) ==
  LET L == CHOOSE l \in 1..24 : Pow2(l - 1) <= n /\ n < Pow2(l)
      mant == n * Pow2(24 - L) - Pow2(23)
      e8 == 127 + L - 1
  IN <<mant % 256, (mant \div 256) % 256, (e8 % 2) * 128 + mant \div 65536, (e8 \div 2) + (IF neg THEN 128 ELSE 0), 0, 0, 0, 0>>
Dec2p24 == <<1,6,7,7,7,2,1,6>>
Dec2p53 == <<9,0,0,7,1,9,9,2,5,4,7,4,0,9,9,2>>

\* [acc |-> "yes" | "no" | "open", exact |-> bits are specified, v |-> bits when exact]
\* for a number literal with parts p and kind "float" / "double"
FloatMeaning(p, k) ==
  LET ord == DecimalOrder(p)
      iv == IntByValue(p)
      limit == IF k = "float" THEN 38 ELSE 308
      small == iv.int /\ ~iv.huge /\ (IF k = "float" THEN CmpDec(iv.mag, Dec2p24) < 0 ELSE CmpDec(iv.mag, Dec2p53) < 0)
  IN IF ord = -100000 THEN        \* zero: +0 or -0
          [acc |-> "yes", exact |-> TRUE, v |-> IF p.neg THEN (IF k = "float" THEN <<0,0,0,128,0,0,0,0>> ELSE <<0,0,0,0,0,0,0,128>>) ELSE Zeros(8)]
     ELSE IF small THEN
          [acc |-> "yes", exact |-> TRUE,
           v |-> IF k = "float" THEN FloatBitsOfInt(DecToNat(iv.mag, 1, 0), p.neg) ELSE DoubleBitsOfInt(DecToBytes(iv.mag, 8), p.neg)]
     ELSE IF ord <= limit THEN [acc |-> "yes", exact |-> FALSE, v |-> Zeros(8)]
     ELSE IF ord >= limit + 2 THEN [acc |-> "no", exact |-> FALSE, v |-> Zeros(8)]
     ELSE [acc |-> "open", exact |-> FALSE, v |-> Zeros(8)]                          \* within one decade of the largest finite value

\* ---------------------------------------------------------------- enum goproto.proto.test.TestAllTypes.NestedEnum
SFoo == <<70,79,79>>  SBar == <<66,65,82>>  SBaz == <<66,65,90>>  SNeg == <<78,69,71>>
EnumByName(t) == CASE t = SFoo -> <<0,0,0,0,0,0,0,0>> [] t = SBar -> <<1,0,0,0,0,0,0,0>> [] t = SBaz -> <<2,0,0,0,0,0,0,0>>
                   [] t = SNeg -> <<255,255,255,255,255,255,255,255>> [] OTHER -> <<>>
EnumName(v) == CASE v = <<0,0,0,0,0,0,0,0>> -> SFoo [] v = <<1,0,0,0,0,0,0,0>> -> SBar [] v = <<2,0,0,0,0,0,0,0>> -> SBaz
                 [] v = <<255,255,255,255,255,255,255,255>> -> SNeg [] OTHER -> <<>>
SNaN == <<78,97,78>>  SInf == <<73,110,102,105,110,105,116,121>>  SNegInf == <<45>> \o SInf

\* ---------------------------------------------------------------- text written for a scalar
SignedDecChars(v) == IF IsZeros(v) THEN <<48>>
                     ELSE IF IsNegative(v) THEN <<45>> \o CharsOf(BytesToDec(Neg(v))) ELSE CharsOf(BytesToDec(v))
UnsignedDecChars(v) == IF IsZeros(v) THEN <<48>> ELSE CharsOf(BytesToDec(v))
Quoted(t) == <<34>> \o t \o <<34>>
\* v: 8 bytes (sign-extended for the signed kinds), or the payload for bytes
ScalarText(k, v) ==
  CASE BaseKind(k) = "int32"  -> SignedDecChars(v)
    [] BaseKind(k) = "uint32" -> UnsignedDecChars(v)
    [] BaseKind(k) = "int64"  -> Quoted(SignedDecChars(v))
    [] BaseKind(k) = "uint64" -> Quoted(UnsignedDecChars(v))
    [] k = "bytes" -> Quoted(B64Encode(v))
    [] k = "enum"  -> IF EnumName(v) # <<>> THEN Quoted(EnumName(v)) ELSE SignedDecChars(v)
=============================================================================
