-------------------------- MODULE MC_JsonBytesEnum --------------------------
(***************************************************************************)
(* C22 for bytes and enum fields.  States: all strings up to MaxLen over a *)
(* base64 corner alphabet (letters with zero and non-zero trailing bits,   *)
(* the two characters in which the standard and URL-safe alphabets differ, *)
(* padding, a foreign character).  TLC checks on every string              *)
(*   TwoDefinitions  the by-value definition B64Meaning (sextets -> bytes, *)
(*                   padding completes the quantum) classifies "not        *)
(*                   base64" exactly like an independent one-pass          *)
(*                   recogniser (counter mod 4, alphabet flags, padding)   *)
(*   RoundTrip       a canonical standard padded string is the encoding of *)
(*                   its own value; encoding the value of any accepted     *)
(*                   string and decoding again gives the same value        *)
(* and emits every string as the content of a JSON string for a bytes      *)
(* field, plus (once) the enum spellings and bytes payloads to marshal.    *)
(***************************************************************************)
EXTENDS JsonCases, Json

CONSTANTS MaxLen

\* A Q g / + - _ = *
Alphabet == {65, 81, 103, 47, 43, 45, 95, 61, 42}
VARIABLE s
Init == s = <<>>
Next == Len(s) < MaxLen /\ \E c \in Alphabet : s' = Append(s, c)

\* one-pass recogniser: [n |-> data characters so far, std, url |-> alphabet-specific character seen, pads, bad]
Step(st, c) ==
  IF st.bad THEN st
  ELSE IF c = 61 THEN [st EXCEPT !.pads = @ + 1]
  ELSE IF st.pads > 0 THEN [st EXCEPT !.bad = TRUE]                        \* data after padding
  ELSE IF c \in {43, 47} THEN [st EXCEPT !.n = @ + 1, !.std = TRUE]
  ELSE IF c \in {45, 95} THEN [st EXCEPT !.n = @ + 1, !.url = TRUE]
  ELSE IF (c >= 65 /\ c <= 90) \/ (c >= 97 /\ c <= 122) \/ (c >= 48 /\ c <= 57) THEN [st EXCEPT !.n = @ + 1]
  ELSE [st EXCEPT !.bad = TRUE]
RECURSIVE Run(_, _, _)
Run(q, i, st) == IF i > Len(q) THEN st ELSE Run(q, i + 1, Step(st, q[i]))
Recognised(q) ==
  LET st == Run(q, 1, [n |-> 0, std |-> FALSE, url |-> FALSE, pads |-> 0, bad |-> FALSE]) IN
  /\ ~st.bad /\ ~(st.std /\ st.url)
  /\ (IF st.pads = 0 THEN st.n % 4 # 1 ELSE (st.n % 4 = 2 /\ st.pads = 2) \/ (st.n % 4 = 3 /\ st.pads = 1))

TwoDefinitions == Recognised(s) = (B64Meaning(s).cls # "bad")
RoundTrip == LET m == B64Meaning(s) IN
             /\ (m.cls # "bad" => B64Meaning(B64Encode(m.v)) = [cls |-> "ok", v |-> m.v])
             /\ (m.cls = "ok" /\ Len(s) % 4 = 0 /\ (\A i \in 1..Len(s) : s[i] \notin {45, 95}) => B64Encode(m.v) = s)

NumCase(k, ctx, lit) == [op |-> "num", k |-> k, ctx |-> ctx, lit |-> lit]
Emit == \A ctx \in {"w", "r"} : LET c == NumCase("bytes", ctx, <<34>> \o s' \o <<34>>) IN
           PrintT("@@" \o ToJson(c @@ [exp |-> Expect(c)]))
\* ---- emitted once: enum spellings, scalar texts
Q(t) == <<34>> \o t \o <<34>>
EnumLits == {Q(SFoo), Q(SBar), Q(SBaz), Q(SNeg), Q(<<102,111,111>>), Q(<<70,79,79,32>>), Q(<<49>>), Q(<<>>), <<48>>, <<49>>, <<50>>, <<45,49>>, <<51>>,
             <<49,46,48>>, <<49,101,48>>, <<49,48,101,45,49>>, <<49,46,53>>, <<50,49,52,55,52,56,51,54,52,55>>, <<50,49,52,55,52,56,51,54,52,56>>,
             <<45,50,49,52,55,52,56,51,54,52,56>>, <<45,50,49,52,55,52,56,51,54,52,57>>, WTrue, WNull, <<91,49,93>>, Q(<<92,117,48,48,52,54,79,79>>)}
Payloads == {<<>>, <<0>>, <<255>>, <<251,255>>, <<251,255,254>>, <<0,16,131,16,81,135>>, <<102,111,111,98,97,114>>, <<62,63,64,250>>}
EnumVals == {<<0,0,0,0,0,0,0,0>>, <<1,0,0,0,0,0,0,0>>, <<2,0,0,0,0,0,0,0>>, <<255,255,255,255,255,255,255,255>>, <<3,0,0,0,0,0,0,0>>,
             <<254,255,255,255,255,255,255,255>>, <<255,255,255,127,0,0,0,0>>, <<0,0,0,128,255,255,255,255>>}
EncCase(k, ctx, v) == [op |-> "enc", k |-> k, ctx |-> ctx, v |-> v]
EmitOnce == s # <<>> \/ s' # <<65>> \/
  /\ \A lit \in EnumLits : \A ctx \in {"f", "r", "m"} : LET c == NumCase("enum", ctx, lit) IN PrintT("@@" \o ToJson(c @@ [exp |-> Expect(c)]))
  /\ \A v \in Payloads : \A ctx \in {"w", "f"} : LET c == EncCase("bytes", ctx, v) IN PrintT("@@" \o ToJson(c @@ [exp |-> Expect(c)]))
  /\ \A v \in EnumVals : LET c == EncCase("enum", "f", v) IN PrintT("@@" \o ToJson(c @@ [exp |-> Expect(c)]))
EmitAll == Emit /\ EmitOnce
=============================================================================
