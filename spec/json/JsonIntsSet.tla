---------------------------- MODULE JsonIntsSet ----------------------------
(***************************************************************************)
(* internal/set.Ints: the set of uint64 that the JSON and text decoders    *)
(* use to remember which field numbers and oneof indexes they have seen.   *)
(*                                                                         *)
(* Transcription: a 64-bit word `lo` (little-endian byte vector) for the   *)
(* members below 64 and a hash set `hi` for the others.  Elements are      *)
(* 8-byte little-endian vectors, so that the whole uint64 range including  *)
(* 2^63 and 2^64-1 is covered.  MC_JsonIntsSet checks over all operation   *)
(* histories up to a bound that the transcription refines the plain        *)
(* mathematical set (Has = membership, Len = cardinality, Set/Clear        *)
(* idempotent and independent across elements); the decoders' field-       *)
(* uniqueness machine (JsonFieldSet) is built on it.                       *)
(***************************************************************************)
EXTENDS Integers, Sequences, FiniteSets, VB

EmptyInts == [lo |-> Zeros(8), hi |-> {}]
\* n (8 bytes) is below 64
Small(n) == n[1] < 64 /\ \A i \in 2..8 : n[i] = 0
WithBit(w, k, on) == [i \in 1..8 |->
   IF i = (k \div 8) + 1
   THEN (IF on THEN (IF BitAt(w, k) = 1 THEN w[i] ELSE w[i] + Pow2(k % 8))
               ELSE (IF BitAt(w, k) = 1 THEN w[i] - Pow2(k % 8) ELSE w[i]))
   ELSE w[i]]
IntsHas(x, n) == IF Small(n) THEN BitAt(x.lo, n[1]) = 1 ELSE n \in x.hi
IntsSet(x, n) == IF Small(n) THEN [x EXCEPT !.lo = WithBit(@, n[1], TRUE)] ELSE [x EXCEPT !.hi = @ \cup {n}]
IntsClear(x, n) == IF Small(n) THEN [x EXCEPT !.lo = WithBit(@, n[1], FALSE)] ELSE [x EXCEPT !.hi = @ \ {n}]
RECURSIVE PopCount(_, _)
PopCount(w, k) == IF k = 64 THEN 0 ELSE BitAt(w, k) + PopCount(w, k + 1)
IntsLen(x) == PopCount(x.lo, 0) + Cardinality(x.hi)

\* small natural number -> element
El(n) == FromNat8(n)

\* one history step against the real object: [o |-> "set" | "clear" | "has" | "len", n |-> element]
\* observation: has -> 0/1, len -> count, set/clear -> 0
StepInts(x, st) ==
  CASE st.o = "set" -> [x |-> IntsSet(x, st.n), obs |-> 0]
    [] st.o = "clear" -> [x |-> IntsClear(x, st.n), obs |-> 0]
    [] st.o = "has" -> [x |-> x, obs |-> IF IntsHas(x, st.n) THEN 1 ELSE 0]
    [] st.o = "len" -> [x |-> x, obs |-> IntsLen(x)]
RECURSIVE RunInts(_, _, _, _)
RunInts(x, steps, i, obs) ==
  IF i > Len(steps) THEN obs
  ELSE LET r == StepInts(x, steps[i]) IN RunInts(r.x, steps, i + 1, Append(obs, r.obs))
ExpectInts(e) == [obs |-> RunInts(EmptyInts, e.steps, 1, <<>>)]
=============================================================================
