----------------------------- MODULE JsonCases -----------------------------
(***************************************************************************)
(* Expect(e): what the JSON specifications demand of one case e executed   *)
(* on the real code by harness module "json" (C21, C22); Judge(e): verdict *)
(* on cases whose observation cannot be predicted byte for byte (marshal   *)
(* output contains deliberately unstable whitespace) and is therefore      *)
(* analysed by the specification itself.                                   *)
(*                                                                         *)
(*  op "doc"  s                  a whole byte string as a JSON text        *)
(*     out: dec   internal json.Decoder read a value and reached EOF       *)
(*          toks  the tokens it returned (kind, decoded text) if dec       *)
(*          pk,cl Peek/Clone consistent with Read                          *)
(*          val   protojson.Unmarshal into structpb.Value succeeded        *)
(*          any   Unmarshal into some other target type succeeded          *)
(*  op "num"  k ctx lit          scalar text lit for a field of kind k     *)
(*     out: acc, has, v (8 bytes / payload), fx (float: bits = ParseFloat) *)
(*  op "enc"  k v                protojson.Marshal of a scalar             *)
(*     out: j  the text written                                            *)
(*  op "encseq" ops / "marshal"  judged: both layouts valid, same value    *)
(***************************************************************************)
EXTENDS JsonDecoderSpec, JsonScalars, TLC

\* ---------------------------------------------------------------- op "doc"
\* numbers whose binary64 value is certainly finite: at most 100 mantissa digits, exponent of at most 2 digits
Moderate(lit) == LET p == NumParts(lit) IN Len(p.int) + Len(p.frac) <= 100 /\ Len(StripLead(p.exp)) <= 2
NumbersModerate(c) == \A i \in 1..Len(c) : c[i].k = "num" => Moderate(c[i].t)

ExpectDoc(s) ==
  LET g == ParseDoc(s)
      d == DecRun(s)
      dec == g.ok /\ d.acc /\ d.c # <<>>
      base == [dec |-> dec, toks |-> IF dec THEN d.c ELSE <<>>, pk |-> TRUE, cl |-> TRUE]
  IN IF ~g.ok THEN base @@ [val |-> FALSE, any |-> FALSE]            \* C21: nothing accepts an invalid text
     ELSE IF NumbersModerate(g.c) /\ Depth(g.c) < 5000
          \* structpb.Value takes every JSON text the token machine takes, except duplicate member names
          THEN base @@ [val |-> dec /\ DupFree(g.c)]
     ELSE base

\* ---------------------------------------------------------------- op "num"
Structural == {123, 125, 91, 93, 44, 58}
Inert(lit) == \A i \in 1..Len(lit) : lit[i] \notin Structural      \* cannot change the structure of a text it is embedded in

Rejected == [acc |-> FALSE, has |-> FALSE, v |-> Zeros(8)]
\* observation of "nothing decoded" per kind: integers and enums report eight zero bytes, bytes the empty payload, floats no bits
Nothing(bk, acc) == IF bk \in {"float", "double"} THEN [acc |-> acc, has |-> FALSE]
                    ELSE IF bk = "bytes" THEN [acc |-> acc, has |-> FALSE, v |-> <<>>]
                    ELSE [acc |-> acc, has |-> FALSE, v |-> Zeros(8)]
\* meaning of the single scalar token tk for kind k
TokenMeaning(tk, k, ctx) ==
  LET bk == BaseKind(k)
      isNum == tk.k = "num"
      numLit == IF isNum THEN tk.t ELSE IF tk.k = "str" /\ IsNumber(tk.t) THEN tk.t ELSE <<>>   \* number or quoted number
  IN
  IF tk.k = "null" THEN (IF ctx = "f" THEN Nothing(bk, TRUE) ELSE Nothing(bk, FALSE))
  ELSE IF bk \in IntKinds THEN
       (IF numLit = <<>> THEN Rejected
        ELSE LET m == IntMeaning(NumParts(numLit), bk) IN
             IF m.ok THEN [acc |-> TRUE, has |-> TRUE, v |-> m.v] ELSE Rejected)
  ELSE IF bk = "enum" THEN
       (IF tk.k = "str" THEN (IF EnumByName(tk.t) # <<>> THEN [acc |-> TRUE, has |-> TRUE, v |-> EnumByName(tk.t)] ELSE Rejected)
        ELSE IF isNum THEN LET m == IntMeaning(NumParts(tk.t), "int32") IN
                           IF m.ok THEN [acc |-> TRUE, has |-> TRUE, v |-> m.v] ELSE Rejected
        ELSE Rejected)
  ELSE IF bk = "bytes" THEN
       (IF tk.k # "str" THEN Nothing(bk, FALSE)
        ELSE LET b == B64Meaning(tk.t) IN
             IF b.cls = "ok" THEN [acc |-> TRUE, has |-> TRUE, v |-> b.v]
             ELSE IF b.cls = "bad" THEN [acc |-> FALSE, has |-> FALSE, v |-> <<>>]
             ELSE [ran |-> TRUE])
  ELSE \* float, double
       IF tk.k = "str" /\ tk.t \in {SNaN, SInf, SNegInf} THEN
            [acc |-> TRUE, has |-> TRUE, cls |-> IF tk.t = SNaN THEN "nan" ELSE IF tk.t = SInf THEN "+inf" ELSE "-inf"]
       ELSE IF numLit = <<>> THEN [acc |-> FALSE, has |-> FALSE]
       ELSE LET f == FloatMeaning(NumParts(numLit), bk) IN
            IF f.acc = "no" THEN [acc |-> FALSE, has |-> FALSE]
            ELSE IF f.acc = "open" THEN [fx |-> TRUE]
            ELSE IF f.exact THEN [acc |-> TRUE, has |-> TRUE, cls |-> "fin", fx |-> TRUE, v |-> f.v]
            ELSE [acc |-> TRUE, has |-> TRUE, cls |-> "fin", fx |-> TRUE]

ExpectNum(e) ==
  LET g == ParseDoc(e.lit)
      rej == Nothing(BaseKind(e.k), FALSE)
  IN IF g.ok THEN (IF Len(g.c) = 1 THEN TokenMeaning(g.c[1], e.k, e.ctx) ELSE rej)     \* an object or array is never a scalar
     ELSE IF e.ctx = "r" /\ (\A i \in 1..Len(e.lit) : IsWs(e.lit[i])) THEN Nothing(BaseKind(e.k), TRUE)   \* "[" ws "]": the empty list
     ELSE IF e.ctx = "w" \/ Inert(e.lit) THEN rej                                      \* the whole text is invalid JSON
     ELSE [ran |-> TRUE]

\* ---------------------------------------------------------------- Expect
Expect(e) ==
  CASE e.op = "doc" -> ExpectDoc(e.s)
    [] e.op = "num" -> ExpectNum(e)
    [] e.op = "enc" -> [j |-> ScalarText(e.k, e.v)]
    [] OTHER -> [ran |-> TRUE]

\* ---------------------------------------------------------------- judged cases
\* canonical tokens that a well-formed sequence of json.Encoder calls denotes
OpTok(o) ==
  CASE o.o = "so" -> Tok("{", <<>>) [] o.o = "eo" -> Tok("}", <<>>)
    [] o.o = "sa" -> Tok("[", <<>>) [] o.o = "ea" -> Tok("]", <<>>)
    [] o.o = "name" -> Tok("name", o.t) [] o.o = "str" -> Tok("str", o.t)
    [] o.o = "int" -> Tok("num", o.t) [] o.o = "uint" -> Tok("num", o.t)
    [] o.o = "null" -> Tok("null", <<>>)
    [] o.o = "bool" -> Tok(IF o.t = <<1>> THEN "true" ELSE "false", <<>>)
OpsCanon(ops) == [i \in 1..Len(ops) |-> OpTok(ops[i])]

\* both layouts are valid JSON texts denoting the same value
SameValue(c, m) == LET pc == ParseDoc(c)  pm == ParseDoc(m) IN pc.ok /\ pm.ok /\ pc.c = pm.c
Judge(e) ==
  CASE e.op = "encseq" ->
         /\ "c" \in DOMAIN e.out /\ "m" \in DOMAIN e.out
         /\ SameValue(e.out.c, e.out.m)
         /\ ParseDoc(e.out.c).c = OpsCanon(e.ops)
         /\ DecRun(e.out.m).c = OpsCanon(e.ops)           \* and the real decoder's model reads the same tokens back
    [] e.op = "marshal" ->
         /\ "err" \in DOMAIN e.out /\ "errm" \in DOMAIN e.out
         /\ e.out.err = e.out.errm                       \* the layout never decides whether a message is representable
         /\ (e.out.err = 0 => /\ "c" \in DOMAIN e.out /\ "m" \in DOMAIN e.out
                              /\ SameValue(e.out.c, e.out.m))
    [] OTHER -> LET x == Expect(e) IN \A k \in DOMAIN x : k \in DOMAIN e.out /\ e.out[k] = x[k]
=============================================================================
