---------------------------- MODULE MC_JsonLimits ----------------------------
(***************************************************************************)
(* C22 around the type limits.  One-shot machine: every case is a literal  *)
(* built from a mantissa D (2^31, 2^32, 2^63, 2^64 and neighbours, powers  *)
(* of ten, 2^24, 2^53, ...), a position p of the decimal point (p = 0:     *)
(* "0." followed by z extra zeros), a scale t (the value is D * 10^t), an  *)
(* exponent spelling, a sign and optional quotes - i.e. the same integer   *)
(* in every notation JSON allows, plus non-integral and out-of-range       *)
(* neighbours.  TLC checks on every case                                   *)
(*   NotationFree  the meaning depends on the value only: it equals the    *)
(*                 meaning of the plain literal D followed by t zeros      *)
(*                 (or "not an integer" if t < 0 cuts non-zero digits)     *)
(*   Transcribed   value semantics = transcription of normalizeToIntString *)
(*   FloatExact    for |value| < 2^24 / 2^53 the float bits are those of   *)
(*                 the plain literal                                       *)
(* and emits the case for every kind as a "num" tour case.                 *)
(***************************************************************************)
EXTENDS JsonCases, Json

CONSTANTS Tier, Kinds

AllMantissas == {<<1>>, <<7>>, <<1,0>>, <<1,2,0>>, Dec2p31m1, Dec2p31, <<2,1,4,7,4,8,3,6,4,9>>, Dec2p32m1, <<4,2,9,4,9,6,7,2,9,6>>,
              Dec2p63m1, Dec2p63, <<9,2,2,3,3,7,2,0,3,6,8,5,4,7,7,5,8,0,9>>, Dec2p64m1, <<1,8,4,4,6,7,4,4,0,7,3,7,0,9,5,5,1,6,1,6>>,
              <<1,6,7,7,7,2,1,5>>, Dec2p24, <<1,6,7,7,7,2,1,7>>, <<9,0,0,7,1,9,9,2,5,4,7,4,0,9,9,1>>, Dec2p53,
              <<9,0,0,7,1,9,9,2,5,4,7,4,0,9,9,3>>}
Mantissas == IF Tier = "quick" THEN {<<1,2,0>>, Dec2p31, Dec2p32m1, Dec2p63, Dec2p64m1, <<1,8,4,4,6,7,4,4,0,7,3,7,0,9,5,5,1,6,1,6>>, Dec2p24}
             ELSE AllMantissas
Scales == IF Tier = "quick" THEN {-1, 0, 1} ELSE {-2, -1, 0, 1, 2, 19}
ExtraZeros == IF Tier = "quick" THEN {0, 2} ELSE {0, 1, 2, 18, 21}
Points(D) == IF Tier = "quick" THEN {0, 1, Len(D)} ELSE 0..Len(D)
ExpForms == IF Tier = "quick" THEN {"e", "E+0"} ELSE {"e", "E", "e+", "E+0", "e00"}

\* the literal: D with the point after p digits (p = 0: 0.<z zeros>D), times 10^(t + q)
Literal(D, p, z, t, ef, neg, quoted) ==
  LET q == IF p = 0 THEN z + Len(D) ELSE Len(D) - p
      intp == IF p = 0 THEN <<0>> ELSE SubSeq(D, 1, p)
      frac == IF p = 0 THEN ZeroDigits(z) \o D ELSE SubSeq(D, p + 1, Len(D))
      e == t + q
      mag == NatToDec(IF e < 0 THEN 0 - e ELSE e)
      expDigits == IF mag = <<>> THEN <<0>> ELSE mag
      expText == IF e = 0 /\ ef = "e" THEN <<>>
                 ELSE (IF ef \in {"E", "E+0"} THEN <<69>> ELSE <<101>>)
                      \o (IF e < 0 THEN <<45>> ELSE IF ef \in {"e+", "E+0"} THEN <<43>> ELSE <<>>)
                      \o (IF ef = "E+0" THEN <<48>> ELSE IF ef = "e00" THEN <<48, 48>> ELSE <<>>)
                      \o CharsOf(expDigits)
      body == (IF neg THEN <<45>> ELSE <<>>) \o CharsOf(intp) \o (IF frac = <<>> THEN <<>> ELSE <<46>> \o CharsOf(frac)) \o expText
  IN IF quoted THEN <<34>> \o body \o <<34>> ELSE body

\* one initial state per (mantissa, sign) so that TLC's workers share the enumeration; a seed has p = -1
VARIABLE cur
Seed(c) == c.p = -1
Init == \E D \in Mantissas : \E neg \in BOOLEAN : cur = [D |-> D, p |-> -1, z |-> 0, t |-> 0, ef |-> "e", neg |-> neg, q |-> FALSE]
Next == /\ Seed(cur)
        /\ \E p \in Points(cur.D) : \E z \in (IF p = 0 THEN ExtraZeros ELSE {0}) :
           \E t \in Scales : \E ef \in ExpForms : \E q \in BOOLEAN :
              cur' = [cur EXCEPT !.p = p, !.z = z, !.t = t, !.ef = ef, !.q = q]

LitOf(c) == Literal(c.D, c.p, c.z, c.t, c.ef, c.neg, FALSE)
\* the plain spelling of D * 10^t: D followed by t zeros; for t < 0 the last -t digits are cut (integral iff they are zeros)
PlainParts(c) ==
  LET cut == IF c.t < 0 THEN 0 - c.t ELSE 0
      n == Len(c.D) IN
  [ok |-> TRUE, neg |-> c.neg,
   int |-> IF c.t >= 0 THEN c.D \o ZeroDigits(c.t) ELSE IF cut >= n THEN <<0>> ELSE SubSeq(c.D, 1, n - cut),
   frac |-> IF c.t >= 0 THEN <<>> ELSE IF cut >= n THEN ZeroDigits(cut - n) \o c.D ELSE SubSeq(c.D, n - cut + 1, n),
   eneg |-> FALSE, exp |-> <<>>]
NotationFree == Seed(cur) \/
  LET p == NumParts(LitOf(cur)) IN
  /\ p.ok
  /\ \A k \in IntKinds : IntMeaning(p, k) = IntMeaning(PlainParts(cur), k)
Transcribed == Seed(cur) \/
  LET p == NumParts(LitOf(cur)) IN \A k \in IntKinds : ImplInt(p, k) = IntMeaning(p, k)
FloatExact == Seed(cur) \/
  LET p == NumParts(LitOf(cur)) IN \A k \in {"float", "double"} :
     FloatMeaning(p, k).exact => FloatMeaning(p, k) = FloatMeaning(PlainParts(cur), k)

Ctx(k) == IF k \in {"int32", "int64", "uint32", "uint64", "float", "double"} THEN "w" ELSE "f"
NumCase(k, lit) == [op |-> "num", k |-> k, ctx |-> Ctx(k), lit |-> lit]
\* marshal direction: the mantissa itself (with its sign) written by protojson for every kind that can hold it
EncKinds == {"int32", "sint32", "sfixed32", "int64", "sint64", "sfixed64", "uint32", "fixed32", "uint64", "fixed64"}
EncCase(k, v) == [op |-> "enc", k |-> k, ctx |-> Ctx(k), v |-> v]
EmitEnc == ~Seed(cur) \/ cur'.p # 0 \/ cur'.z # 0 \/ cur'.t # 0 \/ cur'.q \/ cur'.ef # "e" \/
           \A k \in EncKinds :
              LET m == IntMeaning([ok |-> TRUE, neg |-> cur.neg, int |-> cur.D, frac |-> <<>>, eneg |-> FALSE, exp |-> <<>>], BaseKind(k)) IN
              ~m.ok \/ PrintT("@@" \o ToJson(EncCase(k, m.v) @@ [exp |-> Expect(EncCase(k, m.v))]))
Emit == \A k \in Kinds :
          LET lit == Literal(cur'.D, cur'.p, cur'.z, cur'.t, cur'.ef, cur'.neg, cur'.q) IN
          PrintT("@@" \o ToJson(NumCase(k, lit) @@ [exp |-> Expect(NumCase(k, lit))]))
EmitAll == Emit /\ EmitEnc
=============================================================================
