-------------------------- MODULE JsonDecoderSpec --------------------------
(***************************************************************************)
(* The implementation-shaped token machine of internal/encoding/json:      *)
(*                                                                         *)
(*   state   pos       index of the first unconsumed byte (whitespace      *)
(*                     after every token is consumed eagerly)              *)
(*           last      kind of the last token accepted by Read ("" at the  *)
(*                     start; "," is a token of the machine)               *)
(*           stack     open containers, innermost last ("{" / "[")         *)
(*   action  Read      parseNext (lexer: literals with the delimiter rule, *)
(*                     parseNumber, parseString) followed by the sequencing *)
(*                     rules of Decoder.Read; a string in member position  *)
(*                     followed by ':' becomes a Name; commas are consumed *)
(*                     silently                                             *)
(*           Peek / Clone do not change the machine: Peek is Read with the *)
(*                     result cached for the next Read, Clone copies the   *)
(*                     state (bound by the harness as observations pk, cl) *)
(*                                                                         *)
(* It deliberately mirrors the code (decode.go, decode_string.go,          *)
(* decode_number.go) and not the RFC; MC_JsonDoc proves on all strings up  *)
(* to a bound that it accepts exactly the texts of JsonGrammar whose       *)
(* \u escapes are properly paired, with the same canonical tokens.         *)
(***************************************************************************)
EXTENDS JsonGrammar

\* ---------------------------------------------------------------- utf8.DecodeRune, arithmetically
\* [r |-> code point or -1 (RuneError of width 1), n |-> width]
DecodeRune(s, i) ==
  LET b0 == s[i]
      Cont(x) == x >= 128 /\ x <= 191
      b1 == At(s, i + 1)  b2 == At(s, i + 2)  b3 == At(s, i + 3)
      bad == [r |-> -1, n |-> 1]
  IN IF b0 < 128 THEN [r |-> b0, n |-> 1]
     ELSE IF b0 < 192 THEN bad
     ELSE IF b0 < 224 THEN
          LET cp == (b0 - 192) * 64 + (b1 - 128) IN IF Cont(b1) /\ cp >= 128 THEN [r |-> cp, n |-> 2] ELSE bad
     ELSE IF b0 < 240 THEN
          LET cp == (b0 - 224) * 4096 + (b1 - 128) * 64 + (b2 - 128) IN
          IF Cont(b1) /\ Cont(b2) /\ cp >= 2048 /\ ~(cp >= 55296 /\ cp <= 57343) THEN [r |-> cp, n |-> 3] ELSE bad
     ELSE IF b0 < 248 THEN
          LET cp == (b0 - 240) * 262144 + (b1 - 128) * 4096 + (b2 - 128) * 64 + (b3 - 128) IN
          IF Cont(b1) /\ Cont(b2) /\ Cont(b3) /\ cp >= 65536 /\ cp <= 1114111 THEN [r |-> cp, n |-> 4] ELSE bad
     ELSE bad

\* ---------------------------------------------------------------- parseString
\* s[i] = '"'.  [n |-> length of the token in bytes (0 = error), t |-> decoded bytes]
RECURSIVE ImplStr(_, _, _, _)
ImplStr(s, i0, i, out) ==
  IF i > Len(s) THEN [n |-> 0, t |-> <<>>]                       \* ErrUnexpectedEOF
  ELSE LET d == DecodeRune(s, i) IN
  IF d.r = -1 THEN [n |-> 0, t |-> <<>>]                          \* invalid UTF-8
  ELSE IF d.r < 32 THEN [n |-> 0, t |-> <<>>]
  ELSE IF d.r = 34 THEN [n |-> i + 1 - i0, t |-> out]
  ELSE IF d.r = 92 THEN
     IF i + 1 > Len(s) THEN [n |-> 0, t |-> <<>>]
     ELSE LET e == s[i + 1] IN
     IF e = 34 \/ e = 92 \/ e = 47 THEN ImplStr(s, i0, i + 2, Append(out, e))
     ELSE IF e = 98 THEN ImplStr(s, i0, i + 2, Append(out, 8))
     ELSE IF e = 102 THEN ImplStr(s, i0, i + 2, Append(out, 12))
     ELSE IF e = 110 THEN ImplStr(s, i0, i + 2, Append(out, 10))
     ELSE IF e = 114 THEN ImplStr(s, i0, i + 2, Append(out, 13))
     ELSE IF e = 116 THEN ImplStr(s, i0, i + 2, Append(out, 9))
     ELSE IF e = 117 THEN
        IF i + 5 > Len(s) THEN [n |-> 0, t |-> <<>>]
        ELSE LET v == Hex4(s, i + 2) IN
        IF v < 0 THEN [n |-> 0, t |-> <<>>]
        ELSE IF v >= 55296 /\ v <= 57343 THEN                     \* utf16.IsSurrogate
             IF i + 11 > Len(s) THEN [n |-> 0, t |-> <<>>]
             ELSE LET w == Hex4(s, i + 8) IN
                  IF s[i + 6] # 92 \/ s[i + 7] # 117 \/ w < 0 \/ ~(v <= 56319 /\ w >= 56320 /\ w <= 57343)
                  THEN [n |-> 0, t |-> <<>>]
                  ELSE ImplStr(s, i0, i + 12, out \o Utf8Enc(65536 + (v - 55296) * 1024 + (w - 56320)))
        ELSE ImplStr(s, i0, i + 6, out \o Utf8Enc(v))
     ELSE [n |-> 0, t |-> <<>>]
  ELSE ImplStr(s, i0, i + d.n, out \o SubSeq(s, i, i + d.n - 1))

\* ---------------------------------------------------------------- parseNext
\* matchWithDelim: the literal w at s[i..] followed by a delimiter or the end
MatchWithDelim(s, i, w) == HasPrefix(s, i, w) /\ ~(i + Len(w) <= Len(s) /\ IsNotDelim(s[i + Len(w)]))

\* raw token at pos (pos already past whitespace): [k, n (bytes), t]; k = "err" on a lexical error, "eof" at the end
LexAt(s, pos) ==
  IF pos > Len(s) THEN [k |-> "eof", n |-> 0, t |-> <<>>]
  ELSE LET ch == s[pos]  bad == [k |-> "err", n |-> 0, t |-> <<>>] IN
  IF ch = 110 THEN (IF MatchWithDelim(s, pos, WNull) THEN [k |-> "null", n |-> 4, t |-> <<>>] ELSE bad)
  ELSE IF ch = 116 THEN (IF MatchWithDelim(s, pos, WTrue) THEN [k |-> "true", n |-> 4, t |-> <<>>] ELSE bad)
  ELSE IF ch = 102 THEN (IF MatchWithDelim(s, pos, WFalse) THEN [k |-> "false", n |-> 5, t |-> <<>>] ELSE bad)
  ELSE IF ch = CMinus \/ IsDigitChar(ch) THEN
       LET m == ImplNumberLen(s, pos) IN
       IF m > 0 THEN [k |-> "num", n |-> m, t |-> SubSeq(s, pos, pos + m - 1)] ELSE bad
  ELSE IF ch = 34 THEN
       LET r == ImplStr(s, pos, pos + 1, <<>>) IN IF r.n > 0 THEN [k |-> "str", n |-> r.n, t |-> r.t] ELSE bad
  ELSE IF ch = 123 THEN [k |-> "{", n |-> 1, t |-> <<>>]
  ELSE IF ch = 125 THEN [k |-> "}", n |-> 1, t |-> <<>>]
  ELSE IF ch = 91 THEN [k |-> "[", n |-> 1, t |-> <<>>]
  ELSE IF ch = 93 THEN [k |-> "]", n |-> 1, t |-> <<>>]
  ELSE IF ch = 44 THEN [k |-> ",", n |-> 1, t |-> <<>>]
  ELSE bad

\* ---------------------------------------------------------------- Decoder.Read
Scalars == {"null", "true", "false", "num", "str"}
InitDec(s) == [pos |-> SkipWs(s, 1), last |-> "", stack |-> <<>>]
Top(st) == st.stack[Len(st.stack)]
IsValueNext(st) ==
  IF st.stack = <<>> THEN st.last = ""
  ELSE IF Top(st) = "{" THEN st.last = "name"
  ELSE st.last \in {"[", ","}

\* one Read: [st |-> new state, k |-> kind returned ("err" on error), t |-> text]
RECURSIVE ReadTok(_, _)
ReadTok(s, st) ==
  LET x == LexAt(s, st.pos)
      err == [st |-> st, k |-> "err", t |-> <<>>]
      adv(n) == SkipWs(s, st.pos + n)                         \* consumeToken: token and following whitespace
      ok(k, stack2, pos2) == [st |-> [pos |-> pos2, last |-> k, stack |-> stack2], k |-> k, t |-> x.t]
  IN
  CASE x.k = "err" -> err
    [] x.k = "eof" -> IF st.stack # <<>> THEN err ELSE [st |-> st, k |-> "eof", t |-> <<>>]
    [] x.k \in {"null", "true", "false", "num"} ->
         IF IsValueNext(st) THEN ok(x.k, st.stack, adv(x.n)) ELSE err
    [] x.k = "str" ->
         IF IsValueNext(st) THEN ok("str", st.stack, adv(x.n))
         ELSE IF st.last \notin {"{", ","} THEN err
         ELSE LET p == adv(x.n) IN
              IF p > Len(s) THEN err                          \* ErrUnexpectedEOF
              ELSE IF s[p] # 58 THEN err                      \* missing ':'
              ELSE ok("name", st.stack, SkipWs(s, p + 1))
    [] x.k \in {"{", "["} ->
         IF IsValueNext(st) THEN ok(x.k, Append(st.stack, x.k), adv(1)) ELSE err
    [] x.k = "}" ->
         IF st.stack = <<>> \/ st.last \in {"name", ","} \/ Top(st) # "{" THEN err
         ELSE ok("}", SubSeq(st.stack, 1, Len(st.stack) - 1), adv(1))
    [] x.k = "]" ->
         IF st.stack = <<>> \/ st.last = "," \/ Top(st) # "[" THEN err
         ELSE ok("]", SubSeq(st.stack, 1, Len(st.stack) - 1), adv(1))
    [] x.k = "," ->
         IF st.stack = <<>> \/ st.last \notin (Scalars \cup {"}", "]"}) THEN err
         ELSE ReadTok(s, [pos |-> adv(1), last |-> ",", stack |-> st.stack])    \* commas are skipped

\* read until EOF or error: [acc, c (canonical tokens read), n (number of Reads that returned a token)]
RECURSIVE DecLoop(_, _, _)
DecLoop(s, st, c) ==
  LET r == ReadTok(s, st) IN
  IF r.k = "err" THEN [acc |-> FALSE, c |-> c]
  ELSE IF r.k = "eof" THEN [acc |-> TRUE, c |-> c]
  ELSE DecLoop(s, r.st, Append(c, Tok(r.k, r.t)))
DecRun(s) == DecLoop(s, InitDec(s), <<>>)
\* Read on empty (or all-whitespace) input returns an EOF token without error (the lastToken test in the EOF
\* arm of Decoder.Read is vacuous because of operator precedence); every protojson caller checks the token
\* kind, so a *document* is accepted only if a value was read.
DecAccepts(s) == LET r == DecRun(s) IN r.acc /\ r.c # <<>>
=============================================================================
