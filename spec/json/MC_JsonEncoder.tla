--------------------------- MODULE MC_JsonEncoder ---------------------------
(***************************************************************************)
(* The producer side of C21: internal/encoding/json.Encoder is driven by   *)
(* protojson.Marshal with a well-formed sequence of calls                  *)
(*   StartObject (so) WriteName (name) value ... EndObject (eo),           *)
(*   StartArray (sa) value ... EndArray (ea), WriteString / Int / Uint /   *)
(*   Bool / Null.                                                          *)
(* State: the calls made so far and the stack of open containers; Next     *)
(* appends any call that keeps the sequence well-formed (bounded by        *)
(* MaxOps).  SpecText is the reference rendering (RFC 8259 separators,     *)
(* the two-character escapes and \u00XX for the other controls).  TLC      *)
(* checks on every complete sequence that the reference text is valid      *)
(* JSON denoting exactly the called tokens (Faithful) and that the token   *)
(* machine of the decoder reads the same tokens back (RoundTrip).  Every   *)
(* complete sequence is emitted as an "encseq" case (inputs only): the     *)
(* real Encoder's compact and indented outputs contain deliberately        *)
(* unstable whitespace, so they are judged by Trace_Json (valid, same      *)
(* value in both layouts, tokens = the calls).                             *)
(***************************************************************************)
EXTENDS JsonCases, Json

CONSTANTS MaxOps

Op(o, t) == [o |-> o, t |-> t]
\* string payloads: empty, a, quote, backslash, newline, 0x1f, NUL, 0x0b, 0x0f 0x10, DEL, e-acute, U+2028, astral, "</"
Strings == {<<>>, <<97>>, <<34>>, <<92>>, <<10>>, <<31>>, <<0>>, <<11>>, <<15,16>>, <<127>>, <<195,169>>, <<226,128,168>>, <<240,159,152,128>>, <<60,47>>}
Names == {<<97>>, <<34>>, <<>>}
ValueOps == {Op("null", <<>>), Op("bool", <<1>>), Op("bool", <<0>>), Op("int", <<45,49>>), Op("uint", <<48>>)}
            \cup {Op("str", t) : t \in Strings}

VARIABLES ops, stack, want     \* want: "value" (a value may come), "name" (inside an object: name or close), "done"
Init == ops = <<>> /\ stack = <<>> /\ want = "value"
After(st) == IF st = <<>> THEN "done" ELSE IF st[Len(st)] = "o" THEN "name" ELSE "value"
Next ==
  /\ Len(ops) < MaxOps
  /\ \/ /\ want = "value"
        /\ \/ \E v \in ValueOps : ops' = Append(ops, v) /\ stack' = stack /\ want' = After(stack)
           \/ ops' = Append(ops, Op("so", <<>>)) /\ stack' = Append(stack, "o") /\ want' = "name"
           \/ ops' = Append(ops, Op("sa", <<>>)) /\ stack' = Append(stack, "a") /\ want' = "value"
           \/ /\ stack # <<>> /\ stack[Len(stack)] = "a"
              /\ ops' = Append(ops, Op("ea", <<>>)) /\ stack' = SubSeq(stack, 1, Len(stack) - 1) /\ want' = After(stack')
     \/ /\ want = "name"
        /\ \/ \E nm \in Names : ops' = Append(ops, Op("name", nm)) /\ stack' = stack /\ want' = "value"
           \/ ops' = Append(ops, Op("eo", <<>>)) /\ stack' = SubSeq(stack, 1, Len(stack) - 1) /\ want' = After(stack')

\* ---- reference rendering
HexDigit(n) == IF n < 10 THEN 48 + n ELSE 87 + n
EscByte(c) ==
  CASE c = 34 -> <<92, 34>> [] c = 92 -> <<92, 92>> [] c = 8 -> <<92, 98>> [] c = 12 -> <<92, 102>>
    [] c = 10 -> <<92, 110>> [] c = 13 -> <<92, 114>> [] c = 9 -> <<92, 116>>
    [] OTHER -> IF c < 32 THEN <<92, 117, 48, 48, HexDigit(c \div 16), HexDigit(c % 16)>> ELSE <<c>>
RECURSIVE EscFrom(_, _)
EscFrom(t, i) == IF i > Len(t) THEN <<>> ELSE EscByte(t[i]) \o EscFrom(t, i + 1)
StrText(t) == <<34>> \o EscFrom(t, 1) \o <<34>>
OpText(o) ==
  CASE o.o = "so" -> <<123>> [] o.o = "eo" -> <<125>> [] o.o = "sa" -> <<91>> [] o.o = "ea" -> <<93>>
    [] o.o = "name" -> StrText(o.t) \o <<58>> [] o.o = "str" -> StrText(o.t)
    [] o.o \in {"int", "uint"} -> o.t [] o.o = "null" -> WNull
    [] o.o = "bool" -> IF o.t = <<1>> THEN WTrue ELSE WFalse
\* a comma goes before a value or name that follows a completed value
NeedsComma(prev, cur) == prev.o \notin {"so", "sa", "name"} /\ cur.o \notin {"eo", "ea"}
RECURSIVE TextFrom(_, _)
TextFrom(q, i) == IF i > Len(q) THEN <<>>
                  ELSE (IF i > 1 /\ NeedsComma(q[i-1], q[i]) THEN <<44>> ELSE <<>>) \o OpText(q[i]) \o TextFrom(q, i + 1)
SpecText(q) == TextFrom(q, 1)

Complete == want = "done"
Faithful == Complete => LET g == ParseDoc(SpecText(ops)) IN g.ok /\ ~g.lone /\ g.c = OpsCanon(ops)
RoundTrip == Complete => LET d == DecRun(SpecText(ops)) IN d.acc /\ d.c = OpsCanon(ops)
Emit == want' = "done" => PrintT("@@" \o ToJson([op |-> "encseq", ops |-> ops']))
=============================================================================
