---------------------------- MODULE JsonFieldSet ----------------------------
(***************************************************************************)
(* Field uniqueness, oneof exclusivity and the recursion limit in the      *)
(* protojson and prototext decoders (C26).                                 *)
(*                                                                         *)
(* A document is abstracted to its member structure                        *)
(*    member = [n |-> name, v |-> value shape, sub |-> members]            *)
(*    v: "int" 1 | "str" "x" | "null" | "obj" {sub} | "arr0" [] | "arr1" [1] *)
(* and rendered to JSON / text by the harness.  The decoder is the machine *)
(*    V  seenNums, seenOneofs : internal/set.Ints (JsonIntsSet), budget    *)
(*    A  Member: resolve the name (JSON: json name, then proto name;       *)
(*       text: proto name), then                                           *)
(*         JSON  duplicate number -> error (any cardinality, before the    *)
(*               null test); null -> nothing is set; singular: oneof       *)
(*               already seen -> error                                     *)
(*         text  repeated fields may recur; singular: oneof seen -> error, *)
(*               number seen -> error                                      *)
(*       a message value descends with budget-1; budget < 0 -> error       *)
(* over small schema tables of the target types: T = test.TestAllTypes,    *)
(* N = its NestedMessage, X = TestAllExtensions (extension names), and     *)
(* B = a synthetic message whose field numbers and oneof indexes straddle  *)
(* the 63/64 boundary of set.Ints.                                         *)
(* Decode(..) is the verdict; MC_JsonFieldSet proves on all member         *)
(* sequences up to a bound that an accepted document never sets a          *)
(* singular field twice nor two members of one oneof (the property), and   *)
(* the nesting lemma  accepted chain of depth d  <=>  d <= limit.          *)
(***************************************************************************)
EXTENDS JsonIntsSet, TLC

\* ---------------------------------------------------------------- schema tables
F(jn, tn, num, card, oo, vk, sub) == [jn |-> jn, tn |-> tn, num |-> num, card |-> card, oo |-> oo, vk |-> vk, sub |-> sub]
TFields == {
  F("optionalInt32", "optional_int32", 1, "one", -1, "int", ""),
  F("optionalString", "optional_string", 14, "one", -1, "str", ""),
  F("optionalNestedMessage", "optional_nested_message", 18, "one", -1, "msg", "N"),
  F("repeatedInt32", "repeated_int32", 31, "list", -1, "int", ""),
  F("mapInt32Int32", "map_int32_int32", 56, "map", -1, "int", ""),
  F("defaultInt32", "default_int32", 81, "one", -1, "int", ""),
  F("oneofUint32", "oneof_uint32", 111, "one", 0, "int", ""),
  F("oneofNestedMessage", "oneof_nested_message", 112, "one", 0, "msg", "N"),
  F("oneofString", "oneof_string", 113, "one", 0, "str", ""),
  F("oneofOptionalUint32", "oneof_optional_uint32", 120, "one", 1, "int", "")}
NFields == {
  F("a", "a", 1, "one", -1, "int", ""),
  F("corecursive", "corecursive", 2, "one", -1, "msg", "T")}
XFields == {
  F("[goproto.proto.test.optional_int32]", "[goproto.proto.test.optional_int32]", 1, "one", -1, "int", ""),
  F("[goproto.proto.test.optional_string]", "[goproto.proto.test.optional_string]", 14, "one", -1, "str", ""),
  F("[goproto.proto.test.repeated_int32]", "[goproto.proto.test.repeated_int32]", 31, "list", -1, "int", "")}
\* synthetic message (built by the harness with protodesc/dynamicpb): singular int32 f_<n> = n (json name f<n>) and
\* 67 oneofs o<i> = { a_<i> = 2000+2i, b_<i> = 2001+2i } (json names a<i>, b<i>)
BNums == {1, 2, 31, 32, 33, 62, 63, 64, 65, 66, 127, 128, 129, 255, 256, 1000, 65535, 65536, 536870911}
BOneofs == 0..66
BFields ==
  {F("f" \o ToString(n), "f_" \o ToString(n), n, "one", -1, "int", "") : n \in BNums}
  \cup {F("a" \o ToString(i), "a_" \o ToString(i), 2000 + 2*i, "one", i, "int", "") : i \in BOneofs}
  \cup {F("b" \o ToString(i), "b_" \o ToString(i), 2001 + 2*i, "one", i, "int", "") : i \in BOneofs}
Fields(t) == CASE t = "T" -> TFields [] t = "N" -> NFields [] t = "X" -> XFields [] t = "B" -> BFields

NoField == F("", "", 0, "", -1, "", "")
Pick(S) == IF S = {} THEN NoField ELSE CHOOSE f \in S : TRUE
\* JSON: the JSON name wins, then the proto name; text: the proto (text) name only
Lookup(fmt, t, name) ==
  IF fmt = "json"
  THEN LET j == {f \in Fields(t) : f.jn = name} IN IF j # {} THEN Pick(j) ELSE Pick({f \in Fields(t) : f.tn = name})
  ELSE Pick({f \in Fields(t) : f.tn = name})

\* ---------------------------------------------------------------- the decoder machine
MapKeys == {"1", "2", "3"}        \* member names that are int32 map keys in the rendered documents
DefaultLimit == 10000
Limit(lim) == IF lim = 0 THEN DefaultLimit ELSE lim

\* nesting that skipping the value of an unknown member costs: JSON counts every object and array
\* (skipJSONValue), text counts messages only (skipMessageValue); it must fit into the remaining budget
RECURSIVE SkipDepth(_, _)
SkipDepth(fmt, m) ==
  IF m.v = "obj" THEN LET ds == {SkipDepth(fmt, m.sub[k]) : k \in 1..Len(m.sub)} IN
                      1 + (IF ds = {} THEN 0 ELSE CHOOSE x \in ds : \A y \in ds : y <= x)
  ELSE IF fmt = "json" /\ m.v \in {"arr0", "arr1"} THEN 1
  ELSE 0

\* result: [ok |-> accepted, pop |-> set of populated field numbers at this level, na |-> outside the modelled fragment]
Rej == [ok |-> FALSE, pop |-> {}, na |-> FALSE]
RECURSIVE Members(_, _, _, _, _, _, _, _, _), Msg(_, _, _, _, _)
\* a message value: costs one unit of the recursion budget
Msg(fmt, t, ms, budget, du) ==
  IF budget - 1 < 0 THEN Rej ELSE Members(fmt, t, ms, 1, EmptyInts, EmptyInts, budget - 1, du, {})

Members(fmt, t, ms, i, seen, seenOo, budget, du, pop) ==
  IF i > Len(ms) THEN [ok |-> TRUE, pop |-> pop, na |-> FALSE]
  ELSE
  LET m == ms[i]
      f == Lookup(fmt, t, m.n)
      next(seen2, oo2, pop2) == Members(fmt, t, ms, i + 1, seen2, oo2, budget, du, pop2)
      num == El(f.num)
      scalarOk == (f.vk = "int" /\ m.v = "int") \/ (f.vk = "str" /\ m.v = "str")
  IN
  IF f = NoField THEN                                                      \* unknown name (the value is well-formed by construction)
     (IF du /\ SkipDepth(fmt, m) <= budget THEN next(seen, seenOo, pop) ELSE Rej)
  ELSE IF fmt = "json" THEN
     IF IntsHas(seen, num) THEN Rej                                        \* duplicate field, whatever its cardinality
     ELSE LET seen2 == IntsSet(seen, num) IN
     IF m.v = "null" THEN next(seen2, seenOo, pop)                         \* null sets nothing (no Value/NullValue fields in the tables)
     ELSE IF f.card = "list" THEN
          (IF m.v = "arr0" THEN next(seen2, seenOo, pop)
           ELSE IF m.v = "arr1" /\ f.vk = "int" THEN next(seen2, seenOo, pop \cup {f.num}) ELSE Rej)
     ELSE IF f.card = "map" THEN
          (IF m.v # "obj" THEN Rej
           ELSE IF \E k \in 1..Len(m.sub) : m.sub[k].n \notin MapKeys \/ m.sub[k].v # "int" THEN Rej
           ELSE IF \E a, b \in 1..Len(m.sub) : a # b /\ m.sub[a].n = m.sub[b].n THEN Rej      \* duplicate map key
           ELSE next(seen2, seenOo, IF m.sub = <<>> THEN pop ELSE pop \cup {f.num}))
     ELSE \* singular
          IF f.oo >= 0 /\ IntsHas(seenOo, El(f.oo)) THEN Rej
          ELSE LET oo2 == IF f.oo >= 0 THEN IntsSet(seenOo, El(f.oo)) ELSE seenOo IN
               IF f.vk = "msg" THEN
                    (IF m.v # "obj" THEN Rej
                     ELSE LET r == Msg(fmt, f.sub, m.sub, budget, du) IN
                          IF r.na THEN r ELSE IF ~r.ok THEN Rej ELSE next(seen2, oo2, pop \cup {f.num}))
               ELSE IF scalarOk THEN next(seen2, oo2, pop \cup {f.num}) ELSE Rej
  ELSE \* text
     IF f.card = "map" THEN [ok |-> FALSE, pop |-> {}, na |-> TRUE]         \* map entry syntax is not modelled
     ELSE IF f.card = "list" THEN
          (IF m.v = "arr0" THEN next(seen, seenOo, pop)
           ELSE IF m.v \in {"arr1", "int"} /\ f.vk = "int" THEN next(seen, seenOo, pop \cup {f.num}) ELSE Rej)
     ELSE
          IF f.oo >= 0 /\ IntsHas(seenOo, El(f.oo)) THEN Rej
          ELSE LET oo2 == IF f.oo >= 0 THEN IntsSet(seenOo, El(f.oo)) ELSE seenOo IN
               IF IntsHas(seen, num) THEN Rej
               ELSE IF f.vk = "msg" THEN
                    (IF m.v # "obj" THEN Rej
                     ELSE LET r == Msg(fmt, f.sub, m.sub, budget, du) IN
                          IF r.na THEN r ELSE IF ~r.ok THEN Rej ELSE next(IntsSet(seen, num), oo2, pop \cup {f.num}))
               ELSE IF scalarOk THEN next(IntsSet(seen, num), oo2, pop \cup {f.num}) ELSE Rej

Decode(fmt, t, ms, lim, du) == Msg(fmt, t, ms, Limit(lim), du)

\* ---------------------------------------------------------------- the property, declaratively (top level of a document)
\* occurrences that set something: known field, value not null
Setting(fmt, t, ms) == {i \in 1..Len(ms) : Lookup(fmt, t, ms[i].n) # NoField /\ ms[i].v # "null"}
FieldOf(fmt, t, ms, i) == Lookup(fmt, t, ms[i].n)
SingularOnce(fmt, t, ms) ==
  \A i, j \in Setting(fmt, t, ms) :
     i # j /\ FieldOf(fmt, t, ms, i).card = "one" => FieldOf(fmt, t, ms, i).num # FieldOf(fmt, t, ms, j).num
OneofOnce(fmt, t, ms) ==
  \A i, j \in Setting(fmt, t, ms) :
     i # j /\ FieldOf(fmt, t, ms, i).oo >= 0 /\ FieldOf(fmt, t, ms, i).card = "one" /\ FieldOf(fmt, t, ms, j).card = "one"
       => FieldOf(fmt, t, ms, i).oo # FieldOf(fmt, t, ms, j).oo

\* ---------------------------------------------------------------- recursion limit
\* the chain  T.optional_nested_message -> N.corecursive -> T ...  of d message levels (d >= 1), as members of the top level
RECURSIVE ChainFrom(_, _)
ChainFrom(t, d) ==      \* members of a message of type t that has d-1 further levels below it
  IF d <= 1 THEN <<>>
  ELSE IF t = "T" THEN <<[n |-> "optional_nested_message", v |-> "obj", sub |-> ChainFrom("N", d - 1)]>>
  ELSE <<[n |-> "corecursive", v |-> "obj", sub |-> ChainFrom("T", d - 1)]>>
Chain(d) == ChainFrom("T", d)
NestAccepted(d, lim) == d <= Limit(lim)
\* In the text format a map entry is itself written as a message { key: .. value { .. } } and counted as one:
\* a chain of d messages that alternates map fields and plain fields has d \div 2 entries in it.
NestLevels(fmt, via, d) == IF fmt = "text" /\ via = "map" THEN d + (d \div 2) ELSE d

\* ---------------------------------------------------------------- Expect
ExpectUniq(e) ==
  CASE e.op = "members" ->
         LET r == Decode(e.fmt, e.t, e.ms, e.lim, e.du = 1) IN
         IF r.na THEN [ran |-> TRUE] ELSE [ran |-> TRUE, acc |-> r.ok, cnt |-> Cardinality(r.pop)]
    [] e.op = "nest" ->
         \* message nesting (singular, repeated, map-valued, oneof member, skipped unknown value): exact boundary;
         \* arrays inside google.protobuf.Value are counted per array, not per message: only "far beyond the limit fails"
         IF e.via = "value" THEN (IF e.d >= 2 * Limit(e.lim) + 2 THEN [ran |-> TRUE, acc |-> FALSE] ELSE [ran |-> TRUE])
         ELSE [ran |-> TRUE, acc |-> NestAccepted(NestLevels(e.fmt, e.via, e.d), e.lim)]
    [] e.op = "fuzz" -> [ran |-> TRUE]              \* totality: the call returned (a panic replaces the whole observation)
    [] e.op = "ints" -> ExpectInts(e)
=============================================================================
