---------------------------- MODULE JsonGrammar ----------------------------
(***************************************************************************)
(* RFC 8259 as a recursive-descent recogniser over UTF-8 bytes that also   *)
(* builds the abstract JSON value.  It is written from the RFC's ABNF and   *)
(* is independent of the implementation's tokenizer (JsonDecoderSpec).      *)
(*                                                                         *)
(*   JSON-text = ws value ws                                               *)
(*   value  = false / null / true / object / array / number / string      *)
(*   object = "{" ws [ member *( ws "," ws member ) ] ws "}"               *)
(*   member = string ws ":" ws value                                       *)
(*   array  = "[" ws [ value *( ws "," ws value ) ] ws "]"                 *)
(*   string = quotation-mark *char quotation-mark                          *)
(*   char   = unescaped / "\" ( %x22 / "\" / "/" / b f n r t / uXXXX )     *)
(*   ws     = *( space / tab / LF / CR )                                   *)
(* The document must be well-formed UTF-8 (RFC 8259 section 8.1; Unicode   *)
(* table 3-7), which is checked inside strings; outside strings only ASCII *)
(* can occur in a valid text.                                              *)
(*                                                                         *)
(* The abstract value is the sequence of *canonical tokens*                *)
(*   [k |-> "{" | "}" | "[" | "]" | "name" | "str" | "num" | "true" |      *)
(*          "false" | "null",  t |-> text]                                 *)
(* where t is the decoded string (UTF-8 bytes after resolving escapes) for *)
(* name/str, the literal for num and <<>> otherwise.  Two texts denote the *)
(* same JSON value (insignificant whitespace, escape spelling) iff their   *)
(* canonical token sequences are equal; member order and duplicates are    *)
(* kept.                                                                   *)
(***************************************************************************)
EXTENDS JsonNumber

IsWs(c) == c = 32 \/ c = 9 \/ c = 10 \/ c = 13
RECURSIVE SkipWs(_, _)
SkipWs(s, i) == IF i <= Len(s) /\ IsWs(s[i]) THEN SkipWs(s, i + 1) ELSE i

Tok(k, t) == [k |-> k, t |-> t]

\* ---------------------------------------------------------------- UTF-8 (Unicode table 3-7)
InR(c, lo, hi) == c >= lo /\ c <= hi
At(s, i) == IF i <= Len(s) THEN s[i] ELSE -1
\* length of the well-formed UTF-8 sequence starting at s[i], 0 if ill-formed
Utf8Len(s, i) ==
  LET a == At(s, i)  b == At(s, i + 1)  c == At(s, i + 2)  d == At(s, i + 3)
      T(x) == InR(x, 128, 191)
  IN IF InR(a, 0, 127) THEN 1
     ELSE IF InR(a, 194, 223) /\ T(b) THEN 2
     ELSE IF a = 224 /\ InR(b, 160, 191) /\ T(c) THEN 3
     ELSE IF (InR(a, 225, 236) \/ InR(a, 238, 239)) /\ T(b) /\ T(c) THEN 3
     ELSE IF a = 237 /\ InR(b, 128, 159) /\ T(c) THEN 3
     ELSE IF a = 240 /\ InR(b, 144, 191) /\ T(c) /\ T(d) THEN 4
     ELSE IF InR(a, 241, 243) /\ T(b) /\ T(c) /\ T(d) THEN 4
     ELSE IF a = 244 /\ InR(b, 128, 143) /\ T(c) /\ T(d) THEN 4
     ELSE 0

\* UTF-8 encoding of a code point below 2^21
Utf8Enc(cp) ==
  IF cp < 128 THEN <<cp>>
  ELSE IF cp < 2048 THEN <<192 + cp \div 64, 128 + (cp % 64)>>
  ELSE IF cp < 65536 THEN <<224 + cp \div 4096, 128 + ((cp \div 64) % 64), 128 + (cp % 64)>>
  ELSE <<240 + cp \div 262144, 128 + ((cp \div 4096) % 64), 128 + ((cp \div 64) % 64), 128 + (cp % 64)>>

\* ---------------------------------------------------------------- strings
HexVal(c) == IF InR(c, 48, 57) THEN c - 48 ELSE IF InR(c, 97, 102) THEN c - 87 ELSE IF InR(c, 65, 70) THEN c - 55 ELSE -1
\* value of the four hex digits s[i..i+3], -1 if they are not four hex digits
Hex4(s, i) ==
  IF i + 3 > Len(s) THEN -1
  ELSE LET a == HexVal(s[i]) b == HexVal(s[i+1]) c == HexVal(s[i+2]) d == HexVal(s[i+3]) IN
       IF a < 0 \/ b < 0 \/ c < 0 \/ d < 0 THEN -1 ELSE a * 4096 + b * 256 + c * 16 + d
IsHiSurr(u) == InR(u, 55296, 56319)     \* D800..DBFF
IsLoSurr(u) == InR(u, 56320, 57343)     \* DC00..DFFF
SimpleEscape(c) ==
  CASE c = 34 -> 34 [] c = 92 -> 92 [] c = 47 -> 47 [] c = 98 -> 8 [] c = 102 -> 12
    [] c = 110 -> 10 [] c = 114 -> 13 [] c = 116 -> 9 [] OTHER -> -1

\* Scan the string whose opening quote is s[i-1]; i = first content index.
\* Result [n |-> index after the closing quote, or 0 if not a string; t |-> decoded bytes;
\*         lone |-> some \uXXXX escape is an unpaired surrogate (grammatical per the ABNF, denotes no Unicode text)]
\* A paired surrogate escape decodes to the supplementary code point; a lone one is kept as U+FFFD.
RECURSIVE StrScan(_, _, _, _)
StrScan(s, i, acc, lone) ==
  IF i > Len(s) THEN [n |-> 0, t |-> <<>>, lone |-> lone]
  ELSE LET c == s[i] IN
  IF c = 34 THEN [n |-> i + 1, t |-> acc, lone |-> lone]
  ELSE IF c < 32 THEN [n |-> 0, t |-> <<>>, lone |-> lone]
  ELSE IF c = 92 THEN
     LET e == At(s, i + 1) IN
     IF e = 117 THEN
        LET u == Hex4(s, i + 2) IN
        IF u < 0 THEN [n |-> 0, t |-> <<>>, lone |-> lone]
        ELSE IF IsHiSurr(u) /\ At(s, i + 6) = 92 /\ At(s, i + 7) = 117 /\ Hex4(s, i + 8) >= 0 /\ IsLoSurr(Hex4(s, i + 8))
             THEN StrScan(s, i + 12, acc \o Utf8Enc(65536 + (u - 55296) * 1024 + (Hex4(s, i + 8) - 56320)), lone)
        ELSE IF IsHiSurr(u) \/ IsLoSurr(u) THEN StrScan(s, i + 6, acc \o <<239, 191, 189>>, TRUE)
        ELSE StrScan(s, i + 6, acc \o Utf8Enc(u), lone)
     ELSE IF e >= 0 /\ SimpleEscape(e) >= 0 THEN StrScan(s, i + 2, Append(acc, SimpleEscape(e)), lone)
     ELSE [n |-> 0, t |-> <<>>, lone |-> lone]
  ELSE LET m == Utf8Len(s, i) IN
       IF m = 0 THEN [n |-> 0, t |-> <<>>, lone |-> lone]
       ELSE StrScan(s, i + m, acc \o SubSeq(s, i, i + m - 1), lone)

\* ---------------------------------------------------------------- numbers and literals
\* end of the maximal run of number characters [-+.0-9eE] starting at i
RECURSIVE NumRunEnd(_, _)
NumRunEnd(s, i) ==
  IF i <= Len(s) /\ (IsDigitChar(s[i]) \/ s[i] = CMinus \/ s[i] = CPlus \/ s[i] = CDot \/ s[i] = CLowE \/ s[i] = CUpE)
  THEN NumRunEnd(s, i + 1) ELSE i - 1
\* longest prefix of the run s[i..j] that is a number (RFC tokenisation is by grammar, so try the whole run first;
\* a valid text never has a number directly followed by another number character)
HasPrefix(s, i, w) == i + Len(w) - 1 <= Len(s) /\ SubSeq(s, i, i + Len(w) - 1) = w
WTrue == <<116, 114, 117, 101>>  WFalse == <<102, 97, 108, 115, 101>>  WNull == <<110, 117, 108, 108>>

Fail == [n |-> 0, c |-> <<>>, lone |-> FALSE]

\* ---------------------------------------------------------------- values
\* PValue(s, i): parse one value starting exactly at s[i] -> [n |-> index after it (0 = error), c |-> canonical tokens, lone]
RECURSIVE PValue(_, _), PMembers(_, _, _, _), PElems(_, _, _, _)
PValue(s, i) ==
  IF i > Len(s) THEN Fail
  ELSE LET ch == s[i] IN
  IF ch = 123 THEN           \* {
     LET j == SkipWs(s, i + 1) IN
     IF At(s, j) = 125 THEN [n |-> j + 1, c |-> <<Tok("{", <<>>), Tok("}", <<>>)>>, lone |-> FALSE]
     ELSE PMembers(s, j, <<Tok("{", <<>>)>>, FALSE)
  ELSE IF ch = 91 THEN       \* [
     LET j == SkipWs(s, i + 1) IN
     IF At(s, j) = 93 THEN [n |-> j + 1, c |-> <<Tok("[", <<>>), Tok("]", <<>>)>>, lone |-> FALSE]
     ELSE PElems(s, j, <<Tok("[", <<>>)>>, FALSE)
  ELSE IF ch = 34 THEN
     LET r == StrScan(s, i + 1, <<>>, FALSE) IN
     IF r.n = 0 THEN Fail ELSE [n |-> r.n, c |-> <<Tok("str", r.t)>>, lone |-> r.lone]
  ELSE IF ch = 116 THEN (IF HasPrefix(s, i, WTrue) THEN [n |-> i + 4, c |-> <<Tok("true", <<>>)>>, lone |-> FALSE] ELSE Fail)
  ELSE IF ch = 102 THEN (IF HasPrefix(s, i, WFalse) THEN [n |-> i + 5, c |-> <<Tok("false", <<>>)>>, lone |-> FALSE] ELSE Fail)
  ELSE IF ch = 110 THEN (IF HasPrefix(s, i, WNull) THEN [n |-> i + 4, c |-> <<Tok("null", <<>>)>>, lone |-> FALSE] ELSE Fail)
  ELSE IF ch = CMinus \/ IsDigitChar(ch) THEN
     LET j == NumRunEnd(s, i)  lit == SubSeq(s, i, j) IN
     IF IsNumber(lit) THEN [n |-> j + 1, c |-> <<Tok("num", lit)>>, lone |-> FALSE] ELSE Fail
  ELSE Fail

\* members: s[i] must start a member (a string); acc ends with "{" or a complete member
PMembers(s, i, acc, lone) ==
  IF At(s, i) # 34 THEN Fail
  ELSE LET k == StrScan(s, i + 1, <<>>, FALSE) IN
  IF k.n = 0 THEN Fail
  ELSE LET j == SkipWs(s, k.n) IN
  IF At(s, j) # 58 THEN Fail
  ELSE LET v == PValue(s, SkipWs(s, j + 1)) IN
  IF v.n = 0 THEN Fail
  ELSE LET acc2 == Append(acc, Tok("name", k.t)) \o v.c
           lone2 == lone \/ k.lone \/ v.lone
           e == SkipWs(s, v.n) IN
       IF At(s, e) = 125 THEN [n |-> e + 1, c |-> Append(acc2, Tok("}", <<>>)), lone |-> lone2]
       ELSE IF At(s, e) = 44 THEN PMembers(s, SkipWs(s, e + 1), acc2, lone2)
       ELSE Fail

PElems(s, i, acc, lone) ==
  LET v == PValue(s, i) IN
  IF v.n = 0 THEN Fail
  ELSE LET acc2 == acc \o v.c
           lone2 == lone \/ v.lone
           e == SkipWs(s, v.n) IN
       IF At(s, e) = 93 THEN [n |-> e + 1, c |-> Append(acc2, Tok("]", <<>>)), lone |-> lone2]
       ELSE IF At(s, e) = 44 THEN PElems(s, SkipWs(s, e + 1), acc2, lone2)
       ELSE Fail

\* ---------------------------------------------------------------- documents
\* [ok, c, lone]
ParseDoc(s) ==
  LET v == PValue(s, SkipWs(s, 1)) IN
  IF v.n = 0 THEN [ok |-> FALSE, c |-> <<>>, lone |-> FALSE]
  ELSE IF SkipWs(s, v.n) # Len(s) + 1 THEN [ok |-> FALSE, c |-> <<>>, lone |-> FALSE]
  ELSE [ok |-> TRUE, c |-> v.c, lone |-> v.lone]
ValidJson(s) == ParseDoc(s).ok

\* ---------------------------------------------------------------- derived notions on canonical token sequences
\* nesting depth (number of simultaneously open containers)
RECURSIVE DepthFrom(_, _, _, _)
DepthFrom(c, i, cur, mx) ==
  IF i > Len(c) THEN mx
  ELSE IF c[i].k \in {"{", "["} THEN DepthFrom(c, i + 1, cur + 1, IF cur + 1 > mx THEN cur + 1 ELSE mx)
  ELSE IF c[i].k \in {"}", "]"} THEN DepthFrom(c, i + 1, cur - 1, mx)
  ELSE DepthFrom(c, i + 1, cur, mx)
Depth(c) == DepthFrom(c, 1, 0, 0)

\* index of the token that closes the container opened at c[i]
RECURSIVE CloseOf(_, _, _)
CloseOf(c, i, d) ==
  IF c[i].k \in {"{", "["} THEN CloseOf(c, i + 1, d + 1)
  ELSE IF c[i].k \in {"}", "]"} THEN (IF d = 1 THEN i ELSE CloseOf(c, i + 1, d - 1))
  ELSE CloseOf(c, i + 1, d)
\* index after the value starting at c[i]
AfterValue(c, i) == IF c[i].k \in {"{", "["} THEN CloseOf(c, i, 0) + 1 ELSE i + 1

\* names of the members of the object opened at c[i] (direct members only)
RECURSIVE MemberNames(_, _)
MemberNames(c, j) ==      \* j = index of a "name" token or of the closing "}"
  IF c[j].k = "}" THEN <<>> ELSE <<c[j].t>> \o MemberNames(c, AfterValue(c, j + 1))
NoDupSeq(q) == \A a, b \in 1..Len(q) : a # b => q[a] # q[b]
\* no object anywhere in the value has two members with the same (decoded) name
DupFree(c) == \A i \in 1..Len(c) : c[i].k = "{" => NoDupSeq(MemberNames(c, i + 1))
=============================================================================
