-------------------------- MODULE MC_JsonFieldSet --------------------------
(***************************************************************************)
(* C26: all member sequences up to MaxMembers over a member alphabet of    *)
(* the target type Type (json name, proto name, sibling oneof members,     *)
(* repeated and map fields, unknown names, null / scalar / message values  *)
(* with nested duplicates; for the synthetic type B field numbers and      *)
(* oneof indexes on both sides of 63/64).  TLC checks on every sequence,   *)
(* for both formats:                                                       *)
(*   Unique       an accepted document sets no singular field twice and    *)
(*                no two members of one oneof (the property, stated        *)
(*                declaratively, against the decoder machine)              *)
(*   JsonStrict   JSON: an accepted document names no field twice at all   *)
(*   Discard      DiscardUnknown never turns an accepted document into a   *)
(*                rejected one, and changes nothing without unknown names  *)
(*   NestLemma    (once) chain of d messages accepted <=> d <= limit       *)
(* and emits every sequence as tour cases (json/text x DiscardUnknown),    *)
(* plus the nesting cases around each limit including the default 10000.   *)
(***************************************************************************)
EXTENDS JsonFieldSet, Json

CONSTANTS MaxT, MaxB, MaxX     \* bound (number of members) per target type; 0 switches a type off

M(n, v) == [n |-> n, v |-> v, sub |-> <<>>]
MO(n, sub) == [n |-> n, v |-> "obj", sub |-> sub]
AlphabetT == {
  M("optionalInt32", "int"), M("optional_int32", "int"), M("optionalInt32", "null"), M("optional_int32", "str"),
  M("optionalString", "str"), M("repeatedInt32", "arr1"), M("repeated_int32", "arr1"), M("repeated_int32", "int"),
  M("defaultInt32", "int"), M("default_int32", "int"),
  M("oneofUint32", "int"), M("oneof_uint32", "null"), M("oneof_string", "str"), M("oneofOptionalUint32", "int"),
  MO("optionalNestedMessage", <<>>), MO("optional_nested_message", <<M("a", "int"), M("a", "int")>>),
  MO("oneof_nested_message", <<M("a", "int")>>),
  MO("optional_nested_message", <<MO("corecursive", <<M("oneof_uint32", "int"), M("oneofString", "str")>>)>>),
  MO("mapInt32Int32", <<M("1", "int"), M("2", "int")>>), MO("mapInt32Int32", <<M("1", "int"), M("1", "int")>>),
  M("unknown_field", "int") }
AlphabetX == {
  M("[goproto.proto.test.optional_int32]", "int"), M("[goproto.proto.test.optional_int32]", "null"),
  M("[goproto.proto.test.optional_string]", "str"), M("[goproto.proto.test.repeated_int32]", "arr1"),
  M("[goproto.proto.test.no_such_extension]", "int"), M("optional_int32", "int") }
BForms(n) == {M("f" \o ToString(n), "int"), M("f_" \o ToString(n), "int")}
AlphabetB ==
  UNION {BForms(n) : n \in {1, 62, 63, 64, 65, 128, 536870911}}
  \cup {M("f63", "null"), M("f64", "null")}
  \cup UNION {{M("a" \o ToString(i), "int"), M("b_" \o ToString(i), "int")} : i \in {0, 62, 63, 64, 65}}
  \cup {M("a_64", "null")}
Alphabet(t) == CASE t = "T" -> AlphabetT [] t = "X" -> AlphabetX [] t = "B" -> AlphabetB
MaxMembers(t) == CASE t = "T" -> MaxT [] t = "X" -> MaxX [] t = "B" -> MaxB
Types == (IF MaxT > 0 THEN {"T"} ELSE {}) \cup (IF MaxB > 0 THEN {"B"} ELSE {}) \cup (IF MaxX > 0 THEN {"X"} ELSE {})

\* Type: the target message type of this document (one initial state per type)
VARIABLES Type, ms
Init == Type \in Types /\ ms = <<>>
Next == Len(ms) < MaxMembers(Type) /\ (\E m \in Alphabet(Type) : ms' = Append(ms, m)) /\ Type' = Type

Fmts == {"json", "text"}
Ok(fmt, du) == LET r == Decode(fmt, Type, ms, 0, du) IN r.ok /\ ~r.na
Unique == \A fmt \in Fmts : Ok(fmt, FALSE) => SingularOnce(fmt, Type, ms) /\ OneofOnce(fmt, Type, ms)
JsonStrict == Ok("json", FALSE) =>
                \A i, j \in 1..Len(ms) : i # j => Lookup("json", Type, ms[i].n).num # Lookup("json", Type, ms[j].n).num
RECURSIVE AllKnown(_, _, _)
AllKnown(fmt, t, q) == \A i \in 1..Len(q) :
                         LET f == Lookup(fmt, t, q[i].n) IN
                         f # NoField /\ (f.vk = "msg" /\ q[i].v = "obj" => AllKnown(fmt, f.sub, q[i].sub))
Discard == \A fmt \in Fmts :
             /\ (Ok(fmt, FALSE) => Ok(fmt, TRUE))
             /\ (AllKnown(fmt, Type, ms) => Ok(fmt, FALSE) = Ok(fmt, TRUE))
             /\ (Ok(fmt, TRUE) => SingularOnce(fmt, Type, ms) /\ OneofOnce(fmt, Type, ms))
\* the three laws above with the four decoder runs shared (used by the checks for speed)
Laws == LET jf == Decode("json", Type, ms, 0, FALSE)  jt == Decode("json", Type, ms, 0, TRUE)
            tf == Decode("text", Type, ms, 0, FALSE)  tt == Decode("text", Type, ms, 0, TRUE)
            ok(r) == r.ok /\ ~r.na
            uniq(fmt) == SingularOnce(fmt, Type, ms) /\ OneofOnce(fmt, Type, ms)
        IN /\ (ok(jf) \/ ok(jt) => uniq("json"))
           /\ (ok(tf) \/ ok(tt) => uniq("text"))
           /\ (ok(jf) => \A i, j \in 1..Len(ms) : i # j => Lookup("json", Type, ms[i].n).num # Lookup("json", Type, ms[j].n).num)
           /\ (ok(jf) => ok(jt)) /\ (ok(tf) => ok(tt))
           /\ (AllKnown("json", Type, ms) => ok(jf) = ok(jt))
           /\ (AllKnown("text", Type, ms) => ok(tf) = ok(tt))
NestLemma == ms # <<>> \/ Type # "T" \/
             \A fmt \in Fmts : \A lim \in 1..4 : \A d \in 1..6 :
                Decode(fmt, "T", Chain(d), lim, FALSE).ok = NestAccepted(d, lim)

Case(fmt, du) == [op |-> "members", fmt |-> fmt, t |-> Type, ms |-> ms', lim |-> 0, du |-> du]
Emit == \A fmt \in Fmts : \A du \in {0, 1} :
          PrintT("@@" \o ToJson(Case(fmt, du) @@ [exp |-> ExpectUniq(Case(fmt, du))]))
NestCase(fmt, via, d, lim) == [op |-> "nest", fmt |-> fmt, via |-> via, d |-> d, lim |-> lim]
Vias(fmt) == IF fmt = "json" THEN {"one", "oneof", "list", "map", "skip", "value"} ELSE {"one", "oneof", "list", "map", "skip"}
Depths(lim) == IF lim = 0 THEN {1, 9999, 10000, 10001, 10002, 20003} ELSE {1, lim - 1, lim, lim + 1, lim + 2, 2 * lim + 2, 2 * lim + 3} \ {0}
\* emitted once: on the first transition out of the initial state of type T
EmitNest == ms # <<>> \/ Type # "T" \/ ms' # <<M("optionalInt32", "int")>> \/ \A fmt \in Fmts : \A via \in Vias(fmt) : \A lim \in {0, 1, 2, 3, 7} : \A d \in Depths(lim) :
              PrintT("@@" \o ToJson(NestCase(fmt, via, d, lim) @@ [exp |-> ExpectUniq(NestCase(fmt, via, d, lim))]))
EmitAll == Emit /\ EmitNest
=============================================================================
