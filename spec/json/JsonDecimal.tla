---------------------------- MODULE JsonDecimal ----------------------------
(***************************************************************************)
(* Decimal digit-sequence arithmetic for the JSON family.                  *)
(*                                                                         *)
(* TLC integers are 32 bit, JSON integers go up to 2^64 and JSON literals  *)
(* are unbounded, so every numeric value of the JSON specifications is a   *)
(* sequence of decimal digits (each 0..9, most significant first, the      *)
(* empty sequence is zero) or a little-endian byte vector (module VB).     *)
(* This module converts between the two and compares digit sequences.      *)
(* MC_JsonNumber checks it against TLC's native integers and checks        *)
(* DecToBytes/BytesToDec to be mutually inverse on the boundary domain.    *)
(***************************************************************************)
EXTENDS Integers, Sequences, VB

IsDigitChar(c) == c >= 48 /\ c <= 57
DigitsOf(chars) == [i \in 1..Len(chars) |-> chars[i] - 48]     \* character codes -> digits
CharsOf(digits) == [i \in 1..Len(digits) |-> digits[i] + 48]

RECURSIVE LeadingZeros(_, _)
LeadingZeros(d, i) == IF i > Len(d) \/ d[i] # 0 THEN i - 1 ELSE LeadingZeros(d, i + 1)
RECURSIVE TrailingZeros(_, _)
TrailingZeros(d, i) == IF i < 1 \/ d[i] # 0 THEN Len(d) - i ELSE TrailingZeros(d, i - 1)

StripLead(d)  == SubSeq(d, LeadingZeros(d, 1) + 1, Len(d))
StripTrail(d) == SubSeq(d, 1, Len(d) - TrailingZeros(d, Len(d)))
AllZero(d) == \A i \in 1..Len(d) : d[i] = 0
ZeroDigits(n) == [i \in 1..n |-> 0]

\* comparison of canonical (no leading zero) digit sequences: -1, 0, 1
RECURSIVE CmpLex(_, _, _)
CmpLex(a, b, i) == IF i > Len(a) THEN 0
                   ELSE IF a[i] < b[i] THEN -1 ELSE IF a[i] > b[i] THEN 1 ELSE CmpLex(a, b, i + 1)
CmpDec(a, b) == IF Len(a) < Len(b) THEN -1 ELSE IF Len(a) > Len(b) THEN 1 ELSE CmpLex(a, b, 1)
LeqDec(a, b) == CmpDec(a, b) <= 0

\* ---- decimal -> little-endian bytes (Horner: acc*10 + digit on a byte vector of n bytes, wrapping)
RECURSIVE MulAddFrom(_, _, _, _)
MulAddFrom(b, m, c, i) ==      \* b*m + c, same length as b
  IF i > Len(b) THEN <<>>
  ELSE LET s == b[i] * m + c IN <<s % 256>> \o MulAddFrom(b, m, s \div 256, i + 1)
MulAdd(b, m, c) == MulAddFrom(b, m, c, 1)
RECURSIVE DecToBytesFrom(_, _, _)
DecToBytesFrom(d, i, acc) == IF i > Len(d) THEN acc ELSE DecToBytesFrom(d, i + 1, MulAdd(acc, 10, d[i]))
DecToBytes(d, n) == DecToBytesFrom(d, 1, Zeros(n))

\* ---- little-endian bytes -> canonical decimal (repeated division by 10, most significant byte first)
RECURSIVE DivTenFrom(_, _, _)
DivTenFrom(b, i, r) ==         \* [q |-> quotient bytes below index i+1, r |-> remainder]; processes b[i] .. b[1]
  IF i < 1 THEN [q |-> <<>>, r |-> r]
  ELSE LET cur == r * 256 + b[i]
           rest == DivTenFrom(b, i - 1, cur % 10)
       IN [q |-> Append(rest.q, cur \div 10), r |-> rest.r]
DivTen(b) == DivTenFrom(b, Len(b), 0)
RECURSIVE BytesToDecAcc(_, _)
BytesToDecAcc(b, acc) == IF IsZeros(b) THEN acc
                         ELSE LET dm == DivTen(b) IN BytesToDecAcc(dm.q, <<dm.r>> \o acc)
BytesToDec(b) == BytesToDecAcc(b, <<>>)

\* native non-negative integer -> canonical decimal (for self checks and small constants)
RECURSIVE NatToDec(_)
NatToDec(n) == IF n = 0 THEN <<>> ELSE Append(NatToDec(n \div 10), n % 10)

\* limits of the integer kinds as digit sequences
Dec2p31 == <<2,1,4,7,4,8,3,6,4,8>>
Dec2p31m1 == <<2,1,4,7,4,8,3,6,4,7>>
Dec2p32m1 == <<4,2,9,4,9,6,7,2,9,5>>
Dec2p63 == <<9,2,2,3,3,7,2,0,3,6,8,5,4,7,7,5,8,0,8>>
Dec2p63m1 == <<9,2,2,3,3,7,2,0,3,6,8,5,4,7,7,5,8,0,7>>
Dec2p64m1 == <<1,8,4,4,6,7,4,4,0,7,3,7,0,9,5,5,1,6,1,5>>
=============================================================================
