----------------------------- MODULE JsonNumber -----------------------------
(***************************************************************************)
(* JSON number literals (RFC 8259 section 6) and their meaning for the     *)
(* protobuf scalar kinds.                                                  *)
(*                                                                         *)
(*   number = [ "-" ] int [ "." 1*DIGIT ] [ ("e"/"E") ["+"/"-"] 1*DIGIT ]  *)
(*   int    = "0" / ( %x31-39 *DIGIT )                                     *)
(*                                                                         *)
(* Three definitions of the *syntax* that TLC proves equal on all strings  *)
(* up to a bound (MC_JsonNumber):                                          *)
(*   NumParts      structural: split at the maximal digit runs             *)
(*   DfaAccepts    the 9-state DFA                                         *)
(*   ImplNumberLen transcription of internal/encoding/json.parseNumber     *)
(* and two definitions of the *integer meaning*:                           *)
(*   IntByValue    the literal denotes the rational +-int.frac * 10^exp;   *)
(*                 it is an integer of kind K iff that rational is an      *)
(*                 integer within K's range (digit-sequence arithmetic)    *)
(*   ImplInt       transcription of parseNumberParts, normalizeToIntString *)
(*                 and strconv.ParseInt/ParseUint                          *)
(* Literals are sequences of character codes.                              *)
(***************************************************************************)
EXTENDS JsonDecimal

CMinus == 45  CPlus == 43  CDot == 46  CZero == 48  CLowE == 101  CUpE == 69  CQuote == 34

\* end (index of last char) of the maximal digit run starting at i; i-1 if none
RECURSIVE DigitRunEnd(_, _)
DigitRunEnd(s, i) == IF i <= Len(s) /\ IsDigitChar(s[i]) THEN DigitRunEnd(s, i + 1) ELSE i - 1

NoParts == [ok |-> FALSE, neg |-> FALSE, int |-> <<>>, frac |-> <<>>, eneg |-> FALSE, exp |-> <<>>]

\* ---------------------------------------------------------------- structural definition
\* parts of the literal s (the whole of s must be the number)
NumParts(s) ==
  LET neg == Len(s) >= 1 /\ s[1] = CMinus
      i0 == IF neg THEN 2 ELSE 1
      i1 == DigitRunEnd(s, i0)                      \* int = s[i0..i1]
      intOk == i1 >= i0 /\ (i1 > i0 => s[i0] # CZero)
      hasFrac == i1 + 1 <= Len(s) /\ s[i1 + 1] = CDot
      f1 == IF hasFrac THEN DigitRunEnd(s, i1 + 2) ELSE i1       \* frac = s[i1+2..f1]
      fracOk == hasFrac => f1 >= i1 + 2
      hasExp == f1 + 1 <= Len(s) /\ (s[f1 + 1] = CLowE \/ s[f1 + 1] = CUpE)
      hasSign == hasExp /\ f1 + 2 <= Len(s) /\ (s[f1 + 2] = CPlus \/ s[f1 + 2] = CMinus)
      e0 == IF hasExp THEN (IF hasSign THEN f1 + 3 ELSE f1 + 2) ELSE f1 + 1
      e1 == IF hasExp THEN DigitRunEnd(s, e0) ELSE f1
      expOk == hasExp => e1 >= e0
  IN IF intOk /\ fracOk /\ expOk /\ e1 = Len(s)
     THEN [ok |-> TRUE, neg |-> neg,
           int |-> DigitsOf(SubSeq(s, i0, i1)),
           frac |-> IF hasFrac THEN DigitsOf(SubSeq(s, i1 + 2, f1)) ELSE <<>>,
           eneg |-> hasSign /\ s[f1 + 2] = CMinus,
           exp |-> IF hasExp THEN DigitsOf(SubSeq(s, e0, e1)) ELSE <<>>]
     ELSE NoParts
IsNumber(s) == NumParts(s).ok

\* ---------------------------------------------------------------- DFA
DfaStep(st, c) ==
  CASE st = "start" -> IF c = CMinus THEN "neg" ELSE IF c = CZero THEN "zero" ELSE IF IsDigitChar(c) THEN "int" ELSE "bad"
    [] st = "neg"   -> IF c = CZero THEN "zero" ELSE IF IsDigitChar(c) THEN "int" ELSE "bad"
    [] st = "zero"  -> IF c = CDot THEN "dot" ELSE IF c = CLowE \/ c = CUpE THEN "e" ELSE "bad"
    [] st = "int"   -> IF IsDigitChar(c) THEN "int" ELSE IF c = CDot THEN "dot" ELSE IF c = CLowE \/ c = CUpE THEN "e" ELSE "bad"
    [] st = "dot"   -> IF IsDigitChar(c) THEN "frac" ELSE "bad"
    [] st = "frac"  -> IF IsDigitChar(c) THEN "frac" ELSE IF c = CLowE \/ c = CUpE THEN "e" ELSE "bad"
    [] st = "e"     -> IF c = CPlus \/ c = CMinus THEN "esign" ELSE IF IsDigitChar(c) THEN "exp" ELSE "bad"
    [] st = "esign" -> IF IsDigitChar(c) THEN "exp" ELSE "bad"
    [] st = "exp"   -> IF IsDigitChar(c) THEN "exp" ELSE "bad"
    [] OTHER -> "bad"
DfaAccepting == {"zero", "int", "frac", "exp"}
RECURSIVE DfaRun(_, _, _)
DfaRun(s, i, st) == IF i > Len(s) THEN st ELSE DfaRun(s, i + 1, DfaStep(st, s[i]))
DfaAccepts(s) == DfaRun(s, 1, "start") \in DfaAccepting

\* ---------------------------------------------------------------- transcription of parseNumber
\* characters that are not delimiters for the implementation: [-+._a-zA-Z0-9]
IsNotDelim(c) == c = CMinus \/ c = CPlus \/ c = CDot \/ c = 95
                 \/ (c >= 97 /\ c <= 122) \/ (c >= 65 /\ c <= 90) \/ IsDigitChar(c)
\* length of the number token at s[i..], 0 if there is none (parseNumber with its delimiter check)
ImplNumberLen(s, i) ==
  LET L == Len(s)
      p0 == IF i <= L /\ s[i] = CMinus THEN i + 1 ELSE i                \* after optional '-'
      p1 == IF p0 > L THEN 0                                           \* after the digits; 0 = failure
            ELSE IF s[p0] = CZero THEN p0 + 1
            ELSE IF s[p0] >= 49 /\ s[p0] <= 57 THEN DigitRunEnd(s, p0) + 1
            ELSE 0
      p2 == IF p1 = 0 THEN 0                                           \* after the optional fraction
            ELSE IF p1 + 1 <= L /\ s[p1] = CDot /\ IsDigitChar(s[p1 + 1]) THEN DigitRunEnd(s, p1 + 1) + 1
            ELSE p1
      hasE == p2 # 0 /\ p2 + 1 <= L /\ (s[p2] = CLowE \/ s[p2] = CUpE)  \* len(s) >= 2 && s[0] is e/E
      q0 == IF hasE /\ (s[p2 + 1] = CPlus \/ s[p2 + 1] = CMinus) THEN p2 + 2 ELSE p2 + 1
      p3 == IF p2 = 0 THEN 0
            ELSE IF ~hasE THEN p2
            ELSE IF q0 > L THEN 0                                      \* sign then end of input
            ELSE IF ~IsDigitChar(s[q0]) THEN 0                         \* the F1 repair: at least one exponent digit
            ELSE DigitRunEnd(s, q0) + 1
  IN IF p3 = 0 THEN 0
     ELSE IF p3 <= L /\ IsNotDelim(s[p3]) THEN 0
     ELSE p3 - i

\* ---------------------------------------------------------------- integer meaning, by value
\* exponent as a native integer when it has at most 4 significant digits, else 10000 ("huge")
RECURSIVE DecToNat(_, _, _)
DecToNat(d, i, acc) == IF i > Len(d) THEN acc ELSE DecToNat(d, i + 1, acc * 10 + d[i])
ExpMagnitude(p) == LET e == StripLead(p.exp) IN IF Len(e) > 4 THEN 10000 ELSE DecToNat(e, 1, 0)

\* [int |-> the literal denotes an integer, neg, mag |-> canonical digits of |value| (<<>> = 0), huge |-> |value| >= 10^40]
\* Assumption: literals are shorter than 10000 characters (so a "huge" negative exponent cannot be compensated).
IntByValue(p) ==
  LET m == StripTrail(p.int \o p.frac)                \* mantissa digits without trailing zeros
      tz == Len(p.int) + Len(p.frac) - Len(m)
      sig == StripLead(m)                             \* significant digits
      e == ExpMagnitude(p)
      e10 == (IF p.eneg THEN 0 - e ELSE e) - Len(p.frac) + tz    \* value = sig * 10^e10
  IN IF sig = <<>> THEN [int |-> TRUE, neg |-> FALSE, mag |-> <<>>, huge |-> FALSE]       \* zero, whatever the exponent
     ELSE IF e10 < 0 THEN [int |-> FALSE, neg |-> p.neg, mag |-> <<>>, huge |-> FALSE]
     ELSE IF Len(sig) + e10 > 40 THEN [int |-> TRUE, neg |-> p.neg, mag |-> <<>>, huge |-> TRUE]
     ELSE [int |-> TRUE, neg |-> p.neg, mag |-> sig \o ZeroDigits(e10), huge |-> FALSE]

IntKinds == {"int32", "int64", "uint32", "uint64"}
\* is the integer v (result of IntByValue) representable in kind k
Fits(v, k) ==
  v.int /\ ~v.huge /\
  CASE k = "int32"  -> IF v.neg THEN LeqDec(v.mag, Dec2p31) ELSE LeqDec(v.mag, Dec2p31m1)
    [] k = "int64"  -> IF v.neg THEN LeqDec(v.mag, Dec2p63) ELSE LeqDec(v.mag, Dec2p63m1)
    [] k = "uint32" -> ~v.neg /\ LeqDec(v.mag, Dec2p32m1)
    [] k = "uint64" -> ~v.neg /\ LeqDec(v.mag, Dec2p64m1)
\* 8-byte two's complement (signed kinds sign-extended) of a fitting value
ValueBytes(v) == LET b == DecToBytes(v.mag, 8) IN IF v.neg THEN Neg(b) ELSE b

\* [ok, v]: what a number literal with parts p means for integer kind k
IntMeaning(p, k) == LET v == IntByValue(p) IN
                    IF Fits(v, k) THEN [ok |-> TRUE, v |-> ValueBytes(v)] ELSE [ok |-> FALSE, v |-> Zeros(8)]

\* ---------------------------------------------------------------- integer meaning, transcription
\* parseNumberParts: intp is empty for a leading "0"; frac loses its trailing zeros; exp keeps its sign
\* normalizeToIntString -> [ok, neg, num (digits, may have leading zeros, may be empty)]
ImplNormalize(p) ==
  LET intp == IF p.int = <<0>> THEN <<>> ELSE p.int
      frac == StripTrail(p.frac)
      isz == Len(intp)  fsz == Len(frac)
      fail == [ok |-> FALSE, neg |-> FALSE, num |-> <<>>]
      \* strconv.ParseInt(exp, 10, 32): fails beyond 2^31-1; magnitudes above 9999 only matter as "too large"
      expDigits == StripLead(p.exp)
      expTooBig == Len(expDigits) > 10 \/ (Len(expDigits) = 10 /\ CmpDec(expDigits, IF p.eneg THEN Dec2p31 ELSE Dec2p31m1) > 0)
      e == IF Len(expDigits) > 4 THEN 10000 ELSE DecToNat(expDigits, 1, 0)
  IN IF isz = 0 /\ fsz = 0 THEN [ok |-> TRUE, neg |-> FALSE, num |-> <<0>>]
     ELSE IF p.exp # <<>> /\ expTooBig THEN fail
     ELSE IF ~p.eneg \/ e = 0 THEN
          LET lz == IF isz = 0 THEN LeadingZeros(frac, 1) ELSE 0 IN
          IF fsz > e THEN fail
          ELSE IF isz + e - lz > 20 THEN fail
          ELSE [ok |-> TRUE, neg |-> p.neg, num |-> intp \o frac \o ZeroDigits(e - fsz)]
     ELSE IF fsz > 0 THEN fail
          ELSE LET index == isz - e IN
               IF index < 0 THEN fail
               ELSE IF \E i \in (index + 1)..isz : intp[i] # 0 THEN fail
               ELSE [ok |-> TRUE, neg |-> p.neg, num |-> SubSeq(intp, 1, index)]
\* strconv.ParseInt / ParseUint on the normalised string ("-" prefix iff neg; the empty digit string is a syntax error)
ImplInt(p, k) ==
  LET n == ImplNormalize(p)
      mag == StripLead(n.num)
      v == [int |-> TRUE, neg |-> n.neg /\ mag # <<>>, mag |-> mag, huge |-> FALSE]
      signedKind == k \in {"int32", "int64"}
  IN IF ~n.ok \/ n.num = <<>> THEN [ok |-> FALSE, v |-> Zeros(8)]
     ELSE IF n.neg /\ ~signedKind THEN [ok |-> FALSE, v |-> Zeros(8)]        \* ParseUint rejects any '-'
     ELSE IF Fits(v, k) THEN [ok |-> TRUE, v |-> ValueBytes(v)] ELSE [ok |-> FALSE, v |-> Zeros(8)]

\* ---------------------------------------------------------------- decimal magnitude class (for float kinds)
\* position of the leading significant digit: |value| in [10^(p-1), 10^p); 0 for the value zero is reported as -100000
DecimalOrder(p) ==
  LET m == p.int \o p.frac
      lz == LeadingZeros(m, 1)
      e == ExpMagnitude(p)
  IN IF lz = Len(m) THEN -100000
     ELSE Len(p.int) - lz + (IF p.eneg THEN 0 - e ELSE e)
=============================================================================
