------------------------------ MODULE Trace_PbNil ------------------------------
(* One event per registered generated message type: all read-only entry points on its typed nil pointer. *)
EXTENDS PbNil, Json, IOUtils
Trace == ndJsonDeserialize(IOEnv.TRACE)
VARIABLES l, bad
Init == l = 1 /\ bad = <<>>
Next == /\ l <= Len(Trace)
        /\ bad' = IF NilAgree(Trace[l]) THEN bad ELSE Append(bad, l)
        /\ l' = l + 1
        /\ TLCSet(1, <<l + 1, bad'>>)
Accepted == LET r == TLCGet(1) IN
            /\ PrintT("TRACE-RESULT " \o ToJson([done |-> r[1] - 1, total |-> Len(Trace), bad |-> r[2]]))
            /\ r[1] = Len(Trace) + 1
=============================================================================
