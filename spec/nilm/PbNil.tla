-------------------------------- MODULE PbNil --------------------------------
(***************************************************************************)
(* C31: typed nil messages.  A message object is [valid, content]: a typed *)
(* nil pointer is the INVALID object with empty content.  Every read-only  *)
(* entry point is a function of the content alone, except IsValid (which   *)
(* reads valid) and Equal (which also compares validity):                  *)
(*   Read(o, r)    r in ReadOps: depends on o.content only                 *)
(*   Equal(a, b)   a.valid = b.valid /\ contents equal                     *)
(*   Clone(o)      o  (an invalid message clones to an invalid message)    *)
(* NilExpect(e) instantiates this for the nil row: every observation of    *)
(* the typed nil of a type equals the observation of a new empty message   *)
(* of that type (recorded next to it by the harness), IsValid is FALSE,    *)
(* Equal(nil, nil) holds and Equal(nil, empty) does not.                   *)
(***************************************************************************)
EXTENDS Integers, Sequences, TLC

Contents == {"empty", "x"}                       \* abstract contents: empty, some non-empty content
Objects == [valid : BOOLEAN, content : Contents]
NilObj == [valid |-> FALSE, content |-> "empty"]
EmptyObj == [valid |-> TRUE, content |-> "empty"]
ReadOps == {"marshal", "size", "checkinit", "json", "text", "has", "range", "which", "unknown", "getters"}
Read(o, r) == <<r, o.content>>                   \* uninterpreted function of the content
IsValid(o) == o.valid
Equal(a, b) == a.valid = b.valid /\ a.content = b.content
Clone(o) == o

NilExpect(e) ==
  [isnil |-> TRUE, valid |-> FALSE, bytes |-> <<>>, dbytes |-> <<>>, merr |-> e.out.merrE, size |-> 0, clonevalid |-> FALSE,
   eqnil |-> TRUE, eqempty |-> FALSE, eqempty2 |-> FALSE, init |-> e.out.initE, json |-> TRUE, text |-> TRUE,
   nhas |-> 0, nrange |-> 0, nwhich |-> 0, nondefault |-> 0, unknown |-> 0, getters |-> 0, panics |-> ""]
NilAgree(e) == LET x == NilExpect(e) IN \A k \in DOMAIN x : k \in DOMAIN e.out /\ e.out[k] = x[k]
=============================================================================
