------------------------------- MODULE MC_PbNil -------------------------------
(* The nil rows are consequences of the object model: checked over all pairs of objects. *)
EXTENDS PbNil
VARIABLES a, b
Init == a \in Objects /\ b \in Objects
Next == UNCHANGED <<a, b>>
ReadsIgnoreValidity == \A r \in ReadOps : a.content = b.content => Read(a, r) = Read(b, r)
NilReadsAsEmpty == \A r \in ReadOps : Read(NilObj, r) = Read(EmptyObj, r)
EqualEquivalence == Equal(a, a) /\ (Equal(a, b) = Equal(b, a))
NilDistinct == ~Equal(NilObj, EmptyObj) /\ Equal(NilObj, NilObj) /\ ~IsValid(NilObj) /\ ~IsValid(Clone(NilObj))
=============================================================================
