-------------------------- MODULE Trace_LazyConc --------------------------
(***************************************************************************)
(* C18, free-running executions.  The shared variables of the protocol are *)
(* lock-free, so no global order of the accesses can be logged without     *)
(* perturbing it.  Each reader therefore logs only its OWN observation     *)
(* sequence in program order:                                              *)
(*   [2, n]  index load saw nil (n = 1) / a built index (n = 0); its       *)
(*           presence also means the reader saw a nil field pointer        *)
(*   [3, 1]  stored a freshly built index                                  *)
(*   [4, w]  compare-and-swap won (w = 1) / lost (w = 0)                   *)
(* plus the class of the submessage it finally obtained (the reader whose  *)
(* decoded object it is; 0 for a "raw" program; -1 for an unknown object). *)
(* A trace is accepted iff SOME interleaving of the LazyConc steps of the  *)
(* readers reproduces every reader's observations: TLC searches the        *)
(* interleavings (depth first), one trace after the other; the highest     *)
(* fully explained trace index is the verdict.                             *)
(***************************************************************************)
EXTENDS LazyConc, Json, IOUtils

Trace == ndJsonDeserialize(IOEnv.TRACE)
EmptyProg == <<>>
VARIABLES k,        \* index of the trace being explained
          at        \* per reader: number of its logged observations consumed so far
tvars == <<vars, k, at>>

Obs(r) == Trace[k].out.obs[r]
Need(r, kind) == at[r] < Len(Obs(r)) /\ Obs(r)[at[r] + 1][1] = kind
Val(r) == Obs(r)[at[r] + 1][2]
Consume(r) == at' = [at EXCEPT ![r] = @ + 1]
Keep == UNCHANGED at
\* did reader r ever do an index load (i.e. see a nil field pointer)?
Entered(r) == \E i \in 1..Len(Obs(r)) : Obs(r)[i][1] = 2

Load(n) == /\ k' = n
           /\ IF n <= Len(Trace)
              THEN ResetTo(Trace[n].progs) /\ at' = [r \in DOMAIN Trace[n].progs |-> 0]
              ELSE UNCHANGED vars /\ at' = at
TInit == k = 1 /\ InitWith(Trace[1].progs) /\ at = [r \in DOMAIN Trace[1].progs |-> 0] /\ TLCSet(1, 0)

\* one protocol step of reader r that agrees with r's log
TStep(r) ==
  /\ k <= Len(Trace)
  /\ UNCHANGED k
  /\ \/ (Start(r) /\ UNCHANGED prog /\ Keep)
     \/ (StepP(r) /\ UNCHANGED prog /\ Keep /\ (prog[r] # "getter" => ((ptr = Nil) = Entered(r))))
     \/ (StepL(r) /\ UNCHANGED prog /\ Keep /\ ((ptr = Nil) = Entered(r)))
     \/ (StepIL(r) /\ UNCHANGED prog /\ Need(r, 2) /\ Val(r) = B(index = Nil) /\ Consume(r))
     \/ (StepIS(r) /\ UNCHANGED prog /\ Need(r, 3) /\ Consume(r))
     \/ (StepC(r) /\ UNCHANGED prog /\ Need(r, 4) /\ Val(r) = B(ptr = Nil) /\ Consume(r)
                  /\ (prog[r] = "refl" => Trace[k].out.rets[r] = ptr'))
     \/ (StepG(r) /\ UNCHANGED prog /\ Keep /\ Trace[k].out.rets[r] = ptr)
\* all readers done with all observations consumed and the logged results explained: next trace
Explained == /\ \A r \in Readers : pc[r] = "done" /\ at[r] = Len(Obs(r))
             /\ \A r \in Readers : (prog[r] = "raw" => Trace[k].out.rets[r] = 0)
             /\ \A r \in Readers : (prog[r] = "refl" /\ ~Entered(r)) => Trace[k].out.rets[r] = ret[r]
TNext == \/ \E r \in Readers : TStep(r)
         \/ (k <= Len(Trace) /\ Explained /\ Load(k + 1) /\ TLCSet(1, k))
TSpec == TInit /\ [][TNext]_tvars
\* the properties of LazyConc are checked on the explained interleavings as well
TView == <<prog, ptr, index, pc, local, ret, won, k, at>>
TInv == k > Len(Trace) \/ (SameInstance /\ OneWinner /\ NoLocalEscape)
Accepted == PrintT("TRACE-RESULT " \o ToJson([done |-> TLCGet(1), total |-> Len(Trace), bad |-> <<>>]))
=============================================================================
