---------------------------- MODULE MC_LazyConc ----------------------------
(* Exhaustive interleavings of N readers; every transition is emitted as a schedule to replay on the real code. *)
EXTENDS LazyConc, Json
Emit == PrintT("@@" \o ToJson([progs |-> prog, steps |-> hist', exp |-> [ok |-> TRUE, why |-> ""]]))
=============================================================================
