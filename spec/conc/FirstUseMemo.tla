---------------------------- MODULE FirstUseMemo ----------------------------
(***************************************************************************)
(* C19, free-running first use in fresh processes.  Every process reports, *)
(* for each type / enum / extension / file it touched and for each of its  *)
(* goroutines, a digest of everything observable about it.  "Every         *)
(* goroutine observes the same fully initialised descriptors and behaviour *)
(* as a sequential program" = the digest is a FUNCTION of the name: the    *)
(* first trace line is the sequential reference (one goroutine, all        *)
(* items); every later observation must equal the memoised one.            *)
(***************************************************************************)
EXTENDS Integers, Sequences, TLC, Json, IOUtils

Trace == ndJsonDeserialize(IOEnv.TRACE)
\* the sequential reference: the first process ran one goroutine over every item; digs is a record name -> digest
Memo == Trace[1].out.digs
VARIABLES l, bad
Init == l = 1 /\ bad = <<>>
LineOK(o) == /\ "panic" \notin DOMAIN o
             /\ o.conflicts = <<>>                       \* all goroutines of the process agree with each other
             /\ \A n \in DOMAIN o.digs : n \in DOMAIN Memo /\ Memo[n] = o.digs[n]    \* ... and with the sequential program
Next == /\ l <= Len(Trace)
        /\ bad' = IF LineOK(Trace[l].out) THEN bad ELSE Append(bad, l)
        /\ l' = l + 1
        /\ TLCSet(1, <<l + 1, bad'>>)
Accepted == LET r == TLCGet(1) IN
            /\ PrintT("TRACE-RESULT " \o ToJson([done |-> r[1] - 1, total |-> Len(Trace), bad |-> r[2]]))
            /\ r[1] = Len(Trace) + 1
=============================================================================
