------------------------------ MODULE OnceInit ------------------------------
(***************************************************************************)
(* C19: double-checked, mutex-guarded, flag-published initialisation, the  *)
(* pattern of impl.MessageInfo.init (and of filedesc.File.lazyInit):       *)
(*                                                                         *)
(*   init():      if atomic.Load(flag) == 0 { initOnce() }   -- lock free  *)
(*   initOnce():  mu.Lock(); if flag == 1 { unlock; return }               *)
(*                body stage 1 .. K   (builds the guarded tables)          *)
(*                atomic.Store(flag, 1); mu.Unlock()                       *)
(*   afterwards the caller USES the tables without further checks.         *)
(*                                                                         *)
(* One step = the code between two instrumentation gates.  G goroutines.   *)
(*   pc: "init" not started, "F" before the lock-free flag load, "lock"    *)
(*   waiting for the mutex, "L" holding it before the re-check, "Bi"       *)
(*   parked after body stage i, "S" before the flag store (all stages      *)
(*   done), "done" (the use of the tables is fused with the returning      *)
(*   step).                                                                *)
(***************************************************************************)
EXTENDS Integers, Sequences, FiniteSets, TLC

CONSTANTS G,       \* number of goroutines
          K,       \* body stages
          Flag0    \* flag value at the start (1: the type was initialised earlier)

VARIABLES flag, mu, stage, pc, saw, hist, bodies
vars == <<flag, mu, stage, pc, saw, hist, bodies>>
Procs == 1..G

Init == /\ flag = Flag0 /\ mu = 0 /\ stage = IF Flag0 = 1 THEN K ELSE 0
        /\ pc = [p \in Procs |-> "init"]
        /\ saw = [p \in Procs |-> -1]        \* what the goroutine's USE observed: number of completed stages
        /\ hist = <<>> /\ bodies = 0

Goto(p, l) == pc' = [pc EXCEPT ![p] = l]
Log(p, obs) == hist' = Append(hist, [p |-> p, at |-> pc[p], obs |-> obs])
BodyPc(i) == "B" \o ToString(i)

\* the caller uses the guarded tables right after init() returns: fused with the step that returns
UseNow(p) == saw' = [saw EXCEPT ![p] = stage] /\ Goto(p, "done")
Start(p) == pc[p] = "init" /\ Goto(p, "F") /\ Log(p, 0) /\ UNCHANGED <<flag, mu, stage, saw, bodies>>
\* lock-free check; a goroutine that needs the mutex takes it in the same step if it is free (otherwise it waits)
Fast(p) == /\ pc[p] = "F"
           /\ Log(p, flag)
           /\ IF flag = 1 THEN UseNow(p) /\ UNCHANGED mu
              ELSE IF mu = 0 THEN Goto(p, "L") /\ mu' = p /\ UNCHANGED saw
              ELSE Goto(p, "lock") /\ UNCHANGED <<mu, saw>>
           /\ UNCHANGED <<flag, stage, bodies>>
Acquire(p) == pc[p] = "lock" /\ mu = 0 /\ mu' = p /\ Goto(p, "L") /\ Log(p, 0) /\ UNCHANGED <<flag, stage, saw, bodies>>
\* re-check under the lock; when the flag is still clear the first body stage runs in the same step
\* (pc "Bi": parked after stage i has completed)
Locked(p) == /\ pc[p] = "L"
             /\ Log(p, flag)
             /\ IF flag = 1 THEN UseNow(p) /\ mu' = 0 /\ UNCHANGED <<bodies, stage>>
                ELSE Goto(p, BodyPc(1)) /\ stage' = 1 /\ bodies' = bodies + 1 /\ UNCHANGED <<mu, saw>>
             /\ UNCHANGED flag
Body(p) == \E i \in 1..(K - 1) :
             /\ pc[p] = BodyPc(i)
             /\ stage' = i + 1
             /\ Log(p, flag)                   \* the flag is still 0 while the body runs
             /\ Goto(p, IF i + 1 = K THEN "S" ELSE BodyPc(i + 1))
             /\ UNCHANGED <<flag, mu, saw, bodies>>
Store(p) == /\ pc[p] = "S"
            /\ Log(p, IF stage = K THEN 1 ELSE 0)   \* observed: tables complete at the moment of publication
            /\ flag' = 1 /\ mu' = 0
            /\ UseNow(p)
            /\ UNCHANGED <<stage, bodies>>

Step(p) == Start(p) \/ Fast(p) \/ Acquire(p) \/ Locked(p) \/ Body(p) \/ Store(p)
Next == \E p \in Procs : Step(p)
Spec == Init /\ [][Next]_vars /\ \A p \in Procs : WF_vars(Step(p))

\* ---- properties
UseSeesAll == \A p \in Procs : saw[p] # -1 => saw[p] = K            \* nobody uses partially built tables
FlagImpliesComplete == flag = 1 => stage = K                        \* the flag is published last
BodyOnce == bodies <= 1
Mutex == Cardinality({p \in Procs : pc[p] \in {"L", "S"} \cup {BodyPc(i) : i \in 1..K}}) <= 1
         /\ (mu # 0 <=> \E p \in Procs : pc[p] \in {"L", "S"} \cup {BodyPc(i) : i \in 1..K})
FlagMonotone == [][flag = 1 => flag' = 1]_vars
Terminates == <>(\A p \in Procs : pc[p] = "done")
View == <<flag, mu, stage, pc, saw, bodies>>
=============================================================================
