---------------------------- MODULE MC_OnceInit ----------------------------
EXTENDS OnceInit, Json
Emit == PrintT("@@" \o ToJson([g |-> G, flag0 |-> Flag0, steps |-> hist', exp |-> [ok |-> TRUE, why |-> ""]]))
=============================================================================
