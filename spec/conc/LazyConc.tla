------------------------------ MODULE LazyConc ------------------------------
(***************************************************************************)
(* C18: the lock-free publication protocol of a lazily decoded submessage, *)
(* at the granularity of its shared-memory accesses.  Shared state of one  *)
(* lazy field of one message:                                              *)
(*   ptr    the field pointer: Nil until some reader publishes its decoded *)
(*          object with a compare-and-swap, never changed afterwards       *)
(*   index  the lazily built index of the retained buffer (Nil or built);  *)
(*          stored with a plain atomic store (last writer wins; all        *)
(*          writers store equal content)                                   *)
(* Readers run one of three programs (one step = the code between two      *)
(* instrumentation gates of the implementation, each containing at most    *)
(* one access to shared state):                                            *)
(*   "getter"  generated opaque getter: P load presence word, L atomic nil *)
(*             check, [lazyUnmarshal: IL load index, (IS store index),     *)
(*             decode into a fresh local object, C compare-and-swap],      *)
(*             G final atomic load = the returned submessage               *)
(*   "refl"    reflection Get (also Equal / Clone / deterministic Marshal  *)
(*             without the presence gate): P load presence word, then nil  *)
(*             check at once, lazyUnmarshal, re-load right after the       *)
(*             compare-and-swap                                            *)
(*   "raw"     default Size / Marshal on a still-deferred field: P, nil    *)
(*             check at once, then only looks the raw bytes up through the *)
(*             index; publishes nothing                                    *)
(* Objects are named by the reader that decoded them.                      *)
(***************************************************************************)
EXTENDS Integers, Sequences, FiniteSets, TLC

CONSTANTS Prog0,        \* the readers' programs, e.g. <<"getter", "refl">>  (reader i runs Prog0[i])
          IndexBuilt    \* TRUE: Unmarshal has already stored the index (what unmarshalPointerLazy always does)

Nil == 0
VARIABLES prog,         \* the programs (constant along a behaviour; a variable so that trace validation can load one per trace)
          ptr, index, pc, local, ret, won, hist
vars == <<prog, ptr, index, pc, local, ret, won, hist>>
Readers == DOMAIN prog
Prog == prog

InitWith(p) ==
        /\ prog = p
        /\ ptr = Nil
        /\ index = IF IndexBuilt THEN 99 ELSE Nil
        /\ pc = [r \in Readers |-> "init"]
        /\ local = [r \in Readers |-> Nil]
        /\ ret = [r \in Readers |-> -1]
        /\ won = [r \in Readers |-> FALSE]
        /\ hist = <<>>
Init == InitWith(Prog0)
\* the same, as an action (used by trace validation to start explaining the next recorded execution)
ResetTo(p) ==
        /\ prog' = p
        /\ ptr' = Nil
        /\ index' = IF IndexBuilt THEN 99 ELSE Nil
        /\ pc' = [r \in DOMAIN p |-> "init"]
        /\ local' = [r \in DOMAIN p |-> Nil]
        /\ ret' = [r \in DOMAIN p |-> -1]
        /\ won' = [r \in DOMAIN p |-> FALSE]
        /\ hist' = <<>>

Goto(r, l) == pc' = [pc EXCEPT ![r] = l]
Log(r, obs) == hist' = Append(hist, [r |-> r, at |-> pc[r], obs |-> obs])
B(x) == IF x THEN 1 ELSE 0

\* the ungated prefix of a program, executed when the reader is started
Start(r) ==
  /\ pc[r] = "init"
  /\ Goto(r, "P") /\ Log(r, 0)                 \* every program first loads the presence word
  /\ UNCHANGED <<ptr, index, local, ret, won>>
\* after the presence load the getter goes to its gated nil check; the other paths do their nil check at once
StepP(r) == /\ pc[r] = "P"
            /\ IF Prog[r] = "getter" THEN Goto(r, "L") /\ Log(r, 1) /\ UNCHANGED ret
               ELSE IF ptr = Nil THEN Goto(r, "IL") /\ Log(r, 1) /\ UNCHANGED ret
               ELSE Goto(r, "done") /\ Log(r, 0) /\ ret' = [ret EXCEPT ![r] = IF Prog[r] = "raw" THEN 0 ELSE ptr]
            /\ UNCHANGED <<ptr, index, local, won>>
StepL(r) == /\ pc[r] = "L"
            /\ Goto(r, IF ptr = Nil THEN "IL" ELSE "G")
            /\ Log(r, B(ptr = Nil))
            /\ UNCHANGED <<ptr, index, local, ret, won>>
\* after the index is available: raw readers are done, the others decode into a fresh local object
AfterIndex(r) == IF Prog[r] = "raw" THEN Goto(r, "done") /\ ret' = [ret EXCEPT ![r] = 0] /\ UNCHANGED local
                 ELSE Goto(r, "C") /\ local' = [local EXCEPT ![r] = r] /\ UNCHANGED ret
StepIL(r) == /\ pc[r] = "IL"
             /\ Log(r, B(index = Nil))
             /\ IF index = Nil THEN Goto(r, "IS") /\ UNCHANGED <<local, ret>> ELSE AfterIndex(r)
             /\ UNCHANGED <<ptr, index, won>>
StepIS(r) == /\ pc[r] = "IS"
             /\ index' = r
             /\ Log(r, 1)
             /\ AfterIndex(r)
             /\ UNCHANGED <<ptr, won>>
StepC(r) == /\ pc[r] = "C"
            /\ ptr' = IF ptr = Nil THEN local[r] ELSE ptr
            /\ won' = [won EXCEPT ![r] = (ptr = Nil)]
            /\ Log(r, B(ptr = Nil))
            /\ IF Prog[r] = "getter" THEN Goto(r, "G") /\ UNCHANGED ret
               ELSE Goto(r, "done") /\ ret' = [ret EXCEPT ![r] = ptr']            \* ungated re-load
            /\ UNCHANGED <<index, local>>
StepG(r) == /\ pc[r] = "G"
            /\ ret' = [ret EXCEPT ![r] = ptr]
            /\ Log(r, B(ptr = r))               \* observed: did the getter return its own object
            /\ Goto(r, "done")
            /\ UNCHANGED <<ptr, index, local, won>>

Step(r) == (Start(r) \/ StepP(r) \/ StepL(r) \/ StepIL(r) \/ StepIS(r) \/ StepC(r) \/ StepG(r)) /\ UNCHANGED prog
Next == \E r \in Readers : Step(r)
Spec == Init /\ [][Next]_vars /\ \A r \in DOMAIN Prog0 : WF_vars(Step(r))

\* ---- properties
Done(r) == pc[r] = "done"
Obj(r) == Prog[r] # "raw"
\* all readers of the submessage obtain the same, non-nil instance
SameInstance == \A a, b \in Readers : (Done(a) /\ Done(b) /\ Obj(a) /\ Obj(b)) => (ret[a] = ret[b] /\ ret[a] # Nil)
\* the pointer is published once and never changes
PublishOnce == [][ptr # Nil => ptr' = ptr]_vars
\* at most one compare-and-swap succeeds, and what is published is the winner's object
OneWinner == Cardinality({r \in Readers : won[r]}) <= 1 /\ \A r \in Readers : won[r] => ptr = r
\* a reader returns its own local object only if it won
NoLocalEscape == \A r \in Readers : (Done(r) /\ Obj(r) /\ ret[r] = r) => won[r]
\* a published object is fully decoded before publication: only local objects of readers past "C" are ever published
PublishedIsDecoded == ptr # Nil => local[ptr] = ptr
\* every reader terminates (under weak fairness of each reader)
Terminates == <>(\A r \in DOMAIN Prog0 : Done(r))
View == <<prog, ptr, index, pc, local, ret, won>>
=============================================================================
