------------------------- MODULE MC_PbWireGrammar -------------------------
(***************************************************************************)
(* C02: all byte strings up to MaxLen over a corner alphabet of the wire   *)
(* grammar (tags of fields 1 and 2 with every wire type including the two  *)
(* reserved ones, lengths, payload and continuation bytes).  One state per *)
(* string; TLC checks the design-level laws on every string and emits      *)
(* every string with the specification's verdict for the four parsing      *)
(* entry points.  A second, independent definition of the grammar (a       *)
(* streaming automaton with an explicit group stack) is checked equal to   *)
(* the denotational one on the same strings.                               *)
(***************************************************************************)
EXTENDS PbWireCases, Json, Sequences

CONSTANTS Alphabet, MaxLen, NestLimits, NestDepths

\* ---- streaming recogniser: consumes one field, byte by byte, with an explicit stack of open groups
\* phase: "tag" | "varint" | "len" | "skip" | "done" | "err";  acc = varint groups read so far
\* The automaton state after feeding the whole string; verdict = length if a field completed.
RECURSIVE Run(_, _, _)
Feed(st, c) ==
  LET inVar == st.phase \in {"tag", "varint", "len"}
      k == Len(st.acc) + 1
  IN
  IF st.phase \in {"done", "err"} THEN st
  ELSE IF st.phase = "skip" THEN
     (IF st.need = 1 THEN (IF st.stack = <<>> THEN [st EXCEPT !.phase = "done", !.pos = @ + 1]
                           ELSE [st EXCEPT !.phase = "tag", !.pos = @ + 1, !.need = 0])
      ELSE [st EXCEPT !.need = @ - 1, !.pos = @ + 1])
  ELSE \* reading a varint
     IF k = 10 /\ c > 1 THEN [st EXCEPT !.phase = "err", !.code = ErrOverflow]
     ELSE IF c >= 128 /\ k < 10 THEN [st EXCEPT !.acc = Append(@, c - 128), !.pos = @ + 1]
     ELSE LET g == Append(st.acc, c)
              v == GroupsToBytes(g)
              st1 == [st EXCEPT !.acc = <<>>, !.pos = @ + 1]
          IN
          CASE st.phase = "varint" ->
                 IF st.stack = <<>> THEN [st1 EXCEPT !.phase = "done"] ELSE [st1 EXCEPT !.phase = "tag"]
            [] st.phase = "len" ->
                 LET m == ToNat(v) IN
                 IF m < 0 \/ m > st.total - st1.pos THEN [st1 EXCEPT !.phase = "err", !.code = ErrTruncated]
                 ELSE IF m = 0 THEN (IF st.stack = <<>> THEN [st1 EXCEPT !.phase = "done"] ELSE [st1 EXCEPT !.phase = "tag"])
                 ELSE [st1 EXCEPT !.phase = "skip", !.need = m]
            [] st.phase = "tag" ->
                 LET num == ToNat(Slice(v, 3, 8))  wt == v[1] % 8 IN
                 IF num < 1 THEN [st1 EXCEPT !.phase = "err", !.code = ErrFieldNumber]
                 ELSE CASE wt = 0 -> [st1 EXCEPT !.phase = "varint"]
                        [] wt = 2 -> [st1 EXCEPT !.phase = "len"]
                        [] wt = 1 -> IF 8 > st.total - st1.pos THEN [st1 EXCEPT !.phase = "err", !.code = ErrTruncated]
                                     ELSE [st1 EXCEPT !.phase = "skip", !.need = 8]
                        [] wt = 5 -> IF 4 > st.total - st1.pos THEN [st1 EXCEPT !.phase = "err", !.code = ErrTruncated]
                                     ELSE [st1 EXCEPT !.phase = "skip", !.need = 4]
                        [] wt = 3 -> IF Len(st.stack) > st.limit THEN [st1 EXCEPT !.phase = "err", !.code = ErrRecursionDepth]
                                     ELSE [st1 EXCEPT !.stack = Append(@, num)]
                        [] wt = 4 -> IF st.stack = <<>> \/ st.stack[Len(st.stack)] # num
                                     THEN [st1 EXCEPT !.phase = "err", !.code = ErrEndGroup]
                                     ELSE IF Len(st.stack) = 1 THEN [st1 EXCEPT !.phase = "done", !.stack = <<>>]
                                     ELSE [st1 EXCEPT !.stack = SubSeq(@, 1, Len(@) - 1)]
                        [] OTHER -> [st1 EXCEPT !.phase = "err", !.code = ErrReserved]
Run(st, b, i) == IF i > Len(b) THEN st ELSE Run(Feed(st, b[i]), b, i + 1)
StreamField(b, limit) ==
  LET st == Run([phase |-> "tag", acc |-> <<>>, stack |-> <<>>, need |-> 0, pos |-> 0, total |-> Len(b),
                 limit |-> limit, code |-> 0], b, 1)
  IN IF st.phase = "done" THEN st.pos
     ELSE IF st.phase = "err" THEN st.code
     ELSE ErrTruncated          \* input ended inside a field

VARIABLE s
Init == s = <<>>
Next == Len(s) < MaxLen /\ \E c \in Alphabet : s' = Append(s, c)

\* ---- design-level laws on every string
Bounded == ConsumeField(s, RecursionLimit).n <= Len(s)
TwoDefinitionsAgree == StreamField(s, RecursionLimit) = ConsumeField(s, RecursionLimit).n
\* a successful parse depends only on the consumed prefix
PrefixClosed == LET n == ConsumeField(s, RecursionLimit).n IN
                n >= 0 => ConsumeField(SubSeq(s, 1, n), RecursionLimit).n = n
\* nesting lemma for small limits (instantiated at the real limit by the "nest" tour lines)
NestLemma == \A lim \in NestLimits : \A d \in NestDepths :
               (ConsumeField(Nest(d), lim).n = 2*d) = NestAccepted(d, lim)
             /\ (~NestAccepted(d, lim) => ConsumeField(Nest(d), lim).n = ErrRecursionDepth)
NestLemmaOnce == s # <<>> \/ NestLemma

Ops(b) == { [op |-> "cfield", b |-> b], [op |-> "ctag", b |-> b],
            [op |-> "cvalue", num |-> 1, wt |-> 3, b |-> b], [op |-> "cgroup", num |-> 1, b |-> b],
            [op |-> "cvalue", num |-> 2, wt |-> 2, b |-> b] }
Emit == \A e \in Ops(s') : PrintT("@@" \o ToJson(e @@ [exp |-> Expect(e)]))
EmitNest == s # <<>> \/ \A d \in {1, 2, 9999, 10000, 10001, 10002, 10003} :
               PrintT("@@" \o ToJson([op |-> "nest", d |-> d, exp |-> Expect([op |-> "nest", d |-> d])]))
EmitAll == Emit /\ EmitNest
=============================================================================
