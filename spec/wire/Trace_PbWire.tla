--------------------------- MODULE Trace_PbWire ---------------------------
(***************************************************************************)
(* Trace validation for protowire (C01, C02): every event recorded from    *)
(* the real code (seeded random values, structure-aware random and mutated *)
(* byte strings) must agree with Expect on every key the specification     *)
(* defines.  One TLC step per event; disagreeing line numbers are          *)
(* collected so that the rest of the trace is still checked.               *)
(***************************************************************************)
EXTENDS PbWireCases, Json, IOUtils, Sequences

Trace == ndJsonDeserialize(IOEnv.TRACE)

VARIABLES l, bad
Agree(e) == LET x == Expect(e) IN \A k \in DOMAIN x : k \in DOMAIN e.out /\ e.out[k] = x[k]
Init == l = 1 /\ bad = <<>>
Next == /\ l <= Len(Trace)
        /\ bad' = IF Agree(Trace[l]) THEN bad ELSE Append(bad, l)
        /\ l' = l + 1
        /\ TLCSet(1, <<l + 1, bad'>>)
Accepted == LET r == TLCGet(1) IN
            /\ PrintT("TRACE-RESULT " \o ToJson([done |-> r[1] - 1, total |-> Len(Trace), bad |-> r[2]]))
            /\ r[1] = Len(Trace) + 1
=============================================================================
