--------------------------- MODULE PbWireCases ---------------------------
(***************************************************************************)
(* Expect(e): what the specification demands of one protowire case.        *)
(* Shared by the exhaustive tour (MC_PbWire, MC_PbWireGrammar: TLC emits   *)
(* e with exp = Expect(e), the harness compares with the real result) and  *)
(* by trace validation (Trace_PbWire: the harness logs e with out, TLC     *)
(* compares with Expect(e)).                                               *)
(***************************************************************************)
EXTENDS PbWire, TLC

RecursionLimit == 10000      \* protowire.DefaultRecursionLimit

ErrName(n) ==
  CASE n >= 0 -> ""
    [] n = ErrTruncated -> "unexpected EOF"
    [] n = ErrFieldNumber -> "invalid field number"
    [] n = ErrOverflow -> "variable length integer overflow"
    [] n = ErrReserved -> "cannot parse reserved wire type"
    [] n = ErrEndGroup -> "mismatching end group marker"
    [] OTHER -> "parse error"

\* a d-fold pure nesting of groups is accepted iff d <= limit + 1 (lemma checked by MC_PbWireGrammar for small limits)
NestAccepted(d, limit) == d <= limit + 1
Nest(d) == [k \in 1..(2*d) |-> IF k <= d THEN 11 ELSE 12]

\* length of the end-group tag that closes the (well-formed) group whose body starts at b[i]
RECURSIVE EndTagLenFrom(_, _)
EndTagLenFrom(b, i) ==
  LET t == TagAt(b, i) IN
  IF t.wt = 4 THEN t.n
  ELSE EndTagLenFrom(b, i + t.n + FieldValueLen(b, i + t.n, t.num, t.wt, RecursionLimit))

Expect(e) ==
  CASE e.op = "varint" ->
         LET enc == EncVarint(e.v) IN
         [enc |-> enc, size |-> Len(enc), dec |-> e.v, dn |-> Len(enc), pre |-> TRUE, sfx |-> TRUE]
    [] e.op = "zigzag64" ->
         [zz |-> ZigZagEnc64(e.v), back |-> e.v, undo |-> e.v, enc |-> EncVarint(ZigZagEnc64(e.v))]
    [] e.op = "zigzag32" ->
         [zz |-> ZigZagEnc32(e.v), back |-> e.v, enc |-> EncVarint(ZigZagEnc32(e.v))]
    [] e.op = "fixed64" -> [enc |-> e.v, size |-> 8, dec |-> e.v, dn |-> 8, pre |-> TRUE]
    [] e.op = "fixed32" -> [enc |-> e.v, size |-> 4, dec |-> e.v, dn |-> 4, pre |-> TRUE]
    [] e.op = "bool" -> [enc |-> <<IF IsZeros(e.v) THEN 0 ELSE 1>>, dec |-> ~IsZeros(e.v)]
    [] e.op = "tag" ->
         LET enc == EncTag(e.num, e.wt) IN
         [enc |-> enc, size |-> Len(enc), dnum |-> e.num, dwt |-> e.wt, dn |-> Len(enc), codec |-> TRUE, pre |-> TRUE]
    [] e.op = "bytes" ->
         LET enc == EncBytes(e.p) IN
         [enc |-> enc, size |-> Len(enc), dec |-> e.p, dn |-> Len(enc), str |-> TRUE, pre |-> TRUE, sfx |-> TRUE]
    [] e.op = "group" ->
         LET enc == e.p \o EncTag(e.num, 4) IN
         [enc |-> enc, size |-> Len(enc), dec |-> e.p, dn |-> Len(enc), pre |-> TRUE]
    [] e.op = "cfield" ->
         LET r == ConsumeField(e.b, RecursionLimit) IN
         [n |-> r.n, num |-> r.num, wt |-> r.wt, err |-> ErrName(r.n), bounded |-> TRUE, stable |-> TRUE]
    [] e.op = "ctag" ->
         LET r == TagAt(e.b, 1) IN
         [n |-> r.n, num |-> r.num, wt |-> r.wt, err |-> ErrName(r.n), bounded |-> TRUE, stable |-> TRUE]
    [] e.op = "cvalue" ->
         LET n == FieldValueLen(e.b, 1, e.num, e.wt, RecursionLimit) IN
         [n |-> n, err |-> ErrName(n), bounded |-> TRUE, stable |-> TRUE]
    [] e.op = "cgroup" ->
         \* ConsumeGroup returns the body without the (possibly non-minimal) end tag
         LET n == GroupBodyLen(e.b, 1, e.num, RecursionLimit) IN
         IF n < 0 THEN [n |-> n, err |-> ErrName(n), val |-> <<>>, bounded |-> TRUE, stable |-> TRUE]
         ELSE LET endLen == EndTagLenFrom(e.b, 1) IN
              [n |-> n, err |-> "", val |-> SubSeq(e.b, 1, n - endLen), bounded |-> TRUE, stable |-> TRUE]
    [] e.op = "cvarint" ->
         LET d == DecVarint(e.b, 1) IN
         [n |-> d.n, err |-> ErrName(d.n), val |-> IF d.n < 0 THEN <<>> ELSE d.v, bounded |-> TRUE, stable |-> TRUE]
    [] e.op = "cbytes" ->
         LET d == BytesAt(e.b, 1) IN
         [n |-> d.n, err |-> ErrName(d.n), val |-> d.p, bounded |-> TRUE, stable |-> TRUE]
    [] e.op = "cfixed32" ->
         LET d == Fixed32At(e.b, 1) IN
         [n |-> d.n, err |-> ErrName(d.n), val |-> IF d.n < 0 THEN <<>> ELSE d.v, bounded |-> TRUE, stable |-> TRUE]
    [] e.op = "cfixed64" ->
         LET d == Fixed64At(e.b, 1) IN
         [n |-> d.n, err |-> ErrName(d.n), val |-> IF d.n < 0 THEN <<>> ELSE d.v, bounded |-> TRUE, stable |-> TRUE]
    [] e.op = "nest" ->
         IF NestAccepted(e.d, RecursionLimit) THEN [ok |-> TRUE, n |-> 0, err |-> ""]
         ELSE [ok |-> FALSE, n |-> ErrRecursionDepth, err |-> "parse error"]
=============================================================================
