----------------------------- MODULE PbWire -----------------------------
(***************************************************************************)
(* Protocol-buffer wire primitives (encoding/protowire), specified on      *)
(* little-endian byte vectors (module VB).                                 *)
(*                                                                         *)
(*   varint    : base-128, least significant group first, shortest form on *)
(*               output; on input up to 10 bytes, the 10th at most 1,      *)
(*               non-minimal forms accepted, value = sum of groups         *)
(*   zig-zag   : (v << 1) ^ (v >> 63) on 64 bits (sint32 through sign ext) *)
(*   tag       : varint(num << 3 | type)                                   *)
(*   fixed32/64: little endian                                             *)
(*   bytes     : varint(len) ++ payload                                    *)
(*   group     : body ++ end-group tag                                     *)
(*                                                                         *)
(* The operators are defined denotationally (value of the bits), not by    *)
(* transcribing the hand-unrolled Go code.                                 *)
(***************************************************************************)
EXTENDS Integers, Sequences, VB

\* ---------------------------------------------------------------- varint
\* 7-bit group i (1-based) of an 8-byte value
Group7(b8, i) == LET s == Slice(b8, 7*(i-1), 1)[1] IN s % 128

\* number of groups in the shortest encoding: ceil(bitlen/7), at least 1
NGroups(b8) == LET n == BitLen(b8) IN IF n = 0 THEN 1 ELSE (n + 6) \div 7

EncVarint(b8) ==
  LET n == NGroups(b8) IN
  [i \in 1..n |-> Group7(b8, i) + (IF i < n THEN 128 ELSE 0)]

\* the closed form the implementation uses: (9*bitlen(v|1) + 64) / 64
SizeVarintClosed(b8) == LET n == BitLen(b8) m == IF n = 0 THEN 1 ELSE n IN (9*m + 64) \div 64
SizeVarint(b8) == Len(EncVarint(b8))

\* error codes of protowire
ErrTruncated == -1
ErrFieldNumber == -2
ErrOverflow == -3
ErrReserved == -4
ErrEndGroup == -5
ErrRecursionDepth == -6

\* decode a varint starting at b[i]; result [n |-> consumed bytes or error code, g |-> 7-bit groups]
RECURSIVE VarintAt(_, _, _, _)
VarintAt(b, i, k, acc) ==
  IF i > Len(b) THEN [n |-> ErrTruncated, g |-> <<>>]
  ELSE IF k = 10 THEN (IF b[i] < 2 THEN [n |-> 10, g |-> Append(acc, b[i])] ELSE [n |-> ErrOverflow, g |-> <<>>])
  ELSE IF b[i] < 128 THEN [n |-> k, g |-> Append(acc, b[i])]
  ELSE VarintAt(b, i+1, k+1, Append(acc, b[i] - 128))

\* groups -> 8-byte value (bit 63 comes from group 10)
GroupsToBytes(g) ==
  LET G(j) == IF j <= Len(g) THEN g[j] ELSE 0 IN
  [k \in 1..8 |-> LET lb == 8*(k-1)  i == (lb \div 7) + 1  o == lb % 7 IN
                  ((G(i) \div Pow2(o)) + G(i+1) * Pow2(7-o)) % 256]

\* [n, v] : consumed length (or error) and 8-byte value
DecVarint(b, i) == LET r == VarintAt(b, i, 1, <<>>) IN
                   [n |-> r.n, v |-> IF r.n < 0 THEN Zeros(8) ELSE GroupsToBytes(r.g)]

\* ---------------------------------------------------------------- zig-zag
ZigZagEnc64(b8) == IF IsNegative(b8) THEN Not(Shl1(b8)) ELSE Shl1(b8)
ZigZagDec64(b8) == IF b8[1] % 2 = 1 THEN Not(Shr1(b8)) ELSE Shr1(b8)
\* sint32 values are sign-extended to 64 bit before EncodeZigZag and truncated after DecodeZigZag
ZigZagEnc32(b4) == Trunc(ZigZagEnc64(SignExt(b4, 8)), 8)
ZigZagDec32(b8) == Trunc(ZigZagDec64(b8), 4)

\* ---------------------------------------------------------------- tags
\* field numbers are small integers (< 2^29) in every bounded model; wire types 0..7
TagBytes(num, wt) ==   \* (num << 3 | wt) as 8 bytes; num < 2^29 so the product stays below 2^32
  LET lo == (num % 65536) * 8 + wt          \* < 2^19+8
      hi == (num \div 65536) * 8            \* contributes from bit 16 on
  IN Add(FromNat8(lo), <<0, 0>> \o FromNat4(hi) \o <<0, 0>>)
EncTag(num, wt) == EncVarint(TagBytes(num, wt))

MaxValidNumber == 536870911      \* 2^29 - 1

\* [n, num, wt]; n < 0 is an error code.  ConsumeTag accepts numbers up to 2^31-1 (MessageSet)
TagAt(b, i) ==
  LET d == DecVarint(b, i) IN
  IF d.n < 0 THEN [n |-> d.n, num |-> 0, wt |-> 0]
  ELSE LET numBytes == Slice(d.v, 3, 8)
           num == ToNat(numBytes)
       IN IF num < 1 THEN [n |-> ErrFieldNumber, num |-> 0, wt |-> 0]   \* 0 or > MaxInt32
          ELSE [n |-> d.n, num |-> num, wt |-> d.v[1] % 8]

\* ---------------------------------------------------------------- fixed, bytes
EncBytes(p) == EncVarint(FromNat8(Len(p))) \o p

\* [n, p]
BytesAt(b, i) ==
  LET d == DecVarint(b, i) IN
  IF d.n < 0 THEN [n |-> d.n, p |-> <<>>]
  ELSE LET m == ToNat(d.v) IN
       IF m < 0 \/ m > Len(b) - (i + d.n) + 1 THEN [n |-> ErrTruncated, p |-> <<>>]
       ELSE [n |-> d.n + m, p |-> SubSeq(b, i + d.n, i + d.n + m - 1)]

Fixed32At(b, i) == IF Len(b) - i + 1 < 4 THEN [n |-> ErrTruncated, v |-> Zeros(4)] ELSE [n |-> 4, v |-> SubSeq(b, i, i+3)]
Fixed64At(b, i) == IF Len(b) - i + 1 < 8 THEN [n |-> ErrTruncated, v |-> Zeros(8)] ELSE [n |-> 8, v |-> SubSeq(b, i, i+7)]

\* ---------------------------------------------------------------- field grammar
\* Length of the field *value* of wire type wt for field num starting at b[i], or an error code.
\* depth = remaining group nesting allowance (protowire: DefaultRecursionLimit = 10000).
RECURSIVE FieldValueLen(_, _, _, _, _), GroupBodyLen(_, _, _, _)
FieldValueLen(b, i, num, wt, depth) ==
  CASE wt = 0 -> VarintAt(b, i, 1, <<>>).n
    [] wt = 5 -> Fixed32At(b, i).n
    [] wt = 1 -> Fixed64At(b, i).n
    [] wt = 2 -> BytesAt(b, i).n
    [] wt = 3 -> IF depth < 0 THEN ErrRecursionDepth ELSE GroupBodyLen(b, i, num, depth)
    [] wt = 4 -> ErrEndGroup
    [] OTHER  -> ErrReserved
\* length of group body *including* the end tag
GroupBodyLen(b, i, num, depth) ==
  LET t == TagAt(b, i) IN
  IF t.n < 0 THEN t.n
  ELSE IF t.wt = 4 THEN (IF t.num # num THEN ErrEndGroup ELSE t.n)
  ELSE LET m == FieldValueLen(b, i + t.n, t.num, t.wt, depth - 1) IN
       IF m < 0 THEN m
       ELSE LET r == GroupBodyLen(b, i + t.n + m, num, depth) IN
            IF r < 0 THEN r ELSE t.n + m + r

\* ConsumeField: tag then value.  Result [n, num, wt]
ConsumeField(b, limit) ==
  LET t == TagAt(b, 1) IN
  IF t.n < 0 THEN [n |-> t.n, num |-> 0, wt |-> 0]
  ELSE LET m == FieldValueLen(b, 1 + t.n, t.num, t.wt, limit) IN
       IF m < 0 THEN [n |-> m, num |-> 0, wt |-> 0] ELSE [n |-> t.n + m, num |-> t.num, wt |-> t.wt]
=============================================================================
