---------------------------- MODULE MC_PbWire ----------------------------
(***************************************************************************)
(* Exhaustive one-shot machine over the boundary domain of the wire        *)
(* primitives (C01).  Every case is (i) checked against the design-level   *)
(* laws below by TLC and (ii) emitted as a tour line carrying the          *)
(* specification's encoding, which the Go replayer compares with           *)
(* protowire.Append / Consume / Size on the real code.                      *)
(***************************************************************************)
EXTENDS PbWireCases, Json, FiniteSets

CONSTANTS Tier   \* "quick" | "thorough"

\* ---- value domains
Around(b8) == {Dec(b8), b8, Inc(b8)}
Values64 ==
  UNION {Around(PowBytes(n, 8)) : n \in 0..64}
  \cup {<<170,170,170,170,170,170,170,170>>, <<85,85,85,85,85,85,85,85>>,
        <<255,255,255,255,0,0,0,0>>, <<0,0,0,0,255,255,255,255>>,
        <<128,128,128,128,128,128,128,128>>, <<127,127,127,127,127,127,127,127>>,
        <<1,2,3,4,5,6,7,8>>, <<254,255,255,255,255,255,255,127>>}
  \cup (IF Tier = "thorough"
        THEN UNION {{Add(PowBytes(n, 8), PowBytes(m, 8)) : m \in 0..n} : n \in 0..63}
        ELSE {})
Values32 == {Trunc(v, 4) : v \in UNION {Around(PowBytes(n, 8)) : n \in 0..32}}
            \cup {<<170,170,170,170>>, <<85,85,85,85>>, <<1,2,3,4>>}

Numbers == {1, 2, 15, 16, 17, 2047, 2048, 2049, 18999, 19000, 19999, 20000, 262143, 262144,
            2097151, 2097152, 33554431, 33554432, 268435455, 268435456, 536870910, 536870911}
ByteStrings == {<<>>} \cup {<<x>> : x \in {0, 1, 127, 128, 255}}
               \cup {<<x, y>> : x, y \in {0, 127, 128, 255}}
               \cup {[k \in 1..n |-> (k * 37) % 256] : n \in {3, 127, 128, 129, 300}}
\* well-formed group bodies (sequences of complete fields)
Bodies == {<<>>, <<8, 1>>, <<8, 128, 1>>, <<18, 1, 255>>, <<13, 1, 2, 3, 4>>, <<9, 1, 2, 3, 4, 5, 6, 7, 8>>,
           <<19, 8, 0, 20>>, <<19, 19, 20, 20>>, <<8, 1, 18, 0, 19, 20>>}

Cases ==
       {[op |-> "varint",   v |-> v] : v \in Values64}
  \cup {[op |-> "zigzag64", v |-> v] : v \in Values64}
  \cup {[op |-> "zigzag32", v |-> v] : v \in Values32}
  \cup {[op |-> "fixed64",  v |-> v] : v \in Values64}
  \cup {[op |-> "fixed32",  v |-> v] : v \in Values32}
  \cup {[op |-> "bool",     v |-> v] : v \in {<<0>>, <<1>>}}
  \cup {[op |-> "tag", num |-> n, wt |-> w] : n \in Numbers, w \in 0..7}
  \cup {[op |-> "bytes", p |-> p] : p \in ByteStrings}
  \cup {[op |-> "group", num |-> n, p |-> p] : n \in {1, 2, 16, 536870911}, p \in Bodies}

\* ---- design-level laws, checked by TLC on every case
Law(c) ==
  CASE c.op = "varint" ->
         LET e == EncVarint(c.v)  d == DecVarint(e, 1) IN
         /\ d.n = Len(e) /\ d.v = c.v                       \* round trip, exact consumption
         /\ Len(e) = SizeVarintClosed(c.v)                  \* closed form = length
         /\ Len(e) \in 1..10
         /\ (Len(e) > 1 => e[Len(e)] # 0)                   \* shortest form: no zero top group
         /\ \A k \in 1..Len(e) : (e[k] >= 128) = (k < Len(e))
    [] c.op = "zigzag64" ->
         /\ ZigZagDec64(ZigZagEnc64(c.v)) = c.v
         /\ ZigZagEnc64(ZigZagDec64(c.v)) = c.v             \* bijective: also onto
         \* small magnitudes get small codes: |v| < 2^k  =>  code < 2^(k+1)
         /\ BitLen(ZigZagEnc64(c.v)) = (IF IsNegative(c.v) THEN BitLen(Not(c.v)) ELSE BitLen(c.v)) + (IF IsZeros(c.v) THEN 0 ELSE 1)
    [] c.op = "zigzag32" ->
         /\ ZigZagDec32(ZigZagEnc32(c.v)) = c.v
         /\ BitLen(ZigZagEnc32(c.v)) <= 32
    [] c.op = "tag" ->
         LET e == EncTag(c.num, c.wt)  t == TagAt(e, 1) IN
         t.n = Len(e) /\ t.num = c.num /\ t.wt = c.wt
    [] c.op = "bytes" ->
         LET e == EncBytes(c.p)  r == BytesAt(e, 1) IN r.n = Len(e) /\ r.p = c.p
    [] c.op = "group" ->
         LET e == c.p \o EncTag(c.num, 4) IN GroupBodyLen(e, 1, c.num, 3) = Len(e)
    [] OTHER -> TRUE

VARIABLE cur
Init == cur = [op |-> "init"]
Next == cur.op = "init" /\ \E c \in Cases : cur' = c
Laws == cur.op = "init" \/ Law(cur)
Emit == PrintT("@@" \o ToJson(cur' @@ [exp |-> Expect(cur')]))
=============================================================================
