---------------------------- MODULE GoNamesCases ----------------------------
(***************************************************************************)
(* What the specification says about ONE gonames case e (C42):             *)
(*   Expect(e)   keys whose value the PROPERTY fixes (compared with the    *)
(*               real code's observation when a tour line is replayed);    *)
(*   Pred(e)     what the transcription of the current implementation      *)
(*               computes (a miss with Allowed intact is drift, not a      *)
(*               violation);                                                *)
(*   Allowed(e)  the property as a relation on a recorded event e (case +  *)
(*               out), evaluated with this specification's own grammars    *)
(*               on the REAL result;                                        *)
(*   Drift(e)    the recorded result differs from Pred.                     *)
(* Cases:  camel {s} | sanitize {s, cls} | fieldmask {s} |                  *)
(*         msgnames {level, fields, oname, nested, enums, nfields, evals,   *)
(*                   exts, tenum}                                           *)
(***************************************************************************)
EXTENDS GoNamesMsg, TLC

Count(s, x) == LET RECURSIVE Cnt(_)
                   Cnt(i) == IF i > Len(s) THEN 0 ELSE (IF s[i] = x THEN 1 ELSE 0) + Cnt(i + 1)
               IN Cnt(1)
SameBag(a, b) == Len(a) = Len(b) /\ \A x \in Range(a) \cup Range(b) : Count(a, x) = Count(b, x)

\* (events recorded before defaults, nested fields and enum values entered the model carry no such keys)
FieldOf(f) == [n |-> f.n, mem |-> f.mem, rep |-> f.rep, dflt |-> IF "dflt" \in DOMAIN f THEN f.dflt ELSE FALSE]
MsgOf(e) == [level |-> e.level, fields |-> [i \in 1..Len(e.fields) |-> FieldOf(e.fields[i])], oname |-> e.oname,
             nested |-> e.nested, enums |-> e.enums,
             nfields |-> IF "nfields" \in DOMAIN e THEN e.nfields ELSE [k \in 1..Len(e.nested) |-> <<>>],
             evals |-> IF "evals" \in DOMAIN e THEN e.evals ELSE [k \in 1..Len(e.enums) |-> <<>>],
             exts |-> IF "exts" \in DOMAIN e THEN e.exts ELSE <<>>,
             tenum |-> IF "tenum" \in DOMAIN e THEN e.tenum ELSE <<>>]

Pred(e) ==
  CASE e.op = "camel" -> [r |-> GoCamelCase(e.s)]
    [] e.op = "sanitize" -> [r |-> GoSanitized(e.s, ClassSeq(e.s, e.cls))]
    [] e.op = "fieldmask" ->
         LET cc == JSONCamelCase(e.s)
             acc == FieldMaskAccepts(e.s)
         IN [camel |-> cc, snake |-> JSONSnakeCase(cc), acc |-> acc,
             json |-> IF acc THEN cc ELSE <<>>, back |-> IF acc THEN e.s ELSE <<>>, backok |-> acc]
    [] e.op = "msgnames" ->
         Let(Why(MsgOf(e)), LAMBDA w : [distinct |-> (w = {}), why |-> w])

Expect(e) ==
  CASE e.op = "camel" -> IF IsProtoFullName(e.s) THEN [ran |-> TRUE, ident |-> TRUE, exported |-> TRUE] ELSE [ran |-> TRUE]
    [] e.op = "sanitize" -> [ran |-> TRUE, clsok |-> TRUE, ident |-> TRUE, keyword |-> FALSE]
    [] e.op = "fieldmask" -> [ran |-> TRUE]            \* the property is conditional on the real acceptance: see Allowed
    [] e.op = "msgnames" -> [ran |-> TRUE, distinct |-> TRUE]

Has(e, k) == k \in DOMAIN e.out
Allowed(e) ==
  /\ Has(e, "ran")
  /\ CASE e.op = "camel" ->
            IsProtoFullName(e.s) => (IsExportedGoIdent(e.out.r) /\ e.out.ident /\ e.out.exported)
       [] e.op = "sanitize" ->
            /\ e.out.clsok
            /\ IsGoIdentC(e.out.r, ClassSeq(e.out.r, e.out.rcls))
            /\ ~IsKeyword(e.out.r)
            /\ e.out.ident /\ ~e.out.keyword                 \* go/token agrees
       [] e.op = "fieldmask" ->
            e.out.acc => (e.out.snake = e.s)
       [] e.op = "msgnames" ->
            /\ Has(e, "members") /\ e.out.generr = ""
            /\ NoDup(e.out.members) /\ NoDup(e.out.builder) /\ NoDup(e.out.pkg)
            /\ e.out.distinct

Drift(e) ==
  Has(e, "ran") /\
  CASE e.op = "camel" -> e.out.r # Pred(e).r
    [] e.op = "sanitize" -> e.out.r # Pred(e).r
    [] e.op = "fieldmask" ->
         Let(Pred(e), LAMBDA p :
         ~(e.out.camel = p.camel /\ e.out.snake = p.snake /\ e.out.acc = p.acc /\ e.out.json = p.json
           /\ e.out.back = p.back /\ e.out.backok = p.backok))
    [] e.op = "msgnames" ->
         Has(e, "members") /\
         Let(MsgOf(e), LAMBDA c : Let(Naming(c), LAMBDA n :
            ~(/\ Let(MembersN(c, n), LAMBDA m : SameBag(e.out.members, m))
              /\ Let(BuilderN(c, n), LAMBDA b : SameBag(e.out.builder, b))
              /\ Let(PkgN(c, n), LAMBDA p : Range(p) \subseteq Range(e.out.pkg) /\ Dups(p) = Dups(e.out.pkg)))))
=============================================================================
