---------------------------- MODULE MC_GoNamesPkg ----------------------------
(***************************************************************************)
(* C42 / C41, package level: the identifiers that protoc-gen-go declares   *)
(* at PACKAGE level from the content of one message M must be pairwise     *)
(* distinct as well (the generated file has to compile).  Two families of  *)
(* such identifiers are built by plain concatenation with '_' and are      *)
(* checked against nothing:                                                 *)
(*   Default_<Message>_<Field>   for every field with an explicit default, *)
(*                               of M and of its nested messages;           *)
(*   <Parent>_<VALUE>            for every value of a nested enum (the     *)
(*                               value name is not camel-cased).            *)
(* One state per field list fs of M (fields drawn from PFieldVocab, each a *)
(* plain field with a default "d" or a oneof member with a default "m").   *)
(* For every list TLC emits, per API level,                                 *)
(*   family A  one optional nested message with one field (with default);  *)
(*   family B  (lists of <= 1 field) one optional nested message without   *)
(*             fields and one nested enum with one value from PValueVocab; *)
(*   family C  (lists of <= 1 field) an optional extension declared in M   *)
(*             and a top-level enum with one value (PTopEnums: the pairs   *)
(*             enum name / value name), which meets the E_ variables, the  *)
(*             File_ variable and the Default_ constants.                   *)
(* Laws: the declarations are well-formed protobuf, all names are Go       *)
(* identifiers, every predicted repetition has a named cause, the          *)
(* prediction of a Default_ collision agrees with an independent           *)
(* characterisation (two (message, field) pairs whose '_'-joined names      *)
(* coincide), and without defaults and named enum values the extended      *)
(* model predicts exactly what the message-level model did.                *)
(***************************************************************************)
EXTENDS GoNamesCases, GoNamesVocab, Json

CONSTANTS PFieldVocab, PNestedVocab, PNFieldVocab, PEnumVocab, PValueVocab, PExtVocab, Levels, MaxF

\* the top-level enums of family C as <<enum name, value name>> (cfg files cannot hold tuples)
PTopEnums == { <<"E", "M_Foo">>, <<"File", "t_proto">>, <<"Default", "M_Foo">>, <<"Bar", "Foo">> }

VARIABLE fs
Init == fs = <<>>
Used(f) == {f[i].n : i \in 1..Len(f)}
AnyMem(f) == \E i \in 1..Len(f) : f[i].mem
Next == /\ Len(fs) < MaxF
        /\ \E x \in PFieldVocab, k \in {"d", "m"} :
             /\ Codes(x) \notin Used(fs)
             /\ (k = "m" /\ AnyMem(fs)) => fs[Len(fs)].mem          \* the members of the oneof are declared consecutively
             /\ fs' = Append(fs, [n |-> Codes(x), mem |-> (k = "m"), rep |-> FALSE, dflt |-> TRUE])

OName(f) == IF AnyMem(f) THEN Codes("bar") ELSE <<>>
DeclX(lv, f, ns, nf, es, ev, xs, te) == [op |-> "msgnames", level |-> lv, fields |-> f, oname |-> OName(f), nested |-> ns, enums |-> es,
                                         nfields |-> nf, evals |-> ev, exts |-> xs, tenum |-> te]
Decl(lv, f, ns, nf, es, ev) == DeclX(lv, f, ns, nf, es, ev, <<>>, <<>>)
FamilyA(f) == {Decl(lv, f, <<>>, <<>>, <<>>, <<>>) : lv \in Levels}
              \cup {Decl(lv, f, <<Codes(n)>>, <<<<Codes(x)>>>>, <<>>, <<>>) : lv \in Levels, n \in PNestedVocab, x \in PNFieldVocab}
FamilyB(f) == IF Len(f) > 1 THEN {}
              ELSE {Decl(lv, f, <<>>, <<>>, <<Codes(en)>>, <<<<Codes(v)>>>>) : lv \in Levels, en \in PEnumVocab, v \in PValueVocab}
                   \cup {Decl(lv, f, <<Codes(n)>>, <<<<>>>>, <<Codes(en)>>, <<<<Codes(v)>>>>)
                         : lv \in Levels, n \in PNestedVocab, en \in PEnumVocab, v \in PValueVocab}
FamilyC(f) == IF Len(f) > 1 THEN {}
              ELSE {DeclX(lv, f, <<>>, <<>>, <<>>, <<>>, xs, <<[n |-> Codes(te[1]), vals |-> <<Codes(te[2])>>]>>)
                    : lv \in Levels, te \in PTopEnums, xs \in {<<>>} \cup {<<Codes(x)>> : x \in PExtVocab}}
\* only the well-formed ones are declarations (a value named like a sibling message is rejected by protoc)
CasesOf(f) == {e \in FamilyA(f) \cup FamilyB(f) \cup FamilyC(f) : WellFormed(MsgOf(e))}

\* ---- laws
NamesAreIdentifiers(c, n) ==
  /\ \A i \in 1..Len(n.go) : IsExportedGoIdent(n.go[i])
  /\ \A x \in Range(MembersN(c, n)) \cup Range(BuilderN(c, n)) \cup Range(PkgN(c, n)) : IsGoIdent(x)
AllExplained(w) == \A x \in w : x.cause # "unexplained" /\ Len(x.roles) >= 2
\* independent characterisation of the Default_ collisions: the (message identifier, field Go name) pairs of all fields
\* with a default; two different pairs whose '_'-joined names coincide
DefaultPairs(c, n) == {<<S_M, n.go[i]>> : i \in {j \in 1..NF(c) : c.fields[j].dflt}}
                      \cup UNION {{<<NestedIdent(c, k), SubGo(c, k)[j]>> : j \in 1..Len(c.nfields[k])} : k \in 1..Len(c.nested)}
Joined(p) == p[1] \o <<US>> \o p[2]
DefaultAmbiguous(c, n) == \E p, q \in DefaultPairs(c, n) : p # q /\ Joined(p) = Joined(q)
DefaultLaw(c, n, w) == DefaultAmbiguous(c, n) <=> \E x \in w : x.cause = "default-const-collides"
\* stripping the defaults, the nested fields and the value names leaves a declaration of the message-level model; the
\* package-level causes that remain are the message-level ones
Stripped(c) == [c EXCEPT !.fields = [i \in 1..NF(c) |-> [c.fields[i] EXCEPT !.dflt = FALSE]],
                         !.nfields = [k \in 1..Len(c.nested) |-> <<>>], !.evals = [k \in 1..Len(c.enums) |-> <<>>],
                         !.exts = <<>>, !.tenum = <<>>]
Conservative(c, w) == LET w0 == Why(Stripped(c)) IN
                      /\ \A x \in w0 : x.cause \notin {"default-const-collides", "enum-value-const-collides"}
                      /\ {x \in w : x.cause \notin {"default-const-collides", "enum-value-const-collides"}} \subseteq w0
Laws == \A e \in CasesOf(fs) : \A c \in {MsgOf(e)} :
          \A n \in {Naming(c)} :
             /\ NamesAreIdentifiers(c, n)
             /\ \A w \in {WhyN(c, n)} : AllExplained(w) /\ DefaultLaw(c, n, w) /\ Conservative(c, w)

Emit == \A e \in CasesOf(fs') : PrintT("@@" \o ToJson(e @@ [exp |-> Expect(e), pred |-> Pred(e)]))
=============================================================================
