---------------------------- MODULE MC_GenSchema ----------------------------
(***************************************************************************)
(* C41: one-shot "pick a shape" machine: the reachable states are all      *)
(* field shapes over the kinds Kinds.  TLC checks on every shape that the  *)
(* two definitions of validity agree and that the derived semantics obey   *)
(* the presence discipline, and emits every VALID shape as a tour case     *)
(* carrying the specification's HasPresence / IsPacked.  The runner packs  *)
(* the valid shapes of one syntax into one message and sends it through    *)
(* the generate - gofmt - compile - run pipeline at every API level.       *)
(***************************************************************************)
EXTENDS GenSchema, Json

CONSTANTS Kinds

AllShapes == [syn : {"proto2", "proto3", "editions"}, card : {"optional", "required", "repeated", "implicit"}, kind : Kinds,
              cont : {"plain", "oneof", "ext", "map"}, packed : {"default", "true", "false"}, lazy : BOOLEAN, dflt : BOOLEAN]
None == [syn |-> "none", card |-> "optional", kind |-> "bool", cont |-> "plain", packed |-> "default", lazy |-> FALSE, dflt |-> FALSE]

VARIABLE sh
Init == sh = None
Next == sh = None /\ \E s \in AllShapes : sh' = s

TwoDefinitionsAgree == sh = None \/ (Valid(sh) <=> Constructible(sh))
PresenceDiscipline == (sh # None /\ Valid(sh)) =>
  /\ (IsList(sh) \/ IsMap(sh)) => ~HasPresence(sh)                 \* repeated fields and maps have no presence
  /\ (sh.card = "required" \/ sh.cont = "oneof") => HasPresence(sh)
  /\ (sh.kind \in Submessage /\ ~IsList(sh) /\ ~IsMap(sh)) => HasPresence(sh)   \* singular messages always have presence
  /\ sh.dflt => HasPresence(sh)                                     \* only fields with presence carry explicit defaults
  /\ IsPacked(sh) => (IsList(sh) /\ sh.kind \in Packable)
  /\ (IsList(sh) /\ sh.kind \in Packable /\ sh.packed = "default") => (IsPacked(sh) <=> sh.syn # "proto2")
Laws == TwoDefinitionsAgree /\ PresenceDiscipline

Emit == Valid(sh') => PrintT("@@" \o ToJson([op |-> "shape", shape |-> sh', exp |-> [presence |-> HasPresence(sh'), packed |-> IsPacked(sh')]]))
=============================================================================
