---------------------------- MODULE Trace_GenPipe ----------------------------
(***************************************************************************)
(* Trace validation for C41: every recorded pipeline item (a generated     *)
(* package: case + out with the observations of generator, gofmt, Go       *)
(* compiler, and the generated self-test binary) must satisfy              *)
(* GenSchema!Allowed.                                                       *)
(***************************************************************************)
EXTENDS GenSchema, Json, IOUtils

Trace == ndJsonDeserialize(IOEnv.TRACE)

VARIABLES l, bad
Init == l = 1 /\ bad = <<>>
Next == /\ l <= Len(Trace)
        /\ bad' = IF Allowed(Trace[l]) THEN bad ELSE Append(bad, l)
        /\ l' = l + 1
        /\ TLCSet(1, <<l + 1, bad'>>)
Accepted == LET r == TLCGet(1) IN
            /\ PrintT("TRACE-RESULT " \o ToJson([done |-> r[1] - 1, total |-> Len(Trace), bad |-> r[2]]))
            /\ r[1] = Len(Trace) + 1
=============================================================================
