------------------------------ MODULE GoNames ------------------------------
(***************************************************************************)
(* C42, string level.  Strings are sequences of rune values (ASCII codes   *)
(* for protobuf identifiers).  This module DEFINES                          *)
(*   - the identifier grammars the property talks about: protobuf          *)
(*     identifier / full name, Go identifier, exported Go identifier,      *)
(*     the Go keyword table;                                                *)
(*   - internal/strs GoCamelCase (twice: the word-at-a-time loop of the    *)
(*     code and an independent context-local definition), GoSanitized,     *)
(*     JSONCamelCase, JSONSnakeCase, and protojson's FieldMask path        *)
(*     acceptance (marshal) and path decoding (unmarshal);                  *)
(*   - the character-level characterisation of the paths on which          *)
(*     snake(camel(s)) = s.                                                 *)
(* Unicode: the class of a non-ASCII rune (letter L*, decimal digit Nd,    *)
(* other) is an INPUT of the operators (an uninterpreted relation recorded *)
(* from Go's unicode tables by the harness); for ASCII the class is        *)
(* defined here.                                                            *)
(***************************************************************************)
EXTENDS Integers, Sequences

\* Let(v, Op): Op applied to the VALUE of v.  TLC re-evaluates a LET definition or an operator argument at every use;
\* binding through a singleton set evaluates v exactly once (this is only an evaluation-strategy device).
Let(v, Op(_)) == CHOOSE r \in {Op(x) : x \in {v}} : TRUE

US  == 95      \* '_'
DOT == 46      \* '.'
IsLower(c) == c >= 97 /\ c <= 122
IsUpper(c) == c >= 65 /\ c <= 90
IsDigit(c) == c >= 48 /\ c <= 57
IsAlpha(c) == IsLower(c) \/ IsUpper(c)
ToUpper(c) == IF IsLower(c) THEN c - 32 ELSE c
ToLower(c) == IF IsUpper(c) THEN c + 32 ELSE c

\* ---- grammars
\* protobuf identifier  [A-Za-z_][A-Za-z0-9_]*   (protoreflect.Name.IsValid)
IsProtoIdent(s) == /\ Len(s) > 0
                   /\ (IsAlpha(s[1]) \/ s[1] = US)
                   /\ \A i \in 2..Len(s) : IsAlpha(s[i]) \/ IsDigit(s[i]) \/ s[i] = US
\* protobuf full name: identifiers joined by single dots (protoreflect.FullName.IsValid)
IsProtoFullName(s) ==
  /\ Len(s) > 0
  /\ \A i \in 1..Len(s) : IsAlpha(s[i]) \/ IsDigit(s[i]) \/ s[i] = US \/ s[i] = DOT
  /\ \A i \in 1..Len(s) : (i = 1 \/ s[i-1] = DOT) => (IsAlpha(s[i]) \/ s[i] = US)   \* a segment starts with a letter
  /\ s[Len(s)] # DOT

\* rune classes: 1 = Unicode letter (L*), 2 = Unicode decimal digit (Nd), 0 = anything else (incl. raw bytes < 0)
AsciiClass(c) == IF IsAlpha(c) THEN 1 ELSE IF IsDigit(c) THEN 2 ELSE 0
Class(c, given) == IF c >= 0 /\ c < 128 THEN AsciiClass(c) ELSE IF c < 0 THEN 0 ELSE given
\* ClassSeq(s, cls): class of every rune of s; cls is the recorded classification (same length as s)
ClassSeq(s, cls) == [i \in 1..Len(s) |-> Class(s[i], cls[i])]
AsciiClasses(s) == [i \in 1..Len(s) |-> AsciiClass(s[i])]

Keywords == {
  <<98, 114, 101, 97, 107>>, <<99, 97, 115, 101>>, <<99, 104, 97, 110>>, <<99, 111, 110, 115, 116>>,
  <<99, 111, 110, 116, 105, 110, 117, 101>>, <<100, 101, 102, 97, 117, 108, 116>>, <<100, 101, 102, 101, 114>>,
  <<101, 108, 115, 101>>, <<102, 97, 108, 108, 116, 104, 114, 111, 117, 103, 104>>, <<102, 111, 114>>,
  <<102, 117, 110, 99>>, <<103, 111>>, <<103, 111, 116, 111>>, <<105, 102>>, <<105, 109, 112, 111, 114, 116>>,
  <<105, 110, 116, 101, 114, 102, 97, 99, 101>>, <<109, 97, 112>>, <<112, 97, 99, 107, 97, 103, 101>>,
  <<114, 97, 110, 103, 101>>, <<114, 101, 116, 117, 114, 110>>, <<115, 101, 108, 101, 99, 116>>,
  <<115, 116, 114, 117, 99, 116>>, <<115, 119, 105, 116, 99, 104>>, <<116, 121, 112, 101>>, <<118, 97, 114>> }
IsKeyword(s) == s \in Keywords

\* Go identifier (language spec): letter { letter | unicode_digit }, letter = unicode_letter | "_"
IsGoIdentC(s, k) == /\ Len(s) > 0
                    /\ (k[1] = 1 \/ s[1] = US)
                    /\ \A i \in 2..Len(s) : k[i] = 1 \/ k[i] = 2 \/ s[i] = US
IsGoIdent(s) == /\ Len(s) > 0                  \* = IsGoIdentC(s, AsciiClasses(s)), written out for ASCII strings
                /\ (IsAlpha(s[1]) \/ s[1] = US)
                /\ \A i \in 2..Len(s) : IsAlpha(s[i]) \/ IsDigit(s[i]) \/ s[i] = US
\* exported: first character is an upper-case letter (ASCII here: GoCamelCase only ever sees ASCII identifiers)
IsExportedGoIdent(s) == IsGoIdent(s) /\ IsUpper(s[1])

\* ---- strs.GoCamelCase, definition 1: the loop of the code (word at a time)
RECURSIVE LowerRunEnd(_, _)
LowerRunEnd(s, j) == IF j + 1 <= Len(s) /\ IsLower(s[j+1]) THEN LowerRunEnd(s, j + 1) ELSE j
RECURSIVE CamelFrom(_, _)
CamelFrom(s, i) ==
  IF i > Len(s) THEN <<>>
  ELSE LET c == s[i]
           nextLower == i + 1 <= Len(s) /\ IsLower(s[i+1])
       IN
       IF c = DOT /\ nextLower THEN CamelFrom(s, i + 1)                        \* skip '.' in ".{{lowercase}}"
       ELSE IF c = DOT THEN <<US>> \o CamelFrom(s, i + 1)                       \* '.' -> '_'
       ELSE IF c = US /\ (i = 1 \/ s[i-1] = DOT) THEN <<88>> \o CamelFrom(s, i + 1)   \* initial '_' -> 'X'
       ELSE IF c = US /\ nextLower THEN CamelFrom(s, i + 1)                    \* skip '_' in "_{{lowercase}}"
       ELSE IF IsDigit(c) THEN <<c>> \o CamelFrom(s, i + 1)
       ELSE LET j == LowerRunEnd(s, i)                                         \* a word: capital + lower-case run
            IN <<ToUpper(c)>> \o SubSeq(s, i + 1, j) \o CamelFrom(s, j + 1)
GoCamelCase(s) == CamelFrom(s, 1)

\* ---- GoCamelCase, definition 2: what each input position contributes, from its left and right neighbour only
CamelAt(s, i) ==
  LET c == s[i]
      first == i = 1 \/ s[i-1] = DOT
      nextLower == i + 1 <= Len(s) /\ IsLower(s[i+1])
  IN IF c = DOT THEN (IF nextLower THEN <<>> ELSE <<US>>)
     ELSE IF c = US THEN (IF first THEN <<88>> ELSE IF nextLower THEN <<>> ELSE <<US>>)
     ELSE IF IsLower(c) THEN
          \* a lower-case letter keeps its case iff it continues a word: the previous character is not '.', '_' or a digit
          (IF i > 1 /\ s[i-1] # DOT /\ s[i-1] # US /\ ~IsDigit(s[i-1]) THEN <<c>> ELSE <<c - 32>>)
     ELSE <<c>>
RECURSIVE CamelLocalFrom(_, _)
CamelLocalFrom(s, i) == IF i > Len(s) THEN <<>> ELSE CamelAt(s, i) \o CamelLocalFrom(s, i + 1)
GoCamelCaseLocal(s) == CamelLocalFrom(s, 1)

\* ---- strs.GoSanitized on runes with classes k
SanitizeMap(s, k) == [i \in 1..Len(s) |-> IF k[i] = 1 \/ k[i] = 2 THEN s[i] ELSE US]
GoSanitized(s, k) ==
  LET m == SanitizeMap(s, k)
      firstLetter == Len(s) > 0 /\ k[1] = 1
  IN IF IsKeyword(m) \/ ~firstLetter THEN <<US>> \o m ELSE m
\* classes of the result runes, derived from the input classes (for checking the law on the specification itself)
GoSanitizedClasses(s, k) ==
  LET mk == [i \in 1..Len(s) |-> IF k[i] = 1 \/ k[i] = 2 THEN k[i] ELSE 0]
      firstLetter == Len(s) > 0 /\ k[1] = 1
  IN IF IsKeyword(SanitizeMap(s, k)) \/ ~firstLetter THEN <<0>> \o mk ELSE mk

\* ---- strs.JSONCamelCase / JSONSnakeCase (byte loops)
RECURSIVE JCamelFrom(_, _, _)
JCamelFrom(s, i, wasUS) ==
  IF i > Len(s) THEN <<>>
  ELSE LET c == s[i] IN
       IF c = US THEN JCamelFrom(s, i + 1, TRUE)
       ELSE <<IF wasUS THEN ToUpper(c) ELSE c>> \o JCamelFrom(s, i + 1, FALSE)
JSONCamelCase(s) == JCamelFrom(s, 1, FALSE)
RECURSIVE JSnakeFrom(_, _)
JSnakeFrom(s, i) ==
  IF i > Len(s) THEN <<>>
  ELSE (IF IsUpper(s[i]) THEN <<US, s[i] + 32>> ELSE <<s[i]>>) \o JSnakeFrom(s, i + 1)
JSONSnakeCase(s) == JSnakeFrom(s, 1)

\* the paths on which the conversion is reversible, characterised character by character
Reversible(s) == /\ \A i \in 1..Len(s) : ~IsUpper(s[i])
                 /\ \A i \in 1..Len(s) : s[i] = US => (i < Len(s) /\ IsLower(s[i+1]))

\* protojson: marshalFieldMask accepts a path iff it is a full name that survives the round trip; the JSON form is the
\* camel-cased path; unmarshalFieldMask rejects JSON paths containing '_' and decodes the others with JSONSnakeCase
FieldMaskAccepts(s) == IsProtoFullName(s) /\ JSONSnakeCase(JSONCamelCase(s)) = s
FieldMaskDecodes(j) == (\A i \in 1..Len(j) : j[i] # US) /\ IsProtoFullName(JSONSnakeCase(j))
=============================================================================
