---- MODULE Scratch_GoNames ----
EXTENDS GoNamesCases, Json
VARIABLE x
F(n, m, r) == [n |-> n, mem |-> m, rep |-> r]
C1 == [level |-> "open", fields |-> <<F(<<102,111,111>>, TRUE, FALSE), F(<<102,111,111,95>>, FALSE, FALSE)>>, oname |-> <<70,111,111>>, nested |-> <<>>, enums |-> <<>>]
Init == x = 0 /\ PrintT(Why(C1)) /\ PrintT(Naming(C1)) /\ PrintT(Why([C1 EXCEPT !.level = "hybrid"])) /\ PrintT(Why([C1 EXCEPT !.level = "opaque"]))
Next == FALSE /\ x' = x
====
