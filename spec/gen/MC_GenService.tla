---------------------------- MODULE MC_GenService ----------------------------
(***************************************************************************)
(* C41: one state per list ms of (input, output) pairs of the methods of a *)
(* file (up to MaxM methods; the rest of the file is fixed: message Req    *)
(* with a field of the nested type Req.Inner, message Resp with two        *)
(* extensions, one of message type).  TLC checks on every such file that   *)
(* the generator's dependency tables, read the way the runtime reads them, *)
(* bind every reference to what the schema declares (LayoutFaithful), and  *)
(* that the layout which takes the outputs from the inputs is unfaithful   *)
(* exactly when some method has different input and output types           *)
(* (WrongLayoutExposed).  Every single method - every (input, output)      *)
(* pair x the four streaming combinations x two services - is emitted as a *)
(* tour case carrying what the registered descriptor must report for it;   *)
(* the runner packs them into one file per API level and sends it through  *)
(* the generate - gofmt - compile - run pipeline.                           *)
(***************************************************************************)
EXTENDS GenService, Json, TLC

CONSTANTS MaxM

Pairs == [in : MsgTypes, out : MsgTypes]
VARIABLE ms
Init == ms = <<>>
Next == Len(ms) < MaxM /\ \E p \in Pairs : ms' = Append(ms, p)

FileOf(s) == [locals |-> Locals, fields |-> <<"Req.Inner">>,
              exts |-> <<[extendee |-> "Resp", target |-> "Req.Inner"], [extendee |-> "Resp", target |-> ""]>>,
              methods |-> s]

Faithful == LayoutFaithful(FileOf(ms))
WrongLayoutExposed == (ResolvedFromInputs(FileOf(ms)) = References(FileOf(ms))) <=> \A k \in 1..Len(ms) : ~Discriminating(ms[k])
\* the type table lists the file's own types first and every type once
TableWellFormed == LET tab == GoTypesOf(FileOf(ms), SubLists(FileOf(ms))) IN
                   /\ SubSeq(tab, 1, Len(Locals)) = Locals
                   /\ \A i, j \in 1..Len(tab) : i # j => tab[i] # tab[j]
Laws == Faithful /\ WrongLayoutExposed /\ TableWellFormed

Emit == Len(ms') = 1 => \A cs \in BOOLEAN, ss \in BOOLEAN, svc \in {1, 2} :
          LET m == [in |-> ms'[1].in, out |-> ms'[1].out, cs |-> cs, ss |-> ss, svc |-> svc] IN
          PrintT("@@" \o ToJson([op |-> "method", m |-> m, exp |-> Declared(m)]))
=============================================================================
