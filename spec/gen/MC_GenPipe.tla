----------------------------- MODULE MC_GenPipe -----------------------------
(***************************************************************************)
(* C41: the message declarations with hostile field names that go through  *)
(* the compile pipeline.  The list holds, for each naming defect the       *)
(* GoNamesMsg specification knows (its `cause`s), a minimal declaration    *)
(* that exhibits it, and declarations whose collisions protogen resolves.  *)
(* TLC checks on the specification that the list really covers every cause *)
(* at every API level where the cause exists, and that the "clean"         *)
(* declarations are predicted to be free of repeated identifiers; it emits *)
(* every (declaration, level) pair as a pipeline item, together with the   *)
(* specification's explanation (pred.why) of the identifiers it predicts   *)
(* to be declared twice.                                                    *)
(***************************************************************************)
EXTENDS GoNamesCases, GoNamesVocab, Json

CONSTANTS Levels, Pick          \* Pick = "all": every declaration at every level; "one": at one level each (quick tier)

GS == INSTANCE GenSchema

F(x) == [n |-> Codes(x), mem |-> FALSE, rep |-> FALSE, dflt |-> FALSE]
Fd(x) == [n |-> Codes(x), mem |-> FALSE, rep |-> FALSE, dflt |-> TRUE]           \* with an explicit default
M(x) == [n |-> Codes(x), mem |-> TRUE, rep |-> FALSE, dflt |-> FALSE]
\* nested messages ns with the fields nf, nested enums es with the values ev
DclP(fs, o, ns, nf, es, ev) == [fields |-> fs, oname |-> o, nested |-> ns, enums |-> es, nfields |-> nf, evals |-> ev,
                                exts |-> <<>>, tenum |-> <<>>]
Dcl(fs, o, ns) == DclP(fs, o, ns, [k \in 1..Len(ns) |-> <<>>], <<>>, <<>>)
Hostile == <<
  [cause |-> "protoreflect-unreserved",    at |-> "open",   d |-> Dcl(<<F("proto_reflect")>>, <<>>, <<>>)],
  [cause |-> "camelcase-suffix-collides",  at |-> "opaque", d |-> Dcl(<<F("foo"), F("Foo"), F("foo_1")>>, <<>>, <<>>)],
  [cause |-> "hybrid-compat-getter",       at |-> "hybrid", d |-> Dcl(<<F("foo"), F("Foo"), F("foo_")>>, <<>>, <<>>)],
  [cause |-> "struct-field-vs-accessor",   at |-> "hybrid", d |-> Dcl(<<F("foo"), F("get_foo"), F("foo_")>>, <<>>, <<>>)],
  [cause |-> "oneof-getter-unreserved",    at |-> "open",   d |-> Dcl(<<M("foo_"), F("get_foo")>>, Codes("Foo"), <<>>)],
  [cause |-> "oneof-camelcase-unresolved", at |-> "opaque", d |-> Dcl(<<M("foo")>>, Codes("Foo"), <<>>)],
  [cause |-> "oneof-wrapper-suffix",       at |-> "open",   d |-> Dcl(<<M("foo"), M("foo_")>>, Codes("bar"), <<Codes("Foo")>>)],
  [cause |-> "nested-type-camelcase-collides", at |-> "hybrid", d |-> Dcl(<<F("foo")>>, <<>>, <<Codes("_foo"), Codes("X_foo")>>)],
  \* message M { optional int32 foo__foo = 1 [default = 7]; message Foo { optional int32 foo = 1 [default = 7]; } }
  [cause |-> "default-const-collides",     at |-> "open",   d |-> DclP(<<Fd("foo__foo")>>, <<>>, <<Codes("Foo")>>, <<<<Codes("foo")>>>>, <<>>, <<>>)],
  \* message M { optional int32 foo = 1; enum Bar { builder = 0; } }
  [cause |-> "enum-value-const-collides",  at |-> "hybrid", d |-> DclP(<<F("foo")>>, <<>>, <<>>, <<>>, <<Codes("Bar")>>, <<<<Codes("builder")>>>>)] >>
Clean == <<
  [at |-> "open",   d |-> Dcl(<<F("reset"), F("string"), F("descriptor")>>, <<>>, <<>>)],
  [at |-> "hybrid", d |-> Dcl(<<F("foo"), F("get_foo"), F("build")>>, <<>>, <<>>)],
  [at |-> "opaque", d |-> Dcl(<<F("_foo"), F("X_foo"), F("proto_message")>>, <<>>, <<>>)],
  [at |-> "hybrid", d |-> Dcl(<<M("foo"), F("set_foo"), F("has_foo")>>, Codes("bar"), <<Codes("Foo")>>)],
  \* defaults and enum values that do not collide
  [at |-> "opaque", d |-> DclP(<<Fd("foo"), Fd("Foo_Foo")>>, <<>>, <<Codes("Foo")>>, <<<<Codes("foo__foo")>>>>, <<Codes("Bar")>>, <<<<Codes("Foo_name")>>>>)] >>

At(d, lv) == [level |-> lv] @@ d
Causes(c) == {w.cause : w \in Why(c)}
AllCauses == {"protoreflect-unreserved", "camelcase-suffix-collides", "hybrid-compat-getter", "struct-field-vs-accessor",
              "oneof-getter-unreserved", "oneof-camelcase-unresolved", "oneof-wrapper-suffix", "nested-type-camelcase-collides",
              "default-const-collides", "enum-value-const-collides"}

\* the items: <<declaration, level>>
Items == [k \in 1..(Len(Hostile) + Len(Clean)) |-> IF k <= Len(Hostile) THEN Hostile[k] ELSE Clean[k - Len(Hostile)]]
LevelsOf(it) == IF Pick = "all" THEN Levels ELSE {it.at}

VARIABLE k
Init == k = 0
Next == k < Len(Items) /\ k' = k + 1

\* ---- laws
\* each hostile declaration exhibits its cause at its level, and all causes are covered
HostileAsLabelled == \A i \in 1..Len(Hostile) : Hostile[i].cause \in Causes(At(Hostile[i].d, Hostile[i].at))
CausesCovered == {Hostile[i].cause : i \in 1..Len(Hostile)} = AllCauses
\* the clean declarations are predicted collision free at every level, and all declarations are well-formed
CleanPredicted == \A i \in 1..Len(Clean) : \A lv \in {"open", "hybrid", "opaque"} : Distinct(At(Clean[i].d, lv))
AllWellFormed == \A i \in 1..Len(Items) : WellFormed(At(Items[i].d, "open"))
Laws == k > 0 \/ (HostileAsLabelled /\ CausesCovered /\ CleanPredicted /\ AllWellFormed)

Emit == \A lv \in LevelsOf(Items[k']) :
          LET c == At(Items[k'].d, lv) IN
          PrintT("@@" \o ToJson([op |-> "msgnames"] @@ c @@ [exp |-> GS!AllPass, pred |-> [why |-> Why(c)]]))
=============================================================================
