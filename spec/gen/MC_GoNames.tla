----------------------------- MODULE MC_GoNames -----------------------------
(***************************************************************************)
(* C42, string functions: one state per string over Alphabet up to MaxLen  *)
(* (the recogniser consumes one symbol per step).  TLC checks the          *)
(* design-level laws of GoNames on every string and emits every string as  *)
(* a tour case for each operation in Ops, with Expect (what the property   *)
(* fixes) and Pred (the transcription's value).                             *)
(* Non-ASCII symbols of the alphabet carry their Unicode class through     *)
(* AlphaClass (233 e-acute: letter, 1635 ARABIC-INDIC DIGIT THREE: Nd,      *)
(* 9731 SNOWMAN and 178 SUPERSCRIPT TWO: neither, negative: a raw byte).    *)
(***************************************************************************)
EXTENDS GoNamesCases, Json

CONSTANTS AlphabetName, MaxLen, Ops

\* "ident": a b A _ 1 .      "runes": g o A _ 1 - e-acute ARABIC-INDIC-3 SUPERSCRIPT-2 SNOWMAN and the raw byte 0xFF
Alphabet == IF AlphabetName = "ident" THEN {97, 98, 65, 95, 49, 46}
            ELSE {103, 111, 65, 95, 49, 45, 233, 1635, 178, 9731, -255}

AlphaClass(c) == CASE c = 233 -> 1 [] c = 223 -> 1 [] c = 19990 -> 1 [] c = 1635 -> 2 [] OTHER -> 0
ClsOf(s) == [i \in 1..Len(s) |-> Class(s[i], AlphaClass(s[i]))]

VARIABLE s
Init == s = <<>>
Next == Len(s) < MaxLen /\ \E c \in Alphabet : s' = Append(s, c)

Ascii(x) == \A i \in 1..Len(x) : x[i] >= 0 /\ x[i] < 128

\* ---- laws (checked on every reachable string)
\* the loop of the code and the context-local definition of GoCamelCase are the same function
CamelTwoDefinitions == GoCamelCase(s) = GoCamelCaseLocal(s)
\* C42(a): every protobuf identifier / full name becomes an exported Go identifier
CamelExported == IsProtoFullName(s) => IsExportedGoIdent(GoCamelCase(s))
\* camel-casing is a normal form on names
CamelIdempotent == IsProtoFullName(s) => GoCamelCase(GoCamelCase(s)) = GoCamelCase(s)
\* C42(b): GoSanitized always yields a Go identifier that is not a keyword, and keeps good identifiers
SanitizedIsIdent == LET k == ClsOf(s)
                        r == GoSanitized(s, k)
                    IN IsGoIdentC(r, GoSanitizedClasses(s, k)) /\ ~IsKeyword(r)
SanitizedKeeps == LET k == ClsOf(s) IN
                  (IsGoIdentC(s, k) /\ k[1] = 1 /\ ~IsKeyword(s)) => GoSanitized(s, k) = s
\* C42(c): on full names, snake(camel(s)) = s exactly for the character-level class Reversible; accepted paths decode back
SnakeCamelCharacterised == Ascii(s) => (FieldMaskAccepts(s) <=> (IsProtoFullName(s) /\ Reversible(s)))
FieldMaskRoundTrip == (Ascii(s) /\ FieldMaskAccepts(s)) =>
                         LET j == JSONCamelCase(s) IN
                         /\ \A i \in 1..Len(j) : j[i] # US
                         /\ FieldMaskDecodes(j) /\ JSONSnakeCase(j) = s
\* the two formulations of the Go identifier grammar agree on ASCII
IdentGrammars == Ascii(s) => (IsGoIdent(s) <=> IsGoIdentC(s, AsciiClasses(s)))
Laws == /\ IdentGrammars
        /\ (Ascii(s) => (CamelTwoDefinitions /\ CamelExported /\ CamelIdempotent))
        /\ SanitizedIsIdent /\ SanitizedKeeps /\ SnakeCamelCharacterised /\ FieldMaskRoundTrip

\* ---- tour
CaseOf(op, x) == IF op = "sanitize" THEN [op |-> op, s |-> x, cls |-> ClsOf(x)] ELSE [op |-> op, s |-> x]
Line(e) == PrintT("@@" \o ToJson(e @@ [exp |-> Expect(e), pred |-> Pred(e)]))
Emit == \A op \in Ops : (op = "sanitize" \/ Ascii(s')) => Line(CaseOf(op, s'))
\* once: the empty string and every Go keyword (bare, with a suffix, capitalised) through every operation
KwVariants == Keywords \cup {k \o <<US>> : k \in Keywords} \cup {<<k[1] - 32>> \o Tail(k) : k \in Keywords} \cup {<<>>}
EmitFixed == s # <<>> \/ \A x \in KwVariants : \A op \in Ops : Line(CaseOf(op, x))
KeywordLaws == s # <<>> \/ \A x \in KwVariants :
                  LET k == AsciiClasses(x)
                      r == GoSanitized(x, k)
                  IN IsGoIdentC(r, GoSanitizedClasses(x, k)) /\ ~IsKeyword(r) /\ (x \in Keywords => r = <<US>> \o x)
EmitAll == Emit /\ EmitFixed
=============================================================================
