----------------------------- MODULE GenService -----------------------------
(***************************************************************************)
(* C41: the TYPE REFERENCES of a generated file, and services in            *)
(* particular.  The descriptor a generated package registers resolves every *)
(* reference (field -> message/enum, extension -> extendee, extension ->    *)
(* type, method -> input, method -> output) BY INDEX, never by name: the    *)
(* generator (internal_gengo/reflect.go) emits a table goTypes and a table  *)
(* depIdxs, the runtime (internal/filetype, internal/filedesc) reads them.  *)
(* This module defines both sides:                                           *)
(*                                                                           *)
(*   file f = [locals  : the file's own types in flattened order,           *)
(*             fields  : targets of message/enum typed fields,              *)
(*             exts    : [extendee, target ("" for scalar extensions)],     *)
(*             methods : [in, out, cs, ss, svc] in declaration order,       *)
(*                       flattened over the services]                       *)
(*   GoTypes(f)   the type table: locals, then every external type in the   *)
(*                order of its first reference                               *)
(*   DepIdxs(f)   five sub-lists of indexes into GoTypes (field type_name,  *)
(*                extension extendee, extension type_name, method           *)
(*                input_type, method output_type) followed by the start     *)
(*                offsets of the sub-lists in REVERSE order                  *)
(*   Get(x,i,j)   the runtime's lookup x[x[len(x)-i-1]+j] (0-based)         *)
(*   Resolved(f)  what the runtime binds every reference to                  *)
(* The law (MC_GenService): Resolved(f) is what f declares, for every file  *)
(* of the enumerated space; and a layout that fills the output sub-list     *)
(* from the inputs is unfaithful exactly on files with a method whose input *)
(* and output differ - those methods are what a check must contain to see   *)
(* the difference.                                                           *)
(* What C41 demands of the real generator for a services item: the          *)
(* registered descriptor reports, for every method, the declared input,     *)
(* output and streaming flags (Declared).                                   *)
(***************************************************************************)
EXTENDS Integers, Sequences

\* the message types a method can refer to: two top-level messages of the file, a nested one, an imported one
\* (google.protobuf.Empty)
MsgTypes == {"Req", "Resp", "Req.Inner", "Empty"}
Locals == <<"Req", "Req.Inner", "Resp">>
IsLocal(t) == \E i \in 1..Len(Locals) : Locals[i] = t
AllMethods == [in : MsgTypes, out : MsgTypes, cs : BOOLEAN, ss : BOOLEAN, svc : {1, 2}]
Declared(m) == [in |-> m.in, out |-> m.out, cs |-> m.cs, ss |-> m.ss]
Discriminating(m) == m.in # m.out

\* ---- generator side: reflect.go
RECURSIVE CatSeq(_, _)
CatSeq(F, i) == IF i > Len(F) THEN <<>> ELSE F[i] \o CatSeq(F, i + 1)
ExtTargets(f) == CatSeq([k \in 1..Len(f.exts) |-> IF f.exts[k].target = "" THEN <<>> ELSE <<f.exts[k].target>>], 1)
\* the five sub-lists, as type names; `outs` is a parameter so that the wrong layout can be expressed too
SubListsWith(f, outs) ==
  << f.fields, [k \in 1..Len(f.exts) |-> f.exts[k].extendee], ExtTargets(f),
     [k \in 1..Len(f.methods) |-> f.methods[k].in], outs >>
SubLists(f) == SubListsWith(f, [k \in 1..Len(f.methods) |-> f.methods[k].out])
\* append the names not seen yet, in order
RECURSIVE AddNew(_, _, _)
AddNew(tab, names, i) == IF i > Len(names) THEN tab
                         ELSE IF \E k \in 1..Len(tab) : tab[k] = names[i] THEN AddNew(tab, names, i + 1)
                         ELSE AddNew(Append(tab, names[i]), names, i + 1)
GoTypesOf(f, lists) == AddNew(f.locals, CatSeq(lists, 1), 1)
IndexIn(tab, x) == (CHOOSE k \in 1..Len(tab) : tab[k] = x) - 1                \* 0-based, as in the generated table
RECURSIVE Starts(_, _, _)
Starts(lists, i, acc) == IF i > Len(lists) THEN <<>> ELSE <<acc>> \o Starts(lists, i + 1, acc + Len(lists[i]))
Reverse(s) == [k \in 1..Len(s) |-> s[Len(s) + 1 - k]]
DepIdxsOf(f, lists) ==
  LET tab == GoTypesOf(f, lists)
      all == CatSeq(lists, 1)
  IN [k \in 1..Len(all) |-> IndexIn(tab, all[k])] \o Reverse(Starts(lists, 1, 0))

\* ---- runtime side: filetype.depIdxs.Get, filedesc.resolveServices / resolveMessages / resolveExtensions
Get(x, i, j) == x[x[Len(x) - i] + j + 1]                  \* x[x[len(x)-i-1]+j] with 0-based indexes
Lookup(tab, x, i, j) == tab[Get(x, i, j) + 1]
ResolvedWith(f, lists) ==
  LET tab == GoTypesOf(f, lists)
      x == DepIdxsOf(f, lists)
  IN [fields |-> [k \in 1..Len(f.fields) |-> Lookup(tab, x, 0, k - 1)],
      extendees |-> [k \in 1..Len(f.exts) |-> Lookup(tab, x, 1, k - 1)],
      exttypes |-> [k \in 1..Len(ExtTargets(f)) |-> Lookup(tab, x, 2, k - 1)],
      methods |-> [k \in 1..Len(f.methods) |-> [in |-> Lookup(tab, x, 3, k - 1), out |-> Lookup(tab, x, 4, k - 1)]]]
Resolved(f) == ResolvedWith(f, SubLists(f))
\* the references as the schema declares them
References(f) ==
  [fields |-> f.fields, extendees |-> [k \in 1..Len(f.exts) |-> f.exts[k].extendee], exttypes |-> ExtTargets(f),
   methods |-> [k \in 1..Len(f.methods) |-> [in |-> f.methods[k].in, out |-> f.methods[k].out]]]
LayoutFaithful(f) == Resolved(f) = References(f)
\* the layout that takes the output sub-list from the inputs
ResolvedFromInputs(f) == ResolvedWith(f, SubListsWith(f, [k \in 1..Len(f.methods) |-> f.methods[k].in]))
=============================================================================
