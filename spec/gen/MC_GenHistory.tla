---------------------------- MODULE MC_GenHistory ----------------------------
(***************************************************************************)
(* C40: an abstract generator that MAY be nondeterministic.  A step runs   *)
(* the generator on the base request with file_to_generate permuted by     *)
(* perm, in process or in a fresh process, and observes some response      *)
(* digest d and some content digest f of the (abstract, single) generated  *)
(* file.  Request key = perm (the same permutation is the same request);   *)
(* the file name does not depend on perm.  TLC explores every plan up to   *)
(* MaxPlan steps with every combination of observed digests and checks     *)
(* that the memo-table definitions and the relational definitions of       *)
(* determinism accept exactly the same histories, that acceptance is       *)
(* prefix closed, and that a deterministic generator (all digests 1) is    *)
(* accepted.  Every plan (digests ignored) is emitted once per base as a   *)
(* tour case for the real generator.                                        *)
(***************************************************************************)
EXTENDS GenHistory, Json

CONSTANTS Modes, Perms, Digs, MaxPlan, Bases, Par0

VARIABLES plan, hist
Init == plan = <<>> /\ hist = <<>>
Next == /\ Len(plan) < MaxPlan
        /\ \E m \in Modes, p \in Perms, d \in Digs, f \in Digs :
             /\ plan' = Append(plan, [mode |-> m, perm |-> p])
             /\ hist' = Append(hist, [key |-> p, err |-> "", dig |-> d, files |-> <<[n |-> "file", d |-> f]>>])

TwoDefinitionsAgree == /\ RespDeterministic(hist) <=> RespFunctional(hist)
                       /\ FilesDeterministic(hist) <=> FilesFunctional(hist)
PrefixClosed == (Len(hist) > 0 /\ RespDeterministic(hist) /\ FilesDeterministic(hist)) =>
                   LET h == SubSeq(hist, 1, Len(hist) - 1) IN RespDeterministic(h) /\ FilesDeterministic(h)
DeterministicAccepted == (\A i \in 1..Len(hist) : hist[i].dig = 1 /\ hist[i].files[1].d = 1) =>
                            (RespDeterministic(hist) /\ FilesDeterministic(hist) /\ SameFileSets(hist))
\* a response that changes for the same request is rejected at the first repetition
Sensitive == \A i, j \in 1..Len(hist) : (i < j /\ hist[i].key = hist[j].key /\ hist[i].dig # hist[j].dig) => ~RespDeterministic(hist)
Laws == TwoDefinitionsAgree /\ PrefixClosed /\ DeterministicAccepted /\ Sensitive

\* tour: each plan once (on the transitions of the run that observes only digest 1), for every base
Canon == \A i \in 1..Len(hist') : hist'[i].dig = 1 /\ hist'[i].files[1].d = 1
Emit == Canon => \A b \in Bases :
          LET e == [op |-> "plan", base |-> [set |-> b, seed |-> 0, par |-> Par0 + 5 * b], steps |-> plan'] IN
          PrintT("@@" \o ToJson(e @@ [exp |-> Expect(e)]))
=============================================================================
