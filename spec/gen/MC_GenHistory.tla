---------------------------- MODULE MC_GenHistory ----------------------------
(***************************************************************************)
(* C40: an abstract generator that MAY be nondeterministic.  A step runs   *)
(* the generator on the base request with file_to_generate permuted by     *)
(* perm, in process or in a fresh process, and observes some response      *)
(* digest d and some content digest f of the (abstract, single) generated  *)
(* file.  Request key = perm (the same permutation is the same request);   *)
(* the file name does not depend on perm.  TLC explores every plan up to   *)
(* MaxPlan steps with every combination of observed digests and checks     *)
(* that the memo-table definitions and the relational definitions of       *)
(* determinism accept exactly the same histories, that acceptance is       *)
(* prefix closed, and that a deterministic generator (all digests 1) is    *)
(* accepted.  Every plan (digests ignored) is emitted once per base as a   *)
(* tour case for the real generator.                                        *)
(*                                                                           *)
(* Request shapes (GenRequest): besides the numbered bases (linked file     *)
(* sets) every plan whose modes lie in ShapeModes, whose permutations lie   *)
(* in ShapePerms and whose length is MaxPlan is emitted for every           *)
(* custom-option shape at the sites ShapeSites.  On the specification TLC checks that the shapes fall into   *)
(* the two classes order free / not order free as characterised, and - for  *)
(* every plan and every assignment of visiting orders to its runs - that    *)
(* the history oracle accepts the abstract sorting generator always and     *)
(* the abstract ranging generator exactly when all runs saw one order       *)
(* (which is forced on order-free requests: they cannot expose it).         *)
(***************************************************************************)
EXTENDS GenHistory, GenRequest, Json

CONSTANTS Modes, Perms, Digs, MaxPlan, Bases, Par0, ShapeSites, ShapeModes, ShapePerms

VARIABLES plan, hist
Init == plan = <<>> /\ hist = <<>>
Next == /\ Len(plan) < MaxPlan
        /\ \E m \in Modes, p \in Perms, d \in Digs, f \in Digs :
             /\ plan' = Append(plan, [mode |-> m, perm |-> p])
             /\ hist' = Append(hist, [key |-> p, err |-> "", dig |-> d, files |-> <<[n |-> "file", d |-> f]>>])

TwoDefinitionsAgree == /\ RespDeterministic(hist) <=> RespFunctional(hist)
                       /\ FilesDeterministic(hist) <=> FilesFunctional(hist)
PrefixClosed == (Len(hist) > 0 /\ RespDeterministic(hist) /\ FilesDeterministic(hist)) =>
                   LET h == SubSeq(hist, 1, Len(hist) - 1) IN RespDeterministic(h) /\ FilesDeterministic(h)
DeterministicAccepted == (\A i \in 1..Len(hist) : hist[i].dig = 1 /\ hist[i].files[1].d = 1) =>
                            (RespDeterministic(hist) /\ FilesDeterministic(hist) /\ SameFileSets(hist))
\* a response that changes for the same request is rejected at the first repetition
Sensitive == \A i, j \in 1..Len(hist) : (i < j /\ hist[i].key = hist[j].key /\ hist[i].dig # hist[j].dig) => ~RespDeterministic(hist)

\* ---- request shapes
ShapeClasses == \A s \in OptShapes : OrderFree(s) <=> ~(s.typ \in {"map", "submap"} /\ s.n >= 2)
LawShapes == {s \in OptShapes : s.site = "file" /\ s.decl = "same"}      \* one per (typ, n): nothing else enters the laws
AbstractHist(g, s, os) == [i \in 1..Len(plan) |-> [key |-> plan[i].perm, err |-> "", dig |-> Observe(g, s, os[i]),
                                                   files |-> <<[n |-> "file", d |-> Observe(g, s, os[i])]>>]]
Exposure == \A g \in Generators, s \in LawShapes : \A os \in [1..Len(plan) -> Orders(s)] :
              LET h == AbstractHist(g, s, os) IN
              (RespDeterministic(h) /\ FilesDeterministic(h)) <=> (g = "sorting" \/ \A i, j \in 1..Len(plan) : os[i] = os[j])
\* an order-free request cannot tell the two generators apart, whatever the plan
BlindSpot == \A s \in LawShapes : OrderFree(s) => \A os \in [1..Len(plan) -> Orders(s)] :
               AbstractHist("ranging", s, os) = AbstractHist("sorting", s, os)
Laws == /\ TwoDefinitionsAgree /\ PrefixClosed /\ DeterministicAccepted /\ Sensitive
        /\ (Len(plan) > 0 \/ ShapeClasses) /\ Exposure /\ BlindSpot

\* tour: each plan once (on the transitions of the run that observes only digest 1), for every base
Canon == \A i \in 1..Len(hist') : hist'[i].dig = 1 /\ hist'[i].files[1].d = 1
EmitBases == Canon => \A b \in Bases :
          LET e == [op |-> "plan", base |-> [set |-> b, seed |-> 0, par |-> Par0 + 5 * b], steps |-> plan'] IN
          PrintT("@@" \o ToJson(e @@ [exp |-> Expect(e)]))
TourShapes == {s \in OptShapes : s.site \in ShapeSites}
ShapePlan(p) == Len(p) = MaxPlan /\ \A i \in 1..Len(p) : p[i].mode \in ShapeModes /\ p[i].perm \in ShapePerms
EmitShapes == (Canon /\ ShapePlan(plan')) => \A s \in TourShapes :
          LET e == [op |-> "plan", base |-> [set |-> 0 - 2, seed |-> 0, par |-> ParOf(s, Par0), opt |-> s], steps |-> plan'] IN
          PrintT("@@" \o ToJson(e @@ [exp |-> Expect(e)]))
Emit == EmitBases /\ EmitShapes
=============================================================================
