------------------------------ MODULE GenSchema ------------------------------
(***************************************************************************)
(* C41: the space of FIELD SHAPES a valid schema can contain, and what the *)
(* property demands of the code generated for it.                           *)
(*                                                                           *)
(* A shape is a record                                                       *)
(*   [syn    : "proto2" | "proto3" | "editions",                            *)
(*    card   : "optional" | "required" | "repeated" | "implicit",           *)
(*    kind   : scalar kinds, "enum", "message", "group",                    *)
(*    cont   : "plain" | "oneof" | "ext" | "map"  (map: kind is the value   *)
(*             kind, the key is a string),                                   *)
(*    packed : "default" | "true" | "false"  ([packed=] resp. the editions  *)
(*             feature repeated_field_encoding),                             *)
(*    lazy   : BOOLEAN, dflt : BOOLEAN (explicit default value)]            *)
(* Validity is defined twice: Valid (the prohibitions that protoc and       *)
(* protodesc enforce) and Constructible (a generative grammar per syntax);  *)
(* MC_GenSchema checks that they describe the same set, and that the        *)
(* derived semantics (HasPresence, IsPacked) obey the presence discipline.  *)
(* The pipeline part (Expect / Allowed) says what C41 demands of one        *)
(* generated package: generator succeeds, output is gofmt-clean, compiles,  *)
(* registers a descriptor equal to the input, and its message types are     *)
(* wire-, JSON- and reflection-equivalent to dynamicpb.  gofmt and the Go   *)
(* compiler are sensors: their verdicts are recorded observations.          *)
(* Services and the other type references of a file: see GenService.        *)
(***************************************************************************)
EXTENDS Integers, Sequences, TLC

Packable == {"bool", "int32", "sint32", "uint32", "int64", "sint64", "uint64", "sfixed32", "fixed32", "float",
             "sfixed64", "fixed64", "double", "enum"}
Submessage == {"message", "group"}

\* ---- definition 1: prohibitions
Valid(s) ==
  /\ (s.card = "required") => (s.syn # "proto3" /\ s.cont = "plain")
  /\ (s.card = "implicit") => (s.syn # "proto2" /\ s.cont = "plain" /\ s.kind \notin Submessage /\ ~s.dflt)
  /\ (s.syn = "proto2") => s.card # "implicit"
  /\ (s.syn = "proto3" /\ s.card = "optional") => s.cont \in {"plain", "oneof"}      \* proto3 `optional` or a oneof member
  /\ (s.cont = "oneof") => s.card = "optional"
  /\ (s.cont = "ext") => (s.syn # "proto3" /\ s.card \in {"optional", "repeated"})
  /\ (s.cont = "map") => (s.card = "repeated" /\ s.kind # "group" /\ ~s.lazy /\ ~s.dflt /\ s.packed = "default")
  /\ (s.kind = "group") => s.syn # "proto3"
  /\ (s.packed # "default") => (s.card = "repeated" /\ s.kind \in Packable /\ s.cont # "map")
  /\ s.lazy => (s.kind = "message" /\ s.cont # "map")
  /\ s.dflt => (s.syn # "proto3" /\ s.card \in {"optional", "required"} /\ s.kind \notin Submessage)

\* ---- definition 2: a generative grammar (which declarations one can write, by syntax)
Scalar(k) == k \notin Submessage
Decl(s, cards, conts) == s.card \in cards /\ s.cont \in conts
Opts(s) ==                                \* the options a declaration may carry
  /\ (s.packed = "default" \/ (s.card = "repeated" /\ s.kind \in Packable /\ s.cont \in {"plain", "ext"}))
  /\ (~s.lazy \/ (s.kind = "message" /\ s.cont # "map"))
Constructible(s) ==
  /\ Opts(s)
  /\ CASE s.syn = "proto2" ->
            /\ \/ Decl(s, {"optional", "required", "repeated"}, {"plain"})
               \/ Decl(s, {"optional"}, {"oneof"})
               \/ Decl(s, {"optional", "repeated"}, {"ext"})
               \/ (Decl(s, {"repeated"}, {"map"}) /\ s.kind # "group")
            /\ s.dflt => (Scalar(s.kind) /\ s.card # "repeated")
       [] s.syn = "proto3" ->
            /\ s.kind # "group" /\ ~s.dflt
            /\ \/ (Decl(s, {"implicit"}, {"plain"}) /\ Scalar(s.kind))
               \/ Decl(s, {"optional", "repeated"}, {"plain"})                 \* message fields are written `optional`-less but have presence: see HasPresence
               \/ Decl(s, {"optional"}, {"oneof"})
               \/ Decl(s, {"repeated"}, {"map"})
       [] s.syn = "editions" ->
            /\ \/ Decl(s, {"optional", "required", "repeated"}, {"plain"})
               \/ (Decl(s, {"implicit"}, {"plain"}) /\ Scalar(s.kind) /\ ~s.dflt)
               \/ Decl(s, {"optional"}, {"oneof"})
               \/ Decl(s, {"optional", "repeated"}, {"ext"})
               \/ (Decl(s, {"repeated"}, {"map"}) /\ s.kind # "group")
            /\ s.dflt => (Scalar(s.kind) /\ s.card \in {"optional", "required"})
  /\ (s.cont = "map") => (~s.dflt /\ s.packed = "default")

\* ---- derived semantics (protoreflect.FieldDescriptor)
IsList(s) == s.card = "repeated" /\ s.cont # "map"
IsMap(s) == s.cont = "map"
HasPresence(s) == s.card \in {"optional", "required"}            \* incl. oneof members, proto3 optional, singular messages
IsPacked(s) == IsList(s) /\ s.kind \in Packable /\ (s.packed = "true" \/ (s.packed = "default" /\ s.syn # "proto2"))

\* ---- the pipeline: what C41 demands of one generated package (an item of a batch)
\* item kinds: "shapes" (one message with one field per shape), "msgnames" (a GoNamesMsg declaration), "schema" (random),
\* "services" (a file with two services holding the listed methods, GenService.tla: the registered descriptor must report
\* the declared input, output and streaming flags of every method)
MethodDeclared(m) == [in |-> m.in, out |-> m.out, cs |-> m.cs, ss |-> m.ss]
Stages == <<"generated", "gofmt", "compiles", "descriptor", "wire", "json", "reflect">>
AllPass == [generated |-> TRUE, gofmt |-> TRUE, compiles |-> TRUE, descriptor |-> TRUE, wire |-> TRUE, json |-> TRUE, reflect |-> TRUE]
Expect(e) ==
  IF e.op = "shapes"
  THEN AllPass @@ [presence |-> [i \in 1..Len(e.shapes) |-> HasPresence(e.shapes[i])],
                   packed |-> [i \in 1..Len(e.shapes) |-> IsPacked(e.shapes[i])]]
  ELSE IF e.op = "services"
  THEN AllPass @@ [methods |-> [i \in 1..Len(e.methods) |-> MethodDeclared(e.methods[i])]]
  ELSE AllPass
Allowed(e) ==
  /\ \A i \in 1..Len(Stages) : Stages[i] \in DOMAIN e.out /\ e.out[Stages[i]] = TRUE
  /\ (e.op = "shapes") => (/\ e.out.presence = [i \in 1..Len(e.shapes) |-> HasPresence(e.shapes[i])]
                           /\ e.out.packed = [i \in 1..Len(e.shapes) |-> IsPacked(e.shapes[i])])
  /\ (e.op = "services") => (/\ "methods" \in DOMAIN e.out /\ Len(e.out.methods) = Len(e.methods)
                             /\ \A i \in 1..Len(e.methods) : e.out.methods[i] = MethodDeclared(e.methods[i]))
=============================================================================
