---------------------------- MODULE MC_GoNamesDecl ----------------------------
(***************************************************************************)
(* C42: the two enumerations of message declarations in ONE model (quick   *)
(* tier: one TLC process instead of two).  mode = "msg" runs MC_GoNamesMsg *)
(* (member names over the collision vocabulary), mode = "pkg" runs         *)
(* MC_GoNamesPkg (package-level identifiers); the mode never changes, so   *)
(* the reachable states, the laws and the emitted tour are the disjoint    *)
(* union of the two machines.                                               *)
(***************************************************************************)
EXTENDS Sequences

CONSTANTS FieldVocab, OneofVocab, NestedVocab, EnumVocab, Levels, KindsAny, MaxAny, MaxPlain,
          PFieldVocab, PNestedVocab, PNFieldVocab, PEnumVocab, PValueVocab, PExtVocab, MaxF

VARIABLES fs, mode

Msg == INSTANCE MC_GoNamesMsg
Pkg == INSTANCE MC_GoNamesPkg

Init == fs = <<>> /\ mode \in {"msg", "pkg"}
Next == mode' = mode /\ (IF mode = "msg" THEN Msg!Next ELSE Pkg!Next)
Laws == IF mode = "msg" THEN Msg!Laws ELSE Pkg!Laws
Emit == IF mode = "msg" THEN Msg!Emit ELSE Pkg!Emit
=============================================================================
