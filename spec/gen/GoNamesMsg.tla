----------------------------- MODULE GoNamesMsg -----------------------------
(***************************************************************************)
(* C42, message level: protogen's naming of one message M as a FUNCTION    *)
(* from the message's declaration                                           *)
(*     c = [level   : "open" | "hybrid" | "opaque",                         *)
(*          fields  : sequence of [n : name, mem : in the oneof?, rep :     *)
(*                    repeated?, dflt : explicit default value?]            *)
(*                    (field number = position, proto2 int32),              *)
(*          oname   : name of the (single) oneof, used iff some mem,        *)
(*          nested  : names of nested messages, enums : of nested enums,    *)
(*          nfields : per nested message the names of its fields (plain     *)
(*                    optional int32 fields with an explicit default),      *)
(*          evals   : per nested enum the names of its values (none: one    *)
(*                    value ZZ_VALUE_<k>),                                  *)
(*          exts    : names of extension fields declared inside M,          *)
(*          tenum   : at most one TOP-LEVEL enum [n : name, vals : names    *)
(*                    of its values] next to M in the file t.proto]         *)
(* to the identifiers that protoc-gen-go declares:                          *)
(*   Members(c)  struct fields and methods of type M     (one namespace)    *)
(*   Builder(c)  struct fields and methods of M_builder  (hybrid, opaque)   *)
(*   Pkg(c)      package-level identifiers derived from M's content: the    *)
(*               types of M, its builder, nested messages and enums, oneof  *)
(*               interface / case / wrapper types and case constants, the   *)
(*               constants Default_<Message>_<Field> of fields with an      *)
(*               explicit default (of M and of its nested messages), the    *)
(*               enum value constants <Parent>_<VALUE> and the enum maps    *)
(*               <Enum>_name / <Enum>_value, the extension variables        *)
(*               E_<Message>_<Field>, the file variable File_t_proto        *)
(* as sequences WITH repetitions.  The property (C42) demands that none of  *)
(* them contains a repetition.  Transcribed from compiler/protogen:         *)
(* newMessage (GoCamelCase, makeNameUnique with its reserved-name table,    *)
(* oneof wrapper suffixing), protogen_opaque.go (camelCase, the "Build"     *)
(* special case, resolveCamelCaseConflicts, hasConflictHybrid),             *)
(* protogen_apilevel.go (MethodName) and internal_gengo/opaque.go (which    *)
(* declarations are emitted at which API level).                            *)
(***************************************************************************)
EXTENDS GoNames

S_Get == <<71, 101, 116>>
S_Set == <<83, 101, 116>>
S_Has == <<72, 97, 115>>
S_Clear == <<67, 108, 101, 97, 114>>
S_Which == <<87, 104, 105, 99, 104>>
S_Reset == <<82, 101, 115, 101, 116>>
S_String == <<83, 116, 114, 105, 110, 103>>
S_ProtoMessage == <<80, 114, 111, 116, 111, 77, 101, 115, 115, 97, 103, 101>>
S_ProtoReflect == <<80, 114, 111, 116, 111, 82, 101, 102, 108, 101, 99, 116>>
S_Marshal == <<77, 97, 114, 115, 104, 97, 108>>
S_Unmarshal == <<85, 110, 109, 97, 114, 115, 104, 97, 108>>
S_ExtensionRangeArray == <<69, 120, 116, 101, 110, 115, 105, 111, 110, 82, 97, 110, 103, 101, 65, 114, 114, 97, 121>>
S_ExtensionMap == <<69, 120, 116, 101, 110, 115, 105, 111, 110, 77, 97, 112>>
S_Descriptor == <<68, 101, 115, 99, 114, 105, 112, 116, 111, 114>>
S_Build == <<66, 117, 105, 108, 100>>
S_state == <<115, 116, 97, 116, 101>>
S_sizeCache == <<115, 105, 122, 101, 67, 97, 99, 104, 101>>
S_unknownFields == <<117, 110, 107, 110, 111, 119, 110, 70, 105, 101, 108, 100, 115>>
S_hidden == <<120, 120, 120, 95, 104, 105, 100, 100, 101, 110, 95>>                        \* "xxx_hidden_"
S_race == <<88, 88, 88, 95, 114, 97, 99, 101, 68, 101, 116, 101, 99, 116, 72, 111, 111, 107, 68, 97, 116, 97>>
S_presence == <<88, 88, 88, 95, 112, 114, 101, 115, 101, 110, 99, 101>>
S_M == <<77>>
S_Mdot == <<77, 46>>                                                                       \* "M."
S_M_ == <<77, 95>>
S_M_builder == <<77, 95, 98, 117, 105, 108, 100, 101, 114>>
S_builderSuffix == <<95, 98, 117, 105, 108, 100, 101, 114>>                                   \* "_builder"
S_isM_ == <<105, 115, 77, 95>>
S_case_M_ == <<99, 97, 115, 101, 95, 77, 95>>
S_not_set_case == <<95, 110, 111, 116, 95, 115, 101, 116, 95, 99, 97, 115, 101>>
S_case == <<95, 99, 97, 115, 101>>
S_Default_ == <<68, 101, 102, 97, 117, 108, 116, 95>>                                       \* "Default_"
S_name == <<95, 110, 97, 109, 101>>                                                          \* "_name"
S_value == <<95, 118, 97, 108, 117, 101>>                                                    \* "_value"
S_E_ == <<69, 95>>                                                                           \* "E_"
S_File_t_proto == <<70, 105, 108, 101, 95, 116, 95, 112, 114, 111, 116, 111>>                \* "File_t_proto"
S_ZZBase == <<90, 90, 66, 97, 115, 101>>                                                     \* "ZZBase": the message the extensions extend
S_ZZ_VALUE_ == <<90, 90, 95, 86, 65, 76, 85, 69, 95>>                                        \* "ZZ_VALUE_"

RECURSIVE Cat(_, _)                       \* F[i] \o F[i+1] \o ... for a sequence F of sequences
Cat(F, i) == IF i > Len(F) THEN <<>> ELSE F[i] \o Cat(F, i + 1)
Opt(b, x) == IF b THEN <<x>> ELSE <<>>
RECURSIVE Decimal(_)
Decimal(n) == IF n < 10 THEN <<48 + n>> ELSE Decimal(n \div 10) \o <<48 + (n % 10)>>
Suffix(num) == <<US>> \o Decimal(num)     \* "_<fieldnum>"

NF(c) == Len(c.fields)
HasOneof(c) == \E i \in 1..NF(c) : c.fields[i].mem
IsFirstMem(c, i) == c.fields[i].mem /\ \A j \in 1..(i - 1) : ~c.fields[j].mem
HasPres(f) == ~f.rep                      \* proto2: optional fields and oneof members have presence, repeated ones not

\* ---- newMessage: makeNameUnique.  usedNames is a Go map name -> bool; only the keys mapped to true matter.
ReservedNames == {S_Reset, S_String, S_ProtoMessage, S_Marshal, S_Unmarshal, S_ExtensionRangeArray, S_ExtensionMap, S_Descriptor}
RECURSIVE Uniq(_, _, _)
Uniq(name, getter, used) ==
  IF name \in used \/ (getter /\ (S_Get \o name) \in used) THEN Uniq(name \o <<US>>, getter, used) ELSE name
\* usedNames[name] = true; usedNames["Get"+name] = hasGetter   (the second assignment may UN-reserve a name)
Mark(name, getter, used) == IF getter THEN used \cup {name, S_Get \o name} ELSE (used \cup {name}) \ {S_Get \o name}

\* one step of the loop over message.Fields; st = [used, go, ogo]
AssignStep(c, i, st) ==
  LET nm == Uniq(GoCamelCase(c.fields[i].n), TRUE, st.used)
      first == IsFirstMem(c, i)             \* the oneof is named when its first member field is
  IN Let(Mark(nm, TRUE, st.used), LAMBDA u1 :
       IF first THEN Let(Uniq(GoCamelCase(c.oname), FALSE, u1), LAMBDA onm :
                       [used |-> Mark(onm, FALSE, u1), go |-> Append(st.go, nm), ogo |-> onm])
       ELSE [used |-> u1, go |-> Append(st.go, nm), ogo |-> st.ogo])
RECURSIVE Assign(_, _, _)
Assign(c, i, st) == IF i > NF(c) THEN st ELSE Let(AssignStep(c, i, st), LAMBDA st1 : Assign(c, i + 1, st1))
GoNamesOf(c) == Assign(c, 1, [used |-> ReservedNames, go |-> <<>>, ogo |-> <<>>])

\* Go identifiers of nested messages and enums: GoCamelCase of the name relative to the package
NestedIdent(c, k) == GoCamelCase(S_Mdot \o c.nested[k])
EnumIdent(c, k) == GoCamelCase(S_Mdot \o c.enums[k])
\* a nested message is a message of its own: its fields get their Go names by the same makeNameUnique loop
SubDecl(c, k) == [level |-> c.level, oname |-> <<>>, nested |-> <<>>, enums |-> <<>>, nfields |-> <<>>, evals |-> <<>>,
                  exts |-> <<>>, tenum |-> <<>>,
                  fields |-> [j \in 1..Len(c.nfields[k]) |-> [n |-> c.nfields[k][j], mem |-> FALSE, rep |-> FALSE, dflt |-> TRUE]]]
SubGo(c, k) == GoNamesOf(SubDecl(c, k)).go
\* the values of nested enum k (an enum needs one value: ZZ_VALUE_<k-1> when the declaration names none)
EnumVals(c, k) == IF c.evals[k] = <<>> THEN <<S_ZZ_VALUE_ \o Decimal(k - 1)>> ELSE c.evals[k]
NestedIdents(c) == {GoCamelCase(S_Mdot \o c.nested[k]) : k \in 1..Len(c.nested)}
                   \cup {GoCamelCase(S_Mdot \o c.enums[k]) : k \in 1..Len(c.enums)}
\* oneof wrapper type of a member field: M_<GoName>, '_' appended while it equals a nested message/enum identifier
RECURSIVE WrapUniq(_, _)
WrapUniq(id, taken) == IF id \in taken THEN WrapUniq(id \o <<US>>, taken) ELSE id
Wrapper(c, goname) ==
  LET id == WrapUniq(S_M_ \o goname, NestedIdents(c))
  IN IF c.level = "opaque" THEN <<ToLower(id[1])>> \o Tail(id) ELSE id       \* unexportIdent

\* ---- protogen_opaque.go: camelCase, "Build" special case, resolveCamelCaseConflicts
InitCamel(c) == [i \in 1..NF(c) |-> LET x == GoCamelCase(c.fields[i].n) IN IF x = S_Build THEN x \o <<US>> ELSE x]
\* st = [cc, oc, map]; map: set of [k |-> camelCase at insertion, i |-> field]
ResolveStep(c, i, st) ==
  LET hit == {p \in st.map : p.k = st.cc[i]}
  IN IF hit = {} THEN [st EXCEPT !.map = @ \cup {[k |-> st.cc[i], i |-> i]}]
     ELSE LET o == (CHOOSE p \in hit : TRUE).i
              cc1 == [st.cc EXCEPT ![o] = @ \o Suffix(o)]
              oc1 == IF c.fields[o].mem THEN st.oc \o Suffix(o) ELSE st.oc
          IN [st EXCEPT !.cc = [cc1 EXCEPT ![i] = @ \o Suffix(i)],
                        !.oc = IF c.fields[i].mem THEN oc1 \o Suffix(i) ELSE oc1]
RECURSIVE Resolve(_, _, _)
Resolve(c, i, st) == IF i > NF(c) THEN st ELSE Let(ResolveStep(c, i, st), LAMBDA st1 : Resolve(c, i + 1, st1))
CamelsOf(c) == Resolve(c, 1, [cc |-> InitCamel(c), oc |-> GoCamelCase(c.oname), map |-> {}])

\* the complete naming of c
Naming(c) ==
  Let(GoNamesOf(c), LAMBDA g : Let(CamelsOf(c), LAMBDA r :
    LET camelCases == {r.cc[i] : i \in 1..NF(c)} \cup (IF HasOneof(c) THEN {r.oc} ELSE {})
        fconf == [i \in 1..NF(c) |->
                    \E m \in ({S_Set, S_Get} \cup (IF HasPres(c.fields[i]) THEN {S_Has, S_Clear} ELSE {})) :
                        (m \o r.cc[i]) \in camelCases]
        oconf == HasOneof(c) /\ \E m \in {S_Has, S_Clear, S_Which} : (m \o r.oc) \in camelCases
    IN [go |-> g.go, ogo |-> g.ogo, cc |-> r.cc, oc |-> r.oc, fconf |-> fconf, oconf |-> oconf]))

\* ---- which declarations exist (internal_gengo/opaque.go), by API level.  A declaration is [n |-> identifier,
\* r |-> role]; the role says what the identifier is for ("field.struct": struct field of a field, "oneof.Get": getter of
\* the oneof, "field.GetCompat": the hybrid API's backwards-compatible getter, ...).
D(name, role) == [n |-> name, r |-> role]
Infix(b) == IF b THEN <<US>> ELSE <<>>
Fixed(names, role) == [k \in 1..Len(names) |-> D(names[k], role)]
StructFields(c, n, prefix) ==
  Cat([i \in 1..NF(c) |-> IF ~c.fields[i].mem THEN <<D(prefix \o n.go[i], "field.struct")>>
                           ELSE Opt(IsFirstMem(c, i), D(prefix \o n.ogo, "oneof.struct"))], 1)
OpenMembers(c, n) ==
  <<D(S_state, "internal")>> \o StructFields(c, n, <<>>) \o Fixed(<<S_unknownFields, S_sizeCache>>, "internal")
  \o <<D(S_Reset, "method.Reset"), D(S_String, "method.String"), D(S_ProtoMessage, "method.ProtoMessage"),
       D(S_ProtoReflect, "method.ProtoReflect"), D(S_Descriptor, "method.Descriptor")>>
  \o Cat([i \in 1..NF(c) |-> Opt(IsFirstMem(c, i), D(S_Get \o n.ogo, "oneof.Get")) \o <<D(S_Get \o n.go[i], "field.Get")>>], 1)
HybridMembers(c, n) ==
  LET getter(i) == S_Get \o Infix(n.fconf[i]) \o n.cc[i]
  IN <<D(S_state, "internal")>> \o StructFields(c, n, <<>>) \o Fixed(<<S_unknownFields, S_sizeCache>>, "internal")
     \o <<D(S_Reset, "method.Reset"), D(S_String, "method.String"), D(S_ProtoMessage, "method.ProtoMessage"),
          D(S_ProtoReflect, "method.ProtoReflect")>>
     \o Cat([i \in 1..NF(c) |-> Opt(IsFirstMem(c, i), D(S_Get \o n.ogo, "oneof.Get")) \o <<D(getter(i), "field.Get")>>
                                \o Opt(S_Get \o n.go[i] # getter(i), D(S_Get \o n.go[i], "field.GetCompat"))], 1)
     \o Cat([i \in 1..NF(c) |-> <<D(S_Set \o Infix(n.fconf[i]) \o n.cc[i], "field.Set")>>], 1)
     \o Cat([i \in 1..NF(c) |-> IF HasPres(c.fields[i])
                                THEN Opt(IsFirstMem(c, i), D(S_Has \o Infix(n.oconf) \o n.oc, "oneof.Has"))
                                     \o <<D(S_Has \o Infix(n.fconf[i]) \o n.cc[i], "field.Has")>>
                                ELSE <<>>], 1)
     \o Cat([i \in 1..NF(c) |-> IF HasPres(c.fields[i])
                                THEN Opt(IsFirstMem(c, i), D(S_Clear \o Infix(n.oconf) \o n.oc, "oneof.Clear"))
                                     \o <<D(S_Clear \o Infix(n.fconf[i]) \o n.cc[i], "field.Clear")>>
                                ELSE <<>>], 1)
     \o Opt(HasOneof(c), D(S_Which \o Infix(n.oconf) \o n.oc, "oneof.Which"))
OpaqueMembers(c, n) ==
  LET presenceArray == \E i \in 1..NF(c) : ~c.fields[i].mem /\ ~c.fields[i].rep
  IN <<D(S_state, "internal")>> \o StructFields(c, n, S_hidden)
     \o (IF presenceArray THEN Fixed(<<S_race, S_presence>>, "internal") ELSE <<>>)
     \o Fixed(<<S_unknownFields, S_sizeCache>>, "internal")
     \o <<D(S_Reset, "method.Reset"), D(S_String, "method.String"), D(S_ProtoMessage, "method.ProtoMessage"),
          D(S_ProtoReflect, "method.ProtoReflect")>>
     \o Cat([i \in 1..NF(c) |-> <<D(S_Get \o n.cc[i], "field.Get")>>], 1)
     \o Cat([i \in 1..NF(c) |-> <<D(S_Set \o n.cc[i], "field.Set")>>], 1)
     \o Cat([i \in 1..NF(c) |-> IF HasPres(c.fields[i])
                                THEN Opt(IsFirstMem(c, i), D(S_Has \o n.oc, "oneof.Has")) \o <<D(S_Has \o n.cc[i], "field.Has")>>
                                ELSE <<>>], 1)
     \o Cat([i \in 1..NF(c) |-> IF HasPres(c.fields[i])
                                THEN Opt(IsFirstMem(c, i), D(S_Clear \o n.oc, "oneof.Clear")) \o <<D(S_Clear \o n.cc[i], "field.Clear")>>
                                ELSE <<>>], 1)
     \o Opt(HasOneof(c), D(S_Which \o n.oc, "oneof.Which"))

MemberDecls(c, n) == CASE c.level = "open" -> OpenMembers(c, n)
                       [] c.level = "hybrid" -> HybridMembers(c, n)
                       [] c.level = "opaque" -> OpaqueMembers(c, n)
BuilderDecls(c, n) == IF c.level = "open" THEN <<>>
                      ELSE [i \in 1..NF(c) |-> D(n.cc[i], "builder.field")] \o <<D(S_Build, "builder.Build")>>
\* package-level identifiers that derive from M's content (the file declares more: descriptor variables, init, ...)
PkgDecls(c, n) ==
  LET notOpen == c.level # "open" IN
  <<D(S_M, "type.message")>> \o Opt(notOpen, D(S_M_builder, "type.builder"))
  \o [k \in 1..Len(c.nested) |-> D(GoCamelCase(S_Mdot \o c.nested[k]), "type.nested")]
  \o (IF notOpen THEN [k \in 1..Len(c.nested) |-> D(GoCamelCase(S_Mdot \o c.nested[k]) \o S_builderSuffix, "type.nested")] ELSE <<>>)
  \o [k \in 1..Len(c.enums) |-> D(GoCamelCase(S_Mdot \o c.enums[k]), "type.nested")]
  \o (IF HasOneof(c) THEN <<D(S_isM_ \o n.ogo, "type.oneofiface")>> \o Opt(notOpen, D(S_case_M_ \o n.ogo, "type.oneofcase"))
                          \o Opt(notOpen, D(S_M_ \o n.ogo \o S_not_set_case, "const.case")) ELSE <<>>)
  \o Cat([i \in 1..NF(c) |-> IF c.fields[i].mem THEN <<D(Wrapper(c, n.go[i]), "type.wrapper")>>
                                                     \o Opt(notOpen, D(S_M_ \o n.go[i] \o S_case, "const.case"))
                             ELSE <<>>], 1)
  \* genMessageDefaultDecls: "Default_" + <message GoIdent> + "_" + <field GoName>, at every API level
  \o Cat([i \in 1..NF(c) |-> Opt(c.fields[i].dflt, D(S_Default_ \o S_M_ \o n.go[i], "const.default"))], 1)
  \o Cat([k \in 1..Len(c.nested) |-> Let(SubGo(c, k), LAMBDA sg :
            [j \in 1..Len(sg) |-> D(S_Default_ \o NestedIdent(c, k) \o <<US>> \o sg[j], "const.default")])], 1)
  \* newEnumValue: <parent message GoIdent> + "_" + <value name> (not camel-cased); genEnum: the two maps
  \o Cat([k \in 1..Len(c.enums) |-> Let(EnumVals(c, k), LAMBDA vs : [j \in 1..Len(vs) |-> D(S_M_ \o vs[j], "const.enumvalue")])
                                     \o <<D(EnumIdent(c, k) \o S_name, "var.enummap"), D(EnumIdent(c, k) \o S_value, "var.enummap")>>], 1)
  \* extensions declared in M: "E_" + <M's GoIdent> + "_" + GoCamelCase(name); the file descriptor variable
  \o [k \in 1..Len(c.exts) |-> D(S_E_ \o S_M_ \o GoCamelCase(c.exts[k]), "var.extension")]
  \o <<D(S_File_t_proto, "var.file")>>
  \* a top-level enum: its type, <Enum>_<VALUE> constants, maps
  \o Cat([k \in 1..Len(c.tenum) |-> Let(GoCamelCase(c.tenum[k].n), LAMBDA id :
            <<D(id, "type.topenum")>> \o [j \in 1..Len(c.tenum[k].vals) |-> D(id \o <<US>> \o c.tenum[k].vals[j], "const.enumvalue")]
            \o <<D(id \o S_name, "var.enummap"), D(id \o S_value, "var.enummap")>>)], 1)
NamesOf(ds) == [k \in 1..Len(ds) |-> ds[k].n]
MembersN(c, n) == NamesOf(MemberDecls(c, n))
BuilderN(c, n) == NamesOf(BuilderDecls(c, n))
PkgN(c, n) == NamesOf(PkgDecls(c, n))
Members(c) == Let(Naming(c), LAMBDA n : MembersN(c, n))
Builder(c) == Let(Naming(c), LAMBDA n : BuilderN(c, n))
Pkg(c) == Let(Naming(c), LAMBDA n : PkgN(c, n))

\* ---- the property: no identifier is declared twice in a namespace
Range(s) == {s[i] : i \in 1..Len(s)}
Dups(s) == {s[i] : i \in {j \in 1..Len(s) : \E k \in 1..(j - 1) : s[k] = s[j]}}
NoDup(s) == \A i, j \in 1..Len(s) : i # j => s[i] # s[j]

\* Every repetition is explained by WHICH declarations coincide.  The causes are the naming defects of protogen that
\* this specification knows (DESIGN 7, F7); "unexplained" must not occur (law AllExplained of MC_GoNamesMsg).
RoleSeq(ds, x) == LET RECURSIVE Sel(_)
                      Sel(k) == IF k > Len(ds) THEN <<>> ELSE (IF ds[k].n = x THEN <<ds[k].r>> ELSE <<>>) \o Sel(k + 1)
                  IN Sel(1)
Cause(rs) ==                                 \* rs: the set of roles sharing one identifier
  IF "method.ProtoReflect" \in rs THEN "protoreflect-unreserved"           \* ProtoReflect is missing from makeNameUnique's table
  ELSE IF "oneof.Get" \in rs THEN "oneof-getter-unreserved"                 \* makeNameUnique(oneof, hasGetter = false), getter generated
  ELSE IF rs \cap {"oneof.Has", "oneof.Clear", "oneof.Which"} # {} THEN "oneof-camelcase-unresolved"   \* conflicts only resolved among fields
  ELSE IF rs \cap {"field.struct", "oneof.struct"} # {}
          /\ rs \cap {"field.Get", "field.GetCompat", "field.Set", "field.Has", "field.Clear"} # {}
       THEN "struct-field-vs-accessor"         \* hybrid: struct fields carry the mangled GoName, accessors the camelCase
  ELSE IF "field.GetCompat" \in rs THEN "hybrid-compat-getter"              \* Get<GoName> next to Get[_]<camelCase>
  ELSE IF "const.enumvalue" \in rs THEN "enum-value-const-collides"         \* <Parent>_<VALUE> is checked against nothing
  ELSE IF rs \subseteq {"const.default"} THEN "default-const-collides"     \* Default_<Msg>_<Field>: '_' is no separator
  ELSE IF "type.wrapper" \in rs THEN "oneof-wrapper-suffix"                 \* '_' suffixing ignores other wrapper types
  ELSE IF rs \subseteq {"field.Get", "field.Set", "field.Has", "field.Clear", "builder.field"}
       THEN "camelcase-suffix-collides"                                      \* <camel>_<num> equals another field's camelCase
  ELSE IF rs \subseteq {"type.nested"}
       THEN "nested-type-camelcase-collides"                                \* GoCamelCase is not injective (_foo, X_foo -> M_XFoo)
  ELSE "unexplained"
WhyOf(ns, ds) == Let(ds, LAMBDA x : { [ns |-> ns, n |-> d, roles |-> RoleSeq(x, d), cause |-> Cause(Range(RoleSeq(x, d)))]
                                      : d \in Dups(NamesOf(x)) })
\* all predicted repetitions of a declaration c, each with namespace, identifier, coinciding roles and cause
WhyN(c, n) == WhyOf("M", MemberDecls(c, n)) \cup WhyOf("M_builder", BuilderDecls(c, n)) \cup WhyOf("pkg", PkgDecls(c, n))
Why(c) == Let(Naming(c), LAMBDA n : WhyN(c, n))
Distinct(c) == Why(c) = {}

\* a declaration is well-formed for protobuf: names are identifiers and pairwise distinct within M's scope
\* (fields, the oneof, nested messages, enums AND the values of these enums, and extensions declared in M share one scope)
ScopeNames(c) == [i \in 1..NF(c) |-> c.fields[i].n] \o Opt(HasOneof(c), c.oname) \o c.nested \o c.enums
                 \o Cat([k \in 1..Len(c.enums) |-> EnumVals(c, k)], 1) \o c.exts
\* the package scope of t.proto: M, the extendable message, the top-level enum and its values
PkgScopeNames(c) == <<S_M, S_ZZBase>> \o Cat([k \in 1..Len(c.tenum) |-> <<c.tenum[k].n>> \o c.tenum[k].vals], 1)
WellFormed(c) == /\ Len(c.nfields) = Len(c.nested) /\ Len(c.evals) = Len(c.enums)
                 /\ Len(c.tenum) <= 1 /\ \A k \in 1..Len(c.tenum) : Len(c.tenum[k].vals) >= 1
                 /\ \A x \in Range(PkgScopeNames(c)) : IsProtoIdent(x)
                 /\ Let(PkgScopeNames(c), LAMBDA sn : NoDup(sn))
                 /\ \A x \in Range(ScopeNames(c)) : IsProtoIdent(x)
                 /\ \A k \in 1..Len(c.nested) : /\ \A x \in Range(c.nfields[k]) : IsProtoIdent(x)
                                                 /\ Let(c.nfields[k], LAMBDA nf : NoDup(nf))
                 /\ \A i \in 1..NF(c) : ~(c.fields[i].dflt /\ c.fields[i].rep)
                 /\ Let(ScopeNames(c), LAMBDA sn : NoDup(sn))
                 /\ \A i \in 1..NF(c) : ~(c.fields[i].mem /\ c.fields[i].rep)
                 /\ \A i, j \in 1..NF(c) : (i < j /\ c.fields[i].mem /\ c.fields[j].mem) =>     \* members are consecutive
                        \A k \in i..j : c.fields[k].mem
                 /\ (HasOneof(c) \/ c.oname = <<>>)
=============================================================================
