---------------------------- MODULE Trace_GoNames ----------------------------
(***************************************************************************)
(* Trace validation for C42: every event recorded from the real code       *)
(* (replayed tour lines and seeded random cases; e = case + out) must      *)
(* satisfy Allowed(e), the property evaluated by this specification on the *)
(* REAL result (identifier grammar, keyword table, duplicate-freeness of   *)
(* the identifiers read back from the generated Go file).  Events whose    *)
(* result merely differs from the transcription (Pred) are collected as    *)
(* drift.  One TLC step per event.                                          *)
(***************************************************************************)
EXTENDS GoNamesCases, Json, IOUtils

Trace == ndJsonDeserialize(IOEnv.TRACE)

VARIABLES l, bad, drift
Init == l = 1 /\ bad = <<>> /\ drift = <<>>
\* a rejected msgnames event is printed with the specification's explanation of the declaration (which repetitions it
\* predicts and why), so that the runner can attribute every real repetition to a known naming defect or to none
Explain(e) == IF e.op # "msgnames" THEN TRUE ELSE PrintT("@@" \o ToJson([l |-> l, why |-> Why(MsgOf(e))]))
Next == /\ l <= Len(Trace)
        /\ bad' = IF Allowed(Trace[l]) THEN bad ELSE Append(bad, l)
        /\ (IF Allowed(Trace[l]) THEN TRUE ELSE Explain(Trace[l]))
        /\ drift' = IF Drift(Trace[l]) THEN Append(drift, l) ELSE drift
        /\ l' = l + 1
        /\ TLCSet(1, <<l + 1, bad', drift'>>)
Accepted == LET r == TLCGet(1) IN
            /\ PrintT("TRACE-RESULT " \o ToJson([done |-> r[1] - 1, total |-> Len(Trace), bad |-> r[2], drift |-> r[3]]))
            /\ r[1] = Len(Trace) + 1
=============================================================================
