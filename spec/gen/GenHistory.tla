----------------------------- MODULE GenHistory -----------------------------
(***************************************************************************)
(* C40: code generation is deterministic.  A HISTORY is a sequence of      *)
(* observations of generator runs                                           *)
(*    [key   : the request (digest of the serialized CodeGeneratorRequest), *)
(*     err   : "" | "resp" (response carries an error) | "new" (the plugin  *)
(*             refused the request: no response exists),                    *)
(*     dig   : digest of the serialized CodeGeneratorResponse,              *)
(*     files : sequence of [n : generated file name, d : content digest]].  *)
(* The property is functional dependence: the response is a FUNCTION of     *)
(* the request (memo[key] never changes once set), and - within one base,   *)
(* i.e. one file set and one parameter string - the content of a generated  *)
(* file is a function of its name, whatever order the files were requested  *)
(* in.  Both are defined twice: as a memo table folded over the history     *)
(* (how a checker discovers a violation) and as a relation on pairs of      *)
(* observations (what "function" means); MC_GenHistory checks that the two  *)
(* definitions accept the same histories.                                   *)
(* What makes two runs differ (map iteration order, process state) is NOT   *)
(* modelled: the specification is a pure history oracle (level:             *)
(* exploration).                                                            *)
(***************************************************************************)
EXTENDS Integers, Sequences, TLC

\* ---- responses: memo table
Resp(o) == <<o.err, o.dig>>
RECURSIVE FoldResp(_, _, _)
\* memo: function from keys to responses; returns the first step that contradicts the memo, 0 if none
FoldResp(obs, i, memo) ==
  IF i > Len(obs) THEN 0
  ELSE LET o == obs[i] IN
       IF o.key \in DOMAIN memo
       THEN (IF memo[o.key] = Resp(o) THEN FoldResp(obs, i + 1, memo) ELSE i)
       ELSE FoldResp(obs, i + 1, memo @@ (o.key :> Resp(o)))
RespDeterministic(obs) == FoldResp(obs, 1, <<>>) = 0
\* ---- responses: relational definition
RespFunctional(obs) == \A i, j \in 1..Len(obs) : obs[i].key = obs[j].key => Resp(obs[i]) = Resp(obs[j])

\* ---- per-file contents, within one base
FilePairs(o) == {<<o.files[k].n, o.files[k].d>> : k \in 1..Len(o.files)}
RECURSIVE FoldFiles(_, _, _)
FoldFiles(obs, i, memo) ==          \* memo: function from file names to content digests
  IF i > Len(obs) THEN 0
  ELSE LET ps == FilePairs(obs[i])
           clash == \E p \in ps : p[1] \in DOMAIN memo /\ memo[p[1]] # p[2]
           self == \E p, q \in ps : p[1] = q[1] /\ p[2] # q[2]        \* one response naming a file twice with different content
           new == {p \in ps : p[1] \notin DOMAIN memo}
           names == {p[1] : p \in new}
       IN IF clash \/ self THEN i
          ELSE FoldFiles(obs, i + 1, memo @@ [nm \in names |-> (CHOOSE p \in new : p[1] = nm)[2]])
FilesDeterministic(obs) == FoldFiles(obs, 1, <<>>) = 0
FilesFunctional(obs) == \A i, j \in 1..Len(obs) : \A p \in FilePairs(obs[i]), q \in FilePairs(obs[j]) : p[1] = q[1] => p[2] = q[2]
\* successful runs of one base generate the same set of files whatever the order of the request
SameFileSets(obs) == \A i, j \in 1..Len(obs) : (obs[i].err = "" /\ obs[j].err = "") =>
                        {p[1] : p \in FilePairs(obs[i])} = {p[1] : p \in FilePairs(obs[j])}

\* ---- a plan case: {op: "plan", base, steps} with out = {obs, det, filedet, nobs}
Expect(e) == [det |-> TRUE, filedet |-> TRUE, nobs |-> Len(e.steps)]
Allowed(e) == /\ "obs" \in DOMAIN e.out
              /\ Len(e.out.obs) = Len(e.steps)
              /\ RespDeterministic(e.out.obs)
              /\ FilesDeterministic(e.out.obs) /\ SameFileSets(e.out.obs)
              /\ e.out.det /\ e.out.filedet                      \* the harness's own bookkeeping agrees
=============================================================================
