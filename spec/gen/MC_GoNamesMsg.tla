---------------------------- MODULE MC_GoNamesMsg ----------------------------
(***************************************************************************)
(* C42, message level: one state per field list fs of message M.  Fields   *)
(* are drawn without repetition from a collision vocabulary, each as a     *)
(* plain optional field ("f"), a repeated field ("r") or a member of the   *)
(* oneof ("m"); lists up to MaxAny use the kinds KindsAny, longer lists up *)
(* to MaxPlain only plain fields.  For every list TLC emits one case per   *)
(* API level and per choice of oneof name / nested message / nested enum   *)
(* (only where a oneof exists: these interact through wrapper types).      *)
(* The order of the fields matters (makeNameUnique and                     *)
(* resolveCamelCaseConflicts are order dependent), so lists, not sets.     *)
(***************************************************************************)
EXTENDS GoNamesCases, GoNamesVocab, Json

CONSTANTS FieldVocab, OneofVocab, NestedVocab, EnumVocab, Levels, KindsAny, MaxAny, MaxPlain

VARIABLE fs                                   \* sequence of [n |-> name, mem, rep, dflt |-> BOOLEAN] (dflt: see MC_GoNamesPkg)
Init == fs = <<>>
Used(f) == {f[i].n : i \in 1..Len(f)}
AnyMem(f) == \E i \in 1..Len(f) : f[i].mem
AllPlain(f) == \A i \in 1..Len(f) : ~f[i].mem /\ ~f[i].rep
Kinds(f) == IF Len(f) < MaxAny THEN KindsAny
            ELSE IF Len(f) < MaxPlain /\ AllPlain(f) THEN {"f"} ELSE {}
Next == \E x \in FieldVocab, k \in Kinds(fs) :
          /\ Codes(x) \notin Used(fs)
          /\ (k = "m" /\ AnyMem(fs)) => fs[Len(fs)].mem          \* the members of the oneof are declared consecutively
          /\ fs' = Append(fs, [n |-> Codes(x), mem |-> (k = "m"), rep |-> (k = "r"), dflt |-> FALSE])

\* the declarations completed from a field list
CasesOf(f) ==
  IF ~AnyMem(f)
  THEN {[op |-> "msgnames", level |-> lv, fields |-> f, oname |-> <<>>, nested |-> <<>>, enums |-> <<>>,
         nfields |-> <<>>, evals |-> <<>>, exts |-> <<>>, tenum |-> <<>>] : lv \in Levels}
  ELSE LET on == {Codes(x) : x \in OneofVocab} \ Used(f)
           opt(V, taken) == {<<>>} \cup {<<Codes(x)>> : x \in {y \in V : Codes(y) \notin taken}}
           none(s) == IF s = <<>> THEN <<>> ELSE <<<<>>>>     \* (s holds at most one name) nested messages without fields, enums with the one default value
       IN UNION { UNION { { [op |-> "msgnames", level |-> lv, fields |-> f, oname |-> o, nested |-> ns, enums |-> es,
                              nfields |-> none(ns), evals |-> none(es), exts |-> <<>>, tenum |-> <<>>]
                            : es \in opt(EnumVocab, Used(f) \cup {o} \cup Range(ns)), lv \in Levels }
                          : ns \in opt(NestedVocab, Used(f) \cup {o}) }
                  : o \in on }

\* ---- laws on the specification itself (every reachable field list, every completion; one pass per declaration)
\* the makeNameUnique post-condition that does hold: no struct field of the open API is a reserved method name,
\* and the builder never has a field called Build
ReservedAvoided(n) == /\ \A i \in 1..Len(n.go) : n.go[i] \notin ReservedNames
                      /\ \A i \in 1..Len(n.cc) : n.cc[i] # S_Build
\* all generated names are Go identifiers; field names and camelCase names are exported
NamesAreIdentifiers(c, n) ==
  /\ \A i \in 1..Len(n.go) : IsExportedGoIdent(n.go[i])
  /\ \A i \in 1..Len(n.cc) : IsExportedGoIdent(n.cc[i])
  /\ \A x \in Range(MembersN(c, n)) \cup Range(BuilderN(c, n)) \cup Range(PkgN(c, n)) : IsGoIdent(x)
\* every repetition the specification predicts is one of the known naming defects (no unexplained collision in the
\* enumerated space), and an explained repetition really has two declarations
AllExplained(w) == \A x \in w : x.cause # "unexplained" /\ Len(x.roles) >= 2
\* the open API without a oneof and without a field called ProtoReflect is collision free (makeNameUnique works for
\* plain fields); the opaque API without a oneof collides only through the camel-case suffixing
OpenPlainDistinct(c, w) == (c.level = "open" /\ ~AnyMem(fs) /\ \A i \in 1..Len(fs) : GoCamelCase(fs[i].n) # S_ProtoReflect)
                           => w = {}
OpaquePlainOnlySuffix(c, w) == (c.level = "opaque" /\ ~AnyMem(fs)) => \A x \in w : x.cause = "camelcase-suffix-collides"
Laws == \A e \in CasesOf(fs) : \A c \in {MsgOf(e)} :
          /\ WellFormed(c)                                   \* the enumerated declarations are well-formed protobuf
          /\ \A n \in {Naming(c)} :
                /\ ReservedAvoided(n) /\ NamesAreIdentifiers(c, n)
                /\ \A w \in {WhyN(c, n)} : AllExplained(w) /\ OpenPlainDistinct(c, w) /\ OpaquePlainOnlySuffix(c, w)

Emit == \A e \in CasesOf(fs') : PrintT("@@" \o ToJson(e @@ [exp |-> Expect(e), pred |-> Pred(e)]))
=============================================================================
