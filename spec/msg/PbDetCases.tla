----------------------------- MODULE PbDetCases -----------------------------
(***************************************************************************)
(* C05 / C29 / C08: deterministic marshaling.                              *)
(*  "det"    one content built along several histories (insertion orders,  *)
(*           overwrite, clone, decode of the default encoding) has ONE     *)
(*           deterministic encoding (same), and that encoding decodes      *)
(*           (specification Decode) to exactly the content: hence equal    *)
(*           deterministic bytes imply equal content (injectivity).        *)
(*  "flav"   the same for one object per API flavour, plus cross decoding  *)
(*           of binary / JSON / text output between flavours.              *)
(*  "decdet" decode then deterministic marshal: the bytes must decode to   *)
(*           what the input decodes to (used lock-step across builds).     *)
(* The trace module additionally memoises det bytes per case id across     *)
(* processes and builds: the encoding must be a function of the case.      *)
(***************************************************************************)
EXTENDS PbObject

TypeOf(e) == IF e.op = "flav" THEN e.base ELSE e.type
DetAgree(e) ==
  LET o == e.out IN
  /\ "panic" \notin DOMAIN o
  /\ IF e.op = "decdet" THEN
        LET r == Decode(e.type, e.b, EmptyMsg, 10000, FALSE) IN
        /\ o.err = (IF r.ok THEN "" ELSE "error")
        /\ (r.ok => LET d == Decode(e.type, o.det, EmptyMsg, 10000, FALSE) IN
                    d.ok /\ d.m = r.m /\ o.init = Initialized(e.type, r.m) /\ o.cloneq)
     ELSE
        LET lit == FromProj(e.lit)
            d == Decode(TypeOf(e), o.det, EmptyMsg, 10000, FALSE)
        IN /\ o.same
           /\ (Utf8OK(TypeOf(e), lit) => (d.ok /\ d.m = lit /\ FromProj(o.dec) = lit))
           /\ (e.op = "flav" => o.cross = "")
=============================================================================
