------------------------- MODULE Trace_PbTextCodecs -------------------------
(* Trace validation of recorded protojson / prototext round trips (C20, C24). *)
EXTENDS PbTextCodecs, Sequences
Trace == ndJsonDeserialize(IOEnv.TRACE)
VARIABLES l, bad
Init == l = 1 /\ bad = <<>>
Next == /\ l <= Len(Trace)
        /\ bad' = IF CodecAgree(Trace[l]) THEN bad ELSE Append(bad, l)
        /\ l' = l + 1
        /\ TLCSet(1, <<l + 1, bad'>>)
Accepted == LET r == TLCGet(1) IN
            /\ PrintT("TRACE-RESULT " \o ToJson([done |-> r[1] - 1, total |-> Len(Trace), bad |-> r[2]]))
            /\ r[1] = Len(Trace) + 1
=============================================================================
