--------------------------- MODULE MC_PbCodecTour ---------------------------
(* The reachable contents of the bounded object machine, emitted as protojson / prototext round-trip cases *)
(* under a spread of output-option masks (C20, C24).                                                      *)
EXTENDS MC_PbObject, PbTextCodecs
JsonOpts == {0, 1, 3, 4, 8, 16, 32, 63}
TextOpts == {0, 1, 3, 4, 7}
EmitCodec == \A f \in {"json", "text"} : \A o \in (IF f = "json" THEN JsonOpts ELSE TextOpts) :
               LET e == [fmt |-> f, type |-> Type, dyn |-> FALSE, lit |-> ToProj(objs'[1]), opts |-> o]
               IN PrintT("@@" \o ToJson(e @@ [exp |-> CodecExpect(e)]))
\* spec-level: stripping unknown fields is idempotent and keeps every known field
StripLaw == \A i \in 1..NObj : IsDirty(objs[i]) \/
              (StripU(StripU(objs[i])) = StripU(objs[i]) /\ Len(StripU(objs[i]).f) = Len(objs[i].f))
=============================================================================
