------------------------------ MODULE PbCodec ------------------------------
(***************************************************************************)
(* The protobuf binary codec and message algebra over an abstract message  *)
(* value, generic in the schema.                                           *)
(*                                                                         *)
(* Schema (constant, exported from the real descriptors by the harness):   *)
(*   Schema[type] = [fields |-> << [num, kind, card, packed, pres, oneof,  *)
(*                                  msg, ismap, utf8, ext, lazy] ... >>,   *)
(*                   mset |-> BOOLEAN]                                     *)
(*                                                                         *)
(* Abstract message  M = [f |-> << <<num, V>> ... >>  (sorted by number,   *)
(*                                 populated fields only),                 *)
(*                        u |-> << <<num, wt, rawvalue>> ... >>]  unknown  *)
(*   V = [s |-> bytes]      scalar: fixed-width little endian / raw        *)
(*     | [m |-> M]          message or group                               *)
(*     | [l |-> << V >>]    repeated, non-empty                            *)
(*     | [p |-> << <<V, V>> >>]  map entries sorted by key, non-empty      *)
(*                                                                         *)
(* Decode follows the wire semantics the implementation documents:         *)
(* last-wins singular scalars, recursive merge of singular messages,       *)
(* append for repeated (packed and unpacked accepted for every numeric     *)
(* kind), map entries as two-field messages with defaults, oneof last      *)
(* member wins (same message member merges), enum numbers never validated, *)
(* wrong wire type => unknown field, unknown fields kept in order,         *)
(* int32 = low 32 bits of the varint, bool = (v # 0), sint32 masks to 32   *)
(* bits before zig-zag, UTF-8 enforced per field, implicit-presence zero   *)
(* values are not populated, nesting bounded by the recursion limit.       *)
(***************************************************************************)
EXTENDS PbWire, VUtf8, TLC, Json, IOUtils

Schema == JsonDeserialize(IOEnv.SCHEMA)

NoField == [num |-> 0, kind |-> "none", card |-> "opt", packed |-> FALSE, pres |-> FALSE, oneof |-> 0,
            msg |-> "", ismap |-> FALSE, utf8 |-> FALSE, ext |-> FALSE, lazy |-> FALSE]

\* per type: field number -> field record (constant level: computed once)
Idx == [t \in DOMAIN Schema |->
          LET fs == Schema[t].fields IN
          [n \in {fs[i].num : i \in 1..Len(fs)} |-> fs[CHOOSE i \in 1..Len(fs) : fs[i].num = n]]]
FieldOf(t, n) == IF n \in DOMAIN Idx[t] THEN Idx[t][n] ELSE NoField

VarintKinds  == {"int32", "int64", "uint32", "uint64", "sint32", "sint64", "bool", "enum"}
Fixed32Kinds == {"fixed32", "sfixed32", "float"}
Fixed64Kinds == {"fixed64", "sfixed64", "double"}
NumericKinds == VarintKinds \cup Fixed32Kinds \cup Fixed64Kinds
WireOf(k) == IF k \in VarintKinds THEN 0 ELSE IF k \in Fixed32Kinds THEN 5 ELSE IF k \in Fixed64Kinds THEN 1
             ELSE IF k = "group" THEN 3 ELSE 2
IsMsgKind(k) == k = "message" \/ k = "group"

\* ------------------------------------------------------------------ scalars
NaN32 == <<0, 0, 192, 127>>
NaN64 == <<0, 0, 0, 0, 0, 0, 248, 127>>
IsNaN32(b) == (b[4] % 128 = 127) /\ (b[3] >= 128) /\ ((b[3] % 128) + b[2] + b[1] > 0)
IsNaN64(b) == (b[8] % 128 = 127) /\ (b[7] >= 240) /\ ((b[7] % 16) + b[6] + b[5] + b[4] + b[3] + b[2] + b[1] > 0)
CanonFixed(kind, b) == IF kind = "float" /\ IsNaN32(b) THEN NaN32
                       ELSE IF kind = "double" /\ IsNaN64(b) THEN NaN64 ELSE b
CanonVarint(kind, v8) ==
  CASE kind \in {"int32", "uint32", "enum"} -> Trunc(v8, 4)
    [] kind = "sint32" -> Trunc(ZigZagDec64(Trunc(v8, 4) \o <<0, 0, 0, 0>>), 4)
    [] kind \in {"int64", "uint64"} -> v8
    [] kind = "sint64" -> ZigZagDec64(v8)
    [] kind = "bool" -> IF IsZeros(v8) THEN <<0>> ELSE <<1>>
\* numerically equal floats: same bytes, or +0 / -0
FloatZero(b) == IsZeros(SubSeq(b, 1, Len(b) - 1)) /\ b[Len(b)] % 128 = 0
ScalarEq(kind, a, b) == a = b \/ (kind \in {"float", "double"} /\ FloatZero(a) /\ FloatZero(b))

\* ------------------------------------------------------------------ message values
EmptyMsg == [f |-> <<>>, u |-> <<>>]
RECURSIVE FindFrom(_, _, _)
FindFrom(fs, n, i) == IF i > Len(fs) THEN 0 ELSE IF fs[i][1] = n THEN i ELSE IF fs[i][1] > n THEN 0 ELSE FindFrom(fs, n, i + 1)
Find(m, n) == FindFrom(m.f, n, 1)
Has(m, n) == Find(m, n) # 0
Get(m, n) == m.f[Find(m, n)][2]
\* number of entries with a smaller field number
RECURSIVE RankFrom(_, _, _)
RankFrom(fs, n, i) == IF i > Len(fs) \/ fs[i][1] >= n THEN i - 1 ELSE RankFrom(fs, n, i + 1)
Put(m, n, v) ==
  LET k == Find(m, n) IN
  IF k # 0 THEN [m EXCEPT !.f[k] = <<n, v>>]
  ELSE LET r == RankFrom(m.f, n, 1) IN
       [m EXCEPT !.f = SubSeq(@, 1, r) \o << <<n, v>> >> \o SubSeq(@, r + 1, Len(@))]
Del(m, n) == LET k == Find(m, n) IN
             IF k = 0 THEN m ELSE [m EXCEPT !.f = SubSeq(@, 1, k - 1) \o SubSeq(@, k + 1, Len(@))]
\* setting a oneof member clears the other members of that oneof
RECURSIVE DropSiblings(_, _, _, _)
DropSiblings(t, fs, fd, i) ==
  IF i > Len(fs) THEN <<>>
  ELSE LET g == FieldOf(t, fs[i][1]) IN
       (IF g.oneof = fd.oneof /\ g.num # fd.num THEN <<>> ELSE <<fs[i]>>) \o DropSiblings(t, fs, fd, i + 1)
ClearSiblings(t, m, fd) == IF fd.oneof = 0 THEN m ELSE [m EXCEPT !.f = DropSiblings(t, @, fd, 1)]
\* store a singular value under its presence discipline
IsZeroV(fd, v) == "s" \in DOMAIN v /\ (IF fd.kind \in {"string", "bytes"} THEN v.s = <<>> ELSE IsZeros(v.s))
SetSingular(t, m, fd, v) ==
  IF ~fd.pres /\ IsZeroV(fd, v) THEN Del(m, fd.num)               \* implicit presence: zero is "not populated"
  ELSE Put(ClearSiblings(t, m, fd), fd.num, v)
AppendList(m, n, vs) == IF vs = <<>> THEN m
                        ELSE Put(m, n, [l |-> (IF Has(m, n) THEN Get(m, n).l ELSE <<>>) \o vs])
\* map keys are ordered by length, then bytewise
RECURSIVE BytesLess(_, _, _)
BytesLess(a, b, i) == IF i > Len(a) THEN FALSE ELSE IF a[i] # b[i] THEN a[i] < b[i] ELSE BytesLess(a, b, i + 1)
KeyLess(a, b) == IF Len(a) # Len(b) THEN Len(a) < Len(b) ELSE BytesLess(a, b, 1)
RECURSIVE MapPutFrom(_, _, _, _)
MapPutFrom(ps, k, v, i) ==
  IF i > Len(ps) THEN Append(ps, <<k, v>>)
  ELSE IF ps[i][1] = k THEN [ps EXCEPT ![i] = <<k, v>>]
  ELSE IF KeyLess(k.s, ps[i][1].s) THEN SubSeq(ps, 1, i - 1) \o << <<k, v>> >> \o SubSeq(ps, i, Len(ps))
  ELSE MapPutFrom(ps, k, v, i + 1)
MapPut(m, n, k, v) == Put(m, n, [p |-> MapPutFrom(IF Has(m, n) THEN Get(m, n).p ELSE <<>>, k, v, 1)])
MapDel(m, n, k) ==
  IF ~Has(m, n) THEN m
  ELSE LET ps == Get(m, n).p
           keep == SelectSeq(ps, LAMBDA e : e[1] # k)
       IN IF keep = <<>> THEN Del(m, n) ELSE Put(m, n, [p |-> keep])
\* An unknown record keeps the raw bytes of its value, except that the length prefix of a length-delimited value is kept
\* in its shortest form: implementations may retain a non-minimal prefix verbatim or re-encode it (the table-driven and the
\* reflection-based MessageSet decoders differ in exactly this), and both preserve the field.
NormVal(wt, val) == IF wt = 2 /\ BytesAt(val, 1).n = Len(val) THEN EncBytes(BytesAt(val, 1).p) ELSE val
AddU(m, num, wt, val) == [m EXCEPT !.u = Append(@, <<num, wt, NormVal(wt, val)>>)]

\* ------------------------------------------------------------------ decoding
Bad(m) == [ok |-> FALSE, m |-> m, j |-> 0]
Ok(m, j) == [ok |-> TRUE, m |-> m, j |-> j]
DefaultKey(kind) == CASE kind \in {"string", "bytes"} -> <<>>
                      [] kind = "bool" -> <<0>>
                      [] kind \in {"int64", "uint64", "sint64", "fixed64", "sfixed64", "double"} -> Zeros(8)
                      [] OTHER -> Zeros(4)

\* packed payload: sequence of scalars of one numeric kind: [ok, vs]
RECURSIVE Packed(_, _, _, _)
Packed(b, i, kind, acc) ==
  IF i > Len(b) THEN [ok |-> TRUE, vs |-> acc]
  ELSE CASE kind \in VarintKinds ->
              LET v == DecVarint(b, i) IN
              IF v.n < 0 THEN [ok |-> FALSE, vs |-> <<>>] ELSE Packed(b, i + v.n, kind, Append(acc, [s |-> CanonVarint(kind, v.v)]))
         [] kind \in Fixed32Kinds ->
              IF i + 3 > Len(b) THEN [ok |-> FALSE, vs |-> <<>>] ELSE Packed(b, i + 4, kind, Append(acc, [s |-> CanonFixed(kind, SubSeq(b, i, i + 3))]))
         [] kind \in Fixed64Kinds ->
              IF i + 7 > Len(b) THEN [ok |-> FALSE, vs |-> <<>>] ELSE Packed(b, i + 8, kind, Append(acc, [s |-> CanonFixed(kind, SubSeq(b, i, i + 7))]))

\* one scalar (non-message) value of field fd with wire type wt at b[j]: [ok, v, n] ; ok = FALSE and n = 0: wrong wire type
ScalarAt(fd, b, j, wt) ==
  IF fd.kind \in {"string", "bytes"} THEN
     (IF wt # 2 THEN [ok |-> FALSE, n |-> 0, v |-> <<>>]
      ELSE LET p == BytesAt(b, j) IN
           IF p.n < 0 \/ (fd.utf8 /\ ~ValidUTF8(p.p)) THEN [ok |-> FALSE, n |-> -1, v |-> <<>>]
           ELSE [ok |-> TRUE, n |-> p.n, v |-> p.p])
  ELSE IF wt # WireOf(fd.kind) THEN [ok |-> FALSE, n |-> 0, v |-> <<>>]
  ELSE IF wt = 0 THEN (LET d == DecVarint(b, j) IN
                       IF d.n < 0 THEN [ok |-> FALSE, n |-> -1, v |-> <<>>] ELSE [ok |-> TRUE, n |-> d.n, v |-> CanonVarint(fd.kind, d.v)])
  ELSE IF wt = 5 THEN (IF j + 3 > Len(b) THEN [ok |-> FALSE, n |-> -1, v |-> <<>>] ELSE [ok |-> TRUE, n |-> 4, v |-> CanonFixed(fd.kind, SubSeq(b, j, j + 3))])
  ELSE (IF j + 7 > Len(b) THEN [ok |-> FALSE, n |-> -1, v |-> <<>>] ELSE [ok |-> TRUE, n |-> 8, v |-> CanonFixed(fd.kind, SubSeq(b, j, j + 7))])

RECURSIVE DecFields(_, _, _, _, _, _, _), DecField(_, _, _, _, _, _, _, _, _), DecEntry(_, _, _, _, _, _, _, _, _),
          DecMset(_, _, _, _, _, _), DecItem(_, _, _, _)

\* Decode the fields of a message of type t from b[i..], merging into m.
\*   grp = 0: the message extends to the end of b;  grp = n: until the end-group tag of field n.
\*   d = nesting levels still available *below* this message;  o = [discard |-> BOOLEAN].
\* Result [ok, m, j]: j is the index just after the consumed region.
DecFields(t, b, i, grp, m, d, o) ==
  IF Schema[t].mset /\ grp = 0 THEN DecMset(t, b, i, m, d, o)
  ELSE IF i > Len(b) THEN (IF grp = 0 THEN Ok(m, i) ELSE Bad(m))
  ELSE LET tg == TagAt(b, i) IN
       IF tg.n < 0 \/ tg.num > MaxValidNumber THEN Bad(m)
       ELSE IF tg.wt = 4 THEN (IF grp # 0 /\ tg.num = grp THEN Ok(m, i + tg.n) ELSE Bad(m))
       ELSE LET r == DecField(t, FieldOf(t, tg.num), b, i + tg.n, tg.num, tg.wt, m, d, o) IN
            IF ~r.ok THEN Bad(r.m) ELSE DecFields(t, b, r.j, grp, r.m, d, o)

DecField(t, fd, b, j, num, wt, m, d, o) ==
  LET vlen == FieldValueLen(b, j, num, wt, 10000)
      asUnknown == IF vlen < 0 THEN Bad(m)
                   ELSE Ok(IF o.discard THEN m ELSE AddU(m, num, wt, SubSeq(b, j, j + vlen - 1)), j + vlen)
      rep == fd.card = "rep"
  IN
  CASE fd.kind = "none" -> asUnknown
    [] fd.ismap ->
         IF wt # 2 THEN asUnknown
         ELSE LET p == BytesAt(b, j) IN
              IF p.n < 0 \/ d < 1 THEN Bad(m)
              ELSE LET kf == FieldOf(fd.msg, 1)  vf == FieldOf(fd.msg, 2)
                       e == DecEntry(kf, vf, p.p, 1, [s |-> DefaultKey(kf.kind)],
                                     IF IsMsgKind(vf.kind) THEN [m |-> EmptyMsg] ELSE [s |-> DefaultKey(vf.kind)], d - 1, o, m)
                   IN IF ~e.ok THEN Bad(m) ELSE Ok(MapPut(m, num, e.k, e.v), j + p.n)
    [] fd.kind = "message" ->
         IF wt # 2 THEN asUnknown
         ELSE LET p == BytesAt(b, j) IN
              IF p.n < 0 \/ d < 1 THEN Bad(m)
              ELSE LET m1 == IF rep THEN m ELSE ClearSiblings(t, m, fd)
                       base == IF ~rep /\ Has(m1, num) THEN Get(m1, num).m ELSE EmptyMsg
                       sub == DecFields(fd.msg, p.p, 1, 0, base, d - 1, o)
                   IN IF ~sub.ok THEN Bad(m)
                      ELSE IF rep THEN Ok(AppendList(m, num, << [m |-> sub.m] >>), j + p.n)
                      ELSE Ok(Put(m1, num, [m |-> sub.m]), j + p.n)
    [] fd.kind = "group" ->
         IF wt # 3 THEN asUnknown
         ELSE IF d < 1 THEN Bad(m)
         ELSE LET m1 == IF rep THEN m ELSE ClearSiblings(t, m, fd)
                  base == IF ~rep /\ Has(m1, num) THEN Get(m1, num).m ELSE EmptyMsg
                  sub == DecFields(fd.msg, b, j, num, base, d - 1, o)
              IN IF ~sub.ok THEN Bad(m)
                 ELSE IF rep THEN Ok(AppendList(m, num, << [m |-> sub.m] >>), sub.j)
                 ELSE Ok(Put(m1, num, [m |-> sub.m]), sub.j)
    [] OTHER ->
         LET sc == ScalarAt(fd, b, j, wt) IN
         IF sc.ok THEN (IF rep THEN Ok(AppendList(m, num, << [s |-> sc.v] >>), j + sc.n)
                        ELSE Ok(SetSingular(t, m, fd, [s |-> sc.v]), j + sc.n))
         ELSE IF sc.n < 0 THEN Bad(m)
         ELSE IF wt = 2 /\ rep /\ fd.kind \in NumericKinds THEN
              (LET p == BytesAt(b, j) IN
               IF p.n < 0 THEN Bad(m)
               ELSE LET pk == Packed(p.p, 1, fd.kind, <<>>) IN
                    IF ~pk.ok THEN Bad(m) ELSE Ok(AppendList(m, num, pk.vs), j + p.n))
         ELSE asUnknown

\* a map entry: key (field 1) and value (field 2) with defaults; other fields are skipped; result [ok, k, v]
DecEntry(kf, vf, b, i, k, v, d, o, m0) ==
  IF i > Len(b) THEN [ok |-> TRUE, k |-> k, v |-> v]
  ELSE LET tg == TagAt(b, i) IN
       IF tg.n < 0 \/ tg.num > MaxValidNumber THEN [ok |-> FALSE, k |-> k, v |-> v]
       ELSE LET j == i + tg.n
                vlen == FieldValueLen(b, j, tg.num, tg.wt, 10000)
                skip == IF vlen < 0 THEN [ok |-> FALSE, k |-> k, v |-> v] ELSE DecEntry(kf, vf, b, j + vlen, k, v, d, o, m0)
            IN
            IF tg.num = 1 THEN
               (LET sc == ScalarAt(kf, b, j, tg.wt) IN
                IF sc.ok THEN DecEntry(kf, vf, b, j + sc.n, [s |-> sc.v], v, d, o, m0)
                ELSE IF sc.n < 0 THEN [ok |-> FALSE, k |-> k, v |-> v] ELSE skip)
            ELSE IF tg.num = 2 /\ IsMsgKind(vf.kind) THEN
               (IF tg.wt # 2 THEN skip
                ELSE LET p == BytesAt(b, j) IN
                     IF p.n < 0 \/ d < 1 THEN [ok |-> FALSE, k |-> k, v |-> v]
                     ELSE LET sub == DecFields(vf.msg, p.p, 1, 0, v.m, d - 1, o) IN
                          IF ~sub.ok THEN [ok |-> FALSE, k |-> k, v |-> v]
                          ELSE DecEntry(kf, vf, b, j + p.n, k, [m |-> sub.m], d, o, m0))
            ELSE IF tg.num = 2 THEN
               (LET sc == ScalarAt(vf, b, j, tg.wt) IN
                IF sc.ok THEN DecEntry(kf, vf, b, j + sc.n, k, [s |-> sc.v], d, o, m0)
                ELSE IF sc.n < 0 THEN [ok |-> FALSE, k |-> k, v |-> v] ELSE skip)
            ELSE skip

\* ---- MessageSet wire format (legacy builds): the message is a sequence of items
\*        group 1 { type_id = 2 (varint) ; message = 3 (bytes) }
\* An item's type id is the last type_id in it (1 .. 2^31-1, else error), its payload the concatenation of all its message
\* fields (either order); an item without type id is dropped; other fields inside an item and outside items are skipped.
\* An item whose type id is a known message extension is merged into that extension, otherwise it is kept as the unknown
\* length-delimited field <type id>.
\* DecItem: [ok, tid, msg, j] for the item body starting at b[i] (after the start-group tag)
DecItem(b, i, tid, msg) ==
  LET tg == TagAt(b, i) IN
  IF tg.n < 0 THEN [ok |-> FALSE, tid |-> 0, msg |-> <<>>, j |-> 0]
  ELSE LET j == i + tg.n IN
       IF tg.num = 1 /\ tg.wt = 4 THEN [ok |-> TRUE, tid |-> tid, msg |-> msg, j |-> j]
       ELSE IF tg.num = 2 /\ tg.wt = 0 THEN
            (LET v == DecVarint(b, j)  x == ToNat(v.v) IN
             IF v.n < 0 \/ x < 1 THEN [ok |-> FALSE, tid |-> 0, msg |-> <<>>, j |-> 0]
             ELSE DecItem(b, j + v.n, x, msg))
       ELSE IF tg.num = 3 /\ tg.wt = 2 THEN
            (LET p == BytesAt(b, j) IN
             IF p.n < 0 THEN [ok |-> FALSE, tid |-> 0, msg |-> <<>>, j |-> 0] ELSE DecItem(b, j + p.n, tid, msg \o p.p))
       ELSE LET n == FieldValueLen(b, j, tg.num, tg.wt, 10000) IN
            IF n < 0 THEN [ok |-> FALSE, tid |-> 0, msg |-> <<>>, j |-> 0] ELSE DecItem(b, j + n, tid, msg)
DecMset(t, b, i, m, d, o) ==
  IF i > Len(b) THEN Ok(m, i)
  ELSE LET tg == TagAt(b, i) IN
       IF tg.n < 0 THEN Bad(m)
       ELSE LET j == i + tg.n IN
            IF ~(tg.num = 1 /\ tg.wt = 3) THEN
               (LET n == FieldValueLen(b, j, tg.num, tg.wt, 10000) IN IF n < 0 THEN Bad(m) ELSE DecMset(t, b, j + n, m, d, o))
            ELSE LET it == DecItem(b, j, 0, <<>>) IN
                 IF ~it.ok THEN Bad(m)
                 ELSE IF it.tid = 0 THEN DecMset(t, b, it.j, m, d, o)
                 ELSE LET fd == FieldOf(t, it.tid) IN
                      IF fd.kind = "message" /\ fd.card # "rep" THEN
                         (IF d < 1 THEN Bad(m)
                          ELSE LET base == IF Has(m, it.tid) THEN Get(m, it.tid).m ELSE EmptyMsg
                                   sub == DecFields(fd.msg, it.msg, 1, 0, base, d - 1, o)
                               IN IF ~sub.ok THEN Bad(m) ELSE DecMset(t, b, it.j, Put(m, it.tid, [m |-> sub.m]), d, o))
                      ELSE DecMset(t, b, it.j, IF o.discard THEN m ELSE AddU(m, it.tid, 2, EncBytes(it.msg)), d, o)

\* Decode(t, b, m0, limit, discard): top level; limit = RecursionLimit (levels of messages incl. the top one)
Decode(t, b, m0, limit, discard) ==
  IF limit < 1 THEN Bad(m0)
  ELSE DecFields(t, b, 1, 0, m0, limit - 1, [discard |-> discard])

\* ------------------------------------------------------------------ predicates on values
RECURSIVE Initialized(_, _), InitV(_, _), Utf8OK(_, _), Utf8V(_, _)
AllOf(s, P(_)) == \A i \in 1..Len(s) : P(s[i])
InitV(fd, v) ==
  IF ~IsMsgKind(fd.kind) THEN TRUE
  ELSE IF "m" \in DOMAIN v THEN Initialized(fd.msg, v.m)
  ELSE IF "l" \in DOMAIN v THEN \A i \in 1..Len(v.l) : Initialized(fd.msg, v.l[i].m)
  ELSE TRUE
Initialized(t, m) ==
  /\ \A n \in DOMAIN Idx[t] : Idx[t][n].card = "req" => Has(m, n)
  /\ \A i \in 1..Len(m.f) :
        LET fd == FieldOf(t, m.f[i][1])  v == m.f[i][2] IN
        IF fd.ismap THEN (LET vf == FieldOf(fd.msg, 2) IN
                          IsMsgKind(vf.kind) => \A e \in 1..Len(v.p) : Initialized(vf.msg, v.p[e][2].m))
        ELSE InitV(fd, v)

\* every string that requires validation holds well-formed UTF-8
Utf8V(fd, v) ==
  IF IsMsgKind(fd.kind) THEN
       (IF "m" \in DOMAIN v THEN Utf8OK(fd.msg, v.m) ELSE \A i \in 1..Len(v.l) : Utf8OK(fd.msg, v.l[i].m))
  ELSE IF ~fd.utf8 THEN TRUE
  ELSE IF "s" \in DOMAIN v THEN ValidUTF8(v.s)
  ELSE \A i \in 1..Len(v.l) : ValidUTF8(v.l[i].s)
Utf8OK(t, m) ==
  \A i \in 1..Len(m.f) :
     LET fd == FieldOf(t, m.f[i][1])  v == m.f[i][2] IN
     IF fd.ismap THEN (LET kf == FieldOf(fd.msg, 1)  vf == FieldOf(fd.msg, 2) IN
                       \A e \in 1..Len(v.p) : Utf8V(kf, v.p[e][1]) /\ Utf8V(vf, v.p[e][2]))
     ELSE Utf8V(fd, v)

\* ------------------------------------------------------------------ merge (proto.Merge(dst, src))
RECURSIVE MergeMsg(_, _, _), MergeFrom(_, _, _, _), MergeMap(_, _, _, _)
MergeMap(m, n, ps, i) == IF i > Len(ps) THEN m ELSE MergeMap(MapPut(m, n, ps[i][1], ps[i][2]), n, ps, i + 1)
MergeFrom(t, dst, src, i) ==
  IF i > Len(src.f) THEN dst
  ELSE LET n == src.f[i][1]  v == src.f[i][2]  fd == FieldOf(t, n) IN
       MergeFrom(t,
         (IF fd.ismap THEN MergeMap(dst, n, v.p, 1)
          ELSE IF fd.card = "rep" THEN AppendList(dst, n, v.l)
          ELSE IF IsMsgKind(fd.kind) THEN
               (LET d1 == ClearSiblings(t, dst, fd)
                    base == IF Has(d1, n) THEN Get(d1, n).m ELSE EmptyMsg
                IN Put(d1, n, [m |-> MergeMsg(fd.msg, base, v.m)]))
          ELSE Put(ClearSiblings(t, dst, fd), n, v)),
         src, i + 1)
MergeMsg(t, dst, src) == LET d == MergeFrom(t, dst, src, 1) IN [d EXCEPT !.u = @ \o src.u]

\* ------------------------------------------------------------------ equality (proto.Equal)
RECURSIVE EqMsg(_, _, _), EqV(_, _, _)
EqV(fd, a, b) ==
  IF "m" \in DOMAIN a THEN ("m" \in DOMAIN b /\ EqMsg(fd.msg, a.m, b.m))
  ELSE IF "l" \in DOMAIN a THEN ("l" \in DOMAIN b /\ Len(a.l) = Len(b.l) /\ \A i \in 1..Len(a.l) : EqV(fd, a.l[i], b.l[i]))
  ELSE ("s" \in DOMAIN b /\ ScalarEq(fd.kind, a.s, b.s))
\* unknown fields are compared per field number: the concatenation of that number's records, in order
UOf(u, n) == SelectSeq(u, LAMBDA r : r[1] = n)
EqMsg(t, a, b) ==
  /\ Len(a.f) = Len(b.f)
  /\ \A i \in 1..Len(a.f) :
        /\ a.f[i][1] = b.f[i][1]
        /\ LET fd == FieldOf(t, a.f[i][1])  x == a.f[i][2]  y == b.f[i][2] IN
           IF fd.ismap THEN (LET vf == FieldOf(fd.msg, 2) IN
                             /\ Len(x.p) = Len(y.p)
                             /\ \A e \in 1..Len(x.p) : x.p[e][1] = y.p[e][1] /\ EqV(vf, x.p[e][2], y.p[e][2]))
           ELSE EqV(fd, x, y)
  /\ LET nums == {a.u[i][1] : i \in 1..Len(a.u)} \cup {b.u[i][1] : i \in 1..Len(b.u)} IN
     \A n \in nums : UOf(a.u, n) = UOf(b.u, n)

\* ------------------------------------------------------------------ projection form
\* The harness projects unknown fields as the raw bytes GetUnknown returns; records are recovered by parsing
\* (which also normalises non-minimal tags, the only difference between fast-path and reflection storage).
RECURSIVE ParseU(_, _, _)
ParseU(b, i, acc) ==
  IF i > Len(b) THEN acc
  ELSE LET tg == TagAt(b, i) IN
       IF tg.n < 0 THEN Append(acc, <<0, 0, SubSeq(b, i, Len(b))>>)     \* unparsable remainder is kept visible
       ELSE LET n == FieldValueLen(b, i + tg.n, tg.num, tg.wt, 10000) IN
            IF n < 0 THEN Append(acc, <<0, 0, SubSeq(b, i, Len(b))>>)
            ELSE ParseU(b, i + tg.n + n, Append(acc, <<tg.num, tg.wt, NormVal(tg.wt, SubSeq(b, i + tg.n, i + tg.n + n - 1))>>))
RECURSIVE FromProj(_), FromProjV(_)
FromProjV(v) == IF "m" \in DOMAIN v THEN [m |-> FromProj(v.m)]
                ELSE IF "l" \in DOMAIN v THEN [l |-> [i \in 1..Len(v.l) |-> FromProjV(v.l[i])]]
                ELSE IF "p" \in DOMAIN v THEN [p |-> [i \in 1..Len(v.p) |-> <<FromProjV(v.p[i][1]), FromProjV(v.p[i][2])>>]]
                ELSE v
FromProj(pm) == [f |-> [i \in 1..Len(pm.f) |-> <<pm.f[i][1], FromProjV(pm.f[i][2])>>], u |-> ParseU(pm.u, 1, <<>>)]
\* canonical raw form of unknown records: minimal tag + value (what the fast path stores)
RECURSIVE RawU(_, _)
RawU(u, i) == IF i > Len(u) THEN <<>> ELSE EncTag(u[i][1], u[i][2]) \o u[i][3] \o RawU(u, i + 1)
RECURSIVE ToProj(_), ToProjV(_)
ToProjV(v) == IF "m" \in DOMAIN v THEN [m |-> ToProj(v.m)]
              ELSE IF "l" \in DOMAIN v THEN [l |-> [i \in 1..Len(v.l) |-> ToProjV(v.l[i])]]
              ELSE IF "p" \in DOMAIN v THEN [p |-> [i \in 1..Len(v.p) |-> <<ToProjV(v.p[i][1]), ToProjV(v.p[i][2])>>]]
              ELSE v
ToProj(m) == [f |-> [i \in 1..Len(m.f) |-> <<m.f[i][1], ToProjV(m.f[i][2])>>], u |-> RawU(m.u, 1)]

\* ------------------------------------------------------------------ encoding (a canonical one: number order, unknown last)
\* Used for specification-level laws (Decode(Encode(m)) = m, merge = concatenation) and to produce wire
\* inputs; the implementation's own byte order is not prescribed by any property and is never compared.
EncScalarVal(kind, b) ==
  CASE kind \in {"int32", "enum"} -> EncVarint(SignExt(b, 8))
    [] kind = "uint32" -> EncVarint(Trunc(b, 8))
    [] kind = "sint32" -> EncVarint(ZigZagEnc32(b))
    [] kind \in {"int64", "uint64"} -> EncVarint(b)
    [] kind = "sint64" -> EncVarint(ZigZagEnc64(b))
    [] kind = "bool" -> b
    [] kind \in Fixed32Kinds \cup Fixed64Kinds -> b
    [] OTHER -> EncBytes(b)              \* string, bytes
RECURSIVE Encode(_, _), EncField(_, _), EncList(_, _, _), EncPacked(_, _, _), EncMap(_, _, _), EncFields(_, _, _)
EncSingle(fd, v) ==
  IF fd.kind = "group" THEN EncTag(fd.num, 3) \o Encode(fd.msg, v.m) \o EncTag(fd.num, 4)
  ELSE IF fd.kind = "message" THEN EncTag(fd.num, 2) \o EncBytes(Encode(fd.msg, v.m))
  ELSE EncTag(fd.num, WireOf(fd.kind)) \o EncScalarVal(fd.kind, v.s)
EncList(fd, l, i) == IF i > Len(l) THEN <<>> ELSE EncSingle(fd, l[i]) \o EncList(fd, l, i + 1)
EncPacked(fd, l, i) == IF i > Len(l) THEN <<>> ELSE EncScalarVal(fd.kind, l[i].s) \o EncPacked(fd, l, i + 1)
EncMap(fd, ps, i) ==
  IF i > Len(ps) THEN <<>>
  ELSE LET kf == FieldOf(fd.msg, 1)  vf == FieldOf(fd.msg, 2) IN
       EncTag(fd.num, 2) \o EncBytes(EncSingle(kf, ps[i][1]) \o EncSingle(vf, ps[i][2])) \o EncMap(fd, ps, i + 1)
EncField(fd, v) ==
  IF fd.ismap THEN EncMap(fd, v.p, 1)
  ELSE IF fd.card = "rep" THEN
       (IF fd.packed /\ fd.kind \in NumericKinds THEN EncTag(fd.num, 2) \o EncBytes(EncPacked(fd, v.l, 1))
        ELSE EncList(fd, v.l, 1))
  ELSE EncSingle(fd, v)
EncFields(t, fs, i) == IF i > Len(fs) THEN <<>> ELSE EncField(FieldOf(t, fs[i][1]), fs[i][2]) \o EncFields(t, fs, i + 1)
\* MessageSet: every (message) extension and every unknown length-delimited record becomes an item
RECURSIVE EncMsetFields(_, _, _), EncMsetU(_, _)
MsetItem(tid, payload) == EncTag(1, 3) \o EncTag(2, 0) \o EncVarint(FromNat8(tid)) \o EncTag(3, 2) \o EncBytes(payload) \o EncTag(1, 4)
EncMsetFields(t, fs, i) ==
  IF i > Len(fs) THEN <<>>
  ELSE MsetItem(fs[i][1], Encode(FieldOf(t, fs[i][1]).msg, fs[i][2].m)) \o EncMsetFields(t, fs, i + 1)
EncMsetU(u, i) ==
  IF i > Len(u) THEN <<>>
  ELSE (IF u[i][2] = 2 THEN MsetItem(u[i][1], BytesAt(u[i][3], 1).p) ELSE <<>>) \o EncMsetU(u, i + 1)
Encode(t, m) == IF Schema[t].mset THEN EncMsetFields(t, m.f, 1) \o EncMsetU(m.u, 1)
                ELSE EncFields(t, m.f, 1) \o RawU(m.u, 1)
=============================================================================
