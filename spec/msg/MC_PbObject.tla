---------------------------- MODULE MC_PbObject ----------------------------
(***************************************************************************)
(* Exhaustive bounded histories of the object machine (PbObject) over a    *)
(* sub-view of a REAL message type: the constants select field numbers of  *)
(* the exported schema, so every TLC state is realisable on the generated  *)
(* open / hybrid / opaque types and on dynamicpb.                          *)
(*                                                                         *)
(* TLC checks, in every reachable state, the specification-level laws      *)
(*   WellFormed     canonical form, oneof exclusivity, implicit-presence   *)
(*                  zeros never stored (C11, C12)                          *)
(*   RoundTripLaw   Decode(Encode(m)) = m               (C03)              *)
(*   MergeIsConcat  Decode(Encode(a) ++ Encode(b)) = Merge(a, b)  (C07)    *)
(*   EqLaws         Eq reflexive and symmetric, Eq(a, b) => same canonical *)
(*                  encoding up to +-0                  (C30, C05)         *)
(*   InitLaw        Initialized is monotone under Merge (C10)              *)
(* and emits every transition as a tour line: the BFS-shortest history     *)
(* reaching the source state, the step, and the expected projection of all *)
(* objects plus the step's result.                                         *)
(***************************************************************************)
EXTENDS PbObject, FiniteSets

CONSTANTS Type,        \* full name of the message type in Schema
          Fields,      \* field numbers of Type that the histories touch
          NestAt,      \* a singular message field of Type (0 = none): steps also address fields inside it
          NestFields,  \* field numbers inside NestAt's message type
          Global,      \* enabled whole-object operations, subset of {"reset","rt","merge","clone","equal","checkinit"}
          MaxSteps,
          NObj,
          BadUtf8,     \* TRUE: string values also include ill-formed UTF-8 (C13)
          WireRecs,    \* wire records (byte strings); "uwire" steps unmarshal every concatenation of up to MaxRecs of them (C17)
          MaxRecs,
          WireLimits   \* recursion limits used by "uwire" steps (0 = default)

VARIABLES objs, hist,
          cache       \* implementation-shaped observation state (C16): per object the size that Size/Marshal last cached for it
\* a second implementation-shaped observation: per object, the fields whose container was populated and then emptied
\* in place (list Truncate(0), map Clear of the last key): the abstract content is "absent", but the implementation
\* keeps an empty container / extension entry around, which later operations (Equal, Merge, Marshal) must ignore
VARIABLE residue
\* a third one: the input a message was lazily decoded from (and with which options), until its next mutation: default
\* marshaling copies still-deferred submessages from that retained buffer, so two histories reaching the same abstract
\* content from different inputs are different implementation states and both must be toured (C17, C09, C04)
VARIABLE lazysrc
\* a fourth one: which pairs of objects are related by Clone / Merge (the only operations that could make two objects
\* share memory): equal contents reached with and without such a relation are different implementation states (C14)
VARIABLE kin
vars == <<objs, hist, cache, residue, lazysrc, kin>>

One4 == <<1, 0, 0, 0>>
One8 == <<1, 0, 0, 0, 0, 0, 0, 0>>
Vals(fd) ==
  CASE fd.kind \in {"int32", "sint32", "sfixed32"} -> {[s |-> Zeros(4)], [s |-> One4], [s |-> <<255, 255, 255, 255>>]}
    [] fd.kind \in {"uint32", "fixed32", "enum"} -> {[s |-> Zeros(4)], [s |-> One4]}
    [] fd.kind = "float" -> {[s |-> Zeros(4)], [s |-> <<0, 0, 0, 128>>], [s |-> <<0, 0, 128, 63>>]}
    [] fd.kind \in {"int64", "sint64", "sfixed64", "uint64", "fixed64"} -> {[s |-> Zeros(8)], [s |-> One8]}
    [] fd.kind = "double" -> {[s |-> Zeros(8)], [s |-> <<0, 0, 0, 0, 0, 0, 0, 128>>], [s |-> <<0, 0, 0, 0, 0, 0, 240, 63>>]}
    [] fd.kind = "bool" -> {[s |-> <<0>>], [s |-> <<1>>]}
    [] fd.kind = "string" -> {[s |-> <<>>], [s |-> <<97>>]} \cup
                             (IF BadUtf8 THEN {[s |-> <<128>>], [s |-> <<237, 160, 128>>], [s |-> <<195, 169>>], [s |-> <<240, 159, 152>>]} ELSE {})
    [] fd.kind = "bytes" -> {[s |-> <<>>], [s |-> <<0>>]} \cup (IF BadUtf8 THEN {[s |-> <<255>>]} ELSE {})
    [] OTHER -> {[m |-> EmptyMsg]}
KeyVals(fd) == IF fd.kind = "bool" THEN {[s |-> <<0>>], [s |-> <<1>>]}
               ELSE IF fd.kind = "string" THEN {[s |-> <<>>], [s |-> <<97>>]} \cup (IF BadUtf8 THEN {[s |-> <<128>>]} ELSE {})
               ELSE {[s |-> DefaultKey(fd.kind)], [s |-> [DefaultKey(fd.kind) EXCEPT ![1] = 1]]}

\* the mutation steps that address field n of message type t at path at, on object o
FieldSteps(o, at, t, n) ==
  LET fd == FieldOf(t, n)
      base == [o |-> o, at |-> at, f |-> n]
  IN IF fd.ismap THEN
          {base @@ [op |-> "mset", k |-> k, v |-> v] : k \in KeyVals(FieldOf(fd.msg, 1)), v \in Vals(FieldOf(fd.msg, 2))}
          \cup {base @@ [op |-> "mdel", k |-> k] : k \in KeyVals(FieldOf(fd.msg, 1))}
     ELSE IF fd.card = "rep" THEN
          {base @@ [op |-> "app", v |-> v] : v \in Vals(fd)} \cup {base @@ [op |-> "trunc", n |-> 0]}
     ELSE {base @@ [op |-> "set", v |-> v] : v \in Vals(fd)} \cup {base @@ [op |-> "clear"]}
          \cup (IF IsMsgKind(fd.kind) THEN {base @@ [op |-> "mut"]} ELSE {})

Objs == 0..(NObj - 1)
\* deletion sets for schema evolution, as ascending sequences (JSON arrays)
EvoDels == {<<n>> : n \in Fields} \cup {x \in {<<a, b>> : a, b \in Fields} : x[1] < x[2]}
\* every concatenation of 1..MaxRecs wire records
RECURSIVE Concats(_)
Concats(n) == IF n = 0 THEN {<<>>} ELSE {x \o y : x \in WireRecs, y \in Concats(n - 1)} \cup Concats(n - 1)
WireInputs == Concats(MaxRecs) \ {<<>>}
\* unknown-field payloads: a varint, a length-delimited, a fixed32 and a group record on numbers no corpus type knows
UnknownSets == {<<192, 196, 7, 1>>, <<194, 196, 7, 2, 8, 1>>, <<197, 196, 7, 1, 2, 3, 4, 192, 196, 7, 0>>, <<195, 196, 7, 8, 5, 196, 196, 7>>}
\* malformed inputs: truncated tag/varint, truncated length, bad wire type, field number 0, stray end group
BadInputs == {<<8>>, <<10, 5, 1>>, <<15>>, <<0, 0>>, <<12>>, <<8, 255, 255, 255, 255, 255, 255, 255, 255, 255, 2>>}
Steps ==
  UNION {FieldSteps(o, <<>>, Type, n) : o \in Objs, n \in Fields}
  \cup (IF NestAt = 0 THEN {} ELSE UNION {FieldSteps(o, <<NestAt>>, FieldOf(Type, NestAt).msg, n) : o \in Objs, n \in NestFields})
  \cup (IF "reset" \in Global THEN {[op |-> "reset", o |-> o] : o \in Objs} ELSE {})
  \cup (IF "checkinit" \in Global THEN {[op |-> "checkinit", o |-> o] : o \in Objs} ELSE {})
  \cup UNION {{s \in {[op |-> g, o |-> a, o2 |-> b] : a, b \in Objs} : s.o # s.o2} : g \in Global \cap {"merge", "clone", "equal"}}
  \cup (IF "setu" \in Global THEN {[op |-> "setu", o |-> o, at |-> <<>>, u |-> u] : o \in Objs, u \in UnknownSets}
                                  \cup (IF NestAt = 0 THEN {} ELSE {[op |-> "setu", o |-> o, at |-> <<NestAt>>, u |-> u] : o \in Objs, u \in UnknownSets})
        ELSE {})
  \cup (IF "marshal" \in Global THEN {[op |-> "marshal", o |-> o, det |-> d, partial |-> FALSE] : o \in Objs, d \in BOOLEAN} ELSE {})
  \cup (IF "uenc" \in Global    \* Unmarshal (required fields checked) of the canonical encoding of another object's content
        THEN {s \in {[op |-> "unmarshal", o |-> a, o2 |-> b, b |-> Encode(Type, objs[b + 1]), merge |-> g, partial |-> FALSE,
                      discard |-> FALSE, nolazy |-> z, limit |-> 0] : a, b \in Objs, g \in BOOLEAN, z \in BOOLEAN} :
                 s.o # s.o2 /\ ~IsDirty(objs[s.o2 + 1])}
        ELSE {})
  \cup (IF "udisc" \in Global
        THEN {s \in {[op |-> "unmarshal", o |-> a, o2 |-> b, b |-> Encode(Type, objs[b + 1]), merge |-> FALSE, partial |-> TRUE,
                      discard |-> TRUE, nolazy |-> z, limit |-> 0] : a, b \in Objs, z \in BOOLEAN} :
                 s.o # s.o2 /\ ~IsDirty(objs[s.o2 + 1])}
        ELSE {})
  \cup (IF "ubad" \in Global
        THEN {[op |-> "unmarshal", o |-> a, b |-> x, merge |-> g, partial |-> TRUE, discard |-> FALSE, nolazy |-> FALSE, limit |-> 0] :
                 a \in Objs, x \in BadInputs, g \in BOOLEAN}
        ELSE {})
  \cup (IF "uwire" \in Global
        THEN {[op |-> "unmarshal", o |-> a, b |-> x, merge |-> g, partial |-> pp, discard |-> dd, nolazy |-> z, limit |-> lm] :
                 a \in (IF "uwall" \in Global THEN Objs ELSE {0}), x \in WireInputs,
                 g \in (IF "uwmerge" \in Global THEN BOOLEAN ELSE {FALSE}), z \in BOOLEAN, lm \in WireLimits,
                 dd \in (IF "uwdisc" \in Global THEN BOOLEAN ELSE {FALSE}),
                 \* "uwstrict": also without AllowPartial (the required check makes the lazy decoder take other paths)
                 pp \in (IF "uwstrict" \in Global THEN BOOLEAN ELSE {TRUE})}
        ELSE {})
  \cup (IF "evo" \in Global     \* every deletion of one or two of the touched top-level fields
        THEN {s \in {[op |-> "evo", o |-> a, o2 |-> b, del |-> d, det |-> FALSE] : a, b \in Objs, d \in EvoDels} : s.o # s.o2}
        ELSE {})
  \cup (IF "size" \in Global THEN {[op |-> "size", o |-> o, det |-> FALSE] : o \in Objs} ELSE {})
  \* "touch": a read-only access to the submessage at NestAt (a getter: it makes a deferred lazy field decode, nothing else);
  \* "marshalc": Size, then reading every field, then Marshal{UseCachedSize} - nothing was changed in between, so the cached
  \* sizes may be used and the outcome must be that of Marshal (C16; K1)
  \cup (IF "touch" \in Global /\ NestAt # 0 THEN {[op |-> "touch", o |-> o, at |-> <<NestAt>>] : o \in Objs} ELSE {})
  \cup (IF "marshalc" \in Global THEN {[op |-> "marshalc", o |-> o, det |-> d, partial |-> TRUE] : o \in Objs, d \in BOOLEAN} ELSE {})
  \cup (IF "scribble" \in Global THEN {[op |-> "scribble", o |-> o] : o \in Objs} ELSE {})
  \cup (IF "umerge" \in Global THEN {s \in {[op |-> "umerge", o |-> a, o2 |-> b, nolazy |-> z] : a, b \in Objs, z \in BOOLEAN} : s.o # s.o2} ELSE {})
  \cup (IF "cat" \in Global /\ NObj >= 3
        THEN {[op |-> "cat", o |-> 0, o2 |-> 1, o3 |-> 2, det |-> d, nolazy |-> z] : d \in BOOLEAN, z \in BOOLEAN} ELSE {})
  \cup (IF "rt" \in Global
        THEN {s \in {[op |-> "rt", o |-> a, o2 |-> b, det |-> d, nolazy |-> z] : a, b \in Objs, d \in BOOLEAN, z \in BOOLEAN} : s.o # s.o2}
        ELSE {})

\* which objects have their serialized size computed (and cached) by the step / which are mutated by it
Sizes(s) == IF s.op \in {"size", "rt", "cat", "marshal"} THEN {s.o + 1} \cup (IF s.op = "cat" THEN {s.o2 + 1} ELSE {})
            ELSE IF s.op = "umerge" THEN {s.o2 + 1} ELSE {}
Mutates(s) == IF s.op \in MutOps \cup {"reset", "merge", "umerge", "scribble", "unmarshal"} THEN {s.o + 1}
              ELSE IF s.op \in {"rt", "clone", "evo"} THEN {s.o2 + 1}
              ELSE IF s.op = "cat" THEN {s.o3 + 1} ELSE {}
\* the size cached for an object: the length of its encoding when Size / Marshal last ran on it (-1: nothing cached).
\* A later mutation leaves the cached number in place, so a state remembers WHICH stale size the implementation holds:
\* histories whose cached size differs from the current one are distinct states and are all toured.
NextCache(s) == [i \in 1..NObj |->
                   IF i \in Sizes(s) /\ ~IsDirty(objs[i]) /\ Utf8OK(Type, objs[i]) THEN Len(Encode(Type, objs[i]))
                   ELSE IF i \in Mutates(s) /\ s.op \notin MutOps THEN -1
                   ELSE cache[i]]
TopOp(s) == s.op \in {"trunc", "mdel"} /\ s.at = <<>>
NextResidue(s, post) ==
  [i \in 1..NObj |->
     IF s.op \in MutOps /\ i = s.o + 1 /\ "f" \in DOMAIN s /\ s.at = <<>> THEN
          (IF TopOp(s) /\ ~Has(post[i], s.f) THEN residue[i] \cup {s.f}
           ELSE IF Has(post[i], s.f) THEN residue[i] \ {s.f} ELSE residue[i])
     ELSE IF i \in Mutates(s) /\ s.op \notin MutOps THEN {}       \* whole-object replacement forgets residues
     ELSE residue[i]]
NextLazySrc(s) ==
  [i \in 1..NObj |->
     IF s.op = "unmarshal" /\ i = s.o + 1 THEN (IF s.nolazy THEN <<>> ELSE <<s.b, s.discard, s.merge, lazysrc[i]>>)
     ELSE IF i \in Mutates(s) THEN <<>> ELSE lazysrc[i]]
NextKin(s) ==
  LET fresh == IF s.op \in {"reset"} \/ (s.op = "unmarshal" /\ ~s.merge) THEN {s.o + 1}
               ELSE IF s.op \in {"rt", "cat"} THEN {IF s.op = "rt" THEN s.o2 + 1 ELSE s.o3 + 1} ELSE {}
      kept == {p \in kin : p \cap fresh = {}}
  IN IF s.op = "clone" THEN {p \in kept : (s.o2 + 1) \notin p} \cup {{s.o + 1, s.o2 + 1}}
     ELSE IF s.op = "merge" THEN kept \cup {{s.o + 1, s.o2 + 1}}
     ELSE kept
Init == /\ objs = InitObjs(NObj) /\ hist = <<>> /\ cache = [i \in 1..NObj |-> -1] /\ residue = [i \in 1..NObj |-> {}]
        /\ lazysrc = [i \in 1..NObj |-> <<>>] /\ kin = {}
Next == /\ Len(hist) < MaxSteps
        /\ \E s \in Steps : /\ objs' = Apply(Type, objs, s) /\ hist' = Append(hist, s) /\ cache' = NextCache(s)
                          /\ residue' = NextResidue(s, Apply(Type, objs, s))
                          /\ lazysrc' = NextLazySrc(s) /\ kin' = NextKin(s)
View == <<objs, cache, residue, lazysrc, kin>>

\* ---- expected observation of the last step
ExpResult(s, pre) ==
  LET cur == pre[s.o + 1] IN
  CASE s.op = "equal" -> EqMsg(Type, cur, pre[s.o2 + 1])
    [] s.op = "checkinit" -> Initialized(Type, cur)
    [] s.op = "rt" -> IF Utf8OK(Type, cur) THEN "" ELSE "utf8"
    [] s.op = "cat" -> IF Utf8OK(Type, cur) /\ Utf8OK(Type, pre[s.o2 + 1]) THEN "" ELSE "utf8"
    [] s.op = "umerge" -> IF Utf8OK(Type, pre[s.o2 + 1]) THEN "" ELSE "utf8"
    [] s.op = "evo" -> IF ~Utf8OK(Type, cur) THEN <<"utf8", TRUE, FALSE>>
                       ELSE <<"", TRUE, OldReaderHasUnknown(Type, cur, s.del)>>
    [] s.op = "unmarshal" -> UnmarshalErr(Type, cur, s)
    [] OTHER -> 0
\* the size of a message is the length of (any) encoding of its content: the canonical one is as long as any other
ExpSize(s, pre) == Len(Encode(Type, pre[s.o + 1]))
Emit == LET s == hist'[Len(hist')]
            common == [lobjs |-> [i \in 1..NObj |-> ToProj(objs'[i])], chk |-> ""]
        IN PrintT("@@" \o ToJson([type |-> Type, dyn |-> FALSE, nobj |-> NObj, lastonly |-> TRUE, steps |-> hist',
                                  exp |-> IF Skipped(objs, s) THEN common
                                          ELSE IF s.op = "size" THEN
                                               \* documented exception (C04): a message that may still hold lazily decoded, possibly
                                               \* non-minimal raw segments need only satisfy Size >= len(Marshal) (checked on traces)
                                               (IF \E k \in 1..Len(hist) : "nolazy" \in DOMAIN hist[k] /\ ~hist[k].nolazy THEN common
                                                ELSE common @@ [lsize |-> ExpSize(s, objs)])
                                          ELSE IF s.op \in {"marshal", "marshalc"} THEN common @@ [lerr |-> MarshalErr(Type, objs[s.o + 1], s)]
                                          ELSE common @@ [lr |-> ExpResult(s, objs)]]))

\* ---- specification-level laws
RECURSIVE WellFormed(_, _)
WellFormedV(fd, v) ==
  IF IsMsgKind(fd.kind) THEN
       (IF "m" \in DOMAIN v THEN WellFormed(fd.msg, v.m) ELSE Len(v.l) > 0 /\ \A i \in 1..Len(v.l) : WellFormed(fd.msg, v.l[i].m))
  ELSE IF "l" \in DOMAIN v THEN Len(v.l) > 0
  ELSE ~(~fd.pres /\ fd.card # "rep" /\ IsZeroV(fd, v))           \* an implicit-presence zero is never stored
WellFormed(t, m) ==
  /\ \A i \in 1..(Len(m.f) - 1) : m.f[i][1] < m.f[i + 1][1]
  /\ \A i \in 1..Len(m.f) :
        LET fd == FieldOf(t, m.f[i][1])  v == m.f[i][2] IN
        /\ fd.kind # "none"
        /\ (IF fd.ismap THEN Len(v.p) > 0 /\ \A e \in 1..(Len(v.p) - 1) : KeyLess(v.p[e][1].s, v.p[e + 1][1].s)
            ELSE WellFormedV(fd, v))
        \* at most one member of a oneof is populated
        /\ (fd.oneof # 0 => \A j \in 1..Len(m.f) : (j # i => FieldOf(t, m.f[j][1]).oneof # fd.oneof))
AllWellFormed == \A i \in 1..NObj : IsDirty(objs[i]) \/ WellFormed(Type, objs[i])

RoundTripLaw == \A i \in 1..NObj :
                  (~IsDirty(objs[i]) /\ Utf8OK(Type, objs[i])) =>
                    LET d == Decode(Type, Encode(Type, objs[i]), EmptyMsg, 100, FALSE) IN d.ok /\ d.m = objs[i]
Clean(i) == ~IsDirty(objs[i]) /\ Utf8OK(Type, objs[i])
MergeIsConcat == NObj < 2 \/ ~(Clean(1) /\ Clean(2)) \/
                 LET a == objs[1]  b == objs[2]
                     d == Decode(Type, Encode(Type, a) \o Encode(Type, b), EmptyMsg, 100, FALSE)
                 IN d.ok /\ d.m = MergeMsg(Type, a, b)
\* UnmarshalOptions{Merge: true} into a = Merge(a, Unmarshal(b))
MergeOptionLaw == NObj < 2 \/ ~(Clean(1) /\ Clean(2)) \/
                  LET a == objs[1]  b == objs[2]
                      d == Decode(Type, Encode(Type, b), a, 100, FALSE)
                  IN d.ok /\ d.m = MergeMsg(Type, a, b)
Live == {i \in 1..NObj : ~IsDirty(objs[i])}
EqLaws == /\ \A i \in Live : EqMsg(Type, objs[i], objs[i])
          /\ \A i, j \in Live : EqMsg(Type, objs[i], objs[j]) = EqMsg(Type, objs[j], objs[i])
          /\ \A i, j \in Live : objs[i] = objs[j] => EqMsg(Type, objs[i], objs[j])
          /\ \A i, j, k \in Live : (EqMsg(Type, objs[i], objs[j]) /\ EqMsg(Type, objs[j], objs[k])) => EqMsg(Type, objs[i], objs[k])
\* identical canonical encodings imply equality (the direction documented on proto.Equal)
DetInjective == \A i, j \in Live : Encode(Type, objs[i]) = Encode(Type, objs[j]) => EqMsg(Type, objs[i], objs[j])
\* discarding unknown fields leaves no unknown field anywhere in the tree and keeps every known field (C09)
RECURSIVE NoUnknown(_, _)
NoUnknown(t, m) ==
  /\ m.u = <<>>
  /\ \A i \in 1..Len(m.f) :
        LET fd == FieldOf(t, m.f[i][1])  v == m.f[i][2] IN
        IF fd.ismap THEN (IsMsgKind(FieldOf(fd.msg, 2).kind) => \A e \in 1..Len(v.p) : NoUnknown(FieldOf(fd.msg, 2).msg, v.p[e][2].m))
        ELSE IF ~IsMsgKind(fd.kind) THEN TRUE
        ELSE IF "m" \in DOMAIN v THEN NoUnknown(fd.msg, v.m) ELSE \A k \in 1..Len(v.l) : NoUnknown(fd.msg, v.l[k].m)
DiscardLaw == \A i \in 1..NObj : Clean(i) =>
                LET d == Decode(Type, Encode(Type, objs[i]), EmptyMsg, 100, TRUE) IN d.ok /\ NoUnknown(Type, d.m)
\* schema evolution commutes: for every set of deleted top-level fields, what an old reader holds (SubView) re-encodes to
\* bytes that the full schema decodes to the original message
EvolutionLaw == \A i \in 1..NObj : Clean(i) =>
                  \A ds \in EvoDels \cup {<<>>} :
                     LET del == {ds[k] : k \in 1..Len(ds)}
                         d == Decode(Type, Encode(Type, SubView(Type, objs[i], del)), EmptyMsg, 100, FALSE)
                     IN d.ok /\ d.m = objs[i]
InitLaw == NObj < 2 \/ ~(Clean(1) /\ Clean(2)) \/
           (Initialized(Type, objs[1]) /\ Initialized(Type, objs[2]) => Initialized(Type, MergeMsg(Type, objs[1], objs[2])))
=============================================================================
