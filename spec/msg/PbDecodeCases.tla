--------------------------- MODULE PbDecodeCases ---------------------------
(***************************************************************************)
(* C06: one Unmarshal of an arbitrary byte string into a fresh message.    *)
(*   DecExpect(e)  the verdict ("" | "required" | "error") and the decoded *)
(*                 content the specification demands;                     *)
(*   DecAgree(e)   the recorded outcome agrees with it, the result did not *)
(*                 depend on bytes beyond the input, and the fast-path     *)
(*                 validator never contradicts the specification: it may   *)
(*                 answer Unknown, but not Valid for an input the grammar  *)
(*                 rejects, not Invalid for one it accepts, and never      *)
(*                 "initialized" for a partial message.                    *)
(***************************************************************************)
EXTENDS PbObject

DecLimit(e) == IF e.limit = 0 THEN 10000 ELSE e.limit
DecRes(e) == Decode(e.type, e.b, EmptyMsg, DecLimit(e), e.discard)
DecErr(e, r) == IF ~r.ok THEN "error" ELSE IF ~e.partial /\ ~Initialized(e.type, r.m) THEN "required" ELSE ""
DecExpect(e) == LET r == DecRes(e) IN
                [err |-> DecErr(e, r), obj |-> IF r.ok THEN ToProj(r.m) ELSE ToProj(Dirty), bounded |-> TRUE, vok |-> TRUE]
\* "chk" is present when the decoded message breaks the protoreflect contract or, after a FAILED decode, when some
\* operation on the message left behind panics (totality: unspecified content, but every operation returns)
DecAgree(e) ==
  LET r == DecRes(e)  o == e.out IN
  /\ "panic" \notin DOMAIN o
  /\ "chk" \notin DOMAIN o
  /\ o.err = DecErr(e, r)
  /\ FromProj(o.obj) = (IF r.ok THEN r.m ELSE Dirty)
  /\ o.bounded /\ o.vok
  /\ (o.val = "ValidationValid" => r.ok)
  /\ (o.val = "ValidationInvalid" => ~r.ok)
  /\ (o.vinit => (r.ok /\ Initialized(e.type, r.m)))
=============================================================================
