------------------------------ MODULE PbObject ------------------------------
(***************************************************************************)
(* The message *object* machine: a few message objects of one type and the *)
(* operations of the public API on them (protoreflect mutations, Reset,    *)
(* Marshal, Size, Unmarshal with its options, Merge, Clone, Equal,         *)
(* CheckInitialized), as a deterministic transition function on abstract   *)
(* message values (PbCodec).                                               *)
(*                                                                         *)
(*   Apply(t, objs, step)      the objects after the step                  *)
(*   StepOK(t, objs, step, ob) what the property demands of the observed   *)
(*                             result and post-projection ob = [objs, r]   *)
(*                                                                         *)
(* Used by: Trace_PbObject (recorded histories of the real code, one TLC   *)
(* step per history) and MC_PbObject (exhaustive bounded histories over a  *)
(* sub-view of a real schema, emitted as tours).                           *)
(*                                                                         *)
(* Properties expressed here (each as a part of StepOK / Apply):           *)
(*  C03 marshal output decodes (by the spec's Decode) to the content       *)
(*  C04 size = length of the marshal output                                *)
(*  C07 Merge = the merge algebra (and, in MC_PbMerge, = concatenation)    *)
(*  C09 unknown fields preserved in order / discarded                      *)
(*  C10 required verdicts  C11 presence discipline  C12 oneof exclusivity  *)
(*  C13 UTF-8 verdicts     C14 no object changes unless it is the target   *)
(*  C15 non-merge Unmarshal / Reset forget everything                      *)
(*  C16 marshal after any history encodes the current content              *)
(*  C28 reflection mutations follow the abstract model                     *)
(*  C30 Equal = the spec's Eq                                              *)
(***************************************************************************)
EXTENDS PbCodec

\* content unspecified after a failed decode (the harness projects the same marker)
Dirty == [f |-> << <<0, [s |-> <<>>]>> >>, u |-> <<>>]
IsDirty(m) == m = Dirty

\* ---- navigation: "at" is a path of singular message fields, each step is a Mutable
RECURSIVE ApplyAt(_, _, _, _, _)
\* Leaf(t, m) is the operation on the addressed message, given as a record [op, f, v, ...] interpreted by Mutate
Mutate(t, m, s) ==
  IF s.op = "setu" THEN [m EXCEPT !.u = ParseU(s.u, 1, <<>>)]
  ELSE LET fd == FieldOf(t, s.f) IN
  CASE s.op = "set"   -> SetSingular(t, m, fd, s.v)
    [] s.op = "clear" -> Del(m, s.f)
    [] s.op = "mut"   -> IF Has(ClearSiblings(t, m, fd), s.f) THEN m ELSE Put(ClearSiblings(t, m, fd), s.f, [m |-> EmptyMsg])
    [] s.op = "app"   -> AppendList(m, s.f, <<s.v>>)
    [] s.op = "setl"  -> IF s.v.l = <<>> THEN Del(m, s.f) ELSE Put(m, s.f, s.v)
    [] s.op = "trunc" -> IF ~Has(m, s.f) \/ s.n = 0 THEN Del(m, s.f) ELSE Put(m, s.f, [l |-> SubSeq(Get(m, s.f).l, 1, s.n)])
    [] s.op = "lset"  -> Put(m, s.f, [l |-> [Get(m, s.f).l EXCEPT ![s.i + 1] = s.v]])
    [] s.op = "mset"  -> MapPut(m, s.f, s.k, s.v)
    [] s.op = "mdel"  -> MapDel(m, s.f, s.k)
ApplyAt(t, m, at, k, s) ==
  IF k > Len(at) THEN Mutate(t, m, s)
  ELSE LET fd == FieldOf(t, at[k])
           m1 == ClearSiblings(t, m, fd)
           sub == IF Has(m1, fd.num) THEN Get(m1, fd.num).m ELSE EmptyMsg
       IN Put(m1, fd.num, [m |-> ApplyAt(fd.msg, sub, at, k + 1, s)])

\* in-place overwrite of every bytes value of the tree (the harness flips all bits of the backing arrays)
RECURSIVE Scribble(_, _), ScribbleV(_, _)
FlipB(b) == [i \in 1..Len(b) |-> 255 - b[i]]
ScribbleV(fd, v) ==
  IF "m" \in DOMAIN v THEN [m |-> Scribble(fd.msg, v.m)]
  ELSE IF "l" \in DOMAIN v THEN [l |-> [i \in 1..Len(v.l) |-> ScribbleV(fd, v.l[i])]]
  ELSE IF fd.kind = "bytes" THEN [s |-> FlipB(v.s)] ELSE v
Scribble(t, m) ==
  [m EXCEPT !.f = [i \in 1..Len(m.f) |->
     LET fd == FieldOf(t, m.f[i][1])  v == m.f[i][2] IN
     <<m.f[i][1],
       IF fd.ismap THEN [p |-> [e \in 1..Len(v.p) |-> <<v.p[e][1], ScribbleV(FieldOf(fd.msg, 2), v.p[e][2])>>]]
       ELSE ScribbleV(fd, v)>>]]

\* What a reader that lacks the fields in del holds after decoding Encode(t, m): those fields as unknown records
\* (after the unknown records m already had).  EvolutionLaw (MC_PbObject): decoding its re-encoding with the full schema gives m.
RECURSIVE KeepFields(_, _, _), DelBytes(_, _, _, _)
KeepFields(fs, del, i) == IF i > Len(fs) THEN <<>> ELSE (IF fs[i][1] \in del THEN <<>> ELSE <<fs[i]>>) \o KeepFields(fs, del, i + 1)
DelBytes(t, fs, del, i) == IF i > Len(fs) THEN <<>>
                           ELSE (IF fs[i][1] \in del THEN EncField(FieldOf(t, fs[i][1]), fs[i][2]) ELSE <<>>) \o DelBytes(t, fs, del, i + 1)
SubView(t, m, del) == [f |-> KeepFields(m.f, del, 1), u |-> ParseU(DelBytes(t, m.f, del, 1), 1, <<>>) \o m.u]

\* the derived (old) reader does not know the deleted fields, nor the extensions registered for the original type
OldReaderHasUnknown(t, m, del) ==
  \/ m.u # <<>>
  \/ \E i \in 1..Len(m.f) : (\E k \in 1..Len(del) : del[k] = m.f[i][1]) \/ FieldOf(t, m.f[i][1]).ext

MutOps == {"set", "clear", "mut", "app", "trunc", "lset", "mset", "mdel", "setu", "setl"}
Limit(s) == IF s.limit = 0 THEN 10000 ELSE s.limit

\* literals in steps arrive in projection form
StepV(v) == FromProjV(v)
NormStep(s) == IF "v" \in DOMAIN s THEN [s EXCEPT !.v = StepV(@)] ELSE s

\* result of decoding for an unmarshal step: [ok, m]
UnmarshalRes(t, cur, s) ==
  Decode(t, s.b, IF s.merge THEN cur ELSE EmptyMsg, Limit(s), s.discard)

\* After a failed decode the content of the object is unspecified; the properties then only speak about
\* Reset and a non-merging Unmarshal (C15).  Any other step that would read a dirty object is skipped
\* (the harness skips it on the real object as well).
Skipped(objs, s) ==
  \/ (IsDirty(objs[s.o + 1]) /\ ~(s.op = "reset" \/ (s.op = "unmarshal" /\ ~s.merge)))
  \/ (s.op \in {"merge", "equal", "cat", "umerge"} /\ IsDirty(objs[s.o2 + 1]))

\* the objects after the step (objects are 0-based in steps, 1-based here)
Apply(t, objs, s0) ==
  LET s == NormStep(s0)
      o == s.o + 1
      cur == objs[o]
  IN
  IF Skipped(objs, s0) THEN objs ELSE
  CASE s.op \in MutOps -> [objs EXCEPT ![o] = ApplyAt(t, cur, s.at, 1, s)]
    [] s.op = "reset" -> [objs EXCEPT ![o] = EmptyMsg]
    [] s.op = "unmarshal" ->
         LET r == UnmarshalRes(t, cur, s) IN [objs EXCEPT ![o] = IF r.ok THEN r.m ELSE Dirty]
    [] s.op = "rt" ->
         \* Marshal(o) then Unmarshal into o2: o2 takes o's content unless marshaling fails (invalid UTF-8)
         IF Utf8OK(t, cur) THEN [objs EXCEPT ![s.o2 + 1] = cur] ELSE objs
    [] s.op = "merge" -> [objs EXCEPT ![o] = MergeMsg(t, cur, objs[s.o2 + 1])]
    [] s.op = "clone" -> [objs EXCEPT ![s.o2 + 1] = cur]
    [] s.op = "cat" ->
         \* Unmarshal(Marshal(o) ++ Marshal(o2)) into o3: the merge of the two contents (C07)
         IF Utf8OK(t, cur) /\ Utf8OK(t, objs[s.o2 + 1]) THEN [objs EXCEPT ![s.o3 + 1] = MergeMsg(t, cur, objs[s.o2 + 1])] ELSE objs
    [] s.op = "umerge" ->
         IF Utf8OK(t, objs[s.o2 + 1]) THEN [objs EXCEPT ![o] = MergeMsg(t, cur, objs[s.o2 + 1])] ELSE objs
    [] s.op = "evo" ->
         \* schema evolution: decode the encoding with a reader that lacks the fields in del, re-encode, decode with the full
         \* schema: the same message as decoding directly (unknown fields carry the data through)
         IF Utf8OK(t, cur) THEN [objs EXCEPT ![s.o2 + 1] = cur] ELSE objs
    [] s.op = "scribble" -> [objs EXCEPT ![o] = Scribble(t, cur)]
    [] OTHER -> objs      \* marshal, size, equal, checkinit: read-only

\* the expected result r of a step, where it is a function of the pre-state ("" marks: see StepOK)
MarshalErr(t, m, s) == IF ~Utf8OK(t, m) THEN "utf8" ELSE IF ~s.partial /\ ~Initialized(t, m) THEN "required" ELSE ""
UnmarshalErr(t, cur, s) ==
  LET r == UnmarshalRes(t, cur, s) IN
  IF ~r.ok THEN "error" ELSE IF ~s.partial /\ ~Initialized(t, r.m) THEN "required" ELSE ""

\* ---- what is demanded of one observed step
\* objects: the projection of every object equals the spec's post-state (dirty objects carry the marker on both sides)
\* (a history recorded with "lastonly" projects the objects only after its final step, so that lazily deferred
\* submessages stay deferred in between: steps without a projection are checked on their result only)
ObjsOK(post, ob) == ob.objs = <<>> \/ (Len(ob.objs) = Len(post) /\ \A i \in 1..Len(post) : FromProj(ob.objs[i]) = post[i])

ResultOK(t, objs, s, ob) ==
  LET cur == objs[s.o + 1] IN
  IF Skipped(objs, s) THEN TRUE ELSE
  CASE s.op \in {"marshal", "marshalc"} ->    \* marshalc: Size, read everything, Marshal{UseCachedSize}: same demand as Marshal
         LET e == MarshalErr(t, cur, s) IN
         /\ ob.r.err = e
         /\ (e = "" => LET d == Decode(t, ob.r.b, EmptyMsg, 10000, FALSE) IN d.ok /\ d.m = cur)
    [] s.op = "size" -> ob.r[1] = ob.r[2] \/ (ob.r[3] /\ ob.r[1] >= ob.r[2])
    [] s.op = "unmarshal" -> ob.r = UnmarshalErr(t, cur, s)
    [] s.op = "rt" -> ob.r = (IF Utf8OK(t, cur) THEN "" ELSE "utf8")
    [] s.op = "cat" -> ob.r = (IF Utf8OK(t, cur) /\ Utf8OK(t, objs[s.o2 + 1]) THEN "" ELSE "utf8")
    [] s.op = "umerge" -> ob.r = (IF Utf8OK(t, objs[s.o2 + 1]) THEN "" ELSE "utf8")
    [] s.op = "evo" ->
         IF ~Utf8OK(t, cur) THEN ob.r[1] = "utf8"
         ELSE /\ ob.r[1] = ""
              /\ ob.r[2]                                                     \* DiscardUnknown leaves nothing unknown anywhere
              /\ ob.r[3] = OldReaderHasUnknown(t, cur, s.del)                    \* the old reader keeps what it does not know
    [] s.op = "equal" -> ob.r = EqMsg(t, cur, objs[s.o2 + 1])
    [] s.op = "checkinit" -> ob.r = Initialized(t, cur)
    [] OTHER -> TRUE

StepOK(t, objs, s, ob) == ResultOK(t, objs, s, ob) /\ ObjsOK(Apply(t, objs, s), ob)

\* ---- fold over a history: index of the first bad step, 0 if none; the spec state is re-synchronised
\* from nothing (it is a function of the steps), so one bad step does not hide the following ones... but a
\* wrong post-state usually propagates; the first bad index is what is reported.
RECURSIVE FirstBad(_, _, _, _, _)
FirstBad(t, objs, steps, obs, k) ==
  IF k > Len(steps) THEN 0
  ELSE IF ~StepOK(t, objs, steps[k], obs[k]) THEN k
  ELSE FirstBad(t, Apply(t, objs, steps[k]), steps, obs, k + 1)

InitObjs(n) == [i \in 1..n |-> EmptyMsg]
\* Totality.  What an object holds after a failed decode is unspecified (Dirty), and the steps that would read it are
\* skipped; but an object it remains: every operation on it must RETURN.  The harness runs Clone, Size, Marshal,
\* Range/Get, Equal, Unmarshal{Merge} and Reset on every object the history leaves dirty and reports a panic in "chk"
\* together with the protoreflect-contract findings on the clean ones; "panic" is a panic of a step itself.  (F27: the
\* lazily decoding path left messages behind on which all of these panicked.)
HistoryBad(e) == IF "panic" \in DOMAIN e.out THEN -1
                 ELSE IF e.out.chk # "" THEN -2
                 ELSE FirstBad(e.type, InitObjs(3), e.steps, e.out.obs, 1)
=============================================================================
