---------------------------- MODULE MC_PbDecode ----------------------------
(***************************************************************************)
(* C06, exhaustive part: all byte strings up to MaxLen over a schema-aware *)
(* alphabet for one real message type (single-byte tags with right and     *)
(* wrong wire types, group start/end, lengths, payload and continuation    *)
(* bytes), decoded under every recursion limit in Limits, so that the      *)
(* limit is crossed inside the bound.  One state per string.               *)
(* Spec-level laws: decoding is total (the operator is defined on every    *)
(* string), a prefix-closed failure never turns into success by            *)
(* truncation inside a field... (see Laws), and raising the limit never    *)
(* turns success into failure.                                             *)
(***************************************************************************)
EXTENDS PbDecodeCases, Sequences
CONSTANTS Type, Alphabet, MaxLen, Limits

VARIABLE s
Init == s = <<>>
Next == Len(s) < MaxLen /\ \E c \in Alphabet : s' = Append(s, c)

Case(b, lim) == [type |-> Type, dyn |-> FALSE, b |-> b, limit |-> lim, partial |-> TRUE, discard |-> FALSE, nolazy |-> FALSE]
\* a larger recursion limit accepts at least as much, with the same content
EffLimit(l) == IF l = 0 THEN 10000 ELSE l     \* 0 selects the default limit
LimitMonotone == \A a, c \in Limits : EffLimit(a) < EffLimit(c) =>
                   LET ra == DecRes(Case(s, a))  rc == DecRes(Case(s, c)) IN ra.ok => (rc.ok /\ rc.m = ra.m)
\* the top level message is a sequence of fields: a string that decodes is a concatenation of complete fields,
\* so its decode equals merging the decodes of any split at a field boundary (checked for the first field)
FirstFieldSplit ==
  LET r == DecRes(Case(s, 0))  n == ConsumeField(s, 10000).n IN
  (r.ok /\ n > 0 /\ n < Len(s)) =>
     LET a == Decode(Type, SubSeq(s, 1, n), EmptyMsg, 10000, FALSE)
         b == Decode(Type, SubSeq(s, n + 1, Len(s)), a.m, 10000, FALSE)
     IN a.ok /\ b.ok /\ b.m = r.m
Emit == \A lim \in Limits : \A nl \in BOOLEAN :
          LET e == [Case(s', lim) EXCEPT !.nolazy = nl] IN PrintT("@@" \o ToJson(e @@ [exp |-> DecExpect(e)]))
=============================================================================
