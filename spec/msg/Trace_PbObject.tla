-------------------------- MODULE Trace_PbObject --------------------------
(***************************************************************************)
(* Trace validation of recorded operation histories (module PbObject).     *)
(* One ndjson line = one history on three objects of one message type,     *)
(* executed on the real code (generated fast path, reflection path or      *)
(* dynamicpb) with the projection of every object logged after every step. *)
(* A line is rejected when some step's result or post-projection is not    *)
(* what PbObject demands (first bad step index), when the real code        *)
(* panicked, or when the reflection-contract self-check of the final       *)
(* objects reported an inconsistency.                                      *)
(***************************************************************************)
EXTENDS PbObject, Sequences

Trace == ndJsonDeserialize(IOEnv.TRACE)

VARIABLES l, bad
Init == l = 1 /\ bad = <<>>
Next == /\ l <= Len(Trace)
        /\ bad' = IF HistoryBad(Trace[l]) = 0 THEN bad ELSE Append(bad, l)
        /\ l' = l + 1
        /\ TLCSet(1, <<l + 1, bad'>>)
Accepted == LET r == TLCGet(1) IN
            /\ PrintT("TRACE-RESULT " \o ToJson([done |-> r[1] - 1, total |-> Len(Trace), bad |-> r[2]]))
            /\ r[1] = Len(Trace) + 1
=============================================================================
