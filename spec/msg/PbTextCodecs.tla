---------------------------- MODULE PbTextCodecs ----------------------------
(***************************************************************************)
(* C20 / C24: protojson and prototext round trip of a message content.     *)
(* Neither format carries unknown fields; both must reproduce every known  *)
(* field exactly (floats bit for bit, all NaNs equal; presence; oneof      *)
(* member; list order; map entries; extensions; groups), under every       *)
(* output option.  Marshal may fail only for content the format cannot     *)
(* represent: for the corpus types of this check that is ill-formed UTF-8  *)
(* in a string field (protojson: any string field; prototext: only fields  *)
(* that require UTF-8 validation, other strings are escaped byte-wise).    *)
(* Well-known types with their special JSON forms are C23's subject.       *)
(***************************************************************************)
EXTENDS PbObject

RECURSIVE StripU(_), StripUV(_)
StripUV(v) == IF "m" \in DOMAIN v THEN [m |-> StripU(v.m)]
              ELSE IF "l" \in DOMAIN v THEN [l |-> [i \in 1..Len(v.l) |-> StripUV(v.l[i])]]
              ELSE IF "p" \in DOMAIN v THEN [p |-> [i \in 1..Len(v.p) |-> <<v.p[i][1], StripUV(v.p[i][2])>>]]
              ELSE v
StripU(m) == [f |-> [i \in 1..Len(m.f) |-> <<m.f[i][1], StripUV(m.f[i][2])>>], u |-> <<>>]

\* every string value of the tree (validated or not) is well-formed UTF-8
RECURSIVE AllStringsOK(_, _), StrV(_, _)
StrV(fd, v) ==
  IF IsMsgKind(fd.kind) THEN
       (IF "m" \in DOMAIN v THEN AllStringsOK(fd.msg, v.m) ELSE \A i \in 1..Len(v.l) : AllStringsOK(fd.msg, v.l[i].m))
  ELSE IF fd.kind # "string" THEN TRUE
  ELSE IF "s" \in DOMAIN v THEN ValidUTF8(v.s) ELSE \A i \in 1..Len(v.l) : ValidUTF8(v.l[i].s)
AllStringsOK(t, m) ==
  \A i \in 1..Len(m.f) :
     LET fd == FieldOf(t, m.f[i][1])  v == m.f[i][2] IN
     IF fd.ismap THEN (LET kf == FieldOf(fd.msg, 1)  vf == FieldOf(fd.msg, 2) IN
                       \A e \in 1..Len(v.p) : StrV(kf, v.p[e][1]) /\ StrV(vf, v.p[e][2]))
     ELSE StrV(fd, v)

\* JSON strings are UTF-8 by definition: protojson refuses every ill-formed string.  Text literals can carry arbitrary
\* bytes (C25): prototext refuses only strings of fields that require validation (C13).
Representable(e, m) == IF e.fmt = "json" THEN AllStringsOK(e.type, m) ELSE Utf8OK(e.type, m)
CodecExpect(e) == LET m == FromProj(e.lit) IN
                  IF Representable(e, m) THEN [err |-> "", rt |-> ToProj(StripU(m)), valid |-> TRUE, same |-> TRUE]
                  ELSE [err |-> "utf8", valid |-> TRUE, same |-> TRUE]
CodecAgree(e) == LET x == CodecExpect(e)  o == e.out IN
                 /\ "panic" \notin DOMAIN o
                 /\ o.err = x.err /\ o.valid /\ o.same
                 /\ (x.err = "" => FromProj(o.rt) = StripU(FromProj(e.lit)))
=============================================================================
