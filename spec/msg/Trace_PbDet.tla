---------------------------- MODULE Trace_PbDet ----------------------------
(* Validates "det" / "flav" / "decdet" events and memoises the deterministic bytes per case id: the same case *)
(* replayed in another process or another build (protoreflect tag) must produce the same bytes.             *)
EXTENDS PbDetCases, Sequences
Trace == ndJsonDeserialize(IOEnv.TRACE)
VARIABLES l, bad, memo
Init == l = 1 /\ bad = <<>> /\ memo = [i \in {} |-> <<>>]
Next == /\ l <= Len(Trace)
        /\ LET e == Trace[l]
               known == e.id \in DOMAIN memo
               ok == DetAgree(e) /\ (known => memo[e.id] = e.out.det)
           IN /\ bad' = IF ok THEN bad ELSE Append(bad, l)
              /\ memo' = IF known \/ "panic" \in DOMAIN e.out THEN memo ELSE (e.id :> e.out.det) @@ memo
        /\ l' = l + 1
        /\ TLCSet(1, <<l + 1, bad'>>)
Accepted == LET r == TLCGet(1) IN
            /\ PrintT("TRACE-RESULT " \o ToJson([done |-> r[1] - 1, total |-> Len(Trace), bad |-> r[2]]))
            /\ r[1] = Len(Trace) + 1
=============================================================================
