---------------------------- MODULE Trace_PbDet ----------------------------
(* Validates "det" / "flav" / "decdet" events and memoises the deterministic bytes per case id: the same case *)
(* replayed in another process or another build (protoreflect tag) must produce the same bytes.             *)
EXTENDS PbDetCases, Sequences
Trace == ndJsonDeserialize(IOEnv.TRACE)
VARIABLES l, bad, memo
Init == l = 1 /\ bad = <<>> /\ memo = [i \in {} |-> <<>>]
\* What is memoised.  For content built from a literal: the deterministic bytes themselves.  For content DECODED from arbitrary
\* bytes ("decdet"): the canonical encoding of what those bytes decode to - implementations may differ in how they keep a
\* non-minimally encoded tag of an unknown field (the table-driven path re-encodes it, the reflection path keeps it) and in the
\* payload bits of a NaN (all NaNs are one value); Decode normalises both, so equal content has equal memo values.
MemoVal(e) == IF e.op = "decdet" /\ "panic" \notin DOMAIN e.out
              THEN (LET d == Decode(e.type, e.out.det, EmptyMsg, 10000, FALSE) IN IF d.ok THEN Encode(e.type, d.m) ELSE e.out.det)
              ELSE e.out.det
Next == /\ l <= Len(Trace)
        /\ LET e == Trace[l]
               known == e.id \in DOMAIN memo
               ok == DetAgree(e) /\ (known => memo[e.id] = MemoVal(e))
           IN /\ bad' = IF ok THEN bad ELSE Append(bad, l)
              /\ memo' = IF known \/ "panic" \in DOMAIN e.out THEN memo ELSE (e.id :> MemoVal(e)) @@ memo
        /\ l' = l + 1
        /\ TLCSet(1, <<l + 1, bad'>>)
Accepted == LET r == TLCGet(1) IN
            /\ PrintT("TRACE-RESULT " \o ToJson([done |-> r[1] - 1, total |-> Len(Trace), bad |-> r[2]]))
            /\ r[1] = Len(Trace) + 1
=============================================================================
