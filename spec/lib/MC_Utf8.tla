------------------------------ MODULE MC_Utf8 ------------------------------
(* The two definitions of well-formed UTF-8 in VUtf8 (table-driven DFA, definitional decoder) agree on every byte *)
(* string up to MaxLen over a corner alphabet (ASCII bounds, continuation bounds, every lead-byte class boundary). *)
EXTENDS VUtf8
CONSTANTS Alphabet, MaxLen
VARIABLE s
Init == s = <<>>
Next == Len(s) < MaxLen /\ \E c \in Alphabet : s' = Append(s, c)
DefinitionsAgree == ValidUTF8(s) = ValidUTF8Def(s)
\* a well-formed string stays well-formed when cut at a code point boundary, and concatenation preserves well-formedness
PrefixLaw == ValidUTF8(s) => \A k \in 0..Len(s) : (ValidUTF8(SubSeq(s, 1, k)) => ValidUTF8(SubSeq(s, k + 1, Len(s))))
=============================================================================
