------------------------------- MODULE VUtf8 -------------------------------
(***************************************************************************)
(* Well-formed UTF-8 (RFC 3629, Unicode Table 3-7) on byte sequences, two  *)
(* independent definitions:                                                *)
(*   ValidUTF8(b)      a byte-level DFA following the table of well-formed *)
(*                     byte sequences;                                     *)
(*   ValidUTF8Def(b)   definitional: decode a code point from the lead     *)
(*                     byte's length class, reject continuation errors,    *)
(*                     overlong forms, surrogates and values > U+10FFFF.   *)
(* MC_Utf8 checks them equal on all strings up to a bound over a corner    *)
(* alphabet; C13 uses ValidUTF8 as the oracle for every string position.   *)
(***************************************************************************)
EXTENDS Integers, Sequences

\* ---- DFA.  States: 0 start; 1,2,3 = that many plain continuation bytes still expected;
\* 4 after E0 (next A0..BF), 5 after ED (next 80..9F), 6 after F0 (next 90..BF), 7 after F4 (next 80..8F); -1 reject
Cont(c) == c >= 128 /\ c <= 191
UStep(s, c) ==
  CASE s = 0 -> IF c <= 127 THEN 0
                ELSE IF c >= 194 /\ c <= 223 THEN 1
                ELSE IF c = 224 THEN 4
                ELSE IF (c >= 225 /\ c <= 236) \/ c = 238 \/ c = 239 THEN 2
                ELSE IF c = 237 THEN 5
                ELSE IF c = 240 THEN 6
                ELSE IF c >= 241 /\ c <= 243 THEN 3
                ELSE IF c = 244 THEN 7
                ELSE -1
    [] s = 1 -> IF Cont(c) THEN 0 ELSE -1
    [] s = 2 -> IF Cont(c) THEN 1 ELSE -1
    [] s = 3 -> IF Cont(c) THEN 2 ELSE -1
    [] s = 4 -> IF c >= 160 /\ c <= 191 THEN 1 ELSE -1
    [] s = 5 -> IF c >= 128 /\ c <= 159 THEN 1 ELSE -1
    [] s = 6 -> IF c >= 144 /\ c <= 191 THEN 2 ELSE -1
    [] s = 7 -> IF c >= 128 /\ c <= 143 THEN 2 ELSE -1
    [] OTHER -> -1
RECURSIVE URun(_, _, _)
URun(b, i, s) == IF s < 0 THEN FALSE ELSE IF i > Len(b) THEN s = 0 ELSE URun(b, i + 1, UStep(s, b[i]))
ValidUTF8(b) == URun(b, 1, 0)

\* ---- definitional
SeqLen(c) == IF c <= 127 THEN 1 ELSE IF c >= 192 /\ c <= 223 THEN 2 ELSE IF c >= 224 /\ c <= 239 THEN 3
             ELSE IF c >= 240 /\ c <= 247 THEN 4 ELSE 0
RECURSIVE UDef(_, _)
UDef(b, i) ==
  IF i > Len(b) THEN TRUE
  ELSE LET n == SeqLen(b[i]) IN
       IF n = 0 \/ i + n - 1 > Len(b) THEN FALSE
       ELSE IF \E k \in 1..(n-1) : ~Cont(b[i+k]) THEN FALSE
       ELSE LET cp == CASE n = 1 -> b[i]
                        [] n = 2 -> (b[i] - 192) * 64 + (b[i+1] - 128)
                        [] n = 3 -> (b[i] - 224) * 4096 + (b[i+1] - 128) * 64 + (b[i+2] - 128)
                        [] n = 4 -> (b[i] - 240) * 262144 + (b[i+1] - 128) * 4096 + (b[i+2] - 128) * 64 + (b[i+3] - 128)
                minv == CASE n = 1 -> 0 [] n = 2 -> 128 [] n = 3 -> 2048 [] n = 4 -> 65536
            IN IF cp < minv \/ cp > 1114111 \/ (cp >= 55296 /\ cp <= 57343) THEN FALSE
               ELSE UDef(b, i + n)
ValidUTF8Def(b) == UDef(b, 1)
=============================================================================
