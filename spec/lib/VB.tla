------------------------------- MODULE VB -------------------------------
(***************************************************************************)
(* Byte-vector arithmetic.  TLC integers are 32 bit, so every 32/64-bit    *)
(* protobuf scalar crosses the Go <-> TLA+ boundary and is computed on as  *)
(* a little-endian sequence of bytes (each in 0..255).  This module is the *)
(* arithmetic trusted base of all other modules; VBSelf.tla checks it      *)
(* against TLC's native integers on the range where both exist.            *)
(***************************************************************************)
EXTENDS Integers, Sequences

Byte == 0..255
Pow2(n) == 2^n

Zeros(n) == [k \in 1..n |-> 0]
IsZeros(b) == \A k \in 1..Len(b) : b[k] = 0

\* bit k (0-based, little endian) of byte vector b; 0 beyond the end
BitAt(b, k) == LET i == (k \div 8) + 1 IN
               IF i > Len(b) THEN 0 ELSE (b[i] \div Pow2(k % 8)) % 2

\* n-byte vector holding bits lo .. lo+8n-1 of b (logical shift right by lo, truncate to n bytes)
Slice(b, lo, n) ==
  [k \in 1..n |->
     LET base == lo + 8*(k-1)
         i    == (base \div 8) + 1
         o    == base % 8
         cur  == IF i <= Len(b) THEN b[i] ELSE 0
         nxt  == IF i + 1 <= Len(b) THEN b[i+1] ELSE 0
     IN ((cur \div Pow2(o)) + nxt * Pow2(8 - o)) % 256]

Trunc(b, n) == [k \in 1..n |-> IF k <= Len(b) THEN b[k] ELSE 0]
Not(b) == [k \in 1..Len(b) |-> 255 - b[k]]

\* small non-negative integer (< 2^31) -> n bytes
FromNat(v, n) == [k \in 1..n |-> (v \div (256^(k-1))) % 256]   \* only for k <= 4 are powers in range
FromNat4(v) == <<v % 256, (v \div 256) % 256, (v \div 65536) % 256, (v \div 16777216) % 256>>
FromNat8(v) == FromNat4(v) \o <<0,0,0,0>>

\* value of b if it fits in 0 .. 2^31-1, else -1
RECURSIVE ToNatFrom(_, _)
ToNatFrom(b, i) ==
  IF i > Len(b) THEN 0
  ELSE IF i > 4 THEN (IF b[i] = 0 THEN ToNatFrom(b, i+1) ELSE -1)
  ELSE LET rest == ToNatFrom(b, i+1) IN
       IF rest < 0 THEN -1
       ELSE IF i = 4 /\ b[i] > 127 THEN -1
       ELSE b[i] * (256^(i-1)) + rest
ToNat(b) == ToNatFrom(b, 1)

\* add with carry, same length as a (wraps modulo 256^Len(a)); bb is padded with zeros
RECURSIVE AddFrom(_, _, _, _)
AddFrom(a, bb, i, c) ==
  IF i > Len(a) THEN <<>>
  ELSE LET s == a[i] + (IF i <= Len(bb) THEN bb[i] ELSE 0) + c
       IN <<s % 256>> \o AddFrom(a, bb, i+1, s \div 256)
Add(a, bb) == AddFrom(a, bb, 1, 0)
Inc(a) == Add(a, <<1>>)
Neg(a) == Inc(Not(a))                   \* two's complement negation
Sub(a, bb) == Add(a, Neg(Trunc(bb, Len(a))))
Dec(a) == Sub(a, <<1>>)

\* unsigned comparison of equally long vectors: -1, 0, 1
RECURSIVE CmpFrom(_, _, _)
CmpFrom(a, bb, i) == IF i = 0 THEN 0
                     ELSE IF a[i] < bb[i] THEN -1 ELSE IF a[i] > bb[i] THEN 1 ELSE CmpFrom(a, bb, i-1)
CmpU(a, bb) == CmpFrom(a, bb, Len(a))
IsNegative(a) == a[Len(a)] >= 128       \* sign bit under two's complement
CmpS(a, bb) == IF IsNegative(a) # IsNegative(bb) THEN (IF IsNegative(a) THEN -1 ELSE 1) ELSE CmpU(a, bb)

\* 2^n as an m-byte vector (n < 8m)
PowBytes(n, m) == [k \in 1..m |-> IF (n \div 8) + 1 = k THEN Pow2(n % 8) ELSE 0]

\* sign extension of an n-byte two's complement value to m >= n bytes
SignExt(a, m) == [k \in 1..m |-> IF k <= Len(a) THEN a[k] ELSE IF IsNegative(a) THEN 255 ELSE 0]

\* shift left by one bit, keep length
Shl1(a) == [k \in 1..Len(a) |-> ((a[k] * 2) % 256) + (IF k > 1 THEN a[k-1] \div 128 ELSE 0)]
\* logical shift right by one bit
Shr1(a) == [k \in 1..Len(a) |-> (a[k] \div 2) + (IF k < Len(a) THEN (a[k+1] % 2) * 128 ELSE 0)]

\* number of significant bits (0 for zero)
RECURSIVE BitLenFrom(_, _)
BitLenFrom(a, i) ==
  IF i = 0 THEN 0
  ELSE IF a[i] = 0 THEN BitLenFrom(a, i-1)
  ELSE 8*(i-1) + (CHOOSE n \in 1..8 : Pow2(n-1) <= a[i] /\ a[i] < Pow2(n))
BitLen(a) == BitLenFrom(a, Len(a))
=============================================================================
