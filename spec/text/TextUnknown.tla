----------------------------- MODULE TextUnknown -----------------------------
(***************************************************************************)
(* Unknown-field sets as prototext's EmitUnknown sees them.                *)
(*                                                                         *)
(* ValidUnknown(b): b is a *syntactically valid* unknown-field set, i.e. a *)
(* concatenation of complete fields of the protobuf wire grammar as        *)
(* specified by PbWire (spec/wire): tag with field number >= 1 and wire    *)
(* type varint / fixed64 / bytes / group / fixed32, group bodies properly  *)
(* nested and closed by a matching end tag, nesting within the recursion   *)
(* limit of the wire parser.  Non-minimal varints are valid.               *)
(*                                                                         *)
(* UnkItems(b): what such a set *contains* - the pre-order list of         *)
(*   [d |-> nesting depth, num |-> field number,                           *)
(*    k |-> "u" (number) | "s" (length-delimited) | "m" (group),           *)
(*    v |-> 8 value bytes (little endian) | payload bytes | <<>>]          *)
(* which is also the structure a rendering of the set as text is predicted *)
(* to show (numbers as field names, numeric values, string literals,       *)
(* nested { }).  The property C25 itself demands only that rendering never *)
(* panics and, with EmitASCII, stays printable.                            *)
(***************************************************************************)
EXTENDS PbWire, TextLex

UnkLimit == 10000        \* protowire.DefaultRecursionLimit

\* every field from b[i] on is complete and well-formed
RECURSIVE UnkValidFrom(_, _)
UnkValidFrom(b, i) ==
  IF i > Len(b) THEN TRUE
  ELSE LET t == TagAt(b, i) IN
       IF t.n < 0 THEN FALSE
       ELSE LET m == FieldValueLen(b, i + t.n, t.num, t.wt, UnkLimit) IN
            m >= 0 /\ UnkValidFrom(b, i + t.n + m)
ValidUnknown(b) == UnkValidFrom(b, 1)

Pad8(v) == [k \in 1..8 |-> IF k <= Len(v) THEN v[k] ELSE 0]

\* items of the fields starting at b[i], up to the end of b (inGroup = FALSE) or up to and including the
\* end-group tag that closes the current group (inGroup = TRUE).  Only used on valid sets.
\* Result [items, next].
RECURSIVE UnkItemsFrom(_, _, _, _)
UnkItemsFrom(b, i, d, inGroup) ==
  IF i > Len(b) THEN [items |-> <<>>, next |-> i]
  ELSE LET t == TagAt(b, i)
           p == i + t.n
       IN
       IF t.wt = 4 THEN [items |-> <<>>, next |-> p]                 \* closes the enclosing group
       ELSE LET here ==
                  CASE t.wt = 0 -> LET x == DecVarint(b, p) IN
                                   [items |-> <<[d |-> d, num |-> t.num, k |-> "u", v |-> x.v]>>, next |-> p + x.n]
                    [] t.wt = 5 -> [items |-> <<[d |-> d, num |-> t.num, k |-> "u", v |-> Pad8(SubSeq(b, p, p + 3))]>>, next |-> p + 4]
                    [] t.wt = 1 -> [items |-> <<[d |-> d, num |-> t.num, k |-> "u", v |-> SubSeq(b, p, p + 7)]>>, next |-> p + 8]
                    [] t.wt = 2 -> LET x == BytesAt(b, p) IN
                                   [items |-> <<[d |-> d, num |-> t.num, k |-> "s", v |-> x.p]>>, next |-> p + x.n]
                    [] OTHER    -> LET g == UnkItemsFrom(b, p, d + 1, TRUE) IN     \* wt = 3
                                   [items |-> <<[d |-> d, num |-> t.num, k |-> "m", v |-> <<>>]>> \o g.items, next |-> g.next]
                rest == UnkItemsFrom(b, here.next, d, inGroup)
            IN [items |-> here.items \o rest.items, next |-> rest.next]
UnkItems(b) == UnkItemsFrom(b, 1, 0, FALSE).items

=============================================================================
