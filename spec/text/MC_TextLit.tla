----------------------------- MODULE MC_TextLit -----------------------------
(***************************************************************************)
(* C25, literal texts.  States = literal *bodies* built from at most       *)
(* MaxTok lexical fragments (escape introducers, digit groups, quotes,     *)
(* white space, comments, raw UTF-8 and raw ill-formed bytes); the first   *)
(* WideTok fragments come from the whole alphabet, later ones from Core.   *)
(* Every body is wrapped in "..." and in '...' (bodies containing quotes   *)
(* thus become sequences of adjacent literals).  TLC checks on every text  *)
(* that the denotational decoder and the streaming automaton agree, and    *)
(* the algebraic laws below; every text is emitted as a "lit" tour line    *)
(* with the value the specification assigns to it (if any).                *)
(***************************************************************************)
EXTENDS TextCases, Json

CONSTANTS MaxTok, WideTok

Core == { <<BS>>, <<BS, 117>>, <<BS, 120>>, <<DQ>>, <<SQ>>, <<32>>, <<48>>, <<55>>, <<102>>,
          <<100, 56, 51, 100>>, <<100, 101, 48, 48>> }
          \* \  \u  \x  "  '  sp  0  7  f  d83d  de00
Wide == Core \cup
        { <<103>>, <<48, 48>>, <<97>>, <<BS, 51>>,                                     \* g  00  a  \3
          <<BS, 85>>, <<BS, 110>>, <<BS, DQ>>, <<BS, SQ>>, <<BS, BS>>, <<BS, QM>>, <<BS, 97>>, <<BS, 113>>,
          \* \U  \n  \"  \'  \\  \?  \a  \q
          <<BS, 48>>, <<BS, 52>>, <<BS, 55>>, <<BS, 56>>, <<BS, 88>>,                  \* \0 \4 \7 \8 \X
          <<56>>, <<70>>, <<55, 55>>, <<102, 102>>, <<48, 48, 48, 48>>, <<102, 102, 102, 102>>,
          \* 8  F  77  ff  0000  ffff
          <<68, 56, 48, 48>>, <<100, 99, 48, 48>>, <<100, 98, 102, 102>>, <<100, 102, 102, 102>>,
          \* D800  dc00  dbff  dfff
          <<BS, 85, 48, 48, 48, 49, 102, 54, 48, 48>>, <<BS, 85, 48, 48, 49, 48, 102, 102, 102, 102>>,
          \* \U0001f600  \U0010ffff
          <<BS, 85, 48, 48, 49, 49, 48, 48, 48, 48>>, <<BS, 85, 48, 48, 48, 48, 100, 56, 51, 100>>,
          \* \U00110000  \U0000d83d
          <<BS, 85, 70, 70, 70, 70, 70, 70, 70, 70>>,                                  \* \UFFFFFFFF
          <<BS, 117, 100, 56, 51, 100, BS, 117, 100, 101, 48, 48>>,                    \* \ud83d\ude00  (a surrogate pair)
          <<BS, 117, 68, 56, 51, 68, BS, 117, 68, 69, 48, 48>>,                        \* \uD83D\uDE00
          <<BS, 117, 100, 56, 51, 100, BS, 85, 48, 48, 48, 48, 100, 101, 48, 48>>,     \* \ud83d\U0000de00  (low half must be \u)
          <<HASH>>, <<NL>>, <<9>>, <<0>>, <<127>>, <<195, 169>>, <<255>>, <<239, 191, 191>>, <<240, 159, 152, 128>>,
          <<237, 160, 128>>, <<194>> }

VARIABLES s, k
Init == s = <<>> /\ k = 0
Next == \/ /\ k < MaxTok
           /\ \E t \in (IF k < WideTok THEN Wide ELSE Core) : s' = s \o t
           /\ k' = k + 1
        \/ k = 0 /\ s' = <<>> /\ k' = 0
View == s

Wraps(b) == {<<DQ>> \o b \o <<DQ>>, <<SQ>> \o b \o <<SQ>>}

\* ---- design-level laws on every text
OK(b) == [ok |-> TRUE, val |-> b]
TwoDefinitionsAgree == \A w \in Wraps(s) : StreamValue(w) = LitValue(w)
\* re-encoding a decoded value and decoding again is the identity (canonical forms are fixed points)
Canonical == \A w \in Wraps(s) : LET r == LitValue(w) IN
               r.ok => \A a \in BOOLEAN : LitValue(Escape(r.val, a)) = OK(r.val)
\* adjacent values concatenate
Concatenation == \A w \in Wraps(s) : LET r == LitValue(w) IN
               r.ok => LitValue(w \o <<32>> \o w) = OK(r.val \o r.val) /\ LitValue(w \o w) = OK(r.val \o r.val)
\* the first literal of a value is a prefix of the value
FirstIsPrefix == \A w \in Wraps(s) : LET r == LitValue(w)  f == FirstLiteral(w) IN
               r.ok => (f.ok /\ Len(f.val) <= Len(r.val) /\ SubSeq(r.val, 1, Len(f.val)) = f.val)
\* a decoded value never depends on which quote character encloses a body free of quotes
QuoteIndependent == (\A i \in 1..Len(s) : ~IsQuote(s[i])) =>
               LitValue(<<DQ>> \o s \o <<DQ>>) = LitValue(<<SQ>> \o s \o <<SQ>>)

Case(w) == LET r == LitValue(w) IN [op |-> "lit", s |-> w, pred |-> IF r.ok THEN 1 ELSE 0]
Emit == \A w \in Wraps(s') : LET e == Case(w) IN PrintT("@@" \o ToJson(e @@ [exp |-> Expect(e)]))
=============================================================================
