---------------------------- MODULE Trace_DefVal ----------------------------
(***************************************************************************)
(* Trace validation for harness module "defval" (C39): seeded random       *)
(* values of every kind and both formats through the real defval.Marshal / *)
(* Unmarshal and through protodesc.NewFile / ToFileDescriptorProto.  Every *)
(* event must satisfy Allowed (DefVal): agreement with Expect, and - for   *)
(* the kinds whose text the specification defines - the specification's    *)
(* own Parse applied to the text the real code wrote gives the value back. *)
(* Float patterns reported as failing by a sweep are re-run one by one and *)
(* judged here as ordinary "rt" events.                                    *)
(***************************************************************************)
EXTENDS DefVal, Json, IOUtils, TLC

Trace == ndJsonDeserialize(IOEnv.TRACE)

VARIABLES l, bad
Init == l = 1 /\ bad = <<>>
Next == /\ l <= Len(Trace)
        /\ bad' = IF Allowed(Trace[l]) THEN bad ELSE Append(bad, l)
        /\ l' = l + 1
        /\ TLCSet(1, <<l + 1, bad'>>)
Accepted == LET r == TLCGet(1) IN
            /\ PrintT("TRACE-RESULT " \o ToJson([done |-> r[1] - 1, total |-> Len(Trace), bad |-> r[2]]))
            /\ r[1] = Len(Trace) + 1
=============================================================================
