------------------------------ MODULE TextCases ------------------------------
(***************************************************************************)
(* C25.  What the specification demands of one case of harness module      *)
(* "text"; shared by the tours (MC_TextLex, MC_TextLit, MC_TextUnknown) and*)
(* by trace validation (Trace_Text).                                       *)
(*                                                                         *)
(*  op = "str"  b: byte string, lits: literals denoting b (chosen by the   *)
(*              spec; empty for driver cases)                              *)
(*     demanded: the real encoder's literal (EmitASCII off/on) read back   *)
(*     by the real decoder gives b (back0, back1; through a prototext     *)
(*     bytes field: pt0, pt1; through a string field when b is UTF-8:      *)
(*     pts0; through text.UnmarshalString: ustr); the                      *)
(*     ASCII output is printable (ascii1, ptascii1); every literal of lits *)
(*     is decoded to b by the real decoder (dec).                          *)
(*     trace direction in addition: the *specification's* decoder applied  *)
(*     to the real encoder's literals yields b, and Printable is evaluated *)
(*     by the specification on the recorded output.                        *)
(*  op = "lit"  s: an arbitrary literal text                               *)
(*     demanded: if the specification assigns s a value, the real decoder  *)
(*     accepts s with exactly that value.  (Rejection of the other strings *)
(*     is predicted, not demanded by C25: reported as drift only.)         *)
(*  op = "unk"  b: unknown-field bytes, rendering options                  *)
(*     demanded: if ValidUnknown(b), rendering does not panic and with     *)
(*     EmitASCII on a single line the output is printable ASCII.           *)
(***************************************************************************)
EXTENDS TextUnknown, TLC

\* ---- other ways of writing the byte string b as a literal
OctN(v) == <<48 + (v \div 64), 48 + ((v \div 8) % 8), 48 + (v % 8)>>
UpHex(d) == IF d < 10 THEN 48 + d ELSE 55 + d
RECURSIVE Flatten(_, _)
Flatten(ss, i) == IF i > Len(ss) THEN <<>> ELSE ss[i] \o Flatten(ss, i + 1)
OctByte(c) == <<BS>> \o OctN(c)
HexByte(c) == <<BS, 120, UpHex(c \div 16), UpHex(c % 16)>>
SqChar(c) == IF c = SQ THEN <<BS, SQ>> ELSE <<c>>
OctForm(b) == <<DQ>> \o Flatten([k \in 1..Len(b) |-> OctByte(b[k])], 1) \o <<DQ>>
HexForm(b) == <<DQ>> \o Flatten([k \in 1..Len(b) |-> HexByte(b[k])], 1) \o <<DQ>>
SqForm(b)  == LET x == EscapeBody(b, TRUE) IN <<SQ>> \o Flatten([k \in 1..Len(x) |-> SqChar(x[k])], 1) \o <<SQ>>
SplitForm(b) == LET h == Len(b) \div 2 IN
                Escape(SubSeq(b, 1, h), FALSE) \o <<32>> \o Escape(SubSeq(b, h + 1, Len(b)), TRUE)
AltForms(b) == <<Escape(b, FALSE), Escape(b, TRUE), OctForm(b), HexForm(b), SqForm(b), SplitForm(b)>>

AsciiLine(e) == e.ascii = 1 /\ e.multi = 0

Expect(e) ==
  CASE e.op = "str" ->
         [back0 |-> e.b, back1 |-> e.b, pt0 |-> e.b, pt1 |-> e.b, ustr |-> e.b,
          ascii1 |-> TRUE, ptascii1 |-> TRUE, dec |-> [k \in 1..Len(e.lits) |-> e.b]]
         @@ (IF ValidUtf8(e.b) THEN [pts0 |-> e.b] ELSE [ascii1 |-> TRUE])     \* a string field only promises UTF-8 content
    [] e.op = "lit" ->
         LET r == LitValue(e.s)  f == FirstLiteral(e.s) IN
         [nopanic |-> TRUE]
         @@ (IF r.ok THEN [ok |-> TRUE, val |-> r.val] ELSE [nopanic |-> TRUE])
         @@ (IF f.ok THEN [uok |-> TRUE, uval |-> f.val] ELSE [nopanic |-> TRUE])
    [] e.op = "unk" ->
         IF ~ValidUnknown(e.b) THEN [done |-> TRUE]
         ELSE [done |-> TRUE, nopanic |-> TRUE] @@ (IF AsciiLine(e) THEN [asciiok |-> TRUE] ELSE [done |-> TRUE])

\* ---- relation between a recorded event and the specification (trace validation)
Has(o, k) == k \in DOMAIN o
AgreeKeys(e) == LET x == Expect(e) IN \A k \in DOMAIN x : Has(e.out, k) /\ e.out[k] = x[k]
Extra(e) ==
  CASE e.op = "str" ->
         /\ Has(e.out, "enc0") /\ LitValue(e.out.enc0) = [ok |-> TRUE, val |-> e.b]
         /\ Has(e.out, "enc1") /\ LitValue(e.out.enc1) = [ok |-> TRUE, val |-> e.b]
         /\ Printable(e.out.enc1)
         /\ Has(e.out, "ptext1") /\ Printable(e.out.ptext1)
    [] e.op = "unk" ->
         (ValidUnknown(e.b) /\ AsciiLine(e)) => (Has(e.out, "text") /\ Printable(e.out.text))
    [] OTHER -> TRUE
Allowed(e) == AgreeKeys(e) /\ Extra(e)
=============================================================================
