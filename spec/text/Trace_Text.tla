----------------------------- MODULE Trace_Text -----------------------------
(***************************************************************************)
(* Trace validation for harness module "text" (C25): every event recorded  *)
(* from the real code - random byte strings through the real encoder and   *)
(* decoder, mutated literal texts through the real decoder, random valid   *)
(* unknown-field sets through prototext - must satisfy Allowed (TextCases):*)
(* agreement with Expect on every key the specification defines, and the   *)
(* specification's own decoder / Printable predicate applied to the        *)
(* recorded real output.  One TLC step per event; disagreeing line numbers *)
(* are collected so that the rest of the trace is still checked.           *)
(***************************************************************************)
EXTENDS TextCases, Json, IOUtils

Trace == ndJsonDeserialize(IOEnv.TRACE)

VARIABLES l, bad
Init == l = 1 /\ bad = <<>>
Next == /\ l <= Len(Trace)
        /\ bad' = IF Allowed(Trace[l]) THEN bad ELSE Append(bad, l)
        /\ l' = l + 1
        /\ TLCSet(1, <<l + 1, bad'>>)
Accepted == LET r == TLCGet(1) IN
            /\ PrintT("TRACE-RESULT " \o ToJson([done |-> r[1] - 1, total |-> Len(Trace), bad |-> r[2]]))
            /\ r[1] = Len(Trace) + 1
=============================================================================
