----------------------------- MODULE MC_TextLex -----------------------------
(***************************************************************************)
(* C25, byte strings.  States = byte strings built from at most MaxTok     *)
(* tokens of a corner alphabet (single bytes of every UTF-8 class, the     *)
(* characters that matter to the escape syntax, complete and ill-formed    *)
(* multi-byte sequences), plus every single byte 0..255.  The first        *)
(* WideTok tokens are drawn from the whole alphabet, later ones from the   *)
(* Core alphabet.  On every string TLC checks the design-level laws below; *)
(* every generated transition is emitted as an "str" tour line carrying    *)
(* six literals that the specification says denote the string.             *)
(***************************************************************************)
EXTENDS TextCases, Json

CONSTANTS MaxTok, WideTok

\* ---- alphabet (tokens are byte sequences)
CoreBytes == {0, 10, 31, 34, 39, 92, 48, 55, 97, 110, 120, 117, 127, 128, 159, 160, 191, 194, 224, 237, 240, 244, 255}
Core == {<<c>> : c \in CoreBytes}
Wide == Core
  \cup {<<c>> : c \in {9, 13, 32, 63, 56, 65, 85, 126, 143, 144, 192, 193, 223, 239, 245, 247, 248, 254}}
  \cup { <<194, 128>>, <<194, 159>>, <<194, 160>>, <<195, 169>>, <<223, 191>>,          \* U+80 U+9F U+A0 U+E9 U+7FF
         <<224, 160, 128>>, <<237, 159, 191>>, <<238, 128, 128>>,                        \* U+800 U+D7FF U+E000
         <<239, 191, 189>>, <<239, 191, 191>>, <<239, 187, 191>>,                        \* U+FFFD U+FFFF BOM
         <<240, 144, 128, 128>>, <<240, 159, 152, 128>>, <<244, 143, 191, 191>>,         \* U+10000 U+1F600 U+10FFFF
         <<237, 160, 128>>, <<237, 191, 191>>,                                           \* encoded surrogates (ill-formed)
         <<192, 128>>, <<224, 128, 128>>, <<240, 128, 128, 128>>,                        \* overlong (ill-formed)
         <<244, 144, 128, 128>>, <<226, 130>>, <<240, 159, 152>> }                       \* > U+10FFFF, truncated

WideBytes == {t[1] : t \in {w \in Wide : Len(w) = 1}}

VARIABLES s, k
vars == <<s, k>>
Init == s = <<>> /\ k = 0
Next ==
  \/ /\ k < MaxTok
     /\ \E t \in (IF k < WideTok THEN Wide ELSE Core) : s' = s \o t
     /\ k' = k + 1
  \/ /\ k = 0                       \* every single byte; the empty string (a self-loop: emitted, not a new state)
     /\ \E c \in (0..255) \ WideBytes : s' = <<c>>
     /\ k' = MaxTok
  \/ /\ k = 0 /\ s' = <<>> /\ k' = 0
View == s

\* ---- design-level laws, checked on every reachable string
OK(b) == [ok |-> TRUE, val |-> b]
TwoUtf8DefinitionsAgree == \A i \in 1..Len(s) : RuneAt(s, i) = RuneAtDef(s, i)
RoundTrip   == \A a \in BOOLEAN : LitValue(Escape(s, a)) = OK(s)
StreamAgree == \A a \in BOOLEAN : StreamValue(Escape(s, a)) = OK(s)
AsciiClean  == Printable(Escape(s, TRUE))
Utf8Clean   == ValidUtf8(Escape(s, FALSE))          \* what the decoder insists on
FirstLit    == \A a \in BOOLEAN : FirstLiteral(Escape(s, a)) = OK(s)
AltFormsDenote == LET f == AltForms(s) IN \A j \in 1..Len(f) : LitValue(f[j]) = OK(s)
\* escaping is unit-wise: cutting a string anywhere and escaping the halves separately denotes the same bytes
SplitAnywhere == \A h \in 0..Len(s) : \A a \in BOOLEAN :
                   LitValue(Escape(SubSeq(s, 1, h), a) \o Escape(SubSeq(s, h + 1, Len(s)), a)) = OK(s)
\* valid UTF-8 without controls/quotes/backslash passes through unescaped when ascii is off
PassThrough == (ValidUtf8(s) /\ \A i \in 1..Len(s) : (s[i] >= 32 /\ s[i] # DQ /\ s[i] # BS /\ s[i] # 127
                                                       /\ ~(s[i] = 194 /\ i < Len(s) /\ s[i+1] <= 159)))
               => EscapeBody(s, FALSE) = s

\* pred0/pred1: the literal the encoder is *predicted* to write (not demanded: drift only)
Case(b) == [op |-> "str", b |-> b, lits |-> AltForms(b), pred0 |-> Escape(b, FALSE), pred1 |-> Escape(b, TRUE)]
Emit == LET e == Case(s') IN PrintT("@@" \o ToJson(e @@ [exp |-> Expect(e)]))
=============================================================================
