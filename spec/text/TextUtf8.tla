------------------------------ MODULE TextUtf8 ------------------------------
(***************************************************************************)
(* UTF-8 as the text format sees it: a byte string is cut into *units*,    *)
(* each unit being either one well-formed UTF-8 sequence (a Unicode scalar *)
(* value in shortest form) or one single byte that does not start such a   *)
(* sequence.  Two independent definitions are given:                       *)
(*                                                                         *)
(*   RuneAt      the table of well-formed byte sequences of the Unicode    *)
(*               standard (Table 3-7), one row per lead-byte range;        *)
(*   RuneAtDef   the definition: decode the bit pattern announced by the   *)
(*               lead byte, accept iff the result is a scalar value whose  *)
(*               encoding EncRune has exactly the bytes read (shortest     *)
(*               form, no surrogates, <= U+10FFFF).                        *)
(*                                                                         *)
(* MC_TextLex checks that they agree on every enumerated string.           *)
(* Bytes and runes are plain TLC integers (all < 2^21).                    *)
(***************************************************************************)
EXTENDS Integers, Sequences

MaxRune == 1114111                       \* U+10FFFF
IsSurrogate(r) == r >= 55296 /\ r <= 57343      \* U+D800 .. U+DFFF
IsScalar(r) == r >= 0 /\ r <= MaxRune /\ ~IsSurrogate(r)

Cont(c) == c >= 128 /\ c <= 191          \* continuation byte 10xxxxxx

\* UTF-8 encoding of a scalar value
EncRune(r) ==
  IF r < 128 THEN <<r>>
  ELSE IF r < 2048 THEN <<192 + (r \div 64), 128 + (r % 64)>>
  ELSE IF r < 65536 THEN <<224 + (r \div 4096), 128 + ((r \div 64) % 64), 128 + (r % 64)>>
  ELSE <<240 + (r \div 262144), 128 + ((r \div 4096) % 64), 128 + ((r \div 64) % 64), 128 + (r % 64)>>

Invalid == [r |-> -1, n |-> 1]

\* ---- definition 1: Table 3-7.  Result [r, n]: rune and length, or r = -1, n = 1 for an invalid byte
RuneAt(b, i) ==
  LET c0 == b[i]
      B(k) == IF i + k <= Len(b) THEN b[i + k] ELSE -1      \* -1 is in no range below
  IN
  IF c0 < 128 THEN [r |-> c0, n |-> 1]
  ELSE IF c0 >= 194 /\ c0 <= 223 THEN
       (IF Cont(B(1)) THEN [r |-> (c0 - 192) * 64 + (B(1) - 128), n |-> 2] ELSE Invalid)
  ELSE IF c0 >= 224 /\ c0 <= 239 THEN
       LET lo == IF c0 = 224 THEN 160 ELSE 128
           hi == IF c0 = 237 THEN 159 ELSE 191
       IN IF B(1) >= lo /\ B(1) <= hi /\ Cont(B(2))
          THEN [r |-> (c0 - 224) * 4096 + (B(1) - 128) * 64 + (B(2) - 128), n |-> 3] ELSE Invalid
  ELSE IF c0 >= 240 /\ c0 <= 244 THEN
       LET lo == IF c0 = 240 THEN 144 ELSE 128
           hi == IF c0 = 244 THEN 143 ELSE 191
       IN IF B(1) >= lo /\ B(1) <= hi /\ Cont(B(2)) /\ Cont(B(3))
          THEN [r |-> (c0 - 240) * 262144 + (B(1) - 128) * 4096 + (B(2) - 128) * 64 + (B(3) - 128), n |-> 4]
          ELSE Invalid
  ELSE Invalid

\* ---- definition 2: bit pattern + shortest form of a scalar value
RuneAtDef(b, i) ==
  LET c0 == b[i]
      n == IF c0 < 128 THEN 1 ELSE IF c0 < 192 THEN 0 ELSE IF c0 < 224 THEN 2 ELSE IF c0 < 240 THEN 3
           ELSE IF c0 < 248 THEN 4 ELSE 0
  IN
  IF n = 0 \/ i + n - 1 > Len(b) THEN Invalid
  ELSE IF n = 1 THEN [r |-> c0, n |-> 1]
  ELSE IF \E k \in 1..(n-1) : ~Cont(b[i + k]) THEN Invalid
  ELSE LET lead == IF n = 2 THEN c0 - 192 ELSE IF n = 3 THEN c0 - 224 ELSE c0 - 240
           Acc[k \in 0..(n-1)] == IF k = 0 THEN lead ELSE Acc[k-1] * 64 + (b[i + k] - 128)
           r == Acc[n-1]
       IN IF IsScalar(r) /\ EncRune(r) = SubSeq(b, i, i + n - 1) THEN [r |-> r, n |-> n] ELSE Invalid

\* the whole string is well-formed UTF-8
RECURSIVE ValidFrom(_, _)
ValidFrom(b, i) == IF i > Len(b) THEN TRUE
                   ELSE LET u == RuneAt(b, i) IN u.r >= 0 /\ ValidFrom(b, i + u.n)
ValidUtf8(b) == ValidFrom(b, 1)
=============================================================================
