------------------------------- MODULE DefVal -------------------------------
(***************************************************************************)
(* Textual default values (internal/encoding/defval), C39.                 *)
(*                                                                         *)
(* A default value of a scalar field is written as text in one of two      *)
(* formats - "desc" (FieldDescriptorProto.default_value, as protoc writes  *)
(* it) and "gotag" (Go struct tags) - and read back.  Values are byte      *)
(* vectors: 4/8 bytes little endian for the 32/64-bit kinds (two's         *)
(* complement; IEEE-754 bit patterns for float/double), <<0>>/<<1>> for    *)
(* bool, the enum number (4 bytes) for enums, the bytes themselves for     *)
(* string/bytes.  Texts are sequences of character codes.                  *)
(*                                                                         *)
(*   Format(kind, fmt, v, enum, idx)  the text of value v                  *)
(*   Parse(kind, fmt, s, enum)        the value of text s, or not ok       *)
(*                                                                         *)
(* are *defined* here for every kind except float/double: integers by      *)
(* exact decimal arithmetic (DefDec), bytes by C escaping, read back with  *)
(* the text-format literal decoder of TextLex (first literal of "s"),      *)
(* enums by name ("desc") or number ("gotag"), bools as true/false or 1/0. *)
(*                                                                         *)
(* Binary floating point <-> shortest decimal is not expressible in TLA+;  *)
(* following DESIGN.md section 6 the pair FormatFloat/ParseFloat is an     *)
(* uninterpreted relation constrained by exactly what C39 demands:         *)
(*        Parse_k(Format_k(bits)) = Canon(bits)     (all NaNs equal)       *)
(* plus, on the small domain where a decimal text denotes a binary float   *)
(* *exactly* (dyadic rationals n * 2^e, powers of ten), the specification  *)
(* does define the value: ExactF32 / ExactF64 construct the IEEE bit       *)
(* pattern, and any correct parser must return it.                         *)
(***************************************************************************)
EXTENDS DefDec, TextLex, TLC

\* ---------------------------------------------------------------- kinds
S32 == {"int32", "sint32", "sfixed32"}     S64 == {"int64", "sint64", "sfixed64"}
U32 == {"uint32", "fixed32"}               U64 == {"uint64", "fixed64"}
Width(kind) == IF kind \in S32 \cup U32 \cup {"float", "enum"} THEN 4 ELSE 8
IsFloatKind(kind) == kind \in {"float", "double"}

\* ---------------------------------------------------------------- floats as bit patterns
F32Exp(b) == (b[4] % 128) * 2 + (b[3] \div 128)
F32MantZero(b) == b[3] % 128 = 0 /\ b[2] = 0 /\ b[1] = 0
F64Exp(b) == (b[8] % 128) * 16 + (b[7] \div 16)
F64MantZero(b) == b[7] % 16 = 0 /\ \A k \in 1..6 : b[k] = 0
IsNaN(kind, b) == IF kind = "float" THEN F32Exp(b) = 255 /\ ~F32MantZero(b)
                  ELSE F64Exp(b) = 2047 /\ ~F64MantZero(b)
CanonNaN(kind) == IF kind = "float" THEN <<0, 0, 192, 127>> ELSE <<0, 0, 0, 0, 0, 0, 248, 127>>
FloatClass(kind, b) ==
  LET e == IF kind = "float" THEN F32Exp(b) ELSE F64Exp(b)
      mz == IF kind = "float" THEN F32MantZero(b) ELSE F64MantZero(b)
      top == IF kind = "float" THEN 255 ELSE 2047
  IN IF e = top THEN (IF mz THEN "inf" ELSE "nan") ELSE IF e = 0 THEN (IF mz THEN "zero" ELSE "subnormal") ELSE "normal"
\* value identity of C39: bit-exact, except that all NaNs are one value
Canon(kind, v) == IF IsFloatKind(kind) /\ IsNaN(kind, v) THEN CanonNaN(kind) ELSE v

\* exact binary floats: (-1)^sign * n * 2^e2 with 0 <= n < 2^24
BitLenNat(n) == CHOOSE k \in 1..31 : 2 ^ (k - 1) <= n /\ n < 2 ^ k
\* b shifted left by k bits, same length (one level: no chain of closures)
ShlBy(b, k) == Force([j \in 1..Len(b) |->
                 LET Bit(t) == LET src == 8 * (j - 1) + t - k IN IF src < 0 THEN 0 ELSE BitAt(b, src)
                 IN Bit(0) + 2 * Bit(1) + 4 * Bit(2) + 8 * Bit(3) + 16 * Bit(4) + 32 * Bit(5) + 64 * Bit(6) + 128 * Bit(7)])
ExactF32(sign, n, e2) ==
  IF n = 0 THEN <<0, 0, 0, sign * 128>>
  ELSE LET bl == BitLenNat(n)
           biased == bl - 1 + e2 + 127                     \* callers stay inside the normal range 1..254
           mant == n * (2 ^ (24 - bl)) - 8388608           \* 23 fraction bits
       IN <<mant % 256, (mant \div 256) % 256, (biased % 2) * 128 + (mant \div 65536), sign * 128 + (biased \div 2)>>
ExactF64(sign, n, e2) ==
  IF n = 0 THEN <<0, 0, 0, 0, 0, 0, 0, sign * 128>>
  ELSE LET bl == BitLenNat(n)
           biased == bl - 1 + e2 + 1023
           m == ShlBy(FromNat8(n - 2 ^ (bl - 1)), 53 - bl)  \* 52 fraction bits
       IN <<m[1], m[2], m[3], m[4], m[5], m[6], (biased % 16) * 16 + m[7], sign * 128 + (biased \div 16)>>
\* float32 -> float64 conversion of a normal number (exact): used as a cross-check of the two constructions
Widen(b4) ==
  LET e == F32Exp(b4)
      mant == (b4[3] % 128) * 65536 + b4[2] * 256 + b4[1]
      m == ShlBy(FromNat8(mant), 29)
      biased == e - 127 + 1023
  IN <<m[1], m[2], m[3], m[4], m[5], m[6], (biased % 16) * 16 + m[7], (b4[4] \div 128) * 128 + (biased \div 16)>>

\* the decimal text that denotes n * 2^e2 exactly (e2 >= 0: an integer; e2 < 0: n * 5^k / 10^k)
PadLeft(ds, w) == [k \in 1..(IF Len(ds) >= w THEN Len(ds) ELSE w) |->
                     IF Len(ds) >= w THEN ds[k] ELSE IF k <= w - Len(ds) THEN 48 ELSE ds[k - (w - Len(ds))]]
ExactDec(sign, n, e2) ==
  (IF sign = 1 THEN <<45>> ELSE <<>>) \o
  (IF e2 >= 0 THEN NatDigits(n * (2 ^ e2))
   ELSE LET k == 0 - e2
            ds == PadLeft(NatDigits(n * (5 ^ k)), k + 1)
        IN SubSeq(ds, 1, Len(ds) - k) \o <<46>> \o SubSeq(ds, Len(ds) - k + 1, Len(ds)))

\* ---------------------------------------------------------------- bytes: C escaping
CEscByte(c) ==
  CASE c = 10 -> <<BS, 110>> [] c = 13 -> <<BS, 114>> [] c = 9 -> <<BS, 116>>
    [] c = DQ -> <<BS, DQ>>  [] c = SQ -> <<BS, SQ>>   [] c = BS -> <<BS, BS>>
    [] OTHER -> IF c >= 32 /\ c <= 126 THEN <<c>>
                ELSE <<BS, 48 + (c \div 64), 48 + ((c \div 8) % 8), 48 + (c % 8)>>
RECURSIVE CEscFrom(_, _)
CEscFrom(b, i) == IF i > Len(b) THEN <<>> ELSE CEscByte(b[i]) \o CEscFrom(b, i + 1)
CEscape(b) == CEscFrom(b, 1)
\* defval reads bytes back as the first text-format literal of  " s "
ParseBytes(s) == FirstLiteral(<<DQ>> \o s \o <<DQ>>)

\* ---------------------------------------------------------------- Format / Parse
TrueS == <<116, 114, 117, 101>>   FalseS == <<102, 97, 108, 115, 101>>
NotOk == [ok |-> FALSE, v |-> <<>>]

\* enum = sequence of [n |-> name, v |-> number (4 bytes)]; idx selects the value being written
Format(kind, fmt, v, enum, idx) ==
  CASE kind = "bool" -> IF fmt = "gotag" THEN (IF v = <<1>> THEN <<49>> ELSE <<48>>) ELSE (IF v = <<1>> THEN TrueS ELSE FalseS)
    [] kind = "enum" -> IF fmt = "gotag" THEN DecOfS(enum[idx].v) ELSE enum[idx].n
    [] kind \in S32 \cup S64 -> DecOfS(v)
    [] kind \in U32 \cup U64 -> DecOfU(v)
    [] kind = "string" -> v
    [] kind = "bytes" -> CEscape(v)

FirstWith(enum, P(_)) == IF \E j \in 1..Len(enum) : P(enum[j])
                         THEN LET j == CHOOSE j \in 1..Len(enum) : P(enum[j]) /\ \A i \in 1..(j - 1) : ~P(enum[i])
                              IN [ok |-> TRUE, v |-> enum[j].v]
                         ELSE NotOk
Parse(kind, fmt, s, enum) ==
  CASE kind = "bool" ->
         IF fmt = "gotag" THEN (IF s = <<49>> THEN [ok |-> TRUE, v |-> <<1>>] ELSE IF s = <<48>> THEN [ok |-> TRUE, v |-> <<0>>] ELSE NotOk)
         ELSE (IF s = TrueS THEN [ok |-> TRUE, v |-> <<1>>] ELSE IF s = FalseS THEN [ok |-> TRUE, v |-> <<0>>] ELSE NotOk)
    [] kind = "enum" ->
         IF fmt = "gotag"
         THEN LET x == SOfDec(s, 4) IN
              IF ~x.ok THEN NotOk ELSE LET ByNum(ev) == ev.v = x.v IN FirstWith(enum, ByNum)
         ELSE LET ByName(ev) == ev.n = s IN FirstWith(enum, ByName)
    [] kind \in S32 \cup S64 -> LET x == SOfDec(s, Width(kind)) IN IF x.ok THEN [ok |-> TRUE, v |-> x.v] ELSE NotOk
    [] kind \in U32 \cup U64 -> LET x == UOfDec(s, Width(kind)) IN IF x.ok THEN [ok |-> TRUE, v |-> x.v] ELSE NotOk
    [] kind = "string" -> [ok |-> TRUE, v |-> s]
    [] kind = "bytes" -> LET x == ParseBytes(s) IN IF x.ok THEN [ok |-> TRUE, v |-> x.val] ELSE NotOk

\* ---------------------------------------------------------------- cases of harness module "defval"
\*  op = "rt"     kind, fmt, v (enum kinds: enum, idx; v = the number), hs = 1 iff str is the specification's text
\*     demanded: Marshal succeeds, Unmarshal(Marshal(v)) = Canon(v); Unmarshal(str) = Canon(v) when hs = 1;
\*     for fmt = "desc" the default survives NewFile (d1), ToFileDescriptorProto + NewFile (d2), on a message
\*     field and on an extension field (x1, x2)
\*  op = "sweep32" a stratum of float32 patterns (sign, exponent ex, every stride-th mantissa): no pattern fails
Expect(e) ==
  CASE e.op = "rt" ->
         LET v == Canon(e.kind, e.v) IN
         [merr |-> FALSE, backok |-> TRUE, back |-> v]
         @@ (IF e.hs = 1 THEN [parsedok |-> TRUE, parsed |-> v] ELSE [merr |-> FALSE])
         @@ (IF e.fmt = "desc" THEN [has |-> TRUE, d1 |-> v, d2 |-> v, x1 |-> v, x2 |-> v] ELSE [merr |-> FALSE])
    [] e.op = "sweep32" -> [n |-> e.count, fails |-> <<>>]

Has(o, k) == k \in DOMAIN o
AgreeKeys(e) == LET x == Expect(e) IN \A k \in DOMAIN x : Has(e.out, k) /\ e.out[k] = x[k]
\* trace direction: the specification's own Parse applied to the text the real Marshal wrote
Extra(e) ==
  IF e.op = "rt" /\ ~IsFloatKind(e.kind)
  THEN Has(e.out, "str") /\ Parse(e.kind, e.fmt, e.out.str, e.enum) = [ok |-> TRUE, v |-> e.v]
  ELSE TRUE
Allowed(e) == AgreeKeys(e) /\ Extra(e)
=============================================================================
