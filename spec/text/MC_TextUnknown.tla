--------------------------- MODULE MC_TextUnknown ---------------------------
(***************************************************************************)
(* C25, unknown-field sets.  A constructive state machine: each step       *)
(* appends one element - a complete varint / fixed32 / fixed64 / bytes     *)
(* field, a start-group tag, or the end-group tag of the innermost open    *)
(* group - drawn from a corner set (non-minimal varints in values, lengths *)
(* and tags; field numbers 1, 2, 15/16 (one/two byte tags), 2^29-1 and     *)
(* 2^31-1; payloads with quotes, controls, ill-formed UTF-8, astral runes, *)
(* payloads that look like fields or like an unterminated group).  The     *)
(* machine tracks the bytes, the stack of open groups and the abstract     *)
(* item list it has built.                                                 *)
(*                                                                         *)
(* Laws: a state with no open group is a valid set for the *recogniser*    *)
(* (ValidUnknown, built on PbWire) and the recogniser's parse UnkItems     *)
(* returns exactly the item list that was built (parser inverts builder);  *)
(* a state with an open group is not a valid set.  Every transition into a *)
(* state with no open group is emitted as "unk" tour lines (4 option       *)
(* combinations).                                                          *)
(***************************************************************************)
EXTENDS TextCases, Json

CONSTANTS MaxSteps, MaxDepth, Tier

BigNum == 2147483647                              \* 2^31 - 1: largest number ConsumeTag accepts
BigTag(wt) == <<248 + wt, 255, 255, 255, 63>>     \* varint((2^31-1) << 3 | wt)
Tag(num, wt) == IF num = BigNum THEN BigTag(wt) ELSE EncTag(num, wt)
\* a non-minimal encoding of a one-byte varint: set the continuation bit, append 0
Loose(v) == <<v[1] + 128, 0>>

U64Max == <<255, 255, 255, 255, 255, 255, 255, 255>>
Varints ==  \* [num, enc, val]
  { [num |-> 1, enc |-> <<0>>, val |-> FromNat8(0)],
    [num |-> 1, enc |-> <<129, 0>>, val |-> FromNat8(1)],
    [num |-> 16, enc |-> EncVarint(U64Max), val |-> U64Max],
    [num |-> BigNum, enc |-> <<172, 2>>, val |-> FromNat8(300)] }
  \cup (IF Tier = "thorough"
        THEN { [num |-> 2, enc |-> <<128, 128, 128, 128, 128, 128, 128, 128, 128, 1>>, val |-> <<0, 0, 0, 0, 0, 0, 0, 128>>],
               [num |-> 536870911, enc |-> <<127>>, val |-> FromNat8(127)] }
        ELSE {})
Fixed32s == { [num |-> 2, val |-> <<1, 2, 3, 4>>], [num |-> 536870911, val |-> <<255, 255, 255, 255>>] }
            \cup (IF Tier = "thorough" THEN { [num |-> 15, val |-> <<0, 0, 0, 0>>] } ELSE {})
Fixed64s == { [num |-> 1, val |-> <<1, 2, 3, 4, 5, 6, 7, 8>>] }
            \cup (IF Tier = "thorough" THEN { [num |-> BigNum, val |-> U64Max], [num |-> 2, val |-> Zeros(8)] } ELSE {})
Payloads == \* [num, len (encoded length), p]
  { [num |-> 1, len |-> <<0>>, p |-> <<>>],
    [num |-> 2, len |-> <<4>>, p |-> <<97, 34, 92, 39>>],                       \* a " \ '
    [num |-> 1, len |-> <<5>>, p |-> <<0, 10, 255, 194, 128>>],                 \* NUL LF ill-formed C1
    [num |-> 15, len |-> <<134, 0>>, p |-> <<240, 159, 152, 128, 195, 169>>],   \* astral + e-acute, loose length
    [num |-> 1, len |-> <<1>>, p |-> <<11>>] }                                  \* looks like an unterminated group
  \cup (IF Tier = "thorough"
        THEN { [num |-> BigNum, len |-> <<2>>, p |-> <<8, 1>>],                 \* looks like a field
               [num |-> 2, len |-> <<3>>, p |-> <<237, 160, 128>>],             \* encoded surrogate
               [num |-> 16, len |-> <<2>>, p |-> <<127, 31>>] }
        ELSE {})
GroupNums == {1, 2, BigNum} \cup (IF Tier = "thorough" THEN {16} ELSE {})

Item(d, num, kk, v) == [d |-> d, num |-> num, k |-> kk, v |-> v]

VARIABLES u     \* [b, stack, items, n]
Init == u = [b |-> <<>>, stack |-> <<>>, items |-> <<>>, n |-> 0]
D == Len(u.stack)
Push(bytes, item) == u' = [u EXCEPT !.b = @ \o bytes, !.items = Append(@, item), !.n = @ + 1]
Grow ==
  /\ u.n < MaxSteps
  /\ \/ \E x \in Varints : Push(Tag(x.num, 0) \o x.enc, Item(D, x.num, "u", x.val))
     \/ \E x \in Fixed32s : Push(Tag(x.num, 5) \o x.val, Item(D, x.num, "u", Pad8(x.val)))
     \/ \E x \in Fixed64s : Push(Tag(x.num, 1) \o x.val, Item(D, x.num, "u", x.val))
     \/ \E x \in Payloads : Push(Tag(x.num, 2) \o x.len \o x.p, Item(D, x.num, "s", x.p))
     \/ \E g \in GroupNums :
          /\ D < MaxDepth
          /\ u.n + 1 < MaxSteps                   \* leave room for the end tag
          /\ u' = [u EXCEPT !.b = @ \o Tag(g, 3), !.stack = Append(@, g), !.items = Append(@, Item(D, g, "m", <<>>)), !.n = @ + 1]
     \/ /\ D > 0
        /\ \E loose \in BOOLEAN :
             LET g == u.stack[D]
                 t == IF loose /\ g < 16 THEN Loose(Tag(g, 4)) ELSE Tag(g, 4)
             IN u' = [u EXCEPT !.b = @ \o t, !.stack = SubSeq(@, 1, D - 1), !.n = @ + 1]

\* the empty set is a self-loop: emitted, not a new state
Next == (u.n = 0 /\ u' = u) \/ Grow

\* ---- design-level laws
ClosedIsValid == u.stack = <<>> => ValidUnknown(u.b)
OpenIsInvalid == u.stack # <<>> => ~ValidUnknown(u.b)
ParserInvertsBuilder == u.stack = <<>> => UnkItems(u.b) = u.items
\* the end tag must match: closing with another number is not a valid set
MismatchInvalid == u.stack # <<>> => ~ValidUnknown(u.b \o Tag(IF u.stack[D] = 1 THEN 2 ELSE 1, 4))

Variants == { [mode |-> "format",  ascii |-> 0, multi |-> 1],
              [mode |-> "marshal", ascii |-> 1, multi |-> 0],
              [mode |-> "marshal", ascii |-> 0, multi |-> 0],
              [mode |-> "marshal", ascii |-> 1, multi |-> 1] }
Emit == u'.stack # <<>> \/
        \A o \in Variants :
          LET e == [op |-> "unk", b |-> u'.b, mode |-> o.mode, ascii |-> o.ascii, multi |-> o.multi, pred |-> u'.items]
          IN PrintT("@@" \o ToJson(e @@ [exp |-> Expect(e)]))
=============================================================================
