------------------------------- MODULE DefDec -------------------------------
(***************************************************************************)
(* Decimal numerals for 32/64-bit integers that live as little-endian byte *)
(* vectors (module VB): TLC's own integers stop at 2^31.                   *)
(*                                                                         *)
(*   DecOfU(b)        decimal digits (character codes) of the unsigned     *)
(*                    value of b, no leading zeros, "0" for zero           *)
(*   UOfDec(ds, n)    value of a digit string as an n-byte vector, or      *)
(*                    overflow                                             *)
(*   DecOfS / SOfDec  two's complement signed variants with the grammar    *)
(*                    [+-]? digit+ of strconv.ParseInt (ParseUint: digit+) *)
(*                                                                         *)
(* MC_DefVal checks the pair against TLC's native integers below 2^31 and  *)
(* against each other (round trip) on the boundary values of every width.  *)
(***************************************************************************)
EXTENDS Integers, Sequences, VB

\* TLC keeps [k \in S |-> e] as an unevaluated closure; chains of such closures re-evaluate exponentially.
\* Concatenation with the empty sequence turns a function over 1..n into an evaluated tuple.
Force(f) == <<>> \o f

IsDigit(c) == c >= 48 /\ c <= 57
AllDigits(s) == Len(s) > 0 /\ \A k \in 1..Len(s) : IsDigit(s[k])

\* ---- byte vector -> digits: long division by 10^4, most significant byte first (linear, carries passed down)
RECURSIVE DivFrom(_, _, _, _)
DivFrom(b, i, rem, q) ==          \* bytes i..1 still to do; q = quotient bytes i+1..Len(b) (little endian)
  IF i = 0 THEN [q |-> q, r |-> rem]
  ELSE LET cur == rem * 256 + b[i] IN DivFrom(b, i - 1, cur % 10000, <<cur \div 10000>> \o q)
DivMod10000(b) == DivFrom(b, Len(b), 0, <<>>)
Four(x) == <<48 + (x \div 1000), 48 + ((x \div 100) % 10), 48 + ((x \div 10) % 10), 48 + (x % 10)>>

RECURSIVE DecOfUFrom(_, _), StripZeros(_)
DecOfUFrom(b, acc) ==
  IF IsZeros(b) THEN acc
  ELSE LET d == DivMod10000(b) IN DecOfUFrom(d.q, Four(d.r) \o acc)
StripZeros(ds) == IF Len(ds) > 1 /\ ds[1] = 48 THEN StripZeros(Tail(ds)) ELSE ds
DecOfU(b) == IF IsZeros(b) THEN <<48>> ELSE StripZeros(DecOfUFrom(b, <<>>))

\* ---- digits -> byte vector: acc * 10 + d with a carry chain; ovf when the value needs more than n bytes
RECURSIVE MulAddFrom(_, _, _, _)
MulAddFrom(b, i, carry, out) ==
  IF i > Len(b) THEN [v |-> out, ovf |-> carry > 0]
  ELSE LET t == b[i] * 10 + carry IN MulAddFrom(b, i + 1, t \div 256, Append(out, t % 256))
MulAdd10(b, d) == MulAddFrom(b, 1, d, <<>>)

RECURSIVE UOfDecFrom(_, _, _)
UOfDecFrom(ds, i, acc) ==
  IF i > Len(ds) THEN [ok |-> TRUE, v |-> acc]
  ELSE LET m == MulAdd10(acc, ds[i] - 48) IN
       IF m.ovf THEN [ok |-> FALSE, v |-> acc] ELSE UOfDecFrom(ds, i + 1, m.v)
\* strconv.ParseUint(s, 10, 8n)
UOfDec(ds, n) == IF ~AllDigits(ds) THEN [ok |-> FALSE, v |-> Zeros(n)] ELSE
                 LET r == UOfDecFrom(ds, 1, Zeros(n)) IN IF r.ok THEN r ELSE [ok |-> FALSE, v |-> Zeros(n)]

\* ---- signed
DecOfS(b) == IF IsNegative(b) THEN <<45>> \o DecOfU(Neg(b)) ELSE DecOfU(b)       \* Neg(min) = 2^(8n-1) as unsigned

\* strconv.ParseInt(s, 10, 8n): optional sign, digits, range -2^(8n-1) .. 2^(8n-1)-1
SOfDec(s, n) ==
  LET neg == Len(s) > 0 /\ s[1] = 45
      signed == Len(s) > 0 /\ (s[1] = 45 \/ s[1] = 43)
      ds == IF signed THEN SubSeq(s, 2, Len(s)) ELSE s
      m == UOfDec(ds, n)                                   \* magnitude, must be < 2^(8n)
      Min == PowBytes(8 * n - 1, n)                        \* 2^(8n-1) as unsigned
      bad == [ok |-> FALSE, v |-> Zeros(n)]
  IN IF ~m.ok THEN bad
     ELSE IF neg THEN (IF CmpU(m.v, Min) > 0 THEN bad ELSE [ok |-> TRUE, v |-> Neg(m.v)])
     ELSE (IF CmpU(m.v, Min) >= 0 THEN bad ELSE [ok |-> TRUE, v |-> m.v])

\* ---- native reference (only below 2^31)
RECURSIVE NatDigits(_)
NatDigits(x) == IF x < 10 THEN <<48 + x>> ELSE NatDigits(x \div 10) \o <<48 + (x % 10)>>
=============================================================================
