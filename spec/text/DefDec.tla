------------------------------- MODULE DefDec -------------------------------
(***************************************************************************)
(* Decimal numerals for 32/64-bit integers that live as little-endian byte *)
(* vectors (module VB): TLC's own integers stop at 2^31.                   *)
(*                                                                         *)
(*   DecOfU(b)        decimal digits (character codes) of the unsigned     *)
(*                    value of b, no leading zeros, "0" for zero           *)
(*   UOfDec(ds, n)    value of a digit string as an n-byte vector, or      *)
(*                    overflow                                             *)
(*   DecOfS / SOfDec  two's complement signed variants with the grammar    *)
(*                    [+-]? digit+ of strconv.ParseInt (ParseUint: digit+) *)
(*                                                                         *)
(* MC_DefVal checks the pair against TLC's native integers below 2^31 and  *)
(* against each other (round trip) on the boundary values of every width.  *)
(***************************************************************************)
EXTENDS Integers, Sequences, VB

IsDigit(c) == c >= 48 /\ c <= 57
AllDigits(s) == Len(s) > 0 /\ \A k \in 1..Len(s) : IsDigit(s[k])

\* ---- byte vector -> digits: long division by 10, most significant byte first
\* Rem[i] = remainder after processing bytes Len..i
DivMod10(b) ==
  LET n == Len(b)
      Rem[i \in 1..(n + 1)] == IF i = n + 1 THEN 0 ELSE (Rem[i + 1] * 256 + b[i]) % 10
  IN [q |-> [i \in 1..n |-> (Rem[i + 1] * 256 + b[i]) \div 10], r |-> Rem[1]]

RECURSIVE DecOfUFrom(_, _)
DecOfUFrom(b, acc) ==
  IF IsZeros(b) THEN acc
  ELSE LET d == DivMod10(b) IN DecOfUFrom(d.q, <<48 + d.r>> \o acc)
DecOfU(b) == IF IsZeros(b) THEN <<48>> ELSE DecOfUFrom(b, <<>>)

\* ---- digits -> byte vector: acc * 10 + d with a carry chain; ovf when the value needs more than n bytes
MulAdd10(b, d) ==
  LET n == Len(b)
      Carry[i \in 0..n] == IF i = 0 THEN d ELSE (b[i] * 10 + Carry[i - 1]) \div 256
  IN [v |-> [i \in 1..n |-> (b[i] * 10 + Carry[i - 1]) % 256], ovf |-> Carry[n] > 0]

RECURSIVE UOfDecFrom(_, _, _)
UOfDecFrom(ds, i, acc) ==
  IF i > Len(ds) THEN [ok |-> TRUE, v |-> acc]
  ELSE LET m == MulAdd10(acc, ds[i] - 48) IN
       IF m.ovf THEN [ok |-> FALSE, v |-> acc] ELSE UOfDecFrom(ds, i + 1, m.v)
\* strconv.ParseUint(s, 10, 8n)
UOfDec(ds, n) == IF ~AllDigits(ds) THEN [ok |-> FALSE, v |-> Zeros(n)] ELSE
                 LET r == UOfDecFrom(ds, 1, Zeros(n)) IN IF r.ok THEN r ELSE [ok |-> FALSE, v |-> Zeros(n)]

\* ---- signed
DecOfS(b) == IF IsNegative(b) THEN <<45>> \o DecOfU(Neg(b)) ELSE DecOfU(b)       \* Neg(min) = 2^(8n-1) as unsigned

\* strconv.ParseInt(s, 10, 8n): optional sign, digits, range -2^(8n-1) .. 2^(8n-1)-1
SOfDec(s, n) ==
  LET neg == Len(s) > 0 /\ s[1] = 45
      signed == Len(s) > 0 /\ (s[1] = 45 \/ s[1] = 43)
      ds == IF signed THEN SubSeq(s, 2, Len(s)) ELSE s
      m == UOfDec(ds, n)                                   \* magnitude, must be < 2^(8n)
      Min == PowBytes(8 * n - 1, n)                        \* 2^(8n-1) as unsigned
      bad == [ok |-> FALSE, v |-> Zeros(n)]
  IN IF ~m.ok THEN bad
     ELSE IF neg THEN (IF CmpU(m.v, Min) > 0 THEN bad ELSE [ok |-> TRUE, v |-> Neg(m.v)])
     ELSE (IF CmpU(m.v, Min) >= 0 THEN bad ELSE [ok |-> TRUE, v |-> m.v])

\* ---- native reference (only below 2^31)
RECURSIVE NatDigits(_)
NatDigits(x) == IF x < 10 THEN <<48 + x>> ELSE NatDigits(x \div 10) \o <<48 + (x % 10)>>
=============================================================================
