------------------------------- MODULE TextLex -------------------------------
(***************************************************************************)
(* Text-format string literals (internal/encoding/text).                   *)
(*                                                                         *)
(* A literal is a sequence of bytes (character codes).  Three things are   *)
(* specified here:                                                         *)
(*                                                                         *)
(*  Escape(b, ascii)   the literal the *encoder* writes for the byte       *)
(*                     string b: per UTF-8 unit (TextUtf8) either the unit *)
(*                     itself or an escape                                 *)
(*                       invalid byte, C0 control, DEL  -> \n \r \t | \xHH *)
(*                       " and \                        -> \" \\           *)
(*                       C1 controls, and with ascii every rune >= U+0080  *)
(*                                                      -> \uHHHH | \UHHHHHHHH *)
(*                                                                         *)
(*  LitValue(s)        the *decoder*: the byte string denoted by a value   *)
(*                     made of one or more adjacent literals ("..." or     *)
(*                     '...', separated by optional white space/comments), *)
(*                     defined denotationally by structural recursion:     *)
(*                     simple escapes \a\b\f\n\r\t\v\\\'\"\?, octal of 1-3 *)
(*                     digits (<= \377), hex of 1-2 digits, \u + 4 / \U + 8*)
(*                     hex digits (scalar values, UTF-16 surrogate pairs   *)
(*                     written as two \u escapes), raw well-formed UTF-8   *)
(*                     other than NUL and newline.                         *)
(*                                                                         *)
(*  StreamValue(s)     the same language as a byte-at-a-time automaton     *)
(*                     with explicit phases (second, independent           *)
(*                     definition; MC_TextLit checks both equal).          *)
(*                                                                         *)
(* The losslessness law is LitValue(Escape(b, a)) = b for every b, a.      *)
(***************************************************************************)
EXTENDS TextUtf8

\* ---------------------------------------------------------------- characters
DQ == 34   SQ == 39   BS == 92   QM == 63   HASH == 35   NL == 10
IsWS(c) == c = 32 \/ c = 10 \/ c = 13 \/ c = 9
IsQuote(c) == c = DQ \/ c = SQ
IsOct(c) == c >= 48 /\ c <= 55
IsHex(c) == (c >= 48 /\ c <= 57) \/ (c >= 97 /\ c <= 102) \/ (c >= 65 /\ c <= 70)
HexVal(c) == IF c <= 57 THEN c - 48 ELSE IF c >= 97 THEN c - 87 ELSE c - 55
Printable(s) == \A k \in 1..Len(s) : s[k] >= 32 /\ s[k] <= 126

HexDigit(d) == IF d < 10 THEN 48 + d ELSE 87 + d             \* lower case
HexN(v, n) == [k \in 1..n |-> HexDigit((v \div (16 ^ (n - k))) % 16)]

\* ---------------------------------------------------------------- encoder
EscRune(r, raw, ascii) ==          \* raw = the bytes of the unit as they stand in the input
  IF r < 32 \/ r = DQ \/ r = BS \/ r = 127 THEN
       CASE r = DQ -> <<BS, DQ>>
         [] r = BS -> <<BS, BS>>
         [] r = 10 -> <<BS, 110>>
         [] r = 13 -> <<BS, 114>>
         [] r = 9  -> <<BS, 116>>
         [] OTHER  -> <<BS, 120>> \o HexN(r, 2)
  ELSE IF r >= 128 /\ (ascii \/ r <= 159) THEN
       (IF r <= 65535 THEN <<BS, 117>> \o HexN(r, 4) ELSE <<BS, 85>> \o HexN(r, 8))
  ELSE raw

RECURSIVE EscFrom(_, _, _)
EscFrom(b, i, ascii) ==
  IF i > Len(b) THEN <<>>
  ELSE LET u == RuneAt(b, i) IN
       (IF u.r < 0 THEN <<BS, 120>> \o HexN(b[i], 2)
        ELSE EscRune(u.r, SubSeq(b, i, i + u.n - 1), ascii)) \o EscFrom(b, i + u.n, ascii)

EscapeBody(b, ascii) == EscFrom(b, 1, ascii)
Escape(b, ascii) == <<DQ>> \o EscapeBody(b, ascii) \o <<DQ>>

\* ---------------------------------------------------------------- decoder, denotational
Bad == [ok |-> FALSE, val |-> <<>>, next |-> 0]

\* number of leading octal / hexadecimal digits of s[i..], at most max
RECURSIVE RunOct(_, _, _), RunHex(_, _, _)
RunOct(s, i, max) == IF max = 0 \/ i > Len(s) \/ ~IsOct(s[i]) THEN 0 ELSE 1 + RunOct(s, i + 1, max - 1)
RunHex(s, i, max) == IF max = 0 \/ i > Len(s) \/ ~IsHex(s[i]) THEN 0 ELSE 1 + RunHex(s, i + 1, max - 1)

\* value of n digits in the given base starting at s[i]; saturates above MaxRune (never overflows TLC's integers)
RECURSIVE DigitsVal(_, _, _, _, _)
DigitsVal(s, i, n, base, acc) ==
  IF n = 0 THEN acc
  ELSE DigitsVal(s, i + 1, n - 1, base, IF acc > MaxRune THEN acc ELSE acc * base + HexVal(s[i]))

HighSur(v) == v >= 55296 /\ v <= 56319      \* D800..DBFF
LowSur(v)  == v >= 56320 /\ v <= 57343      \* DC00..DFFF

\* the escape starting at s[j] = '\'; result [ok, val (bytes), next]
EscapeAt(s, j) ==
  IF j + 1 > Len(s) THEN Bad
  ELSE LET c == s[j + 1] IN
    CASE c = DQ \/ c = SQ \/ c = BS \/ c = QM -> [ok |-> TRUE, val |-> <<c>>, next |-> j + 2]
      [] c = 97  -> [ok |-> TRUE, val |-> <<7>>,  next |-> j + 2]      \* \a
      [] c = 98  -> [ok |-> TRUE, val |-> <<8>>,  next |-> j + 2]      \* \b
      [] c = 110 -> [ok |-> TRUE, val |-> <<10>>, next |-> j + 2]      \* \n
      [] c = 114 -> [ok |-> TRUE, val |-> <<13>>, next |-> j + 2]      \* \r
      [] c = 116 -> [ok |-> TRUE, val |-> <<9>>,  next |-> j + 2]      \* \t
      [] c = 118 -> [ok |-> TRUE, val |-> <<11>>, next |-> j + 2]      \* \v
      [] c = 102 -> [ok |-> TRUE, val |-> <<12>>, next |-> j + 2]      \* \f
      [] IsOct(c) ->
           LET n == RunOct(s, j + 1, 3)
               v == DigitsVal(s, j + 1, n, 8, 0)
           IN IF v > 255 THEN Bad ELSE [ok |-> TRUE, val |-> <<v>>, next |-> j + 1 + n]
      [] c = 120 ->                                                    \* \x
           LET n == RunHex(s, j + 2, 2) IN
           IF n = 0 THEN Bad ELSE [ok |-> TRUE, val |-> <<DigitsVal(s, j + 2, n, 16, 0)>>, next |-> j + 2 + n]
      [] c = 117 \/ c = 85 ->                                          \* \u, \U
           LET need == IF c = 117 THEN 4 ELSE 8 IN
           IF RunHex(s, j + 2, need) < need THEN Bad
           ELSE LET v == DigitsVal(s, j + 2, need, 16, 0)
                    k == j + 2 + need
                IN IF v > MaxRune THEN Bad
                   ELSE IF ~IsSurrogate(v) THEN [ok |-> TRUE, val |-> EncRune(v), next |-> k]
                   ELSE \* a surrogate must be the high half of a pair whose low half follows as \uXXXX
                        IF k + 5 > Len(s) \/ s[k] # BS \/ s[k + 1] # 117 \/ RunHex(s, k + 2, 4) < 4 THEN Bad
                        ELSE LET w == DigitsVal(s, k + 2, 4, 16, 0) IN
                             IF HighSur(v) /\ LowSur(w)
                             THEN [ok |-> TRUE, val |-> EncRune(65536 + (v - 55296) * 1024 + (w - 56320)), next |-> k + 6]
                             ELSE Bad
      [] OTHER -> Bad

\* body of a literal opened with quote q, from s[j]; acc = bytes so far
RECURSIVE BodyFrom(_, _, _, _)
BodyFrom(s, j, q, acc) ==
  IF j > Len(s) THEN Bad
  ELSE LET u == RuneAt(s, j) IN
       IF u.r < 0 \/ u.r = 0 \/ u.r = NL THEN Bad
       ELSE IF u.r = q THEN [ok |-> TRUE, val |-> acc, next |-> j + 1]
       ELSE IF u.r = BS THEN
            LET e == EscapeAt(s, j) IN
            IF e.ok THEN BodyFrom(s, e.next, q, acc \o e.val) ELSE Bad
       ELSE BodyFrom(s, j + u.n, q, acc \o SubSeq(s, j, j + u.n - 1))

\* one literal starting at s[i] (s[i] must be a quote)
LiteralAt(s, i) == IF i > Len(s) \/ ~IsQuote(s[i]) THEN Bad ELSE BodyFrom(s, i + 1, s[i], <<>>)

\* skip white space and #-comments
RECURSIVE SkipWS(_, _)
SkipWS(s, i) ==
  IF i > Len(s) THEN i
  ELSE IF IsWS(s[i]) THEN SkipWS(s, i + 1)
  ELSE IF s[i] = HASH THEN
       (IF \E k \in i..Len(s) : s[k] = NL
        THEN SkipWS(s, (CHOOSE k \in i..Len(s) : s[k] = NL /\ \A m \in i..(k-1) : s[m] # NL) + 1)
        ELSE Len(s) + 1)
  ELSE i

\* a string *value*: one or more adjacent literals, concatenated; nothing else may follow
RECURSIVE ValueFrom(_, _, _)
ValueFrom(s, i, acc) ==
  LET l == LiteralAt(s, i) IN
  IF ~l.ok THEN [ok |-> FALSE, val |-> <<>>]
  ELSE LET k == SkipWS(s, l.next) IN
       IF k > Len(s) THEN [ok |-> TRUE, val |-> acc \o l.val]
       ELSE IF IsQuote(s[k]) THEN ValueFrom(s, k, acc \o l.val)
       ELSE [ok |-> FALSE, val |-> <<>>]
LitValue(s) == ValueFrom(s, 1, <<>>)

\* UnmarshalString (used by defval): only the first literal is read, the rest is ignored
FirstLiteral(s) == LET l == LiteralAt(s, 1) IN [ok |-> l.ok, val |-> l.val]

\* ---------------------------------------------------------------- decoder, streaming automaton
\* phases: "open"  before the first literal           "gap"  between literals (after a closing quote)
\*         "cmt"   inside a comment in a gap           "body" inside a literal
\*         "utf"   inside a multi-byte UTF-8 unit      "esc"  just after a backslash
\*         "oct" / "hex" / "uni"  inside a numeric escape       "sur1"/"sur2"/"surd"  low half of a pair
\*         "err"
StreamInit == [phase |-> "open", q |-> 0, out |-> <<>>, k |-> 0, v |-> 0, need |-> 0, hi |-> 0,
               lo2 |-> 0, hi2 |-> 0, pend |-> <<>>]
Err(st) == [st EXCEPT !.phase = "err"]

\* a byte arriving while in phase "body"
FeedBody(st, c) ==
  IF c = 0 \/ c = NL THEN Err(st)
  ELSE IF c = st.q THEN [st EXCEPT !.phase = "gap"]
  ELSE IF c = BS THEN [st EXCEPT !.phase = "esc"]
  ELSE IF c < 128 THEN [st EXCEPT !.out = Append(@, c)]
  ELSE IF c >= 194 /\ c <= 223 THEN [st EXCEPT !.phase = "utf", !.k = 1, !.lo2 = 128, !.hi2 = 191, !.pend = <<c>>]
  ELSE IF c >= 224 /\ c <= 239 THEN [st EXCEPT !.phase = "utf", !.k = 2, !.pend = <<c>>,
                                              !.lo2 = IF c = 224 THEN 160 ELSE 128, !.hi2 = IF c = 237 THEN 159 ELSE 191]
  ELSE IF c >= 240 /\ c <= 244 THEN [st EXCEPT !.phase = "utf", !.k = 3, !.pend = <<c>>,
                                              !.lo2 = IF c = 240 THEN 144 ELSE 128, !.hi2 = IF c = 244 THEN 143 ELSE 191]
  ELSE Err(st)

Emit1(st, byte) == [st EXCEPT !.phase = "body", !.out = Append(@, byte), !.k = 0, !.v = 0]
EmitRune(st, r) == [st EXCEPT !.phase = "body", !.out = @ \o EncRune(r), !.k = 0, !.v = 0, !.hi = 0]

Feed(st, c) ==
  CASE st.phase = "err" -> st
    [] st.phase = "open" -> IF IsQuote(c) THEN [st EXCEPT !.phase = "body", !.q = c] ELSE Err(st)
    [] st.phase = "gap" ->
         IF IsWS(c) THEN st
         ELSE IF c = HASH THEN [st EXCEPT !.phase = "cmt"]
         ELSE IF IsQuote(c) THEN [st EXCEPT !.phase = "body", !.q = c]
         ELSE Err(st)
    [] st.phase = "cmt" -> IF c = NL THEN [st EXCEPT !.phase = "gap"] ELSE st
    [] st.phase = "body" -> FeedBody(st, c)
    [] st.phase = "utf" ->
         IF c < st.lo2 \/ c > st.hi2 THEN Err(st)
         ELSE IF st.k = 1 THEN [st EXCEPT !.phase = "body", !.out = @ \o Append(st.pend, c), !.pend = <<>>, !.k = 0]
         ELSE [st EXCEPT !.k = @ - 1, !.pend = Append(@, c), !.lo2 = 128, !.hi2 = 191]
    [] st.phase = "esc" ->
         CASE c = DQ \/ c = SQ \/ c = BS \/ c = QM -> Emit1(st, c)
           [] c = 97 -> Emit1(st, 7)  [] c = 98 -> Emit1(st, 8)   [] c = 110 -> Emit1(st, 10)
           [] c = 114 -> Emit1(st, 13) [] c = 116 -> Emit1(st, 9) [] c = 118 -> Emit1(st, 11)
           [] c = 102 -> Emit1(st, 12)
           [] IsOct(c) -> [st EXCEPT !.phase = "oct", !.k = 1, !.v = c - 48]
           [] c = 120 -> [st EXCEPT !.phase = "hex", !.k = 0, !.v = 0]
           [] c = 117 -> [st EXCEPT !.phase = "uni", !.k = 0, !.v = 0, !.need = 4]
           [] c = 85  -> [st EXCEPT !.phase = "uni", !.k = 0, !.v = 0, !.need = 8]
           [] OTHER -> Err(st)
    [] st.phase = "oct" ->
         IF IsOct(c) /\ st.k < 3 THEN
              LET v == st.v * 8 + (c - 48) IN
              IF st.k = 2 THEN (IF v > 255 THEN Err(st) ELSE Emit1(st, v))
              ELSE [st EXCEPT !.k = 2, !.v = v]
         ELSE FeedBody(Emit1(st, st.v), c)            \* the escape ended before c (one or two digits: <= 63)
    [] st.phase = "hex" ->
         IF IsHex(c) THEN (IF st.k = 1 THEN Emit1(st, st.v * 16 + HexVal(c)) ELSE [st EXCEPT !.k = 1, !.v = HexVal(c)])
         ELSE IF st.k = 0 THEN Err(st)
         ELSE FeedBody(Emit1(st, st.v), c)
    [] st.phase = "uni" ->
         IF ~IsHex(c) THEN Err(st)
         ELSE LET v == IF st.v > MaxRune THEN st.v ELSE st.v * 16 + HexVal(c) IN
              IF st.k + 1 < st.need THEN [st EXCEPT !.k = @ + 1, !.v = v]
              ELSE IF v > MaxRune THEN Err(st)
              ELSE IF HighSur(v) THEN [st EXCEPT !.phase = "sur1", !.hi = v, !.k = 0, !.v = 0]
              ELSE IF LowSur(v) THEN Err(st)
              ELSE EmitRune(st, v)
    [] st.phase = "sur1" -> IF c = BS THEN [st EXCEPT !.phase = "sur2"] ELSE Err(st)
    [] st.phase = "sur2" -> IF c = 117 THEN [st EXCEPT !.phase = "surd", !.k = 0, !.v = 0] ELSE Err(st)
    [] st.phase = "surd" ->
         IF ~IsHex(c) THEN Err(st)
         ELSE LET v == st.v * 16 + HexVal(c) IN
              IF st.k < 3 THEN [st EXCEPT !.k = @ + 1, !.v = v]
              ELSE IF LowSur(v) THEN EmitRune(st, 65536 + (st.hi - 55296) * 1024 + (v - 56320))
              ELSE Err(st)

RECURSIVE StreamRun(_, _, _)
StreamRun(st, s, i) == IF i > Len(s) THEN st ELSE StreamRun(Feed(st, s[i]), s, i + 1)
StreamValue(s) ==
  LET st == StreamRun(StreamInit, s, 1) IN
  IF st.phase \in {"gap", "cmt"} THEN [ok |-> TRUE, val |-> st.out] ELSE [ok |-> FALSE, val |-> <<>>]
=============================================================================
