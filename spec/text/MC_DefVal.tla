------------------------------ MODULE MC_DefVal ------------------------------
(***************************************************************************)
(* C39.  One-shot machine over the value space of every scalar kind and    *)
(* both formats:                                                           *)
(*   integers   2^n - 1, 2^n, 2^n + 1 for every n, bit patterns, at every  *)
(*              width and signedness (all 15 integer kinds)                *)
(*   bytes,     every byte string of <= MaxTok tokens over a corner        *)
(*   string     alphabet (escape syntax characters, octal/hex digits,      *)
(*              controls, DEL, UTF-8 classes, ill-formed bytes)            *)
(*   enums      every value of two enum shapes (negative numbers, int32    *)
(*              extremes, aliases), bools                                  *)
(*   floats     sign x exponent class x mantissa class grids of bit        *)
(*              patterns incl. the patterns known to be hard for           *)
(*              parse-wide-then-narrow implementations, all NaN shapes;    *)
(*              exact decimal texts (dyadic rationals, powers of ten)      *)
(*              with the bit pattern the specification constructs          *)
(*   sweeps     (thorough) one line per float32 (sign, exponent) stratum   *)
(* TLC checks the laws below on every case; every case is emitted as a     *)
(* tour line with the text the specification writes (hs = 1) where the     *)
(* specification defines one.                                              *)
(***************************************************************************)
EXTENDS DefVal, Json, TLC

CONSTANTS Tier, MaxTok, SweepStride, SweepStart

\* ---- integers
Around(b8) == {Dec(b8), b8, Inc(b8)}
Pat64 == {<<170,170,170,170,170,170,170,170>>, <<85,85,85,85,85,85,85,85>>, <<1,2,3,4,5,6,7,8>>,
          <<0,202,154,59,0,0,0,0>>, <<255,201,154,59,0,0,0,0>>,                    \* 10^9, 10^9 - 1
          <<0,0,100,167,179,182,224,13>>, <<255,255,99,167,179,182,224,13>>,      \* 10^18, 10^18 - 1
          <<0,0,232,137,4,35,199,138>>, <<255,255,231,137,4,35,199,138>>}         \* 10^19, 10^19 - 1
Values64 == UNION {Around(PowBytes(n, 8)) : n \in 0..63} \cup Pat64
Values32 == {Trunc(v, 4) : v \in UNION {Around(PowBytes(n, 8)) : n \in 0..32}}
            \cup {<<170,170,170,170>>, <<85,85,85,85>>, <<0,202,154,59>>, <<255,201,154,59>>}
Fmts == {"desc", "gotag"}

\* ---- byte strings
Tokens == {<<c>> : c \in {0, 1, 7, 9, 10, 13, 27, 31, 32, 34, 39, 48, 55, 56, 63, 92, 97, 110, 120, 126, 127, 128, 160,
                          194, 237, 255}}
          \cup {<<195, 169>>, <<240, 159, 152, 128>>, <<237, 160, 128>>, <<92, 48>>, <<92, 120>>, <<34, 34>>}
RECURSIVE Strings(_)
Strings(n) == IF n = 0 THEN {<<>>} ELSE LET S == Strings(n - 1) IN S \cup {s \o t : s \in S, t \in Tokens}

\* ---- enums: [n |-> name, v |-> number]
Nm(x) == CASE x = "ZERO" -> <<90, 69, 82, 79>> [] x = "ONE" -> <<79, 78, 69>> [] x = "NEG" -> <<78, 69, 71>>
           [] x = "MAX" -> <<77, 65, 88>> [] x = "MIN" -> <<77, 73, 78>> [] x = "UNO" -> <<85, 78, 79>>
           [] x = "a" -> <<97>> [] x = "true" -> TrueS [] x = "inf" -> <<105, 110, 102>> [] x = "_1" -> <<95, 49>>
EnumA == << [n |-> Nm("ZERO"), v |-> <<0, 0, 0, 0>>], [n |-> Nm("ONE"), v |-> <<1, 0, 0, 0>>],
            [n |-> Nm("NEG"), v |-> <<255, 255, 255, 255>>], [n |-> Nm("MAX"), v |-> <<255, 255, 255, 127>>],
            [n |-> Nm("MIN"), v |-> <<0, 0, 0, 128>>], [n |-> Nm("UNO"), v |-> <<1, 0, 0, 0>>] >>     \* UNO aliases ONE
EnumB == << [n |-> Nm("inf"), v |-> <<10, 0, 0, 0>>], [n |-> Nm("true"), v |-> <<246, 255, 255, 255>>],
            [n |-> Nm("a"), v |-> <<0, 0, 0, 0>>], [n |-> Nm("_1"), v |-> <<1, 0, 0, 0>>] >>         \* first value non-zero
Enums == {EnumA, EnumB}

\* ---- floats: bit-pattern grids
F32(sign, e, m) == <<m % 256, (m \div 256) % 256, (e % 2) * 128 + (m \div 65536), sign * 128 + (e \div 2)>>
Exp32 == {0, 1, 2, 43, 102, 103, 126, 127, 128, 149, 150, 151, 253, 254, 255}
Mant32 == {0, 1, 2, 3032061, 4194303, 4194304, 4194305, 5592405, 8388606, 8388607}   \* 3032061 = 0x2E43FD
Hard32 == { <<253, 67, 174, 21>>, <<253, 67, 174, 149>>,        \* 0x15AE43FD, 0x95AE43FD: narrow-after-wide parse is off by one ulp
            <<205, 204, 204, 61>>, <<0, 0, 128, 75>>, <<255, 255, 127, 75>>, <<255, 255, 127, 127>>,
            <<1, 0, 128, 127>>, <<0, 0, 192, 255>>, <<1, 0, 0, 128>>, <<219, 15, 73, 64>> }
Floats32 == {F32(s, e, m) : s \in {0, 1}, e \in Exp32, m \in Mant32} \cup Hard32

\* m given as 7 bytes (52 bits: m7 < 16)
F64(sign, e, m) == <<m[1], m[2], m[3], m[4], m[5], m[6], (e % 16) * 16 + m[7], sign * 128 + (e \div 16)>>
Exp64 == {0, 1, 2, 939, 1022, 1023, 1024, 1075, 1076, 2045, 2046, 2047}
Mant64 == {<<0,0,0,0,0,0,0>>, <<1,0,0,0,0,0,0>>, <<255,255,255,255,255,255,15>>, <<254,255,255,255,255,255,15>>,
           <<0,0,0,0,0,0,8>>, <<1,0,0,0,0,0,8>>, <<255,255,255,255,255,255,7>>, <<85,85,85,85,85,85,5>>,
           <<0,0,0,160,127,200,5>>}
Hard64 == { <<154,153,153,153,153,153,185,63>>,                  \* 0.1
            <<255,255,255,255,255,255,15,0>>,                    \* 2.2250738585072011e-308 (largest subnormal)
            <<0,0,0,0,0,0,16,0>>, <<1,0,0,0,0,0,0,0>>,           \* smallest normal, smallest subnormal
            <<246,74,225,199,2,45,181,68>>,                      \* 1e23
            <<0,0,0,0,0,0,64,67>>, <<1,0,0,0,0,0,64,67>>,        \* 2^53, 2^53 + 2
            <<24,45,68,84,251,33,9,64>>, <<0,0,0,224,255,255,239,71>>, <<0,0,0,160,127,200,181,58>> }   \* pi, MaxFloat32, 0x15AE43FD widened
Floats64 == {F64(s, e, m) : s \in {0, 1}, e \in Exp64, m \in Mant64} \cup Hard64

\* ---- exact decimal texts
ExactNs == {0, 1, 3, 5, 7, 25, 255, 625, 1023, 65535, 99999, 8388607, 16777215}
ExactEs == {-6, -3, -1, 0, 1, 7}
ExactOK(n, e2) == e2 >= -3 \/ n <= 99999          \* keeps n * 5^k inside TLC's integers
ExactCaseS(kind, s, n, e2, str) ==
  [op |-> "rt", kind |-> kind, fmt |-> "desc", v |-> IF kind = "float" THEN ExactF32(s, n, e2) ELSE ExactF64(s, n, e2),
   enum |-> <<>>, idx |-> 0, hs |-> 1, str |-> str]
ExactCase(kind, s, n, e2) == ExactCaseS(kind, s, n, e2, ExactDec(s, n, e2))
ExpForms == \* texts with an exponent: [str, n, e2]
  { [str |-> <<49, 101, 43, 49, 48>>, n |-> 9765625, e2 |-> 10],              \* 1e+10 = 5^10 * 2^10
    [str |-> <<49, 69, 50>>, n |-> 25, e2 |-> 2],                             \* 1E2
    [str |-> <<50, 46, 53, 101, 45, 48, 49>>, n |-> 1, e2 |-> -2],            \* 2.5e-01
    [str |-> <<43, 49, 46, 53>>, n |-> 3, e2 |-> -1],                         \* +1.5
    [str |-> <<48, 46, 48>>, n |-> 0, e2 |-> 0],                              \* 0.0
    [str |-> <<49, 54, 55, 55, 55, 50, 49, 54, 46, 48, 48>>, n |-> 1, e2 |-> 24] }    \* 16777216.00
SpecialLits == { [str |-> <<110, 97, 110>>, f |-> <<0, 0, 192, 127>>, d |-> <<0, 0, 0, 0, 0, 0, 248, 127>>],          \* nan
                 [str |-> <<105, 110, 102>>, f |-> <<0, 0, 128, 127>>, d |-> <<0, 0, 0, 0, 0, 0, 240, 127>>],         \* inf
                 [str |-> <<45, 105, 110, 102>>, f |-> <<0, 0, 128, 255>>, d |-> <<0, 0, 0, 0, 0, 0, 240, 255>>] }    \* -inf

Rt(kind, fmt, v) == [op |-> "rt", kind |-> kind, fmt |-> fmt, v |-> v, enum |-> <<>>, idx |-> 0, hs |-> 1,
                     str |-> Format(kind, fmt, v, <<>>, 0)]
RtF(kind, fmt, v) == [op |-> "rt", kind |-> kind, fmt |-> fmt, v |-> v, enum |-> <<>>, idx |-> 0, hs |-> 0, str |-> <<>>]
RtE(fmt, en, i) == [op |-> "rt", kind |-> "enum", fmt |-> fmt, v |-> en[i].v, enum |-> en, idx |-> i, hs |-> 1,
                    str |-> Format("enum", fmt, en[i].v, en, i)]

\* the kinds of one class share one code path: the full value set goes through the first kind in both formats,
\* the other kinds of the class get the class boundaries
Few64 == UNION {Around(PowBytes(n, 8)) : n \in {0, 31, 32, 63}}
Few32 == {Trunc(v, 4) : v \in UNION {Around(PowBytes(n, 8)) : n \in {0, 31, 32}}}
Cases ==
       {Rt("int64", f, v) : f \in Fmts, v \in Values64}
  \cup {Rt("uint64", f, v) : f \in Fmts, v \in Values64}
  \cup {Rt("int32", f, v) : f \in Fmts, v \in Values32}
  \cup {Rt("uint32", f, v) : f \in Fmts, v \in Values32}
  \cup {Rt(k, f, v) : k \in (S64 \cup U64) \ {"int64", "uint64"}, f \in Fmts, v \in IF Tier = "quick" THEN Few64 ELSE Values64}
  \cup {Rt(k, f, v) : k \in (S32 \cup U32) \ {"int32", "uint32"}, f \in Fmts, v \in IF Tier = "quick" THEN Few32 ELSE Values32}
  \cup {Rt("bool", f, v) : f \in Fmts, v \in {<<0>>, <<1>>}}
  \cup {Rt("bytes", f, v) : f \in Fmts, v \in Strings(MaxTok)}
  \cup {Rt("string", f, v) : f \in Fmts, v \in Strings(IF MaxTok > 1 THEN MaxTok - 1 ELSE 1)}
  \cup UNION {{RtE(f, en, i) : f \in Fmts, i \in 1..Len(en)} : en \in Enums}
  \cup {RtF("float", f, v) : f \in Fmts, v \in Floats32}
  \cup {RtF("double", f, v) : f \in Fmts, v \in Floats64}
  \cup {ExactCase(k, s, x[1], x[2]) : k \in {"float", "double"}, s \in {0, 1}, x \in {y \in ExactNs \X ExactEs : ExactOK(y[1], y[2])}}
  \cup {ExactCaseS(k, 0, x.n, x.e2, x.str) : k \in {"float", "double"}, x \in ExpForms}
  \cup {[RtF(k, "desc", IF k = "float" THEN x.f ELSE x.d) EXCEPT !.hs = 1, !.str = x.str] : k \in {"float", "double"}, x \in SpecialLits}
  \cup (IF SweepStride > 0
        THEN {[op |-> "sweep32", sign |-> s, ex |-> e, start |-> SweepStart % SweepStride, stride |-> SweepStride,
               count |-> (8388608 - (SweepStart % SweepStride) + SweepStride - 1) \div SweepStride] : s \in {0, 1}, e \in 0..255}
        ELSE {})

\* ---- design-level laws, checked by TLC on every case
Law(c) ==
  IF c.op # "rt" THEN TRUE
  ELSE LET k == c.kind IN
  CASE k \in S32 \cup S64 \cup U32 \cup U64 ->
         LET s == Format(k, c.fmt, c.v, <<>>, 0)
             digits == IF s[1] = 45 THEN SubSeq(s, 2, Len(s)) ELSE s
         IN /\ Parse(k, c.fmt, s, <<>>) = [ok |-> TRUE, v |-> c.v]                  \* round trip
            /\ AllDigits(digits) /\ (Len(digits) > 1 => digits[1] # 48)              \* canonical numeral
            /\ (s[1] = 45) = (k \in S32 \cup S64 /\ IsNegative(c.v))
            /\ (ToNat(c.v) >= 0 /\ (k \in U32 \cup U64 \/ ~IsNegative(c.v)) => s = NatDigits(ToNat(c.v)))   \* agrees with native integers
            \* the 64-bit reading of a 32-bit numeral is the sign / zero extension
            /\ (k \in S32 => SOfDec(s, 8) = [ok |-> TRUE, v |-> SignExt(c.v, 8)])
            /\ (k \in U32 => UOfDec(s, 8) = [ok |-> TRUE, v |-> Trunc(c.v, 8)])
    [] k = "bytes" ->
         LET s == CEscape(c.v) IN
         /\ Parse(k, c.fmt, s, <<>>) = [ok |-> TRUE, v |-> c.v]
         /\ Printable(s)
         /\ LitValue(<<DQ>> \o s \o <<DQ>>) = [ok |-> TRUE, val |-> c.v]             \* also one whole text-format value
         /\ LitValue(<<SQ>> \o s \o <<SQ>>) = [ok |-> TRUE, val |-> c.v]
    [] k = "string" -> Parse(k, c.fmt, Format(k, c.fmt, c.v, <<>>, 0), <<>>) = [ok |-> TRUE, v |-> c.v]
    [] k = "bool" -> Parse(k, c.fmt, c.str, <<>>) = [ok |-> TRUE, v |-> c.v]
                     /\ ~Parse(k, c.fmt, Format(k, IF c.fmt = "desc" THEN "gotag" ELSE "desc", c.v, <<>>, 0), <<>>).ok
    [] k = "enum" -> Parse(k, c.fmt, c.str, c.enum) = [ok |-> TRUE, v |-> c.v]
    [] k \in {"float", "double"} ->
         /\ Canon(k, Canon(k, c.v)) = Canon(k, c.v)
         /\ (Canon(k, c.v) = c.v) = (FloatClass(k, c.v) # "nan" \/ c.v = CanonNaN(k))
         /\ FloatClass(k, CanonNaN(k)) = "nan"

\* the two exact constructions denote the same numbers: widening the float32 gives the float64
ExactConsistent == \A s \in {0, 1}, n \in ExactNs \ {0}, e2 \in ExactEs : Widen(ExactF32(s, n, e2)) = ExactF64(s, n, e2)

\* numerals just outside a kind's range are rejected; signs are only read by the signed kinds
RangeLaws ==
  /\ ~UOfDec(DecOfU(<<0, 0, 0, 0, 1, 0, 0, 0>>), 4).ok /\ UOfDec(DecOfU(<<255, 255, 255, 255, 0, 0, 0, 0>>), 4).ok
  /\ ~SOfDec(DecOfU(<<0, 0, 0, 128, 0, 0, 0, 0>>), 4).ok /\ SOfDec(<<45>> \o DecOfU(<<0, 0, 0, 128, 0, 0, 0, 0>>), 4).ok
  /\ ~SOfDec(<<45>> \o DecOfU(<<1, 0, 0, 128, 0, 0, 0, 0>>), 4).ok
  /\ ~UOfDec(<<49, 56, 52, 52, 54, 55, 52, 52, 48, 55, 51, 55, 48, 57, 53, 53, 49, 54, 49, 54>>, 8).ok     \* 2^64
  /\ ~SOfDec(<<57, 50, 50, 51, 51, 55, 50, 48, 51, 54, 56, 53, 52, 55, 55, 53, 56, 48, 56>>, 8).ok         \* 2^63
  /\ SOfDec(<<45, 57, 50, 50, 51, 51, 55, 50, 48, 51, 54, 56, 53, 52, 55, 55, 53, 56, 48, 56>>, 8).ok      \* -2^63
  /\ ~UOfDec(<<45, 49>>, 8).ok /\ ~UOfDec(<<43, 49>>, 8).ok /\ SOfDec(<<43, 49>>, 8).ok /\ ~UOfDec(<<>>, 8).ok /\ ~SOfDec(<<45>>, 8).ok

VARIABLE cur
Init == cur = [op |-> "init"]
Next == cur.op = "init" /\ \E c \in Cases : cur' = c
Laws == cur.op = "init" \/ Law(cur)
ExactOnce == cur.op # "init" \/ (ExactConsistent /\ RangeLaws)
Emit == PrintT("@@" \o ToJson(cur' @@ [exp |-> Expect(cur')]))
=============================================================================
