-------------------------- MODULE FieldMaskCases --------------------------
(***************************************************************************)
(* Expect(e): what FieldMaskAlg demands of one fieldmaskpb case.  Shared   *)
(* by the tours (MC_FieldMaskAlg, MC_FieldMaskValid) and by trace          *)
(* validation (Trace_FieldMaskAlg).  The schema of the corpus message      *)
(* types is data exported from the real descriptors by the harness         *)
(* (file named by the environment variable WKT_SCHEMA).                    *)
(***************************************************************************)
EXTENDS FieldMaskAlg, Json, IOUtils, TLC

Schema == JsonDeserialize(IOEnv.WKT_SCHEMA).msgs
Table == NameTable(Schema)

Expect(e) ==
  CASE e.op = "norm" -> LET n == Normalize(e.paths) IN [norm |-> n, idem |-> n]
    [] e.op = "union" -> [r |-> Union(e.m)]
    [] e.op = "intersect" -> [r |-> Intersect(e.m)]
    [] e.op = "valid" ->
         \* e.paths: the path list as one string, every path followed by ','
         LET ps == SplitTerm(e.paths)  n == NumValid(Table, e.msg, ps, 1) IN
         [n |-> n, isvalid |-> n = Len(ps), err |-> n < Len(ps), app |-> SubSeq(ps, 1, n), agree |-> TRUE]
=============================================================================
