---------------------------- MODULE MC_StructVal ----------------------------
(***************************************************************************)
(* C45, exhaustive:                                                        *)
(*  val   every JSON-like Go value of nesting depth <= Depth over the leaf *)
(*        set: nil, bool, every integer width at its limits and around     *)
(*        2^53 (where float64 stops being exact), float32/float64 incl.    *)
(*        NaN, +-Inf, -0, json.Number (valid and invalid), strings (empty, *)
(*        multi-byte, invalid UTF-8 of every class), []byte, a non-JSON Go *)
(*        type; slices and maps (valid and invalid keys) of those;         *)
(*  url   every string up to UrlLen over { a b . / } as an Any type URL,   *)
(*        checked against every message name of Names;                     *)
(*  type  every message type registered in the harness binary x seeds      *)
(*        (names exported by the harness, file named by WKT_TYPES);        *)
(*  box   histories of the AnyBox machine: for one representative type per *)
(*        slot class and for the members of a suffix-name pair, every      *)
(*        sequence  fill ; new ; [url] ; op{1..BoxOps}  repeated BoxRounds *)
(*        times, over empty / populated / partially initialised contents,  *)
(*        the destination's own type, its suffix partner and an unrelated  *)
(*        type as source, all options, and the type-URL variants (no       *)
(*        prefix, other prefixes, last segment merely ending in the name,  *)
(*        trailing '/', empty, partner name);                              *)
(*  sweep for EVERY registered type: empty payload into a dirty            *)
(*        destination with and without AllowPartial / Merge, a populated   *)
(*        payload merged into a dirty destination; for every pair of       *)
(*        registered names where one ends in the other: each packed and    *)
(*        offered to a destination of the other.                           *)
(* Laws on every state: NewValue succeeds exactly on convertible values;   *)
(* AsInterface o NewValue equals the direct definition Conv, is the        *)
(* identity on normal forms and idempotent; encoding/json of the result    *)
(* equals protojson of the Value whenever protojson accepts it (all        *)
(* numbers finite); MessageIs(url, n) <=> MessageName(url) = n;            *)
(* New ; MessageName / MessageIs round-trip; for every history BoxLaws:    *)
(* UnmarshalTo without Merge leaves exactly the packed message whatever    *)
(* the destination held, with Merge the wire fold equals proto.Merge, a    *)
(* mismatch leaves the destination alone, empty payload <=> empty message, *)
(* reading never changes the Any, UnmarshalNew returns the named type.     *)
(***************************************************************************)
EXTENDS StructValCases, Json, IOUtils

\* TLC orders and compares records field by field in the order in which the field names were first seen while parsing;
\* naming the discriminating fields here (root module, parsed first) makes every comparison decide on the tag before it
\* reaches a payload whose sort depends on the tag.
FieldOrder == [op |-> 0, g |-> 0, k |-> 0, t |-> 0, c |-> 0, ok |-> 0, x |-> 0, v |-> 0, p |-> 0, d |-> 0, r |-> 0, j |-> 0, m |-> 0]

CONSTANTS Tier, Depth, UrlLen, Seeds, BoxOps, BoxRounds

Lit(ds) == [i \in 1..Len(ds) |-> ds[i] + 48]
Neg(l) == <<cMinus>> \o l
Same(l) == <<l, l>>
\* float64 images of integers beyond 2^53 (uninterpreted here; quoted from the IEEE 754 conversion)
Img9_22e18 == <<57, cDot>> \o Lit(<<2,2,3,3,7,2,0,3,6,8,5,4,7,7,6>>) \o <<101, cPlus, 49, 56>>          \* 9.223372036854776e+18
Img1_84e19 == <<49, cDot>> \o Lit(<<8,4,4,6,7,4,4,0,7,3,7,0,9,5,5,2>>) \o <<101, cPlus, 49, 57>>        \* 1.8446744073709552e+19
Img9_007e15 == <<57, cDot>> \o Lit(<<0,0,7,1,9,9,2,5,4,7,4,0,9,9,6>>) \o <<101, cPlus, 49, 53>>         \* 9.007199254740996e+15
Two53 == Lit(<<9,0,0,7,1,9,9,2,5,4,7,4,0,9,9,2>>)
IntLeaves ==
  { G("int8", Same(Neg(Lit(<<1,2,8>>)))), G("uint8", Same(Lit(<<2,5,5>>))), G("int16", Same(Lit(<<3,2,7,6,7>>))),
    G("uint16", Same(<<48>>)), G("int32", Same(Neg(Lit(<<2,1,4,7,4,8,3,6,4,8>>)))), G("uint32", Same(Lit(<<4,2,9,4,9,6,7,2,9,5>>))),
    G("int", Same(Lit(<<7>>))), G("uint", Same(Lit(<<7>>))),
    G("int64", Same(Two53)), G("int64", Same(Neg(Two53))),
    G("int64", <<Lit(<<9,0,0,7,1,9,9,2,5,4,7,4,0,9,9,3>>), Two53>>),                                  \* 2^53 + 1 rounds to 2^53
    G("uint64", <<Lit(<<9,0,0,7,1,9,9,2,5,4,7,4,0,9,9,5>>), Img9_007e15>>),                           \* 2^53 + 3 rounds to 2^53 + 4
    G("int64", <<Lit(<<9,2,2,3,3,7,2,0,3,6,8,5,4,7,7,5,8,0,7>>), Img9_22e18>>),
    G("int64", <<Neg(Lit(<<9,2,2,3,3,7,2,0,3,6,8,5,4,7,7,5,8,0,8>>)), Neg(Img9_22e18)>>),
    G("uint64", <<Lit(<<1,8,4,4,6,7,4,4,0,7,3,7,0,9,5,5,1,6,1,5>>), Img1_84e19>>) }
N(c, d) == [c |-> c, d |-> d]
FloatLeaves ==
  { G("float64", N("int", Lit(<<1,2>>))), G("float64", N("lit", <<49, cDot, 53>>)), G("float64", N("lit", <<cMinus, 48>>)),
    G("float64", N("nan", <<>>)), G("float64", N("inf", <<>>)), G("float64", N("ninf", <<>>)),
    G("float32", N("lit", <<48, cDot, 53>>)), G("float32", N("nan", <<>>)), G("float32", N("int", Neg(Lit(<<3>>)))) }
OtherLeaves ==
  { G("nil", <<>>), G("bool", <<1>>), G("bool", <<0>>),
    G("jnum", <<49, cDot, 53>>), G("jnum", Lit(<<1,2>>)), G("jnum", <<97, 98, 99>>), G("jnum", <<>>),
    G("string", <<>>), G("string", <<97>>), G("string", <<195, 169>>), G("string", <<226, 130, 172, 240, 157, 132, 158>>),
    G("string", <<255>>), G("string", <<237, 160, 128>>), G("string", <<192, 128>>), G("string", <<244, 144, 128, 128>>),
    G("string", <<226, 130>>), G("string", sNaN),
    G("bytes", <<>>), G("bytes", <<0>>), G("bytes", <<255, 254>>), G("bytes", <<1, 2, 3>>), G("bad", <<>>) }
Leaves == IntLeaves \cup FloatLeaves \cup OtherLeaves
Small == {G("nil", <<>>), G("float64", N("nan", <<>>)), G("string", <<255>>), G("bytes", <<0>>), G("int8", Same(Neg(Lit(<<1,2,8>>))))}
KeyA == <<97>>
KeyB == <<98>>
RECURSIVE GoVals(_)
GoVals(d) == IF d = 0 THEN Leaves
             ELSE LET S == GoVals(d - 1) IN
                  S \cup {G("slice", <<>>), G("map", <<>>)}
                    \cup {G("slice", <<x>>) : x \in S} \cup {G("slice", <<x, y>>) : x \in S, y \in Small}
                    \cup {G("map", <<<<k, x>>>>) : k \in {KeyA, <<>>, <<195, 169>>, <<255>>}, x \in S}
                    \cup {G("map", <<<<KeyA, x>>, <<KeyB, y>>>>) : x \in S, y \in Small}
AllGo == GoVals(Depth)

Names == {<<97>>, <<98>>, <<97, cDot, 98>>, <<97, 98>>, <<97, cDot, 98, cDot, 97>>}          \* a  b  a.b  ab  a.b.a
Registered == <<(<<97>>), (<<98>>), (<<97, cDot, 98>>), (<<97, cDot, 98, cDot, 97>>)>>       \* "ab" is a name nobody registered
UrlAlphabet == {97, 98, cDot, cSlash}

Types == BoxTypes

\* ---------------------------------------------------------------- the Any machine: what TLC explores
BoxN == Len(BoxTypes)
Quick == Tier = "quick"
\* <<a, b>>: the name of type a is a proper suffix of the name of type b (hybrid.goproto.proto.test3.TestAllTypes ends in
\* goproto.proto.test3.TestAllTypes); MessageIs must tell them apart by the '/' in front of the name
SuffixPairs == {ab \in (1..BoxN) \X (1..BoxN) : ab[1] # ab[2] /\ HasSuffix(BoxTypes[ab[2]], BoxTypes[ab[1]])}
Partners(t) == {ab[2] : ab \in {x \in SuffixPairs : x[1] = t}} \cup {ab[1] : ab \in {x \in SuffixPairs : x[2] = t}}
MinOf(S) == CHOOSE i \in S : \A j \in S : i <= j
FirstPair == IF SuffixPairs = {} THEN {} ELSE LET a == MinOf({ab[1] : ab \in SuffixPairs}) IN {a, MinOf(Partners(a))}
FirstOf(S) == IF S = {} THEN {} ELSE {MinOf(S)}
\* thorough: the first type of every slot class and the first suffix pair; quick: the pair, the first type with required
\* fields and a singular slot, the first type with a singular and a repeated slot
Reps == IF Quick THEN FirstPair \cup FirstOf({i \in 1..BoxN : BoxFacts[i].q /\ BoxFacts[i].s})
                               \cup FirstOf({i \in 1..BoxN : BoxFacts[i].r /\ BoxFacts[i].s /\ ~BoxFacts[i].q})
        ELSE UNION {FirstOf({i \in 1..BoxN : BoxFacts[i] = f}) : f \in {BoxFacts[i] : i \in 1..BoxN}} \cup FirstPair
OtherOf(t) == (t % BoxN) + 1

Full1(f) == BoxC(IF f.s THEN 1 ELSE 0, IF f.r THEN <<1>> ELSE <<>>, IF f.q THEN 1 ELSE 0, 1)
Full2(f) == BoxC(IF f.s THEN 2 ELSE 0, IF f.r THEN <<2, 1>> ELSE <<>>, IF f.q THEN 1 ELSE 0, IF f.s \/ f.r THEN 0 ELSE 2)
Contents(f) == {BoxEmpty, Full1(f), Full2(f)} \cup (IF f.q THEN {[Full1(f) EXCEPT !.q = 0], BoxC(0, <<>>, 1, 0)} ELSE {})
Fills(f) == IF Quick THEN {BoxEmpty, Full1(f)} ELSE Contents(f)
Parts(t) == IF BoxFacts[t].q THEN BOOLEAN ELSE {FALSE}
Srcs(T) == {T, OtherOf(T)} \cup Partners(T)
SFill(c) == BoxStepRec("fill", 0, c, BoxOpt(FALSE, FALSE), <<>>)
SNew(t, c, part) == BoxStepRec("new", t, c, BoxOpt(FALSE, part), <<>>)
SUrl(u) == BoxStepRec("url", 0, BoxEmpty, BoxOpt(FALSE, FALSE), u)
STo(merge, part) == BoxStepRec("to", 0, BoxEmpty, BoxOpt(merge, part), <<>>)
SNewMsg(merge, part) == BoxStepRec("unew", 0, BoxEmpty, BoxOpt(merge, part), <<>>)
NewSteps(T) == {SNew(T, c, pt) : c \in Contents(BoxFacts[T]), pt \in Parts(T)}
               \cup {SNew(t, c, TRUE) : t \in Srcs(T) \ {T}, c \in {BoxEmpty}} \cup {SNew(t, Full1(BoxFacts[t]), TRUE) : t \in Srcs(T) \ {T}}
AnyQ(T) == \E t \in Srcs(T) : BoxFacts[t].q
OpSteps(T) == {STo(m, pt) : m \in BOOLEAN, pt \in Parts(T)}
              \cup {SNewMsg(m, pt) : m \in (IF Quick THEN {FALSE} ELSE BOOLEAN), pt \in (IF AnyQ(T) THEN BOOLEAN ELSE {FALSE})}
xAB == <<97, cDot, 98, cSlash, 99, cSlash>>                                                   \* "a.b/c/"
UrlVariants(n) == {n, <<cSlash>> \o n, xAB \o n, StdPrefix \o <<120>> \o n, StdPrefix \o <<120, cDot>> \o n,
                   StdPrefix \o n \o <<cSlash>>, StdPrefix \o n \o <<cDot>>, <<>>}
UrlSteps(T, st) == IF st.pt = 0 THEN {}
                   ELSE {SUrl(u) : u \in UrlVariants(BoxTypes[st.pt])} \cup {SUrl(AnyUrlOf(BoxTypes[t])) : t \in Partners(st.pt)}

\* sweeps: whole histories, one per registered type and kind / per suffix pair and direction
SweepType(i, k) ==
  LET f == BoxFacts[i] IN
  IF k = 1 THEN <<SFill(Full1(f)), SNew(i, BoxEmpty, TRUE), STo(FALSE, FALSE), SFill(Full1(f)), STo(FALSE, TRUE), SNewMsg(FALSE, FALSE)>>
  ELSE <<SFill(Full1(f)), SNew(i, Full2(f), FALSE), STo(TRUE, FALSE), STo(FALSE, FALSE), SNewMsg(FALSE, FALSE),
         SNew(i, [Full1(f) EXCEPT !.q = 0], TRUE), STo(FALSE, FALSE), STo(TRUE, TRUE), SNew(i, BoxEmpty, TRUE), STo(TRUE, TRUE)>>
SweepPair(T, t) ==
  <<SFill(Full1(BoxFacts[T])), SNew(t, BoxEmpty, TRUE), STo(FALSE, TRUE), SNewMsg(FALSE, TRUE), SUrl(BoxTypes[t]), STo(FALSE, TRUE),
    SNew(T, BoxEmpty, TRUE), SUrl(BoxTypes[T]), STo(FALSE, TRUE)>>
\* quick: the empty payload into a dirty destination for every type; thorough: also populated payloads and Merge
Sweeps == {<<i, SweepType(i, k)>> : i \in 1..BoxN, k \in (IF Quick THEN {1} ELSE {1, 2})}
          \cup {<<ab[1], SweepPair(ab[1], ab[2])>> : ab \in SuffixPairs} \cup {<<ab[2], SweepPair(ab[2], ab[1])>> : ab \in SuffixPairs}
FinalState(T, h) == BoxResults(T, h)[Len(h)].st

BoxLawsFinal(T, h, st, rs) == BoxLawsOf(T, h, rs) /\ st = rs[Len(h)].st /\ LastIndexOf(st.url, cSlash) = LastIndexOfDef(st.url, cSlash)
                              /\ st.name = MessageNameDef(st.url)
\* pick of a box state: <<T, history, machine state, round, ops done in this round>>
VARIABLES kind, url, pick
Init == kind = "init" /\ url = <<>> /\ pick = <<>>
BoxGo(T, h, st, rnd, ops, p) ==
  /\ BoxDefined(st, T, p) = TRUE             \* (= TRUE: a value, not an action whose disjunctions TLC would enumerate one by one)
  /\ pick' = <<T, Append(h, p), BoxStep(st, T, p).st, rnd, ops>> /\ kind' = "box" /\ url' = url
NoUrl(h) == \A i \in 1..Len(h) : h[i].a # "url"
Round2News(T) == {SNew(T, c, pt) : c \in {BoxEmpty, Full2(BoxFacts[T])}, pt \in Parts(T)}
\* bounds: the URL is varied in the first round only, from a clean or fully populated destination (quick: fully populated, and
\* an empty or fully populated payload); a second operation follows only where the URL was left alone; a second round (the
\* Any and the destination are reused) starts after the first operation of such a history and has one operation
UrlFrom(T, h, st) == IF Quick THEN st.pc \in {BoxEmpty, Full1(BoxFacts[T])} /\ h[1].c = Full1(BoxFacts[T])
                     ELSE h[1].c \in {BoxEmpty, Full1(BoxFacts[T])}
BoxNext ==
  \/ (kind = "init" /\ \E T \in Reps : \E c \in Fills(BoxFacts[T]) : BoxGo(T, <<>>, BoxInit, 1, 0, SFill(c)))
  \/ (kind = "box" /\
      LET T == pick[1]  h == pick[2]  st == pick[3]  rnd == pick[4]  ops == pick[5]  last == h[Len(h)].a IN
      \/ (last = "fill" /\ \E p \in NewSteps(T) : BoxGo(T, h, st, rnd, 0, p))
      \/ (last \in {"to", "unew"} /\ rnd < BoxRounds /\ ops = 1 /\ NoUrl(h) /\ \E p \in Round2News(T) : BoxGo(T, h, st, rnd + 1, 0, p))
      \/ (last = "new" /\ rnd = 1 /\ UrlFrom(T, h, st) /\ \E p \in UrlSteps(T, st) : BoxGo(T, h, st, rnd, 0, p))
      \/ (last \in {"new", "url", "to", "unew"} /\ ops < (IF rnd = 1 THEN BoxOps ELSE 1) /\ (IF ops = 0 THEN TRUE ELSE NoUrl(h))
            /\ \E p \in OpSteps(T) : BoxGo(T, h, st, rnd, ops + 1, p)))
Next ==
  \/ (kind \in {"init", "url"} /\ Len(url) < UrlLen /\ \E c \in UrlAlphabet : url' = Append(url, c) /\ kind' = "url" /\ pick' = pick)
  \/ (kind = "init" /\ \E v \in AllGo : pick' = <<v>> /\ kind' = "val" /\ url' = url)
  \/ (kind = "init" /\ \E i \in 1..Len(Types), s \in Seeds : pick' = <<i, s>> /\ kind' = "type" /\ url' = url)
  \/ (kind = "init" /\ \E sw \in Sweeps : pick' = <<sw[1], sw[2], FinalState(sw[1], sw[2]), 0, 0>> /\ kind' = "sweep" /\ url' = url)
  \/ BoxNext

\* ---- laws
RECURSIVE AllFinite(_)
AllFinite(x) == CASE x.k = "num" -> Finite(x.p)
                  [] x.k = "list" -> \A i \in 1..Len(x.p) : AllFinite(x.p[i])
                  [] x.k = "struct" -> \A i \in 1..Len(x.p) : AllFinite(x.p[i][2])
                  [] OTHER -> TRUE
ValLaws ==
  LET v == pick[1]  r == NewValue(v) IN
  /\ r.ok = Convertible(v)
  /\ (r.ok => LET back == AsInterface(r.r)  pj == ValToJ(r.r) IN
              /\ back = Conv(v)                                   \* two definitions of the composition agree
              /\ Normal(back) /\ Conv(back) = back                \* result is a normal form; conversion is idempotent
              /\ pj.ok = AllFinite(r.r)
              /\ (pj.ok => GoToJ(back) = pj.r)                    \* encoding/json of AsInterface = protojson of the Value
              /\ (pj.ok => ValFromJ(pj.r) = Ok(r.r)))             \* and the JSON parses back to the same Value
  /\ (Normal(v) => r.ok /\ AsInterface(r.r) = v)                  \* identity on normal forms
UrlLaws ==
  /\ LastIndexOf(url, cSlash) = LastIndexOfDef(url, cSlash) /\ LastIndexOf(url, cDot) = LastIndexOfDef(url, cDot)
  /\ IsFullNameScan(url) = IsFullName(url) /\ MessageName(url) = MessageNameDef(url)
  /\ \A n \in Names : MessageIs(url, n) = (MessageName(url) = n)
  /\ (MessageName(url) # <<>> => MessageIs(url, MessageName(url)))
  /\ \A n \in Names : MessageIs(url \o <<cSlash>> \o n, n) /\ MessageName(url \o <<cSlash>> \o n) = n
  /\ \A n \in Names : MessageName(AnyUrlOf(n)) = n /\ MessageIs(AnyUrlOf(n), n)
  /\ \A n \in Names : Resolves(AnyUrlOf(n), {n})
TypeLaws ==
  LET t == Types[pick[1]]  u == AnyUrlOf(t) IN IsFullName(t) /\ MessageName(u) = t /\ MessageIs(u, t) /\ Resolves(u, {t})
BoxHistLaws == BoxLawsFinal(pick[1], pick[2], pick[3], BoxResults(pick[1], pick[2]))
\* the table itself: names are full names in ascending order (the driver and the harness index it the same way), and every
\* type can be made dirty
TableLaws == \A i \in 1..BoxN : IsFullName(BoxTypes[i]) /\ IsFullNameScan(BoxTypes[i]) /\ (i < BoxN => StrLess(BoxTypes[i], BoxTypes[i + 1])) /\ Full1(BoxFacts[i]) # BoxEmpty
Laws == CASE kind = "val" -> ValLaws [] kind = "url" -> UrlLaws [] kind = "type" -> TypeLaws
          [] kind \in {"box", "sweep"} -> BoxHistLaws [] kind = "init" -> TableLaws [] OTHER -> TRUE

OtherType(i) == Types[(i % Len(Types)) + 1]
Emit ==
  CASE kind' = "val" -> LET c == [op |-> "newvalue", v |-> pick'[1]] IN PrintT("@@" \o ToJson(c @@ [exp |-> Expect(c)]))
    [] kind' = "url" -> \A n \in Names : LET c == [op |-> "anyurl", url |-> url', n |-> n, reg |-> Registered] IN
                                         PrintT("@@" \o ToJson(c @@ [exp |-> Expect(c)]))
    [] kind' = "type" -> LET c == [op |-> "anyrt", type |-> Types[pick'[1]], other |-> OtherType(pick'[1]), seed |-> pick'[2]] IN
                         PrintT("@@" \o ToJson(c @@ [exp |-> Expect(c)]))
    [] kind' = "box" /\ pick'[2][Len(pick'[2])].a \notin {"to", "unew"} -> TRUE    \* a proper prefix of the histories that follow
    [] kind' \in {"box", "sweep"} -> LET c == [op |-> "anybox", T |-> pick'[1], tn |-> BoxTypes[pick'[1]], steps |-> pick'[2]] IN
                                     PrintT("@@" \o ToJson(c @@ [exp |-> Expect(c)]))
    [] OTHER -> TRUE
=============================================================================
