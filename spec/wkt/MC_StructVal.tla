---------------------------- MODULE MC_StructVal ----------------------------
(***************************************************************************)
(* C45, exhaustive:                                                        *)
(*  val   every JSON-like Go value of nesting depth <= Depth over the leaf *)
(*        set: nil, bool, every integer width at its limits and around     *)
(*        2^53 (where float64 stops being exact), float32/float64 incl.    *)
(*        NaN, +-Inf, -0, json.Number (valid and invalid), strings (empty, *)
(*        multi-byte, invalid UTF-8 of every class), []byte, a non-JSON Go *)
(*        type; slices and maps (valid and invalid keys) of those;         *)
(*  url   every string up to UrlLen over { a b . / } as an Any type URL,   *)
(*        checked against every message name of Names;                     *)
(*  type  every message type registered in the harness binary x seeds      *)
(*        (names exported by the harness, file named by WKT_TYPES).        *)
(* Laws on every state: NewValue succeeds exactly on convertible values;   *)
(* AsInterface o NewValue equals the direct definition Conv, is the        *)
(* identity on normal forms and idempotent; encoding/json of the result    *)
(* equals protojson of the Value whenever protojson accepts it (all        *)
(* numbers finite); MessageIs(url, n) <=> MessageName(url) = n;            *)
(* New ; MessageName / MessageIs round-trip.                               *)
(***************************************************************************)
EXTENDS StructValCases, Json, IOUtils

\* TLC orders and compares records field by field in the order in which the field names were first seen while parsing;
\* naming the discriminating fields here (root module, parsed first) makes every comparison decide on the tag before it
\* reaches a payload whose sort depends on the tag.
FieldOrder == [op |-> 0, g |-> 0, k |-> 0, t |-> 0, c |-> 0, ok |-> 0, x |-> 0, v |-> 0, p |-> 0, d |-> 0, r |-> 0, j |-> 0, m |-> 0]

CONSTANTS Tier, Depth, UrlLen, Seeds

Lit(ds) == [i \in 1..Len(ds) |-> ds[i] + 48]
Neg(l) == <<cMinus>> \o l
Same(l) == <<l, l>>
\* float64 images of integers beyond 2^53 (uninterpreted here; quoted from the IEEE 754 conversion)
Img9_22e18 == <<57, cDot>> \o Lit(<<2,2,3,3,7,2,0,3,6,8,5,4,7,7,6>>) \o <<101, cPlus, 49, 56>>          \* 9.223372036854776e+18
Img1_84e19 == <<49, cDot>> \o Lit(<<8,4,4,6,7,4,4,0,7,3,7,0,9,5,5,2>>) \o <<101, cPlus, 49, 57>>        \* 1.8446744073709552e+19
Img9_007e15 == <<57, cDot>> \o Lit(<<0,0,7,1,9,9,2,5,4,7,4,0,9,9,6>>) \o <<101, cPlus, 49, 53>>         \* 9.007199254740996e+15
Two53 == Lit(<<9,0,0,7,1,9,9,2,5,4,7,4,0,9,9,2>>)
IntLeaves ==
  { G("int8", Same(Neg(Lit(<<1,2,8>>)))), G("uint8", Same(Lit(<<2,5,5>>))), G("int16", Same(Lit(<<3,2,7,6,7>>))),
    G("uint16", Same(<<48>>)), G("int32", Same(Neg(Lit(<<2,1,4,7,4,8,3,6,4,8>>)))), G("uint32", Same(Lit(<<4,2,9,4,9,6,7,2,9,5>>))),
    G("int", Same(Lit(<<7>>))), G("uint", Same(Lit(<<7>>))),
    G("int64", Same(Two53)), G("int64", Same(Neg(Two53))),
    G("int64", <<Lit(<<9,0,0,7,1,9,9,2,5,4,7,4,0,9,9,3>>), Two53>>),                                  \* 2^53 + 1 rounds to 2^53
    G("uint64", <<Lit(<<9,0,0,7,1,9,9,2,5,4,7,4,0,9,9,5>>), Img9_007e15>>),                           \* 2^53 + 3 rounds to 2^53 + 4
    G("int64", <<Lit(<<9,2,2,3,3,7,2,0,3,6,8,5,4,7,7,5,8,0,7>>), Img9_22e18>>),
    G("int64", <<Neg(Lit(<<9,2,2,3,3,7,2,0,3,6,8,5,4,7,7,5,8,0,8>>)), Neg(Img9_22e18)>>),
    G("uint64", <<Lit(<<1,8,4,4,6,7,4,4,0,7,3,7,0,9,5,5,1,6,1,5>>), Img1_84e19>>) }
N(c, d) == [c |-> c, d |-> d]
FloatLeaves ==
  { G("float64", N("int", Lit(<<1,2>>))), G("float64", N("lit", <<49, cDot, 53>>)), G("float64", N("lit", <<cMinus, 48>>)),
    G("float64", N("nan", <<>>)), G("float64", N("inf", <<>>)), G("float64", N("ninf", <<>>)),
    G("float32", N("lit", <<48, cDot, 53>>)), G("float32", N("nan", <<>>)), G("float32", N("int", Neg(Lit(<<3>>)))) }
OtherLeaves ==
  { G("nil", <<>>), G("bool", <<1>>), G("bool", <<0>>),
    G("jnum", <<49, cDot, 53>>), G("jnum", Lit(<<1,2>>)), G("jnum", <<97, 98, 99>>), G("jnum", <<>>),
    G("string", <<>>), G("string", <<97>>), G("string", <<195, 169>>), G("string", <<226, 130, 172, 240, 157, 132, 158>>),
    G("string", <<255>>), G("string", <<237, 160, 128>>), G("string", <<192, 128>>), G("string", <<244, 144, 128, 128>>),
    G("string", <<226, 130>>), G("string", sNaN),
    G("bytes", <<>>), G("bytes", <<0>>), G("bytes", <<255, 254>>), G("bytes", <<1, 2, 3>>), G("bad", <<>>) }
Leaves == IntLeaves \cup FloatLeaves \cup OtherLeaves
Small == {G("nil", <<>>), G("float64", N("nan", <<>>)), G("string", <<255>>), G("bytes", <<0>>), G("int8", Same(Neg(Lit(<<1,2,8>>))))}
KeyA == <<97>>
KeyB == <<98>>
RECURSIVE GoVals(_)
GoVals(d) == IF d = 0 THEN Leaves
             ELSE LET S == GoVals(d - 1) IN
                  S \cup {G("slice", <<>>), G("map", <<>>)}
                    \cup {G("slice", <<x>>) : x \in S} \cup {G("slice", <<x, y>>) : x \in S, y \in Small}
                    \cup {G("map", <<<<k, x>>>>) : k \in {KeyA, <<>>, <<195, 169>>, <<255>>}, x \in S}
                    \cup {G("map", <<<<KeyA, x>>, <<KeyB, y>>>>) : x \in S, y \in Small}
AllGo == GoVals(Depth)

Names == {<<97>>, <<98>>, <<97, cDot, 98>>, <<97, 98>>, <<97, cDot, 98, cDot, 97>>}          \* a  b  a.b  ab  a.b.a
Registered == <<(<<97>>), (<<98>>), (<<97, cDot, 98>>), (<<97, cDot, 98, cDot, 97>>)>>       \* "ab" is a name nobody registered
UrlAlphabet == {97, 98, cDot, cSlash}

Types == JsonDeserialize(IOEnv.WKT_TYPES).types

VARIABLES kind, url, pick
Init == kind = "init" /\ url = <<>> /\ pick = <<>>
Next ==
  \/ (kind \in {"init", "url"} /\ Len(url) < UrlLen /\ \E c \in UrlAlphabet : url' = Append(url, c) /\ kind' = "url" /\ pick' = pick)
  \/ (kind = "init" /\ \E v \in AllGo : pick' = <<v>> /\ kind' = "val" /\ url' = url)
  \/ (kind = "init" /\ \E i \in 1..Len(Types), s \in Seeds : pick' = <<i, s>> /\ kind' = "type" /\ url' = url)

\* ---- laws
RECURSIVE AllFinite(_)
AllFinite(x) == CASE x.k = "num" -> Finite(x.p)
                  [] x.k = "list" -> \A i \in 1..Len(x.p) : AllFinite(x.p[i])
                  [] x.k = "struct" -> \A i \in 1..Len(x.p) : AllFinite(x.p[i][2])
                  [] OTHER -> TRUE
ValLaws ==
  LET v == pick[1]  r == NewValue(v) IN
  /\ r.ok = Convertible(v)
  /\ (r.ok => LET back == AsInterface(r.r)  pj == ValToJ(r.r) IN
              /\ back = Conv(v)                                   \* two definitions of the composition agree
              /\ Normal(back) /\ Conv(back) = back                \* result is a normal form; conversion is idempotent
              /\ pj.ok = AllFinite(r.r)
              /\ (pj.ok => GoToJ(back) = pj.r)                    \* encoding/json of AsInterface = protojson of the Value
              /\ (pj.ok => ValFromJ(pj.r) = Ok(r.r)))             \* and the JSON parses back to the same Value
  /\ (Normal(v) => r.ok /\ AsInterface(r.r) = v)                  \* identity on normal forms
UrlLaws ==
  /\ \A n \in Names : MessageIs(url, n) = (MessageName(url) = n)
  /\ (MessageName(url) # <<>> => MessageIs(url, MessageName(url)))
  /\ \A n \in Names : MessageIs(url \o <<cSlash>> \o n, n) /\ MessageName(url \o <<cSlash>> \o n) = n
  /\ \A n \in Names : MessageName(AnyUrlOf(n)) = n /\ MessageIs(AnyUrlOf(n), n)
  /\ \A n \in Names : Resolves(AnyUrlOf(n), {n})
TypeLaws ==
  LET t == Types[pick[1]]  u == AnyUrlOf(t) IN IsFullName(t) /\ MessageName(u) = t /\ MessageIs(u, t) /\ Resolves(u, {t})
Laws == CASE kind = "val" -> ValLaws [] kind = "url" -> UrlLaws [] kind = "type" -> TypeLaws [] OTHER -> TRUE

OtherType(i) == Types[(i % Len(Types)) + 1]
Emit ==
  CASE kind' = "val" -> LET c == [op |-> "newvalue", v |-> pick'[1]] IN PrintT("@@" \o ToJson(c @@ [exp |-> Expect(c)]))
    [] kind' = "url" -> \A n \in Names : LET c == [op |-> "anyurl", url |-> url', n |-> n, reg |-> Registered] IN
                                         PrintT("@@" \o ToJson(c @@ [exp |-> Expect(c)]))
    [] kind' = "type" -> LET c == [op |-> "anyrt", type |-> Types[pick'[1]], other |-> OtherType(pick'[1]), seed |-> pick'[2]] IN
                         PrintT("@@" \o ToJson(c @@ [exp |-> Expect(c)]))
    [] OTHER -> TRUE
=============================================================================
