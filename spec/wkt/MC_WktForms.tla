---------------------------- MODULE MC_WktForms ----------------------------
(***************************************************************************)
(* C23, the structural JSON forms, exhaustive one-shot machine over        *)
(*  - FieldMask: every string up to FmLen over { a B _ 1 . , space } as a  *)
(*    path to marshal (alone and after a good path) and as a JSON string   *)
(*    to parse;                                                            *)
(*  - wrappers: range limits -1/0/+1 of the four integer types as number   *)
(*    and as quoted string, booleans, floats incl. NaN/Infinity, strings,  *)
(*    all byte strings up to length 2 over {0, 251, 255} and longer ones;  *)
(*  - Value / Struct / ListValue: all values of nesting depth <= Depth     *)
(*    over the leaf set (incl. unset and non-finite numbers), and the JSON *)
(*    documents they map to, plus duplicate keys and wrong top-level kinds;*)
(*  - Any: every embedded message of a corner set x URL class for          *)
(*    marshaling; every sequence of up to 3 members over a member alphabet *)
(*    ("@type" good / unknown / not a string, "value", message fields,     *)
(*    unknown name, duplicates in every order) for parsing;                *)
(*  - every form parsed from every other form's JSON (cross-type).         *)
(* TLC checks the laws below on every case and emits it with the           *)
(* specification's result.                                                 *)
(***************************************************************************)
EXTENDS WktCases, Json

\* TLC orders and compares records field by field in the order in which the field names were first seen while parsing;
\* naming the discriminating fields here (root module, parsed first) makes every comparison decide on the tag before it
\* reaches a payload whose sort depends on the tag.
FieldOrder == [op |-> 0, g |-> 0, k |-> 0, t |-> 0, c |-> 0, ok |-> 0, x |-> 0, v |-> 0, p |-> 0, d |-> 0, r |-> 0, j |-> 0, m |-> 0]

CONSTANTS Tier, FmLen, Depth

RECURSIVE Strs(_, _)
Strs(A, n) == IF n = 0 THEN {<<>>} ELSE LET S == Strs(A, n - 1) IN S \cup {Append(s, c) : s \in S, c \in A}
Lit(ds) == [i \in 1..Len(ds) |-> ds[i] + 48]
Neg(lit) == <<cMinus>> \o lit

\* ---- FieldMask
FmAlphabet == {97, 66, 95, 49, cDot, 44, 32}
FmStrings == Strs(FmAlphabet, FmLen)
GoodPath == <<97, 95, 98>>                        \* "a_b"
FmCases == {[op |-> "tojson", m |-> M("FieldMask", <<s>>)] : s \in FmStrings}
      \cup {[op |-> "tojson", m |-> M("FieldMask", <<GoodPath, s>>)] : s \in FmStrings}
      \cup {[op |-> "fromjson", t |-> "FieldMask", j |-> JStr(s)] : s \in FmStrings}

\* ---- wrappers
IntEdges(t) == LET r == IntRange(t) IN
  {CharsOfZ(z) : z \in {ZSub(r[1], ZOf(1)), r[1], ZAdd(r[1], ZOf(1)), ZOf(-1), ZZero, ZOf(1), ZSub(r[2], ZOf(1)), r[2], ZAdd(r[2], ZOf(1))}}
Nums == {[c |-> "int", d |-> <<48>>], [c |-> "int", d |-> Lit(<<1,2>>)], [c |-> "int", d |-> Neg(Lit(<<7>>))],
         [c |-> "lit", d |-> <<49, cDot, 53>>], [c |-> "nan", d |-> <<>>], [c |-> "inf", d |-> <<>>], [c |-> "ninf", d |-> <<>>]}
SomeStrings == {<<>>, <<97>>, sNaN, sInf, <<49>>, <<49, cDot, 53, cS>>, <<97, 32, 98>>}
ByteStrings == Strs({0, 251, 255}, 2) \cup {<<1, 2, 3>>, <<255, 254, 253, 252>>, <<0, 16, 131, 16, 81, 135>>}
WrapMsgs == {M("BoolValue", <<b>>) : b \in {0, 1}}
       \cup UNION {{M(t, l) : l \in {x \in IntEdges(t) : InIntRange(t, x)}} : t \in IntTypes}
       \cup {M(t, n) : t \in {"FloatValue", "DoubleValue"}, n \in Nums}
       \cup {M("StringValue", s) : s \in SomeStrings} \cup {M("BytesValue", b) : b \in ByteStrings}
ScalarDocs == {JNull, JBool(0), JBool(1), JStr(<<>>), JStr(<<97>>), JStr(sNaN), JStr(sNInf), JStr(<<49, cDot, 53>>), JStr(<<49, 101>>),
               JNum(<<49, cDot, 53>>), JArr(<<>>), JObj(<<>>)}
              \cup UNION {{JNum(l), JStr(l)} : l \in UNION {IntEdges(t) : t \in IntTypes}}
WrapTypes == {"BoolValue", "Int32Value", "Int64Value", "UInt32Value", "UInt64Value", "DoubleValue", "StringValue"}
\* documents in the domain of the specification for target type t: integer literals handed to a double are exactly
\* representable (|x| <= 2^53; beyond that the value is the business of the float parser, C22), and an "@type" URL only
\* occurs where it is interpreted (Any)
RECURSIVE HasUrl(_)
HasUrl(j) == \/ j.k = "url"
             \/ (j.k = "arr" /\ \E i \in 1..Len(j.v) : HasUrl(j.v[i]))
             \/ (j.k = "obj" /\ \E i \in 1..Len(j.v) : HasUrl(j.v[i][2]))
InDomain(t, j) ==
  /\ (t \in {"DoubleValue", "FloatValue"} /\ j.k \in {"num", "str"} /\ IsCanonInt(j.v) => ZLe(ZAbs(ZOfChars(j.v)), Exact53))
  /\ (t \in {"Value", "Struct", "ListValue"} => ~HasUrl(j))
WrapCases == {[op |-> "tojson", m |-> m] : m \in WrapMsgs}
        \cup UNION {{[op |-> "fromjson", t |-> t, j |-> j] : j \in {x \in ScalarDocs : InDomain(t, x)}} : t \in WrapTypes}
        \cup {[op |-> "fromjson", t |-> "BytesValue", j |-> JStr(B64Enc(b))] : b \in ByteStrings}
        \cup {[op |-> "fromjson", t |-> "BytesValue", j |-> j] : j \in {JStr(<<33, 33, 33, 33>>), JNum(<<49>>), JNull}}

\* ---- Value / Struct / ListValue
Keys == {<<97>>, <<98>>}
Leaves == {V("null", <<>>), V("bool", <<1>>), V("num", [c |-> "int", d |-> Neg(Lit(<<7>>))]), V("num", [c |-> "lit", d |-> <<49, cDot, 53>>]),
           V("str", <<97>>), V("unset", <<>>), V("num", [c |-> "nan", d |-> <<>>]), V("num", [c |-> "ninf", d |-> <<>>])}
RECURSIVE Vals(_)
Vals(d) == IF d = 0 THEN Leaves
           ELSE LET S == Vals(d - 1) IN
                S \cup {V("list", <<>>), V("struct", <<>>)}
                  \cup {V("list", <<x>>) : x \in S} \cup {V("list", <<x, y>>) : x \in S, y \in Leaves}
                  \cup {V("struct", <<<<k, x>>>>) : k \in Keys, x \in S}
                  \cup {V("struct", <<<<(<<97>>), x>>, <<(<<98>>), y>>>>) : x \in S, y \in Leaves}
AllVals == Vals(Depth)
RECURSIVE SubVals(_)
SubVals(x) == {x} \cup (IF x.k = "list" THEN UNION {SubVals(x.p[i]) : i \in 1..Len(x.p)}
                        ELSE IF x.k = "struct" THEN UNION {SubVals(x.p[i][2]) : i \in 1..Len(x.p)} ELSE {})
\* JSON images of the marshalable values, and documents with duplicate keys / in the wrong order
ValDocs == {ValToJ(x).r : x \in {y \in AllVals : ValToJ(y).ok}}
           \cup {JObj(<<<<(<<97>>), JNull>>, <<(<<97>>), JBool(1)>>>>), JObj(<<<<(<<98>>), JNull>>, <<(<<97>>), JBool(1)>>>>),
                 JArr(<<JObj(<<<<(<<97>>), JNull>>, <<(<<97>>), JNull>>>>)>>)}
ValCases == {[op |-> "tojson", m |-> M("Value", x)] : x \in AllVals}
       \cup {[op |-> "tojson", m |-> M("Struct", x.p)] : x \in {y \in AllVals : y.k = "struct"}}
       \cup {[op |-> "tojson", m |-> M("ListValue", x.p)] : x \in {y \in AllVals : y.k = "list"}}
       \cup {[op |-> "fromjson", t |-> t, j |-> j] : t \in {"Value", "Struct", "ListValue"}, j \in ValDocs}

\* ---- Any
Dur(s, n) == M("Duration", <<s, n>>)
Embedded == {Dur(<<49>>, <<48>>), Dur(Lit(<<3,1,5,5,7,6,0,0,0,0,0,1>>), <<48>>),          \* 1s, out of range
             M("Timestamp", <<<<48>>, Lit(<<5,0,0,0,0,0,0,0,0>>)>>),
             M("Int64Value", Lit(<<7>>)), M("Value", V("null", <<>>)), M("Value", V("unset", <<>>)),
             M("Struct", <<<<(<<97>>), V("bool", <<1>>)>>>>), M("Empty", <<>>), M("FieldMask", <<GoodPath>>),
             M("Foreign", <<<<48>>, <<48>>>>), M("Foreign", <<Lit(<<5>>), Neg(Lit(<<1>>))>>),
             M("Any", <<>>), M("Any", <<<<"std", "Duration">>, Dur(<<49>>, <<48>>)>>)}
AnyMsgs == {M("Any", <<>>)} \cup {M("Any", <<<<cls, em.t>>, em>>) : cls \in {"std", "alt", "bare"}, em \in Embedded}
           \cup {M("Any", <<<<"none", "Duration">>, Dur(<<49>>, <<48>>)>>)}
\* member alphabet for parsing: <<key, node>>
MemberAlphabet(et, inner) ==
  {<<kType, JUrl(<<"std", et>>)>>, <<kType, JUrl(<<"std", "NoSuch">>)>>, <<kType, JNum(<<49>>)>>, <<kValue, inner>>,
   <<kC, JNum(<<53>>)>>, <<kD, JStr(<<50>>)>>, <<kC, JNull>>, <<(<<120>>), JNum(<<49>>)>>}
MemberSeqs(et, inner) == LET A == MemberAlphabet(et, inner) IN
  {<<>>} \cup {<<x>> : x \in A} \cup {<<x, y>> : x, y \in A}
  \cup (IF Tier = "quick" THEN {<<x, y, z>> : x \in {<<kType, JUrl(<<"std", et>>)>>}, y, z \in A} ELSE {<<x, y, z>> : x, y, z \in A})
AnyTargets == {<<"Duration", JStr(<<49, cS>>)>>, <<"Empty", JObj(<<>>)>>, <<"Foreign", JObj(<<>>)>>, <<"Value", JNull>>}
AnyCases == {[op |-> "tojson", m |-> m] : m \in AnyMsgs}
       \cup UNION {{[op |-> "fromjson", t |-> "Any", j |-> JObj(ms)] : ms \in MemberSeqs(tg[1], tg[2])} : tg \in AnyTargets}
       \cup {[op |-> "fromjson", t |-> "Any", j |-> j] : j \in {JNull, JStr(<<>>), JArr(<<>>)}}

\* ---- cross-type: each type parses the JSON of every marshalable corner message
CornerMsgs == WrapMsgs \cup {M("Value", x) : x \in Vals(0)} \cup AnyMsgs \cup Embedded
              \cup {M("FieldMask", <<>>), M("FieldMask", <<GoodPath, <<97>>>>), M("Struct", <<>>), M("ListValue", <<>>)}
CornerDocs == {ToJ(m).r : m \in {x \in CornerMsgs : ToJ(x).ok}}
CrossTypes == {"BoolValue", "Int32Value", "UInt64Value", "DoubleValue", "StringValue", "Value", "Struct", "ListValue", "Empty",
               "FieldMask", "Duration", "Timestamp", "Any", "Foreign"}
CrossCases == UNION {{[op |-> "fromjson", t |-> t, j |-> j] : j \in {x \in CornerDocs : InDomain(t, x)}} : t \in CrossTypes}

Cases == FmCases \cup WrapCases \cup ValCases \cup AnyCases \cup CrossCases

\* ---- laws
CaseLaw(c) ==
  IF c.op = "tojson"
  THEN LET r == ToJ(c.m) IN
       r.ok => FromJ(c.m.t, r.r) = Ok(c.m)                             \* whatever marshals parses back to the same message
  ELSE LET r == FromJ(c.t, c.j) IN
       r.ok => LET b == ToJ(r.r) IN b.ok /\ FromJ(c.t, b.r) = r         \* whatever parses can be marshaled, stably
\* independent characterisations, checked once
OnceLaws ==
  /\ \A s \in FmStrings : IsFullName(s) => (Reversible(s) = ReversibleByShape(s))
  /\ \A s \in FmStrings : (IsFullName(s) /\ Reversible(s)) => Snake(Camel(s)) = s
  /\ \A b \in ByteStrings : B64Dec(B64Enc(b)) = b /\ B64Ok(B64Enc(b)) /\ Len(B64Enc(b)) = 4 * ((Len(b) + 2) \div 3)
  /\ \A x \in AllVals : ValToJ(x).ok = (\A y \in SubVals(x) : y.k # "unset" /\ (y.k = "num" => Finite(y.p)))
  /\ \A l \in {<<48>>, <<49, cDot, 53>>, <<45, 48>>, <<49, 101, 43, 50, 49>>, <<49, 101, 45, 48, 55>>} : IsNumLit(l)
  /\ \A l \in {<<>>, <<48, 49>>, <<49, cDot>>, <<cDot, 53>>, <<49, 101>>, <<49, cDot, 53, cS>>, <<43, 49>>} : ~IsNumLit(l)

VARIABLE cur
Init == cur = [op |-> "init"]
Next == cur.op = "init" /\ \E c \in Cases : cur' = c
Laws == IF cur.op = "init" THEN OnceLaws ELSE CaseLaw(cur)
Emit == PrintT("@@" \o ToJson(cur' @@ [exp |-> Expect(cur')]))
=============================================================================
