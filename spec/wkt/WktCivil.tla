----------------------------- MODULE WktCivil -----------------------------
(***************************************************************************)
(* Proleptic Gregorian calendar on native integers (all quantities here    *)
(* stay below 4 million): days since 0001-01-01 of a civil date and its    *)
(* inverse.  The forward map is the definition; the inverse is specified   *)
(* as "the date whose forward image is the given day" (CHOOSE), so the     *)
(* two directions cannot share a transcription error.                      *)
(***************************************************************************)
EXTENDS Integers, Sequences

IsLeap(y) == (y % 4 = 0 /\ y % 100 # 0) \/ y % 400 = 0
DaysInMonth(y, m) == CASE m = 2 -> IF IsLeap(y) THEN 29 ELSE 28
                       [] m \in {4, 6, 9, 11} -> 30
                       [] OTHER -> 31
RECURSIVE DaysBeforeMonth(_, _)
DaysBeforeMonth(y, m) == IF m = 1 THEN 0 ELSE DaysBeforeMonth(y, m - 1) + DaysInMonth(y, m - 1)
\* days in the years 1 .. y-1 (y >= 1; y = 0 gives -366: year 0 is a leap year)
DaysBeforeYear(y) == IF y = 0 THEN -366
                     ELSE 365 * (y - 1) + ((y - 1) \div 4) - ((y - 1) \div 100) + ((y - 1) \div 400)
\* 0001-01-01 is day 0
DaysFromCivil(y, m, d) == DaysBeforeYear(y) + DaysBeforeMonth(y, m) + (d - 1)
ValidDate(y, m, d) == m \in 1..12 /\ d >= 1 /\ d <= DaysInMonth(y, m)

\* inverse for 0 <= n < DaysBeforeYear(10000)
YearOfDay(n) == CHOOSE y \in ((n \div 366) + 1)..((n \div 365) + 1) : DaysBeforeYear(y) <= n /\ n < DaysBeforeYear(y + 1)
CivilFromDays(n) ==
  LET y == YearOfDay(n)
      r == n - DaysBeforeYear(y)
      m == CHOOSE mm \in 1..12 : DaysBeforeMonth(y, mm) <= r /\ r < DaysBeforeMonth(y, mm) + DaysInMonth(y, mm)
  IN [y |-> y, m |-> m, d |-> r - DaysBeforeMonth(y, m) + 1]

UnixEpochDay == DaysFromCivil(1970, 1, 1)      \* 719162
LastDay == DaysFromCivil(9999, 12, 31)          \* 3652058
=============================================================================
