--------------------------- MODULE FieldMaskAlg ---------------------------
(***************************************************************************)
(* C44: google.protobuf.FieldMask as path-set algebra.                     *)
(*                                                                         *)
(* A path is a string (sequence of character codes); its segments are the  *)
(* maximal '.'-free pieces.  A mask (list of paths) COVERS a path p when   *)
(* some mask path is a segment-prefix of p.  The operations are specified  *)
(* by coverage:                                                            *)
(*                                                                         *)
(*   Normalize(m)   the sorted list of the minimal paths of m (no path of  *)
(*                  the result has another one as segment-prefix)          *)
(*   Union(ms)      Normalize of the concatenation                         *)
(*   Intersect(ms)  the sorted minimal paths among those mask paths that   *)
(*                  every input mask covers                                *)
(*                                                                         *)
(* The order is the one documented by fieldmaskpb: byte-wise, except that  *)
(* '.' sorts before every other byte, i.e. lexicographic on segment lists  *)
(* (so that a path is immediately followed by its extensions).  Two        *)
(* formulations of everything are given - denotational (sets, coverage,    *)
(* segment lists) and algorithmic (the character-level comparison, sort +  *)
(* one-pass de-duplication, two-pointer merge as designed in fieldmaskpb) - *)
(* and MC_FieldMaskAlg has TLC prove them equal on all bounded inputs.      *)
(*                                                                         *)
(* Validity (New / Append / IsValid): a path is valid for message type M   *)
(* when its segments name a chain of fields starting in M in which every   *)
(* field but the last is a singular (non-list, non-map) message field.     *)
(* A field is named by its field name, except that a proto2-style group    *)
(* (delimited field whose name is the lower-cased message name) is named   *)
(* by its message name.  The schema is data (exported from the real        *)
(* descriptors), see FieldMaskCases.                                       *)
(***************************************************************************)
EXTENDS Integers, Sequences, FiniteSets

Dot == 46
Range(s) == {s[i] : i \in 1..Len(s)}

\* ---------------------------------------------------------------- segments
RECURSIVE SplitFrom(_, _, _)
SplitFrom(p, i, cur) ==
  IF i > Len(p) THEN <<cur>>
  ELSE IF p[i] = Dot THEN <<cur>> \o SplitFrom(p, i + 1, <<>>)
  ELSE SplitFrom(p, i + 1, Append(cur, p[i]))
Segs(p) == SplitFrom(p, 1, <<>>)                     \* always at least one (possibly empty) segment

IsPrefix(q, p) == Len(q) <= Len(p) /\ SubSeq(p, 1, Len(q)) = q
\* denotational: q's segments are a prefix of p's segments
SegPrefix(q, p) == IsPrefix(Segs(q), Segs(p))
\* character level (hasPathPrefix): string prefix that ends at a segment boundary
HasPathPrefix(p, q) == IsPrefix(q, p) /\ (Len(p) = Len(q) \/ p[Len(q) + 1] = Dot)

Covers(mask, p) == \E i \in 1..Len(mask) : HasPathPrefix(p, mask[i])

\* ---------------------------------------------------------------- order
Rot(c) == (c - Dot) % 256                            \* '.' becomes the smallest byte
RECURSIVE LessFrom(_, _, _)
LessFrom(x, y, i) ==
  IF i > Len(x) \/ i > Len(y) THEN Len(x) < Len(y)
  ELSE IF x[i] # y[i] THEN Rot(x[i]) < Rot(y[i])
  ELSE LessFrom(x, y, i + 1)
LessPath(x, y) == LessFrom(x, y, 1)                  \* character level (lessPath)

\* denotational: lexicographic on segment lists, segments compared byte-wise (shorter first)
RECURSIVE SegLessFrom(_, _, _)
SegLessFrom(s, t, i) ==
  IF i > Len(s) \/ i > Len(t) THEN Len(s) < Len(t)
  ELSE IF s[i] # t[i] THEN Rot(s[i]) < Rot(t[i])
  ELSE SegLessFrom(s, t, i + 1)
RECURSIVE SegsLessFrom(_, _, _)
SegsLessFrom(a, b, i) ==
  IF i > Len(a) \/ i > Len(b) THEN Len(a) < Len(b)
  ELSE IF a[i] # b[i] THEN SegLessFrom(a[i], b[i], 1)
  ELSE SegsLessFrom(a, b, i + 1)
LessPathSeg(x, y) == SegsLessFrom(Segs(x), Segs(y), 1)

\* ---------------------------------------------------------------- denotational operations
Minimal(S) == {p \in S : \A q \in S : q # p => ~HasPathPrefix(p, q)}
RECURSIVE SortSet(_)
SortSet(S) == IF S = {} THEN <<>>
              ELSE LET m == CHOOSE x \in S : \A y \in S : y = x \/ LessPath(x, y) IN <<m>> \o SortSet(S \ {m})
RECURSIVE ConcatFrom(_, _)
ConcatFrom(ms, i) == IF i > Len(ms) THEN <<>> ELSE ms[i] \o ConcatFrom(ms, i + 1)
Concat(ms) == ConcatFrom(ms, 1)

Normalize(m) == SortSet(Minimal(Range(m)))
Union(ms) == Normalize(Concat(ms))
Intersect(ms) == SortSet(Minimal({p \in Range(Concat(ms)) : \A i \in 1..Len(ms) : Covers(ms[i], p)}))

Sorted(m) == \A i \in 1..(Len(m) - 1) : LessPath(m[i], m[i + 1])
PrefixFree(m) == \A i, j \in 1..Len(m) : i # j => ~HasPathPrefix(m[i], m[j])

\* ---------------------------------------------------------------- algorithmic formulation (as designed in fieldmaskpb)
RECURSIVE InsertSorted(_, _)
InsertSorted(s, x) == IF s = <<>> THEN <<x>>
                      ELSE IF LessPath(x, Head(s)) THEN <<x>> \o s
                      ELSE <<Head(s)>> \o InsertSorted(Tail(s), x)
RECURSIVE SortSeq(_)
SortSeq(s) == IF s = <<>> THEN <<>> ELSE InsertSorted(SortSeq(Tail(s)), Head(s))
RECURSIVE Dedup(_, _, _)
Dedup(s, i, out) ==
  IF i > Len(s) THEN out
  ELSE IF out # <<>> /\ HasPathPrefix(s[i], out[Len(out)]) THEN Dedup(s, i + 1, out)
  ELSE Dedup(s, i + 1, Append(out, s[i]))
NormalizeAlg(m) == Dedup(SortSeq(m), 1, <<>>)

\* two-pointer intersection of two normalized lists
RECURSIVE Merge2(_, _, _, _, _)
Merge2(s1, s2, i1, i2, out) ==
  IF i1 > Len(s1) \/ i2 > Len(s2) THEN out
  ELSE LET a == s1[i1]  b == s2[i2] IN
       IF HasPathPrefix(a, b) THEN Merge2(s1, s2, i1 + 1, i2, Append(out, a))
       ELSE IF HasPathPrefix(b, a) THEN Merge2(s1, s2, i1, i2 + 1, Append(out, b))
       ELSE IF LessPath(a, b) THEN Merge2(s1, s2, i1 + 1, i2, out)
       ELSE Merge2(s1, s2, i1, i2 + 1, out)
RECURSIVE IntersectFold(_, _, _)
IntersectFold(acc, ms, i) ==
  IF i > Len(ms) THEN acc
  ELSE IntersectFold(Merge2(NormalizeAlg(ms[i]), NormalizeAlg(acc), 1, 1, <<>>), ms, i + 1)
IntersectAlg(ms) == NormalizeAlg(IntersectFold(NormalizeAlg(Concat(ms)), ms, 1))

\* ---------------------------------------------------------------- validity against a schema
\* schema: sequence of [full: STRING, fields: sequence of
\*            [name: chars, mname: chars (short message name), mfull: STRING ("" unless message/group),
\*             group: BOOLEAN (delimited encoding), rep: BOOLEAN (list or map)]]
Lower(s) == [i \in 1..Len(s) |-> IF s[i] >= 65 /\ s[i] <= 90 THEN s[i] + 32 ELSE s[i]]
GroupLike(f) == f.group /\ f.name = Lower(f.mname)
SegName(f) == IF GroupLike(f) THEN f.mname ELSE f.name
\* the "names a field" relation as a table: message full name -> segment -> field
NameTable(schema) ==
  [m \in {schema[i].full : i \in 1..Len(schema)} |->
     LET fs == schema[CHOOSE i \in 1..Len(schema) : schema[i].full = m].fields IN
     [n \in {SegName(fs[k]) : k \in 1..Len(fs)} |-> fs[CHOOSE k \in 1..Len(fs) : SegName(fs[k]) = n]]]
Names(tab, full, seg) == full \in DOMAIN tab /\ seg \in DOMAIN tab[full]
Singular(f) == f.mfull # "" /\ ~f.rep

\* denotational: the segments name a chain of fields, all but the last singular message fields
RECURSIVE ValidFrom(_, _, _, _)
ValidFrom(tab, full, segs, i) ==
  /\ Names(tab, full, segs[i])
  /\ (i = Len(segs) \/ (Singular(tab[full][segs[i]]) /\ ValidFrom(tab, tab[full][segs[i]].mfull, segs, i + 1)))
ValidPath(tab, full, p) == ValidFrom(tab, full, Segs(p), 1)

\* algorithmic formulation: walk the segments left to right keeping the current message ("" = not within a message)
RECURSIVE WalkFrom(_, _, _, _)
WalkFrom(tab, cur, segs, i) ==
  IF i > Len(segs) THEN TRUE
  ELSE IF cur = "" \/ ~Names(tab, cur, segs[i]) THEN FALSE
  ELSE LET f == tab[cur][segs[i]] IN WalkFrom(tab, IF Singular(f) THEN f.mfull ELSE "", segs, i + 1)
ValidPathAlg(tab, full, p) == WalkFrom(tab, full, Segs(p), 1)

\* number of leading valid paths
RECURSIVE NumValid(_, _, _, _)
NumValid(tab, full, paths, i) ==
  IF i > Len(paths) \/ ~ValidPath(tab, full, paths[i]) THEN i - 1 ELSE NumValid(tab, full, paths, i + 1)

\* a list of paths as one string in which every path is followed by ','
RECURSIVE SplitTermFrom(_, _, _)
SplitTermFrom(s, i, cur) ==
  IF i > Len(s) THEN <<>>
  ELSE IF s[i] = 44 THEN <<cur>> \o SplitTermFrom(s, i + 1, <<>>)
  ELSE SplitTermFrom(s, i + 1, Append(cur, s[i]))
SplitTerm(s) == SplitTermFrom(s, 1, <<>>)
RECURSIVE JoinTermFrom(_, _)
JoinTermFrom(ps, i) == IF i > Len(ps) THEN <<>> ELSE ps[i] \o <<44>> \o JoinTermFrom(ps, i + 1)
JoinTerm(ps) == JoinTermFrom(ps, 1)
=============================================================================
