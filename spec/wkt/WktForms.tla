------------------------------ MODULE WktForms ------------------------------
(***************************************************************************)
(* C23: the special JSON forms of the well-known types other than the      *)
(* textual Duration/Timestamp grammars: wrappers, Struct / Value /         *)
(* ListValue, Empty, FieldMask and Any, as a pair of functions between     *)
(* abstract messages and abstract JSON values.                             *)
(*                                                                         *)
(* Abstract JSON  [k, v]:  null <<>> | bool <<0|1>> | num literal | str    *)
(*   characters | arr sequence of nodes | obj sequence of <<key, node>> |  *)
(*   url <<prefix class, type>> (the string value of an "@type" member).   *)
(* Objects produced by the specification list their members in ascending   *)
(* key order (the harness sorts what protojson prints; member order is     *)
(* never significant).                                                     *)
(*                                                                         *)
(* Abstract message [t, v]:                                                *)
(*   BoolValue <<0|1>>; Int32Value .. UInt64Value decimal literal;         *)
(*   FloatValue, DoubleValue number; StringValue characters; BytesValue    *)
(*   bytes; Value value; Struct sequence of <<key, value>> (ascending,     *)
(*   distinct keys); ListValue sequence of values; Empty <<>>; FieldMask   *)
(*   sequence of paths; Duration, Timestamp <<seconds, nanos>> (literals); *)
(*   Foreign <<c, d>> (a plain message with two int32 fields, standing for *)
(*   "no special form"); Any <<>> (empty) or <<url, embedded message>>.    *)
(*   number: [c, d] with c = "int" (d a canonical integer literal, exact), *)
(*   "lit" (d any other JSON number literal: an uninterpreted token that   *)
(*   must be preserved), "nan", "inf", "ninf".                             *)
(*   value:  [k, p] with k = unset | null | bool | num | str | struct |    *)
(*   list and p the payload.                                               *)
(*                                                                         *)
(* ToJ(m) = [ok, j] is marshaling, FromJ(t, j) = [ok, m] parsing.          *)
(***************************************************************************)
EXTENDS WktTimestamp, FiniteSets

\* ---------------------------------------------------------------- abstract JSON
J(k, v) == [k |-> k, v |-> v]
JNull == J("null", <<>>)
JBool(b) == J("bool", <<b>>)
JNum(lit) == J("num", lit)
JStr(s) == J("str", s)
JArr(xs) == J("arr", xs)
JObj(ps) == J("obj", ps)
JUrl(u) == J("url", u)
M(t, v) == [t |-> t, v |-> v]
Ok(x) == [ok |-> TRUE, r |-> x]
Err == [ok |-> FALSE, r |-> <<>>]

\* byte-wise lexicographic order on strings
RECURSIVE StrLessFrom(_, _, _)
StrLessFrom(a, b, i) == IF i > Len(a) \/ i > Len(b) THEN Len(a) < Len(b)
                        ELSE IF a[i] # b[i] THEN a[i] < b[i] ELSE StrLessFrom(a, b, i + 1)
StrLess(a, b) == StrLessFrom(a, b, 1)
RECURSIVE InsertPair(_, _)
InsertPair(ps, p) == IF ps = <<>> THEN <<p>>
                     ELSE IF StrLess(p[1], Head(ps)[1]) THEN <<p>> \o ps ELSE <<Head(ps)>> \o InsertPair(Tail(ps), p)
RECURSIVE SortPairs(_)
SortPairs(ps) == IF ps = <<>> THEN <<>> ELSE InsertPair(SortPairs(Tail(ps)), Head(ps))
DistinctKeys(ps) == \A i, j \in 1..Len(ps) : i # j => ps[i][1] # ps[j][1]
Members(j, key) == {i \in 1..Len(j.v) : j.v[i][1] = key}

\* character codes of the member names and literals that occur in the forms
kType == <<64, 116, 121, 112, 101>>                 \* "@type"
kValue == <<118, 97, 108, 117, 101>>                \* "value"
kC == <<99>>                                        \* "c"
kD == <<100>>                                       \* "d"
sNaN == <<78, 97, 78>>                              \* "NaN"
sInf == <<73, 110, 102, 105, 110, 105, 116, 121>>   \* "Infinity"
sNInf == <<45>> \o sInf                             \* "-Infinity"

\* ---------------------------------------------------------------- integers and numbers
\* canonical integer literal: "0" or [-] nonzero-digit digit*
IsCanonInt(lit) ==
  LET b == IF lit # <<>> /\ lit[1] = cMinus THEN Tail(lit) ELSE lit IN
  b # <<>> /\ IsDigits(b) /\ (b = <<48>> => lit = <<48>>) /\ (Len(b) > 1 => b[1] # 48)
P2(digs) == Z(FALSE, digs)
IntRange(t) ==
  CASE t = "Int32Value" -> <<MinInt32, MaxInt32>>
    [] t = "Int64Value" -> <<MinInt64, MaxInt64>>
    [] t = "UInt32Value" -> <<ZZero, P2(<<4,2,9,4,9,6,7,2,9,5>>)>>
    [] t = "UInt64Value" -> <<ZZero, P2(<<1,8,4,4,6,7,4,4,0,7,3,7,0,9,5,5,1,6,1,5>>)>>
InIntRange(t, lit) == LET z == ZOfChars(lit)  r == IntRange(t) IN ZLe(r[1], z) /\ ZLe(z, r[2])
IntTypes == {"Int32Value", "Int64Value", "UInt32Value", "UInt64Value"}
QuotedInts == {"Int64Value", "UInt64Value"}          \* 64-bit integers are JSON strings on output
\* integers that a double represents exactly: |x| <= 2^53
Exact53 == P2(<<9,0,0,7,1,9,9,2,5,4,7,4,0,9,9,2>>)
NumOfLit(lit) == IF IsCanonInt(lit) /\ ZLe(ZAbs(ZOfChars(lit)), Exact53) THEN [c |-> "int", d |-> lit] ELSE [c |-> "lit", d |-> lit]
Finite(n) == n.c \in {"int", "lit"}

\* ---------------------------------------------------------------- base64 (standard alphabet, padded)
B64Char(n) == IF n < 26 THEN 65 + n ELSE IF n < 52 THEN 97 + (n - 26) ELSE IF n < 62 THEN 48 + (n - 52) ELSE IF n = 62 THEN 43 ELSE 47
B64Val(c) == IF c >= 65 /\ c <= 90 THEN c - 65 ELSE IF c >= 97 /\ c <= 122 THEN c - 71 ELSE IF c >= 48 /\ c <= 57 THEN c + 4
             ELSE IF c = 43 THEN 62 ELSE IF c = 47 THEN 63 ELSE -1
RECURSIVE B64Enc(_)
B64Enc(b) ==
  IF b = <<>> THEN <<>>
  ELSE IF Len(b) = 1 THEN <<B64Char(b[1] \div 4), B64Char((b[1] % 4) * 16), 61, 61>>
  ELSE IF Len(b) = 2 THEN <<B64Char(b[1] \div 4), B64Char((b[1] % 4) * 16 + b[2] \div 16), B64Char((b[2] % 16) * 4), 61>>
  ELSE <<B64Char(b[1] \div 4), B64Char((b[1] % 4) * 16 + b[2] \div 16), B64Char((b[2] % 16) * 4 + b[3] \div 64), B64Char(b[3] % 64)>>
       \o B64Enc(SubSeq(b, 4, Len(b)))
\* decoding of canonical padded text; <<-1>> when the text is not canonical base64
RECURSIVE B64Dec(_)
B64Dec(s) ==
  IF s = <<>> THEN <<>>
  ELSE IF Len(s) < 4 THEN <<-1>>
  ELSE LET a == B64Val(s[1])  b == B64Val(s[2])  c == B64Val(s[3])  d == B64Val(s[4])
           rest == B64Dec(SubSeq(s, 5, Len(s))) IN
       IF a < 0 \/ b < 0 THEN <<-1>>
       ELSE IF s[3] = 61 THEN (IF s[4] = 61 /\ Len(s) = 4 /\ b % 16 = 0 THEN <<a * 4 + b \div 16>> ELSE <<-1>>)
       ELSE IF c < 0 THEN <<-1>>
       ELSE IF s[4] = 61 THEN (IF Len(s) = 4 /\ c % 4 = 0 THEN <<a * 4 + b \div 16, (b % 16) * 16 + c \div 4>> ELSE <<-1>>)
       ELSE IF d < 0 \/ (rest # <<>> /\ rest[Len(rest)] = -1) THEN <<-1>>
       ELSE <<a * 4 + b \div 16, (b % 16) * 16 + c \div 4, (c % 4) * 64 + d>> \o rest
B64Ok(s) == LET r == B64Dec(s) IN r = <<>> \/ r[Len(r)] # -1

\* ---------------------------------------------------------------- FieldMask: lowerCamel <-> snake_case
IsLowerC(c) == c >= 97 /\ c <= 122
IsUpperC(c) == c >= 65 /\ c <= 90
IsIdentStart(c) == IsLowerC(c) \/ IsUpperC(c) \/ c = 95
IsIdentChar(c) == IsIdentStart(c) \/ IsDigitC(c)
\* a dot-separated list of identifiers (protoreflect.FullName.IsValid)
RECURSIVE SplitOn(_, _, _, _)
SplitOn(s, sep, i, cur) == IF i > Len(s) THEN <<cur>>
                           ELSE IF s[i] = sep THEN <<cur>> \o SplitOn(s, sep, i + 1, <<>>)
                           ELSE SplitOn(s, sep, i + 1, Append(cur, s[i]))
Split(s, sep) == SplitOn(s, sep, 1, <<>>)
IsIdent(s) == s # <<>> /\ IsIdentStart(s[1]) /\ \A i \in 1..Len(s) : IsIdentChar(s[i])
IsFullName(s) == LET parts == Split(s, cDot) IN \A i \in 1..Len(parts) : IsIdent(parts[i])
\* character-level transcription of the two conversions (internal/strs)
RECURSIVE CamelFrom(_, _, _)
CamelFrom(s, i, wasU) ==
  IF i > Len(s) THEN <<>>
  ELSE IF s[i] = 95 THEN CamelFrom(s, i + 1, TRUE)
  ELSE <<IF wasU /\ IsLowerC(s[i]) THEN s[i] - 32 ELSE s[i]>> \o CamelFrom(s, i + 1, FALSE)
Camel(s) == CamelFrom(s, 1, FALSE)
RECURSIVE SnakeFrom(_, _)
SnakeFrom(s, i) == IF i > Len(s) THEN <<>>
                   ELSE (IF IsUpperC(s[i]) THEN <<95, s[i] + 32>> ELSE <<s[i]>>) \o SnakeFrom(s, i + 1)
Snake(s) == SnakeFrom(s, 1)
Reversible(s) == Snake(Camel(s)) = s
\* denotational characterisation: no upper-case letter, and every '_' is followed by a lower-case letter
ReversibleByShape(s) == /\ \A i \in 1..Len(s) : ~IsUpperC(s[i])
                        /\ \A i \in 1..Len(s) : s[i] = 95 => (i < Len(s) /\ IsLowerC(s[i + 1]))
RECURSIVE JoinWith(_, _, _)
JoinWith(xs, sep, i) == IF i > Len(xs) THEN <<>> ELSE (IF i > 1 THEN <<sep>> ELSE <<>>) \o xs[i] \o JoinWith(xs, sep, i + 1)
IsSpaceC(c) == c \in {32, 9, 10, 13, 11, 12}
RECURSIVE TrimL(_)
TrimL(s) == IF s # <<>> /\ IsSpaceC(s[1]) THEN TrimL(Tail(s)) ELSE s
RECURSIVE TrimR(_)
TrimR(s) == IF s # <<>> /\ IsSpaceC(s[Len(s)]) THEN TrimR(SubSeq(s, 1, Len(s) - 1)) ELSE s
Trim(s) == TrimR(TrimL(s))

FieldMaskToJ(paths) ==
  IF \A i \in 1..Len(paths) : IsFullName(paths[i]) /\ Reversible(paths[i])
  THEN Ok(JStr(JoinWith([i \in 1..Len(paths) |-> Camel(paths[i])], 44, 1))) ELSE Err
FieldMaskFromJ(j) ==
  IF j.k # "str" THEN Err
  ELSE LET s == Trim(j.v) IN
       IF s = <<>> THEN Ok(M("FieldMask", <<>>))
       ELSE LET parts == Split(s, 44) IN
            IF \A i \in 1..Len(parts) : (\A n \in 1..Len(parts[i]) : parts[i][n] # 95) /\ IsFullName(Snake(parts[i]))
            THEN Ok(M("FieldMask", [i \in 1..Len(parts) |-> Snake(parts[i])])) ELSE Err

\* ---------------------------------------------------------------- Value, Struct, ListValue
V(k, p) == [k |-> k, p |-> p]
RECURSIVE ValToJ(_), PairsToJ(_, _, _), ListToJ(_, _, _)
ValToJ(x) ==
  CASE x.k = "unset" -> Err
    [] x.k = "null" -> Ok(JNull)
    [] x.k = "bool" -> Ok(J("bool", x.p))
    [] x.k = "num" -> IF Finite(x.p) THEN Ok(JNum(x.p.d)) ELSE Err
    [] x.k = "str" -> Ok(JStr(x.p))
    [] x.k = "struct" -> PairsToJ(x.p, 1, <<>>)
    [] x.k = "list" -> ListToJ(x.p, 1, <<>>)
PairsToJ(ps, i, acc) ==
  IF i > Len(ps) THEN Ok(JObj(SortPairs(acc)))
  ELSE LET r == ValToJ(ps[i][2]) IN IF r.ok THEN PairsToJ(ps, i + 1, Append(acc, <<ps[i][1], r.r>>)) ELSE Err
ListToJ(xs, i, acc) ==
  IF i > Len(xs) THEN Ok(JArr(acc))
  ELSE LET r == ValToJ(xs[i]) IN IF r.ok THEN ListToJ(xs, i + 1, Append(acc, r.r)) ELSE Err

\* every JSON value is a Value (an "@type" string is just a string there; tours do not produce it)
RECURSIVE ValFromJ(_), PairsFromJ(_, _, _), ListFromJ(_, _, _)
ValFromJ(j) ==
  CASE j.k = "null" -> Ok(V("null", <<>>))
    [] j.k = "bool" -> Ok(V("bool", j.v))
    [] j.k = "num" -> Ok(V("num", NumOfLit(j.v)))
    [] j.k = "str" -> Ok(V("str", j.v))
    [] j.k = "obj" -> LET r == PairsFromJ(j.v, 1, <<>>) IN IF r.ok THEN Ok(V("struct", r.r)) ELSE Err
    [] j.k = "arr" -> LET r == ListFromJ(j.v, 1, <<>>) IN IF r.ok THEN Ok(V("list", r.r)) ELSE Err
    [] OTHER -> Err
PairsFromJ(ps, i, acc) ==
  IF i > Len(ps) THEN (IF DistinctKeys(acc) THEN Ok(SortPairs(acc)) ELSE Err)       \* duplicate keys are rejected
  ELSE LET r == ValFromJ(ps[i][2]) IN IF r.ok THEN PairsFromJ(ps, i + 1, Append(acc, <<ps[i][1], r.r>>)) ELSE Err
ListFromJ(xs, i, acc) ==
  IF i > Len(xs) THEN Ok(acc)
  ELSE LET r == ValFromJ(xs[i]) IN IF r.ok THEN ListFromJ(xs, i + 1, Append(acc, r.r)) ELSE Err

\* ---------------------------------------------------------------- wrappers and the plain message
NumToJ(n) == CASE n.c = "nan" -> JStr(sNaN) [] n.c = "inf" -> JStr(sInf) [] n.c = "ninf" -> JStr(sNInf) [] OTHER -> JNum(n.d)
\* JSON number grammar  -? (0 | [1-9][0-9]*) (. [0-9]+)? ([eE] [+-]? [0-9]+)?  as an automaton
NumStep(q, c) ==
  CASE q = "start" -> IF c = cMinus THEN "neg" ELSE IF c = 48 THEN "zero" ELSE IF c \in 49..57 THEN "int" ELSE "err"
    [] q = "neg" -> IF c = 48 THEN "zero" ELSE IF c \in 49..57 THEN "int" ELSE "err"
    [] q = "zero" -> IF c = cDot THEN "dot" ELSE IF c \in {101, 69} THEN "e" ELSE "err"
    [] q = "int" -> IF IsDigitC(c) THEN "int" ELSE IF c = cDot THEN "dot" ELSE IF c \in {101, 69} THEN "e" ELSE "err"
    [] q = "dot" -> IF IsDigitC(c) THEN "frac" ELSE "err"
    [] q = "frac" -> IF IsDigitC(c) THEN "frac" ELSE IF c \in {101, 69} THEN "e" ELSE "err"
    [] q = "e" -> IF c \in {cPlus, cMinus} THEN "esign" ELSE IF IsDigitC(c) THEN "exp" ELSE "err"
    [] q = "esign" -> IF IsDigitC(c) THEN "exp" ELSE "err"
    [] q = "exp" -> IF IsDigitC(c) THEN "exp" ELSE "err"
    [] OTHER -> "err"
RECURSIVE NumRun(_, _, _)
NumRun(q, s, i) == IF i > Len(s) THEN q ELSE NumRun(NumStep(q, s[i]), s, i + 1)
IsNumLit(s) == NumRun("start", s, 1) \in {"zero", "int", "frac", "exp"}
NumFromJ(j) ==
  IF j.k = "num" THEN Ok(NumOfLit(j.v))
  ELSE IF j.k # "str" THEN Err
  ELSE IF j.v = sNaN THEN Ok([c |-> "nan", d |-> <<>>])
  ELSE IF j.v = sInf THEN Ok([c |-> "inf", d |-> <<>>])
  ELSE IF j.v = sNInf THEN Ok([c |-> "ninf", d |-> <<>>])
  ELSE IF IsNumLit(j.v) THEN Ok(NumOfLit(j.v)) ELSE Err
IntFromJ(t, j) == IF j.k \in {"num", "str"} /\ IsCanonInt(j.v) /\ InIntRange(t, j.v) THEN Ok(j.v) ELSE Err
ForeignToJ(v) == JObj((IF v[1] = <<48>> THEN <<>> ELSE <<<<kC, JNum(v[1])>>>>) \o (IF v[2] = <<48>> THEN <<>> ELSE <<<<kD, JNum(v[2])>>>>))
\* fields of the plain message among the members ps (other than "@type"): each at most once, null = absent
ForeignFromPairs(ps) ==
  IF \E i \in 1..Len(ps) : ps[i][1] \notin {kC, kD} THEN Err
  ELSE IF ~DistinctKeys(ps) THEN Err
  ELSE LET get(key) == IF \E i \in 1..Len(ps) : ps[i][1] = key
                       THEN (LET n == ps[CHOOSE i \in 1..Len(ps) : ps[i][1] = key][2] IN
                             IF n.k = "null" THEN Ok(<<48>>) ELSE IntFromJ("Int32Value", n))
                       ELSE Ok(<<48>>)
           c == get(kC)  d == get(kD)
       IN IF c.ok /\ d.ok THEN Ok(M("Foreign", <<c.r, d.r>>)) ELSE Err

\* ---------------------------------------------------------------- Any
\* url = <<prefix class, type>>; prefix classes std ("type.googleapis.com/"), alt (another host/path), bare (no '/'),
\* none (field unset); type "NoSuch" stands for a name the resolver does not know
Resolvable(u) == u[1] # "none" /\ u[2] # "NoSuch"
SpecialForm(t) == t \notin {"Foreign", "Empty"}      \* has its own marshaler: embedded as {"@type", "value"}

RECURSIVE ToJ(_), FromJ(_, _)
ToJ(m) ==
  CASE m.t = "BoolValue" -> Ok(J("bool", m.v))
    [] m.t \in IntTypes -> Ok(IF m.t \in QuotedInts THEN JStr(m.v) ELSE JNum(m.v))
    [] m.t \in {"FloatValue", "DoubleValue"} -> Ok(NumToJ(m.v))
    [] m.t = "StringValue" -> Ok(JStr(m.v))
    [] m.t = "BytesValue" -> Ok(JStr(B64Enc(m.v)))
    [] m.t = "Value" -> ValToJ(m.v)
    [] m.t = "Struct" -> PairsToJ(m.v, 1, <<>>)
    [] m.t = "ListValue" -> ListToJ(m.v, 1, <<>>)
    [] m.t = "Empty" -> Ok(JObj(<<>>))
    [] m.t = "FieldMask" -> FieldMaskToJ(m.v)
    [] m.t = "Duration" -> LET r == DurMarshal(ZOfChars(m.v[1]), ZOfChars(m.v[2])) IN IF r.ok THEN Ok(JStr(r.str)) ELSE Err
    [] m.t = "Timestamp" -> LET r == TsMarshal(ZOfChars(m.v[1]), ZOfChars(m.v[2])) IN IF r.ok THEN Ok(JStr(r.str)) ELSE Err
    [] m.t = "Foreign" -> Ok(ForeignToJ(m.v))
    [] m.t = "Any" ->
         IF m.v = <<>> THEN Ok(JObj(<<>>))
         ELSE LET u == m.v[1]  em == m.v[2] IN
              IF ~Resolvable(u) THEN Err                     \* (the embedded bytes are always of the type the URL names)
              ELSE LET inner == ToJ(em) IN
                   IF ~inner.ok THEN Err
                   ELSE IF SpecialForm(em.t) THEN Ok(JObj(SortPairs(<<<<kType, JUrl(u)>>, <<kValue, inner.r>>>>)))
                   ELSE Ok(JObj(SortPairs(<<<<kType, JUrl(u)>>>> \o inner.r.v)))

FromJ(t, j) ==
  CASE t = "BoolValue" -> IF j.k = "bool" THEN Ok(M(t, j.v)) ELSE Err
    [] t \in IntTypes -> LET r == IntFromJ(t, j) IN IF r.ok THEN Ok(M(t, r.r)) ELSE Err
    [] t \in {"FloatValue", "DoubleValue"} -> LET r == NumFromJ(j) IN IF r.ok THEN Ok(M(t, r.r)) ELSE Err
    [] t = "StringValue" -> IF j.k = "str" THEN Ok(M(t, j.v)) ELSE Err
    [] t = "BytesValue" -> IF j.k = "str" /\ B64Ok(j.v) THEN Ok(M(t, B64Dec(j.v))) ELSE Err
    [] t = "Value" -> LET r == ValFromJ(j) IN IF r.ok THEN Ok(M(t, r.r)) ELSE Err
    [] t = "Struct" -> IF j.k # "obj" THEN Err ELSE LET r == PairsFromJ(j.v, 1, <<>>) IN IF r.ok THEN Ok(M(t, r.r)) ELSE Err
    [] t = "ListValue" -> IF j.k # "arr" THEN Err ELSE LET r == ListFromJ(j.v, 1, <<>>) IN IF r.ok THEN Ok(M(t, r.r)) ELSE Err
    [] t = "Empty" -> IF j.k = "obj" /\ j.v = <<>> THEN Ok(M(t, <<>>)) ELSE Err
    [] t = "FieldMask" -> FieldMaskFromJ(j)
    [] t = "Duration" -> IF j.k # "str" THEN Err
                         ELSE LET r == DurParse(j.v) IN IF r.ok THEN Ok(M(t, <<CharsOfZ(r.s), CharsOfZ(r.n)>>)) ELSE Err
    [] t = "Timestamp" -> IF j.k # "str" THEN Err
                          ELSE LET r == TsParse(j.v) IN IF r.ok THEN Ok(M(t, <<CharsOfZ(r.s), CharsOfZ(r.n)>>)) ELSE Err
    [] t = "Foreign" -> IF j.k # "obj" THEN Err ELSE ForeignFromPairs(j.v)
    [] t = "Any" ->
         IF j.k # "obj" THEN Err
         ELSE IF j.v = <<>> THEN Ok(M(t, <<>>))
         ELSE LET ty == Members(j, kType)
                  others == SelectSeq(j.v, LAMBDA p : p[1] # kType) IN
              IF Cardinality(ty) # 1 THEN Err                                  \* missing or duplicate "@type"
              ELSE LET un == j.v[CHOOSE i \in ty : TRUE][2] IN
                   IF un.k # "url" \/ ~Resolvable(un.v) THEN Err
                   ELSE LET et == un.v[2] IN
                        IF et \notin {"Foreign"}                               \* types with a custom parser: the "value" member
                        THEN IF \E i \in 1..Len(others) : others[i][1] # kValue THEN Err
                             ELSE IF Len(others) > 1 THEN Err                  \* duplicate "value"
                             ELSE IF others = <<>> THEN (IF et = "Empty" THEN Ok(M(t, <<un.v, M("Empty", <<>>)>>)) ELSE Err)
                             ELSE LET r == FromJ(et, others[1][2]) IN IF r.ok THEN Ok(M(t, <<un.v, r.r>>)) ELSE Err
                        ELSE LET r == ForeignFromPairs(others) IN IF r.ok THEN Ok(M(t, <<un.v, r.r>>)) ELSE Err
=============================================================================
