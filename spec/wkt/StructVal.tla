------------------------------ MODULE StructVal ------------------------------
(***************************************************************************)
(* C45: the Go helpers of google.protobuf.Struct / Value / ListValue       *)
(* (structpb.NewValue, AsInterface) and of google.protobuf.Any (anypb.New, *)
(* MessageName, MessageIs, UnmarshalTo, UnmarshalNew).                     *)
(*                                                                         *)
(* Go values [g, x] (the argument of NewValue / result of AsInterface):    *)
(*   nil <<>> | bool <<0|1>> | int, int8 .. uint64 <<literal, image>> |    *)
(*   float32, float64 number | jnum literal (encoding/json.Number) |       *)
(*   string bytes | bytes bytes | map sequence of <<key, value>> (distinct *)
(*   ascending keys) | slice sequence | bad (any other Go type).           *)
(* Integers convert to float64: exactly when |n| <= 2^53; beyond that the  *)
(* rounding of the binary floating-point conversion is not defined here -  *)
(* `image` is the literal of float64(n) supplied with the case and used as *)
(* an uninterpreted function value (DESIGN 6).  Numbers, values and        *)
(* abstract JSON are those of WktForms.                                    *)
(*                                                                         *)
(*   NewValue      nil -> null, bool, every integer and float kind ->      *)
(*                 number, json.Number -> number or error, string ->       *)
(*                 string or error (invalid UTF-8), []byte -> base64       *)
(*                 string, map[string]any -> struct (keys valid UTF-8),    *)
(*                 []any -> list, anything else -> error                   *)
(*   AsInterface   null -> nil, bool, finite number -> float64, NaN / +Inf *)
(*                 / -Inf -> the strings "NaN" / "Infinity" / "-Infinity", *)
(*                 string, struct -> map, list -> slice, unset -> nil      *)
(*   Conv          the composition, defined directly on Go values          *)
(*   GoToJ         encoding/json of a normal-form Go value, as abstract    *)
(*                 JSON                                                    *)
(*                                                                         *)
(* Any, on strings: URL = prefix "/" full-name;  MessageName(url) = the    *)
(* part after the last '/' if it is a full name, else "";  MessageIs(url,  *)
(* n) = url is n or ends in "/" n;  New(m) = "type.googleapis.com/" name.  *)
(* The Any API as a state machine over messages is module AnyBox.          *)
(***************************************************************************)
EXTENDS WktForms

G(g, x) == [g |-> g, x |-> x]
IntKinds == {"int", "int8", "int16", "int32", "int64", "uint", "uint8", "uint16", "uint32", "uint64"}

\* ---------------------------------------------------------------- UTF-8
\* well-formed UTF-8 (RFC 3629): no overlong forms, no surrogates, at most U+10FFFF
RECURSIVE Utf8From(_, _)
Utf8From(b, i) ==
  IF i > Len(b) THEN TRUE
  ELSE LET c == b[i]
           cont(k) == k <= Len(b) /\ b[k] >= 128 /\ b[k] <= 191
       IN IF c < 128 THEN Utf8From(b, i + 1)
          ELSE IF c >= 194 /\ c <= 223 THEN cont(i + 1) /\ Utf8From(b, i + 2)
          ELSE IF c >= 224 /\ c <= 239
               THEN /\ cont(i + 1) /\ cont(i + 2)
                    /\ (c = 224 => b[i + 1] >= 160)            \* overlong
                    /\ (c = 237 => b[i + 1] <= 159)            \* surrogates
                    /\ Utf8From(b, i + 3)
          ELSE IF c >= 240 /\ c <= 244
               THEN /\ cont(i + 1) /\ cont(i + 2) /\ cont(i + 3)
                    /\ (c = 240 => b[i + 1] >= 144)            \* overlong
                    /\ (c = 244 => b[i + 1] <= 143)            \* beyond U+10FFFF
                    /\ Utf8From(b, i + 4)
          ELSE FALSE
Utf8Valid(b) == Utf8From(b, 1)

\* ---------------------------------------------------------------- NewValue
IntToNum(x) == IF ZLe(ZAbs(ZOfChars(x[1])), Exact53) THEN [c |-> "int", d |-> x[1]] ELSE NumOfLit(x[2])
RECURSIVE NewValue(_), NewPairs(_, _, _), NewList(_, _, _)
NewValue(v) ==
  CASE v.g = "nil" -> Ok(V("null", <<>>))
    [] v.g = "bool" -> Ok(V("bool", v.x))
    [] v.g \in IntKinds -> Ok(V("num", IntToNum(v.x)))
    [] v.g \in {"float32", "float64"} -> Ok(V("num", v.x))
    [] v.g = "jnum" -> IF IsNumLit(v.x) THEN Ok(V("num", NumOfLit(v.x))) ELSE Err
    [] v.g = "string" -> IF Utf8Valid(v.x) THEN Ok(V("str", v.x)) ELSE Err
    [] v.g = "bytes" -> Ok(V("str", B64Enc(v.x)))
    [] v.g = "map" -> LET r == NewPairs(v.x, 1, <<>>) IN IF r.ok THEN Ok(V("struct", r.r)) ELSE Err
    [] v.g = "slice" -> LET r == NewList(v.x, 1, <<>>) IN IF r.ok THEN Ok(V("list", r.r)) ELSE Err
    [] OTHER -> Err
NewPairs(ps, i, acc) ==
  IF i > Len(ps) THEN Ok(acc)
  ELSE IF ~Utf8Valid(ps[i][1]) THEN Err
  ELSE LET r == NewValue(ps[i][2]) IN IF r.ok THEN NewPairs(ps, i + 1, Append(acc, <<ps[i][1], r.r>>)) ELSE Err
NewList(xs, i, acc) ==
  IF i > Len(xs) THEN Ok(acc)
  ELSE LET r == NewValue(xs[i]) IN IF r.ok THEN NewList(xs, i + 1, Append(acc, r.r)) ELSE Err

\* ---------------------------------------------------------------- AsInterface
RECURSIVE AsInterface(_)
AsInterface(x) ==
  CASE x.k \in {"null", "unset"} -> G("nil", <<>>)
    [] x.k = "bool" -> G("bool", x.p)
    [] x.k = "num" -> (CASE x.p.c = "nan" -> G("string", sNaN) [] x.p.c = "inf" -> G("string", sInf)
                         [] x.p.c = "ninf" -> G("string", sNInf) [] OTHER -> G("float64", x.p))
    [] x.k = "str" -> G("string", x.p)
    [] x.k = "struct" -> G("map", [i \in 1..Len(x.p) |-> <<x.p[i][1], AsInterface(x.p[i][2])>>])
    [] x.k = "list" -> G("slice", [i \in 1..Len(x.p) |-> AsInterface(x.p[i])])

\* ---------------------------------------------------------------- the composition, directly on Go values
NumToGo(n) == CASE n.c = "nan" -> G("string", sNaN) [] n.c = "inf" -> G("string", sInf) [] n.c = "ninf" -> G("string", sNInf)
                [] OTHER -> G("float64", n)
RECURSIVE Conv(_), Convertible(_)
Convertible(v) ==
  CASE v.g = "jnum" -> IsNumLit(v.x)
    [] v.g = "string" -> Utf8Valid(v.x)
    [] v.g = "map" -> \A i \in 1..Len(v.x) : Utf8Valid(v.x[i][1]) /\ Convertible(v.x[i][2])
    [] v.g = "slice" -> \A i \in 1..Len(v.x) : Convertible(v.x[i])
    [] v.g = "bad" -> FALSE
    [] OTHER -> TRUE
Conv(v) ==
  CASE v.g \in IntKinds -> NumToGo(IntToNum(v.x))
    [] v.g \in {"float32", "float64"} -> NumToGo(v.x)
    [] v.g = "jnum" -> NumToGo(NumOfLit(v.x))
    [] v.g = "bytes" -> G("string", B64Enc(v.x))
    [] v.g = "map" -> G("map", [i \in 1..Len(v.x) |-> <<v.x[i][1], Conv(v.x[i][2])>>])
    [] v.g = "slice" -> G("slice", [i \in 1..Len(v.x) |-> Conv(v.x[i])])
    [] OTHER -> v                                          \* nil, bool, string
\* normal form = what AsInterface can return; NewValue ; AsInterface is the identity there
RECURSIVE Normal(_)
Normal(v) ==
  CASE v.g \in {"nil", "bool"} -> TRUE
    [] v.g = "float64" -> Finite(v.x)
    [] v.g = "string" -> Utf8Valid(v.x)
    [] v.g = "map" -> \A i \in 1..Len(v.x) : Utf8Valid(v.x[i][1]) /\ Normal(v.x[i][2])
    [] v.g = "slice" -> \A i \in 1..Len(v.x) : Normal(v.x[i])
    [] OTHER -> FALSE

\* ---------------------------------------------------------------- encoding/json of a normal-form Go value
RECURSIVE GoToJ(_)
GoToJ(v) ==
  CASE v.g = "nil" -> JNull
    [] v.g = "bool" -> J("bool", v.x)
    [] v.g = "float64" -> JNum(v.x.d)
    [] v.g = "string" -> JStr(v.x)
    [] v.g = "map" -> JObj(SortPairs([i \in 1..Len(v.x) |-> <<v.x[i][1], GoToJ(v.x[i][2])>>]))
    [] v.g = "slice" -> JArr([i \in 1..Len(v.x) |-> GoToJ(v.x[i])])

\* ---------------------------------------------------------------- Any
cSlash == 47
StdPrefix == <<116,121,112,101,46,103,111,111,103,108,101,97,112,105,115,46,99,111,109,47>>   \* "type.googleapis.com/"
\* the last position of c in s (0: none): the definition, and the right-to-left scan that is used (MC_StructVal checks that
\* they agree on every URL it explores)
LastIndexOfDef(s, c) == IF \E i \in 1..Len(s) : s[i] = c THEN CHOOSE i \in 1..Len(s) : s[i] = c /\ \A j \in (i + 1)..Len(s) : s[j] # c ELSE 0
RECURSIVE LastIndexFrom(_, _, _)
LastIndexFrom(s, c, i) == IF i = 0 THEN 0 ELSE IF s[i] = c THEN i ELSE LastIndexFrom(s, c, i - 1)
LastIndexOf(s, c) == LastIndexFrom(s, c, Len(s))
AfterLastSlash(url) == SubSeq(url, LastIndexOf(url, cSlash) + 1, Len(url))
HasSuffix(s, t) == Len(t) <= Len(s) /\ SubSeq(s, Len(s) - Len(t) + 1, Len(s)) = t
AnyUrlOf(name) == StdPrefix \o name
\* IsFullName (WktForms: a dot-separated list of identifiers) as one left-to-right pass from position i; start: an identifier
\* has to begin here.  MC_StructVal checks that the pass and the definition agree on every string it explores.
RECURSIVE FullNameFrom(_, _, _)
FullNameFrom(s, i, start) ==
  IF i > Len(s) THEN ~start
  ELSE IF start THEN IsIdentStart(s[i]) /\ FullNameFrom(s, i + 1, FALSE)
  ELSE IF s[i] = cDot THEN FullNameFrom(s, i + 1, TRUE)
  ELSE IsIdentChar(s[i]) /\ FullNameFrom(s, i + 1, FALSE)
IsFullNameScan(s) == FullNameFrom(s, 1, TRUE)
MessageNameDef(url) == LET n == AfterLastSlash(url) IN IF IsFullName(n) THEN n ELSE <<>>
MessageName(url) == LET k == LastIndexOf(url, cSlash) IN IF FullNameFrom(url, k + 1, TRUE) THEN SubSeq(url, k + 1, Len(url)) ELSE <<>>
MessageIs(url, name) == HasSuffix(url, name) /\ (Len(url) = Len(name) \/ url[Len(url) - Len(name)] = cSlash)
\* resolution of a URL against a set of registered full names: the text after the last '/' must be registered
Resolves(url, registered) == url # <<>> /\ AfterLastSlash(url) \in registered
=============================================================================
