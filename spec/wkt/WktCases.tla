------------------------------ MODULE WktCases ------------------------------
(***************************************************************************)
(* Expect(e): what the well-known-type JSON specifications demand of one   *)
(* protojson case.  Shared by the tours (MC_WktTime, MC_WktForms) and by    *)
(* trace validation (Trace_Wkt).                                           *)
(*                                                                         *)
(*   durparse / tsparse  {s}            parse the JSON string s            *)
(*   durfmt / tsfmt      {secs, nanos}  marshal the message                *)
(*   tojson {m} / fromjson {t, j}       the other forms (WktForms)         *)
(* Strings are character codes, integers decimal literals as character     *)
(* codes.  `same` = the message behaves identically as a field of a        *)
(* container message; `rt` = parsing the produced JSON gives the message   *)
(* back.                                                                   *)
(***************************************************************************)
EXTENDS WktForms

ParseExp(r) == IF r.ok THEN [ok |-> TRUE, secs |-> CharsOfZ(r.s), nanos |-> CharsOfZ(r.n), same |-> TRUE]
               ELSE [ok |-> FALSE, same |-> TRUE]
FmtExp(r) == IF r.ok THEN [ok |-> TRUE, str |-> r.str, rt |-> TRUE, same |-> TRUE] ELSE [ok |-> FALSE, same |-> TRUE]

TimeExpect(e) ==
  CASE e.op = "durparse" -> ParseExp(DurParse(e.s))
    [] e.op = "tsparse" -> ParseExp(TsParse(e.s))
    [] e.op = "durfmt" -> FmtExp(DurMarshal(ZOfChars(e.secs), ZOfChars(e.nanos)))
    [] e.op = "tsfmt" -> FmtExp(TsMarshal(ZOfChars(e.secs), ZOfChars(e.nanos)))

\* tojson {m}: marshal the abstract message; fromjson {t, j}: parse the abstract JSON document as type t
FormsExpect(e) ==
  CASE e.op = "tojson" ->
         LET r == ToJ(e.m) IN
         IF r.ok THEN [ok |-> TRUE, j |-> r.r, rt |-> FromJ(e.m.t, r.r) = Ok(e.m)] ELSE [ok |-> FALSE]
    [] e.op = "fromjson" ->
         LET r == FromJ(e.t, e.j) IN IF r.ok THEN [ok |-> TRUE, m |-> r.r] ELSE [ok |-> FALSE]

Expect(e) == IF e.op \in {"tojson", "fromjson"} THEN FormsExpect(e) ELSE TimeExpect(e)
=============================================================================
