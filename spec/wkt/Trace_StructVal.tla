-------------------------- MODULE Trace_StructVal --------------------------
(***************************************************************************)
(* Trace validation for C45: every recorded structpb / anypb event must    *)
(* agree with StructValCases!Expect on every key it defines.               *)
(***************************************************************************)
EXTENDS StructValCases, Json, IOUtils

Trace == ndJsonDeserialize(IOEnv.TRACE)

VARIABLES l, bad
Agree(e) == LET x == Expect(e) IN \A k \in DOMAIN x : k \in DOMAIN e.out /\ e.out[k] = x[k]
Init == l = 1 /\ bad = <<>>
Next == /\ l <= Len(Trace)
        /\ bad' = IF Agree(Trace[l]) THEN bad ELSE Append(bad, l)
        /\ l' = l + 1
        /\ TLCSet(1, <<l + 1, bad'>>)
Accepted == LET r == TLCGet(1) IN
            /\ PrintT("TRACE-RESULT " \o ToJson([done |-> r[1] - 1, total |-> Len(Trace), bad |-> r[2]]))
            /\ r[1] = Len(Trace) + 1
=============================================================================
