-------------------------- MODULE Trace_StructVal --------------------------
(***************************************************************************)
(* Trace validation for C45: every recorded structpb / anypb event must    *)
(* agree with StructValCases!Expect on every key it defines.               *)
(***************************************************************************)
EXTENDS StructValCases, Json, IOUtils

\* TLC orders and compares records field by field in the order in which the field names were first seen while parsing;
\* naming the discriminating fields here (root module, parsed first) makes every comparison decide on the tag before it
\* reaches a payload whose sort depends on the tag.
FieldOrder == [op |-> 0, g |-> 0, k |-> 0, t |-> 0, c |-> 0, ok |-> 0, x |-> 0, v |-> 0, p |-> 0, d |-> 0, r |-> 0, j |-> 0, m |-> 0]

Trace == ndJsonDeserialize(IOEnv.TRACE)

VARIABLES l, bad
Agree(e) == LET x == Expect(e) IN \A k \in DOMAIN x : k \in DOMAIN e.out /\ e.out[k] = x[k]
Init == l = 1 /\ bad = <<>>
Next == /\ l <= Len(Trace)
        /\ bad' = IF Agree(Trace[l]) THEN bad ELSE Append(bad, l)
        /\ l' = l + 1
        /\ TLCSet(1, <<l + 1, bad'>>)
Accepted == LET r == TLCGet(1) IN
            /\ PrintT("TRACE-RESULT " \o ToJson([done |-> r[1] - 1, total |-> Len(Trace), bad |-> r[2]]))
            /\ r[1] = Len(Trace) + 1
=============================================================================
