---------------------------- MODULE WktDuration ----------------------------
(***************************************************************************)
(* C23: the JSON form of google.protobuf.Duration, on strings (sequences   *)
(* of character codes) and exact integers (WktDec).                        *)
(*                                                                         *)
(*   grammar   [ "-" | "+" ] ( int [ "." frac09 ] | "." frac19 ) "s"       *)
(*             int = "0" | nonzero-digit digit*      (no leading zeros)    *)
(*             frac09 = 0..9 digits, frac19 = 1..9 digits                  *)
(*   value     seconds = int, nanos = frac right-padded to 9 digits, the   *)
(*             sign applies to both                                        *)
(*   range     |seconds| <= 315 576 000 000 (TimeConv!MaxDurSeconds)       *)
(*   output    sign, |seconds|, then 0, 3, 6 or 9 fractional digits (the   *)
(*             fewest of these that are exact), "s"; only for valid        *)
(*             durations (TimeConv!DurValid)                               *)
(*                                                                         *)
(* The grammar is given twice: by decomposition (DurSyntaxOk) and as a     *)
(* character automaton (DurAccepts); MC_WktDuration has TLC prove them     *)
(* equal on every enumerated string.                                       *)
(***************************************************************************)
EXTENDS TimeConv

cMinus == 45
cPlus == 43
cDot == 46
cS == 115

IsDigits(s) == \A i \in 1..Len(s) : IsDigitC(s[i])
\* position of the first c in s, 0 if none
IndexOf(s, c) == IF \E i \in 1..Len(s) : s[i] = c
                 THEN CHOOSE i \in 1..Len(s) : s[i] = c /\ \A j \in 1..(i - 1) : s[j] # c
                 ELSE 0
Zeros9(k) == [i \in 1..k |-> 0]

\* ---------------------------------------------------------------- grammar by decomposition
DurSplit(str) ==
  IF Len(str) < 2 \/ str[Len(str)] # cS THEN [ok |-> FALSE]
  ELSE LET b0 == SubSeq(str, 1, Len(str) - 1)
           signed == b0[1] \in {cMinus, cPlus}
           b == IF signed THEN Tail(b0) ELSE b0
           d == IndexOf(b, cDot)
       IN [ok |-> TRUE, neg |-> b0[1] = cMinus, dot |-> d # 0,
           ip |-> IF d = 0 THEN b ELSE SubSeq(b, 1, d - 1),
           fr |-> IF d = 0 THEN <<>> ELSE SubSeq(b, d + 1, Len(b))]
IntPartOk(ip) == ip = <<48>> \/ (ip # <<>> /\ ip[1] \in 49..57 /\ IsDigits(ip))
DurSyntaxOk(str) ==
  LET x == DurSplit(str) IN
  /\ x.ok
  /\ IsDigits(x.fr) /\ Len(x.fr) <= 9
  /\ (IntPartOk(x.ip) \/ (x.ip = <<>> /\ x.dot /\ Len(x.fr) >= 1))

\* value of a syntactically valid string
DurValue(str) ==
  LET x == DurSplit(str) IN
  [s |-> Z(x.neg, StripZ(DigitsOf(x.ip))), n |-> Z(x.neg, StripZ(DigitsOf(x.fr) \o Zeros9(9 - Len(x.fr))))]
\* parsing: [ok] or [ok, s, n]
DurParse(str) ==
  IF ~DurSyntaxOk(str) THEN [ok |-> FALSE]
  ELSE LET v == DurValue(str) IN
       IF ZLe(ZAbs(v.s), MaxDurSeconds) THEN [ok |-> TRUE, s |-> v.s, n |-> v.n] ELSE [ok |-> FALSE]

\* ---------------------------------------------------------------- grammar as an automaton
\* states: start, sign (after a sign), zero (integer part "0"), int, dot0 (leading '.', no digit yet),
\*         frac (k fractional digits read), done (after 's'), err
DurStep(st, c) ==
  LET to(q) == [q |-> q, k |-> 0] IN
  CASE st.q \in {"start", "sign"} ->
         IF st.q = "start" /\ c \in {cMinus, cPlus} THEN to("sign")
         ELSE IF c = 48 THEN to("zero")
         ELSE IF c \in 49..57 THEN to("int")
         ELSE IF c = cDot THEN to("dot0")
         ELSE to("err")
    [] st.q = "zero" -> IF c = cDot THEN to("frac") ELSE IF c = cS THEN to("done") ELSE to("err")
    [] st.q = "int" -> IF IsDigitC(c) THEN to("int") ELSE IF c = cDot THEN to("frac") ELSE IF c = cS THEN to("done") ELSE to("err")
    [] st.q = "dot0" -> IF IsDigitC(c) THEN [q |-> "frac", k |-> 1] ELSE to("err")
    [] st.q = "frac" -> IF IsDigitC(c) THEN (IF st.k < 9 THEN [q |-> "frac", k |-> st.k + 1] ELSE to("err"))
                        ELSE IF c = cS THEN to("done") ELSE to("err")
    [] OTHER -> to("err")
RECURSIVE DurRun(_, _, _)
DurRun(st, str, i) == IF i > Len(str) THEN st ELSE DurRun(DurStep(st, str[i]), str, i + 1)
DurAccepts(str) == DurRun([q |-> "start", k |-> 0], str, 1).q = "done"

\* ---------------------------------------------------------------- output
\* fractional part of |nanos| < 10^9: nothing, or '.' and 3, 6 or 9 digits
FracChars(nN) ==
  IF nN = <<>> THEN <<>>
  ELSE LET p == PadN(nN, 9)
           d == IF SubSeq(p, 4, 9) = Zeros9(6) THEN SubSeq(p, 1, 3)
                ELSE IF SubSeq(p, 7, 9) = Zeros9(3) THEN SubSeq(p, 1, 6) ELSE p
       IN <<cDot>> \o [i \in 1..Len(d) |-> d[i] + 48]
DurFormat(s, n) == (IF s.neg \/ n.neg THEN <<cMinus>> ELSE <<>>) \o CharsOfN(s.m) \o FracChars(n.m) \o <<cS>>
\* marshaling: [ok] or [ok, str]
DurMarshal(s, n) == IF DurValid(s, n) THEN [ok |-> TRUE, str |-> DurFormat(s, n)] ELSE [ok |-> FALSE]
=============================================================================
