----------------------------- MODULE TimeConv -----------------------------
(***************************************************************************)
(* C43: the Go helper methods of google.protobuf.Duration and Timestamp    *)
(* (durationpb.New / AsDuration / IsValid / CheckValid, timestamppb.New /  *)
(* AsTime / IsValid / CheckValid), specified by value on exact integers    *)
(* (module WktDec).                                                        *)
(*                                                                         *)
(*   time.Duration d  = an int64 count of nanoseconds                      *)
(*   Duration{s, n}   = int64 seconds, int32 nanos; denotes s*10^9 + n     *)
(*   time.Time        = (u, ns): int64 Unix seconds, 0 <= ns < 10^9        *)
(*   Timestamp{s, n}  = int64 seconds, int32 nanos; denotes the instant    *)
(*                      s + n/10^9 seconds after the Unix epoch            *)
(*                                                                         *)
(*   DurNew(d)        = (d quot 10^9, d rem 10^9)  (truncated division:    *)
(*                      both parts carry the sign of d)                    *)
(*   AsDur(s, n)      = Clamp_int64(s*10^9 + n)                            *)
(*   DurValid(s, n)   = |s| <= 10000 years (of 365.25 days), |n| < 10^9,   *)
(*                      s and n do not have opposite signs                 *)
(*   TsNew(u, ns)     = (u, ns);  AsTime(s, n) = (s + n div 10^9, n mod    *)
(*                      10^9) (floor division)                             *)
(*   TsValid(s, n)    = 0001-01-01T00:00:00Z <= s <= 9999-12-31T23:59:59Z  *)
(*                      and 0 <= n < 10^9                                  *)
(***************************************************************************)
EXTENDS WktDec, WktCivil, TLC

E9 == 9
Nano9 == Z(FALSE, <<9,9,9,9,9,9,9,9,9>>)                    \* 999 999 999
\* 10000 years * 365.25 days * 86400 s, computed rather than quoted (law BoundsAreDocumented)
SecondsPerYear == 31557600
MaxDurSeconds == ZMul(ZOf(SecondsPerYear), 10000)           \* 315 576 000 000
\* first and last second of the years 1 .. 9999 relative to the Unix epoch
MinTsSeconds == ZMul(ZOf(0 - UnixEpochDay), 86400)                                   \* -62 135 596 800
MaxTsSeconds == ZAdd(ZMul(ZOf(LastDay - UnixEpochDay), 86400), ZOf(86399))           \* 253 402 300 799

\* ---- Duration
DurNew(d) == [s |-> ZQuot10(d, E9), n |-> ZRem10(d, E9)]
DurExact(s, n) == ZAdd(ZShift10(s, E9), n)
AsDur(s, n) == Clamp64(DurExact(s, n))
DurValid(s, n) ==
  /\ ZLe(ZAbs(s), MaxDurSeconds)
  /\ ZLe(ZAbs(n), Nano9)
  /\ ~(ZSign(s) > 0 /\ ZSign(n) < 0)
  /\ ~(ZSign(s) < 0 /\ ZSign(n) > 0)

\* ---- Timestamp
TsValid(s, n) == ZLe(MinTsSeconds, s) /\ ZLe(s, MaxTsSeconds) /\ ~n.neg /\ ZLe(n, Nano9)
AsTimeU(s, n) == ZAdd(s, ZFloor10(n, E9))
AsTimeNs(s, n) == ZMod10(n, E9)

=============================================================================
