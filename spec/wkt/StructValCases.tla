--------------------------- MODULE StructValCases ---------------------------
(***************************************************************************)
(* Expect(e): what StructVal demands of one structpb / anypb case.         *)
(*                                                                         *)
(*  newvalue {v}        NewValue(v): ok; the Value built (val); what        *)
(*                      AsInterface returns (back); encoding/json of back  *)
(*                      (ej) and protojson of the Value (pjok, pj), both   *)
(*                      as abstract JSON - equal whenever protojson        *)
(*                      accepts the Value (all numbers finite)             *)
(*  anyurl {url, n, reg} MessageName, MessageIs / UnmarshalTo against a    *)
(*                      message named n, UnmarshalNew with the names reg   *)
(*                      registered                                         *)
(*  anyrt {type, seed}  anypb.New of a random message of a registered type *)
(*                      and back through UnmarshalTo / UnmarshalNew        *)
(*  anybox {T, tn, steps} one whole history of the AnyBox machine (an Any  *)
(*                      and a destination of the registered type number T, *)
(*                      named tn): the observation after every step        *)
(***************************************************************************)
EXTENDS AnyBox

Expect(e) ==
  CASE e.op = "newvalue" ->
         LET r == NewValue(e.v) IN
         IF ~r.ok THEN [ok |-> FALSE]
         ELSE LET back == AsInterface(r.r)  pj == ValToJ(r.r) IN
              [ok |-> TRUE, val |-> r.r, back |-> back, ej |-> GoToJ(back), pjok |-> pj.ok]
              @@ (IF pj.ok THEN [pj |-> pj.r] ELSE [ok |-> TRUE])
    [] e.op = "anyurl" ->
         LET is == MessageIs(e.url, e.n) IN
         [name |-> MessageName(e.url), is |-> is, to |-> is,
          new |-> Resolves(e.url, {e.reg[i] : i \in 1..Len(e.reg)})]
    [] e.op = "anyrt" ->
         LET url == AnyUrlOf(e.type) IN
         [url |-> url, name |-> MessageName(url), is |-> MessageIs(url, e.type), isother |-> MessageIs(url, e.other),
          to |-> TRUE, toother |-> FALSE, new |-> TRUE]
    [] e.op = "anybox" -> [tn |-> BoxTypes[e.T], obs |-> BoxRun(e.T, e.steps)]
=============================================================================
