-------------------------- MODULE MC_FieldMaskAlg --------------------------
(***************************************************************************)
(* C44 algebra, exhaustive: all masks a (up to MaxA paths), all pairs      *)
(* (a, b) (b up to MaxB paths) and triples (c up to MaxC) over the path    *)
(* universe U: nested prefixes (a, a.a, a.a.a), string prefixes that are   *)
(* not path prefixes (a / ab / a- / a_b), a byte below '.' ('-'), and      *)
(* duplicates.  One state per tuple of masks; TLC checks the laws of the   *)
(* property on the specification (idempotence, sortedness, prefix-freedom, *)
(* coverage equalities over the probe set, denotational = algorithmic) and *)
(* emits every mask / pair / triple with the specified result.             *)
(***************************************************************************)
EXTENDS FieldMaskCases

CONSTANTS Tier, MaxNorm, MaxA, MaxB, MaxC

\* the path universe, written with named characters:  a  b  -  _  .
ca == 97
cb == 98
cm == 45
cu == 95
UQuick == { <<ca>>, <<cb>>, <<ca, cb>>, <<ca, cm>>,                                   \* a  b  ab  a-
            <<ca, Dot, ca>>, <<ca, Dot, cb>>, <<ca, cm, cb>>,                         \* a.a  a.b  a-b
            <<ca, Dot, ca, Dot, cb>> }                                                \* a.a.b
UMore  == { <<ca, Dot, ca, Dot, ca>>, <<ca, cb, Dot, ca>>,                                    \* a.a.a  ab.a
            <<ca, Dot, cb, Dot, ca>>, <<cb, Dot, ca>>, <<ca, cm, Dot, ca>>, <<ca, cu, cb>>,   \* a.b.a  b.a  a-.a  a_b
            <<ca, Dot, ca, cm>>, <<ca, Dot, ca, cb>> }                                        \* a.a-  a.ab
U == IF Tier = "quick" THEN UQuick ELSE UQuick \cup UMore

\* probe paths for the coverage laws: the universe, its one-segment extensions and degenerate paths
Probe == U \cup {p \o <<Dot, 97>> : p \in U} \cup {p \o <<Dot, 45>> : p \in U}
           \cup {<<>>, <<Dot>>, <<97, Dot>>, <<97, Dot, Dot, 98>>, <<Dot, 97>>}

VARIABLES ma, mb, mc
Init == ma = <<>> /\ mb = <<>> /\ mc = <<>>
\* single masks up to MaxNorm paths; pairs (a, b) with |a| <= MaxA, |b| <= MaxB; triples with |a|, |b| <= 1, |c| <= MaxC.
\* a grows first, then b, then c, so every tuple of masks is reached along exactly one path.
Next == \/ (mb = <<>> /\ mc = <<>> /\ Len(ma) < MaxNorm /\ \E p \in U : ma' = Append(ma, p) /\ UNCHANGED <<mb, mc>>)
        \/ (mc = <<>> /\ Len(ma) <= MaxA /\ Len(mb) < MaxB /\ \E p \in U : mb' = Append(mb, p) /\ UNCHANGED <<ma, mc>>)
        \/ (mb # <<>> /\ Len(ma) <= 1 /\ Len(mb) <= 1 /\ Len(mc) < MaxC /\ \E p \in U : mc' = Append(mc, p) /\ UNCHANGED <<ma, mb>>)

Masks(x, y, z) == IF z = <<>> THEN <<x, y>> ELSE <<x, y, z>>

\* ---- laws
OrderLaws ==   \* checked once (initial state)
  \A x, y \in Probe :
     /\ LessPath(x, y) = LessPathSeg(x, y)
     /\ (x # y => LessPath(x, y) # LessPath(y, x)) /\ ~LessPath(x, x)
     /\ HasPathPrefix(x, y) = SegPrefix(y, x)
     /\ (HasPathPrefix(x, y) /\ x # y => LessPath(y, x))        \* a path sorts before its extensions
     /\ \A z \in U : (LessPath(x, y) /\ LessPath(y, z) => LessPath(x, z))
NormLaws ==
  LET n == Normalize(ma) IN
  /\ n = NormalizeAlg(ma)
  /\ Normalize(n) = n
  /\ Sorted(n) /\ PrefixFree(n)
  /\ Range(n) \subseteq Range(ma)
  /\ \A p \in Probe : Covers(n, p) = Covers(ma, p)
PairLaws ==
  mb = <<>> \/
  LET ms == Masks(ma, mb, mc)  u == Union(ms)  i == Intersect(ms) IN
  /\ u = NormalizeAlg(Concat(ms))
  /\ i = IntersectAlg(ms)
  /\ Sorted(u) /\ PrefixFree(u) /\ Sorted(i) /\ PrefixFree(i)
  /\ \A p \in Probe : Covers(u, p) = (\E k \in 1..Len(ms) : Covers(ms[k], p))
  /\ \A p \in Probe : Covers(i, p) = (\A k \in 1..Len(ms) : Covers(ms[k], p))
  /\ Union(<<i, u>>) = u /\ Intersect(<<i, u>>) = i                       \* absorption
  /\ Union(<<mb, ma>>) = Union(<<ma, mb>>) /\ Intersect(<<mb, ma>>) = Intersect(<<ma, mb>>)
Laws == (ma # <<>> \/ OrderLaws) /\ NormLaws /\ PairLaws

Emit ==
  IF mb' = <<>> THEN PrintT("@@" \o ToJson([op |-> "norm", paths |-> ma', exp |-> Expect([op |-> "norm", paths |-> ma'])]))
  ELSE LET ms == Masks(ma', mb', mc') IN
       /\ PrintT("@@" \o ToJson([op |-> "union", m |-> ms, exp |-> Expect([op |-> "union", m |-> ms])]))
       /\ PrintT("@@" \o ToJson([op |-> "intersect", m |-> ms, exp |-> Expect([op |-> "intersect", m |-> ms])]))
=============================================================================
