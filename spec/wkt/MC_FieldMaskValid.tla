------------------------- MODULE MC_FieldMaskValid -------------------------
(***************************************************************************)
(* C44 validity, exhaustive: every path of up to MaxDepth segments over    *)
(* the segment alphabet SegAlphabet (names of scalar, singular message,    *)
(* repeated, map, group, delimited and oneof-member fields of the corpus   *)
(* types, group names in both spellings, a missing name and the empty      *)
(* segment), from every root message type.  One state per (root, path).    *)
(* TLC checks that the denotational validity (exists a chain of fields)    *)
(* equals the left-to-right walk, that validity is prefix-closed exactly   *)
(* through singular message fields, and emits each path alone and in the   *)
(* middle of a list (Append stops at the first invalid path).              *)
(***************************************************************************)
EXTENDS FieldMaskCases

CONSTANTS MaxDepth

\* the run configuration travels in the schema file: root type names, the segment alphabet (character codes)
\* and, per root, one path that is valid for it
Conf == JsonDeserialize(IOEnv.WKT_SCHEMA)
Roots == {Conf.roots[i] : i \in 1..Len(Conf.roots)}
SegAlphabet == {Conf.segs[i] : i \in 1..Len(Conf.segs)}
Good(r) == Conf.good[CHOOSE i \in 1..Len(Conf.roots) : Conf.roots[i] = r]

RECURSIVE JoinFrom(_, _)
JoinFrom(segs, i) == IF i > Len(segs) THEN <<>>
                     ELSE (IF i > 1 THEN <<Dot>> ELSE <<>>) \o segs[i] \o JoinFrom(segs, i + 1)
Join(segs) == JoinFrom(segs, 1)

VARIABLES root, segs
Init == root \in Roots /\ segs = <<>>
Next == Len(segs) < MaxDepth /\ \E s \in SegAlphabet : segs' = Append(segs, s) /\ root' = root

\* the field a valid path ends in
RECURSIVE EndField(_, _, _)
EndField(cur, sg, i) == LET f == Table[cur][sg[i]] IN IF i = Len(sg) THEN f ELSE EndField(f.mfull, sg, i + 1)
Laws ==
  segs = <<>> \/
  LET p == Join(segs)  v == ValidPath(Table, root, p) IN
  /\ v = ValidPathAlg(Table, root, p)
  /\ Segs(p) = segs
  /\ (Len(segs) = 1 => v = Names(Table, root, segs[1]))
  /\ (Len(segs) > 1 =>
        LET parent == SubSeq(segs, 1, Len(segs) - 1) IN
        v = ( /\ ValidPath(Table, root, Join(parent))
              /\ LET f == EndField(root, parent, 1) IN Singular(f) /\ Names(Table, f.mfull, segs[Len(segs)]) ))
\* the table is faithful to the schema: every field is named by exactly one segment (checked once)
TableLaws ==
  segs # <<>> \/
  \A i \in 1..Len(Schema) : LET fs == Schema[i].fields IN
     /\ \A k \in 1..Len(fs) : Table[Schema[i].full][SegName(fs[k])] = fs[k]
     /\ \A k, j \in 1..Len(fs) : k # j => SegName(fs[k]) # SegName(fs[j])
     /\ \A k \in 1..Len(fs) : SplitTerm(JoinTerm(<<fs[k].name, <<>>, fs[k].mname>>)) = <<fs[k].name, <<>>, fs[k].mname>>
GoodIsValid == \A r \in Roots : ValidPath(Table, r, Good(r))

Emit ==
  LET p == Join(segs')
      c1 == [op |-> "valid", msg |-> root', paths |-> JoinTerm(<<p>>)]
      c2 == [op |-> "valid", msg |-> root', paths |-> JoinTerm(<<Good(root'), p, Good(root')>>)]
  IN /\ PrintT("@@" \o ToJson(c1 @@ [exp |-> Expect(c1)]))
     /\ PrintT("@@" \o ToJson(c2 @@ [exp |-> Expect(c2)]))
=============================================================================
