------------------------------ MODULE WktEdits ------------------------------
(***************************************************************************)
(* Edit-distance-1 neighbourhoods of strings (sequences of character       *)
(* codes): the seed itself, every single-character insertion, replacement  *)
(* and deletion over an alphabet.  Used to aim the bounded enumeration of  *)
(* the Duration / Timestamp grammars at the boundary of the language.      *)
(***************************************************************************)
EXTENDS Integers, Sequences

InsertAt(s, i, c) == SubSeq(s, 1, i - 1) \o <<c>> \o SubSeq(s, i, Len(s))
ReplaceAt(s, i, c) == [s EXCEPT ![i] = c]
DeleteAt(s, i) == SubSeq(s, 1, i - 1) \o SubSeq(s, i + 1, Len(s))
Neighbours(s, A) ==
  {s} \cup {InsertAt(s, i, c) : i \in 1..(Len(s) + 1), c \in A}
      \cup {ReplaceAt(s, i, c) : i \in 1..Len(s), c \in A}
      \cup {DeleteAt(s, i) : i \in 1..Len(s)}
=============================================================================
