--------------------------- MODULE WktTimestamp ---------------------------
(***************************************************************************)
(* C23: the JSON form of google.protobuf.Timestamp: RFC 3339 date-time     *)
(* strings with at most 9 fractional digits, denoting an instant within    *)
(* the years 0001 .. 9999 (UTC).                                           *)
(*                                                                         *)
(*   grammar   YYYY "-" MM "-" DD "T" hh ":" mm ":" ss [ "." 1..9 digits ] *)
(*             ( "Z" | ("+" | "-") hh ":" mm )                             *)
(*             MM 01..12, DD 01..days of that month (leap years), hh 00..  *)
(*             23, mm 00..59, ss 00..59, offset hh 00..23, offset mm 00..59*)
(*             (upper-case "T" and "Z" only; the leap second ":60" that    *)
(*             RFC 3339 admits syntactically has no Timestamp value and is *)
(*             rejected, as protobuf-go does)                              *)
(*   value     seconds = (civil date-time - offset) since 1970-01-01Z,     *)
(*             nanos = fraction right-padded to 9 digits                   *)
(*   range     0001-01-01T00:00:00Z <= instant <= 9999-12-31T23:59:59.9..Z *)
(*   output    UTC, "Z", 0/3/6/9 fractional digits; only for valid         *)
(*             timestamps (TimeConv!TsValid)                               *)
(*                                                                         *)
(* The grammar is given twice: positional decomposition (TsSyntaxOk) and a *)
(* streaming automaton with registers (TsAccepts).                         *)
(***************************************************************************)
EXTENDS WktDuration

cColon == 58
cT == 84
cZ == 90

D(c) == c - 48
Num2At(s, i) == D(s[i]) * 10 + D(s[i + 1])
DigitsAt(s, lo, hi) == \A i \in lo..hi : IsDigitC(s[i])
\* number of consecutive digits of s starting at position i
RECURSIVE DigitRun(_, _)
DigitRun(s, i) == IF i <= Len(s) /\ IsDigitC(s[i]) THEN 1 + DigitRun(s, i + 1) ELSE 0

\* ---------------------------------------------------------------- grammar by decomposition
ZoneOk(z) == \/ z = <<cZ>>
             \/ ( /\ Len(z) = 6 /\ z[1] \in {cPlus, cMinus} /\ DigitsAt(z, 2, 3) /\ z[4] = cColon /\ DigitsAt(z, 5, 6)
                  /\ Num2At(z, 2) <= 23 /\ Num2At(z, 5) <= 59 )
\* offset in seconds east of UTC
ZoneOffset(z) == IF z = <<cZ>> THEN 0
                 ELSE (IF z[1] = cMinus THEN -1 ELSE 1) * (Num2At(z, 2) * 3600 + Num2At(z, 5) * 60)
TsSplit(str) ==
  IF Len(str) < 20 THEN [ok |-> FALSE]
  ELSE LET rest == SubSeq(str, 20, Len(str))
           k == IF rest[1] = cDot THEN DigitRun(rest, 2) ELSE 0
       IN [ok |-> TRUE, dot |-> rest[1] = cDot,
           fr |-> IF rest[1] = cDot THEN SubSeq(rest, 2, 1 + k) ELSE <<>>,
           zone |-> IF rest[1] = cDot THEN SubSeq(rest, 2 + k, Len(rest)) ELSE rest]
TsSyntaxOk(str) ==
  LET x == TsSplit(str) IN
  /\ x.ok
  /\ DigitsAt(str, 1, 4) /\ str[5] = cMinus /\ DigitsAt(str, 6, 7) /\ str[8] = cMinus /\ DigitsAt(str, 9, 10)
  /\ str[11] = cT
  /\ DigitsAt(str, 12, 13) /\ str[14] = cColon /\ DigitsAt(str, 15, 16) /\ str[17] = cColon /\ DigitsAt(str, 18, 19)
  /\ LET y == Num2At(str, 1) * 100 + Num2At(str, 3) IN ValidDate(y, Num2At(str, 6), Num2At(str, 9))
  /\ Num2At(str, 12) <= 23 /\ Num2At(str, 15) <= 59 /\ Num2At(str, 18) <= 59
  /\ (x.dot => (Len(x.fr) >= 1 /\ Len(x.fr) <= 9))
  /\ ZoneOk(x.zone)

\* seconds since the Unix epoch of a syntactically valid string (exact integer), and its nanos
TsSeconds(str) ==
  LET x == TsSplit(str)
      y == Num2At(str, 1) * 100 + Num2At(str, 3)
      days == DaysFromCivil(y, Num2At(str, 6), Num2At(str, 9)) - UnixEpochDay
      sod == Num2At(str, 12) * 3600 + Num2At(str, 15) * 60 + Num2At(str, 18)
  IN ZAdd(ZMul(ZOf(days), 86400), ZOf(sod - ZoneOffset(x.zone)))
TsNanos(str) == LET x == TsSplit(str) IN Z(FALSE, StripZ(DigitsOf(x.fr) \o Zeros9(9 - Len(x.fr))))
TsParse(str) ==
  IF ~TsSyntaxOk(str) THEN [ok |-> FALSE]
  ELSE LET s == TsSeconds(str) IN
       IF ZLe(MinTsSeconds, s) /\ ZLe(s, MaxTsSeconds) THEN [ok |-> TRUE, s |-> s, n |-> TsNanos(str)] ELSE [ok |-> FALSE]

\* ---------------------------------------------------------------- grammar as a streaming automaton
\* ph: "dt" (the 19 fixed positions; pos = characters read), "sec" (after ss), "frac" (k digits read),
\*     "zone" (pos = characters of the numeric offset read, after the sign), "done", "err"
TsInit == [ph |-> "dt", pos |-> 0, k |-> 0, y |-> 0, mo |-> 0, a |-> 0]
TsStep(st, c) ==
  LET err == [st EXCEPT !.ph = "err"]
      dig == IsDigitC(c)
  IN
  CASE st.ph = "dt" ->
         LET p == st.pos + 1                      \* position of c
             nx == [st EXCEPT !.pos = p]
         IN
         IF p \in {1, 2, 3, 4} THEN (IF dig THEN [nx EXCEPT !.y = st.y * 10 + D(c)] ELSE err)
         ELSE IF p \in {5, 8} THEN (IF c = cMinus THEN [nx EXCEPT !.a = 0] ELSE err)
         ELSE IF p = 11 THEN (IF c = cT THEN [nx EXCEPT !.a = 0] ELSE err)
         ELSE IF p \in {14, 17} THEN (IF c = cColon THEN [nx EXCEPT !.a = 0] ELSE err)
         ELSE IF ~dig THEN err
         ELSE LET v == st.a * 10 + D(c) IN             \* two-digit fields accumulate in a
              IF p \in {6, 9, 12, 15, 18} THEN [nx EXCEPT !.a = v]
              ELSE IF p = 7 THEN (IF v \in 1..12 THEN [nx EXCEPT !.mo = v] ELSE err)
              ELSE IF p = 10 THEN (IF v >= 1 /\ v <= DaysInMonth(st.y, st.mo) THEN nx ELSE err)
              ELSE IF p = 13 THEN (IF v <= 23 THEN nx ELSE err)
              ELSE IF p = 16 THEN (IF v <= 59 THEN nx ELSE err)
              ELSE (IF v <= 59 THEN [nx EXCEPT !.ph = "sec"] ELSE err)          \* p = 19
    [] st.ph = "sec" ->
         IF c = cDot THEN [st EXCEPT !.ph = "frac", !.k = 0]
         ELSE IF c = cZ THEN [st EXCEPT !.ph = "done"]
         ELSE IF c \in {cPlus, cMinus} THEN [st EXCEPT !.ph = "zone", !.pos = 0, !.a = 0]
         ELSE err
    [] st.ph = "frac" ->
         IF dig THEN (IF st.k < 9 THEN [st EXCEPT !.k = st.k + 1] ELSE err)
         ELSE IF st.k = 0 THEN err
         ELSE IF c = cZ THEN [st EXCEPT !.ph = "done"]
         ELSE IF c \in {cPlus, cMinus} THEN [st EXCEPT !.ph = "zone", !.pos = 0, !.a = 0]
         ELSE err
    [] st.ph = "zone" ->
         LET p == st.pos + 1  nx == [st EXCEPT !.pos = p] IN
         IF p = 3 THEN (IF c = cColon THEN [nx EXCEPT !.a = 0] ELSE err)
         ELSE IF ~dig THEN err
         ELSE LET v == st.a * 10 + D(c) IN
              IF p \in {1, 4} THEN [nx EXCEPT !.a = v]
              ELSE IF p = 2 THEN (IF v <= 23 THEN nx ELSE err)
              ELSE (IF v <= 59 THEN [nx EXCEPT !.ph = "done"] ELSE err)         \* p = 5
    [] OTHER -> err
RECURSIVE TsRun(_, _, _)
TsRun(st, str, i) == IF i > Len(str) THEN st ELSE TsRun(TsStep(st, str[i]), str, i + 1)
TsAccepts(str) == TsRun(TsInit, str, 1).ph = "done"

\* ---------------------------------------------------------------- output
Two(n) == <<(n \div 10) + 48, (n % 10) + 48>>
Four(n) == Two(n \div 100) \o Two(n % 100)
TsFormat(s, n) ==
  LET t == DivModN(ZSub(s, MinTsSeconds).m, 86400)      \* day number since 0001-01-01 and second of the day
      c == CivilFromDays(IntOfN(t.q))
  IN Four(c.y) \o <<cMinus>> \o Two(c.m) \o <<cMinus>> \o Two(c.d) \o <<cT>>
     \o Two(t.r \div 3600) \o <<cColon>> \o Two((t.r % 3600) \div 60) \o <<cColon>> \o Two(t.r % 60)
     \o FracChars(n.m) \o <<cZ>>
TsMarshal(s, n) == IF TsValid(s, n) THEN [ok |-> TRUE, str |-> TsFormat(s, n)] ELSE [ok |-> FALSE]
=============================================================================
