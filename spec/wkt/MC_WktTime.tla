----------------------------- MODULE MC_WktTime -----------------------------
(***************************************************************************)
(* C23, Duration and Timestamp, exhaustive:                                *)
(*  dur    every string up to DurLen over the Duration alphabet            *)
(*         { - + . 0 1 9 s space }, plus the edit-distance-1 neighbourhood *)
(*         of long boundary literals (range limits, 9/10 fraction digits,  *)
(*         int64 overflow);                                                *)
(*  ts     the edit-distance-1 neighbourhood (insert / replace / delete    *)
(*         over digits and - + . , : T t Z z s space) of RFC 3339 seeds:   *)
(*         range limits, leap days, every fraction length 0..10, offsets;  *)
(*  fmt    corner (seconds, nanos) pairs for marshaling.                   *)
(* One state per string / pair.  TLC checks on every state that the two    *)
(* formulations of each grammar agree, that accepted strings denote valid  *)
(* messages whose canonical output parses back to the same value, and that *)
(* marshaling succeeds exactly on valid messages; every state is emitted   *)
(* as a tour line with the specification's verdict and value.              *)
(***************************************************************************)
EXTENDS WktCases, WktEdits, Json

\* TLC orders and compares records field by field in the order in which the field names were first seen while parsing;
\* naming the discriminating fields here (root module, parsed first) makes every comparison decide on the tag before it
\* reaches a payload whose sort depends on the tag.
FieldOrder == [op |-> 0, g |-> 0, k |-> 0, t |-> 0, c |-> 0, ok |-> 0, x |-> 0, v |-> 0, p |-> 0, d |-> 0, r |-> 0, j |-> 0, m |-> 0]

CONSTANTS Tier, DurLen

\* ---- strings are written with TLC strings where possible: c("...") is not available, so seeds are built from parts
Ch(n) == n + 48
Digs(ds) == [i \in 1..Len(ds) |-> ds[i] + 48]

DurAlphabet == {cMinus, cPlus, cDot, 48, 49, 57, cS, 32}
EditAlphabet == {48, 49, 50, 51, 53, 54, 57, cMinus, cPlus, cDot, 44, cColon, cT, 116, cZ, 122, cS, 32}
EditAlphabetQuick == {48, 49, 51, 54, 57, cMinus, cPlus, cDot, 44, cColon, cT, 116, cZ, 122, 32}
EditA == IF Tier = "quick" THEN EditAlphabetQuick ELSE EditAlphabet

MaxDurChars == CharsOfN(MaxDurSeconds.m)                                    \* "315576000000"
OverDurChars == CharsOfN(AddN(MaxDurSeconds.m, <<1>>))                      \* "315576000001"
DurSeedsQuick == { MaxDurChars \o <<cS>>,
                   <<cMinus>> \o MaxDurChars \o <<cDot>> \o Digs(<<9,9,9,9,9,9,9,9,9>>) \o <<cS>>,
                   <<48, cDot>> \o Digs(<<1,2,3,4,5,6,7,8,9,0>>) \o <<cS>> }  \* 10 fraction digits
DurSeedsMore == { OverDurChars \o <<cS>>,
                  <<cPlus>> \o Digs(<<1,0>>) \o <<cDot>> \o Digs(<<0,0,0,0,0,0,0,0,1>>) \o <<cS>>,
                  Digs(<<9,2,2,3,3,7,2,0,3,6,8,5,4,7,7,5,8,0,7>>) \o <<cS>>,
                  Digs(<<9,2,2,3,3,7,2,0,3,6,8,5,4,7,7,5,8,0,8>>) \o <<cS>>,
                  <<cMinus, cDot>> \o Digs(<<5,0,0>>) \o <<cS>> }
DurSeeds == IF Tier = "quick" THEN DurSeedsQuick ELSE DurSeedsQuick \cup DurSeedsMore
DurLong == UNION {Neighbours(x, EditA) : x \in DurSeeds}

\* Timestamp seeds: date, time, fraction, zone
Ts(y, mo, d, h, mi, sec, fr, zone) ==
  Four(y) \o <<cMinus>> \o Two(mo) \o <<cMinus>> \o Two(d) \o <<cT>> \o Two(h) \o <<cColon>> \o Two(mi) \o <<cColon>> \o Two(sec)
  \o (IF fr = <<>> THEN <<>> ELSE <<cDot>> \o Digs(fr)) \o zone
Zulu == <<cZ>>
Off(sign, h, mi) == <<sign>> \o Two(h) \o <<cColon>> \o Two(mi)
TsSeedsQuick ==
  { Ts(1, 1, 1, 0, 0, 0, <<>>, Zulu),                                       \* lower range limit
    Ts(9999, 12, 31, 23, 59, 59, <<9,9,9,9,9,9,9,9,9>>, Zulu),              \* upper range limit, 9 digits
    Ts(2024, 2, 29, 12, 30, 45, <<1,2,3>>, Off(cPlus, 23, 59)),             \* leap day, offset limit
    Ts(1970, 1, 1, 0, 0, 0, <<1,2,3,4,5,6,7,8,9,0>>, Zulu),                 \* 10 digits
    Ts(1, 1, 1, 0, 30, 0, <<>>, Off(cPlus, 1, 0)) }                         \* before the range through the offset
TsSeedsMore ==
  { Ts(9999, 12, 31, 23, 59, 59, <<>>, Off(cMinus, 0, 1)),                  \* after the range through the offset
    Ts(0, 12, 31, 23, 30, 0, <<5>>, Off(cMinus, 1, 0)),                     \* year 0000 pulled into range
    Ts(1900, 2, 28, 23, 59, 59, <<0,0,0,0,0,1>>, Off(cMinus, 0, 0)),        \* non-leap century, -00:00
    Ts(2000, 2, 29, 0, 0, 0, <<>>, Zulu), Ts(2023, 4, 30, 9, 9, 9, <<9>>, Off(cPlus, 5, 30)),
    Ts(2023, 12, 31, 23, 59, 59, <<9,9,9,9,9,9>>, Zulu), Ts(1969, 12, 31, 23, 59, 59, <<5,0,0>>, Zulu) }
   \cup { Ts(2006, 1, 2, 15, 4, 5, [i \in 1..n |-> i % 10], Zulu) : n \in 1..10 }       \* every fraction length
TsSeeds == IF Tier = "quick" THEN TsSeedsQuick ELSE TsSeedsQuick \cup TsSeedsMore
TsStrings == UNION {Neighbours(x, EditA) : x \in TsSeeds}

\* (seconds, nanos) pairs for marshaling
P(digits) == Z(FALSE, digits)
Around(z) == {ZSub(z, ZOf(1)), z, ZAdd(z, ZOf(1))}
PlusMinus(S) == S \cup {ZNeg(z) : z \in S}
FmtSecs == PlusMinus(UNION {Around(z) : z \in {ZZero, MaxDurSeconds, ZNeg(MinTsSeconds), MaxTsSeconds, P(<<8,6,4,0,0>>), P(<<9,5,1,8,2,7,9,6,8>>)}})
           \cup (IF Tier = "quick" THEN {} ELSE PlusMinus({MaxInt64, P(<<1,0,0,0,0,0,0,0,0,0>>), P(<<6,8,2,5,6,0,4,9,6,0,0>>), P(<<5,9>>), P(<<3,6,0,0>>)}))
FmtNanos == PlusMinus({ZZero, ZOf(1), P(<<1,0,0,0>>), P(<<1,0,0,0,0,0,0>>), P(<<1,2,0,0,0,0,0,0,0>>), P(<<1,2,3,4,5,6,0,0,0>>), Nano9,
                       P(<<1,0,0,0,0,0,0,0,0,0>>)})
            \cup (IF Tier = "quick" THEN {} ELSE PlusMinus({MaxInt32, P(<<9,9,9,9,9,9,0,0,0>>), P(<<9,9,9,0,0,0,0,0,0>>), P(<<1,0,0,0,0,0,0,0,0>>), P(<<1,0,1>>)}))

VARIABLES kind, str, pair
Init == kind = "init" /\ str = <<>> /\ pair = <<>>
Next ==
  \/ (kind \in {"init", "dur"} /\ Len(str) < DurLen /\ \E c \in DurAlphabet : str' = Append(str, c) /\ kind' = "dur" /\ pair' = pair)
  \/ (kind = "init" /\ \E x \in DurLong : str' = x /\ kind' = "durlong" /\ pair' = pair)
  \/ (kind = "init" /\ \E x \in TsStrings : str' = x /\ kind' = "ts" /\ pair' = pair)
  \/ (kind = "init" /\ \E s \in FmtSecs, n \in FmtNanos, k \in {"durfmt", "tsfmt"} : pair' = <<s, n>> /\ kind' = k /\ str' = str)

\* ---- laws
DurLaws ==
  /\ DurAccepts(str) = DurSyntaxOk(str)                                     \* automaton = decomposition
  /\ LET r == DurParse(str) IN
     r.ok => /\ DurValid(r.s, r.n)
             /\ DurAccepts(DurFormat(r.s, r.n))
             /\ DurParse(DurFormat(r.s, r.n)) = r                           \* canonical output denotes the same value
  /\ (str # <<>> /\ str[1] \notin {cMinus, cPlus} =>                         \* sign symmetry
        LET r == DurParse(str)  m == DurParse(<<cMinus>> \o str)  p == DurParse(<<cPlus>> \o str) IN
        m.ok = r.ok /\ p = r /\ (r.ok => (m.s = ZNeg(r.s) /\ m.n = ZNeg(r.n))))
TsLaws ==
  /\ TsAccepts(str) = TsSyntaxOk(str)
  /\ LET r == TsParse(str) IN
     r.ok => /\ TsValid(r.s, r.n)
             /\ TsAccepts(TsFormat(r.s, r.n))
             /\ TsParse(TsFormat(r.s, r.n)) = r
FmtLaws ==
  LET s == pair[1]  n == pair[2] IN
  IF kind = "durfmt"
  THEN LET m == DurMarshal(s, n) IN
       /\ m.ok = DurValid(s, n)
       /\ (m.ok => /\ DurAccepts(m.str) /\ DurParse(m.str) = [ok |-> TRUE, s |-> s, n |-> n]
                   /\ LET x == DurSplit(m.str) IN Len(x.fr) \in {0, 3, 6, 9} /\ x.dot = (Len(x.fr) > 0))
  ELSE LET m == TsMarshal(s, n) IN
       /\ m.ok = TsValid(s, n)
       /\ (m.ok => /\ TsAccepts(m.str) /\ TsParse(m.str) = [ok |-> TRUE, s |-> s, n |-> n]
                   /\ LET x == TsSplit(m.str) IN Len(x.fr) \in {0, 3, 6, 9} /\ x.zone = <<cZ>>)
Laws == CASE kind \in {"dur", "durlong"} -> DurLaws
          [] kind = "ts" -> TsLaws
          [] kind \in {"durfmt", "tsfmt"} -> FmtLaws
          [] OTHER -> TRUE

Case(k, s, p) ==
  CASE k \in {"dur", "durlong"} -> [op |-> "durparse", s |-> s]
    [] k = "ts" -> [op |-> "tsparse", s |-> s]
    [] OTHER -> [op |-> k, secs |-> CharsOfZ(p[1]), nanos |-> CharsOfZ(p[2])]
Emit == LET c == Case(kind', str', pair') IN PrintT("@@" \o ToJson(c @@ [exp |-> Expect(c)]))
=============================================================================
