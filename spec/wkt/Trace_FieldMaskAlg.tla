------------------------ MODULE Trace_FieldMaskAlg ------------------------
(***************************************************************************)
(* Trace validation for C44: every recorded fieldmaskpb event (random path *)
(* lists over corpus field names, their prefixes/extensions/mutations)     *)
(* must agree with FieldMaskCases!Expect on every key it defines.          *)
(***************************************************************************)
EXTENDS FieldMaskCases

Trace == ndJsonDeserialize(IOEnv.TRACE)

VARIABLES l, bad
Agree(e) == LET x == Expect(e) IN \A k \in DOMAIN x : k \in DOMAIN e.out /\ e.out[k] = x[k]
Init == l = 1 /\ bad = <<>>
Next == /\ l <= Len(Trace)
        /\ bad' = IF Agree(Trace[l]) THEN bad ELSE Append(bad, l)
        /\ l' = l + 1
        /\ TLCSet(1, <<l + 1, bad'>>)
Accepted == LET r == TLCGet(1) IN
            /\ PrintT("TRACE-RESULT " \o ToJson([done |-> r[1] - 1, total |-> Len(Trace), bad |-> r[2]]))
            /\ r[1] = Len(Trace) + 1
=============================================================================
