------------------------------- MODULE AnyBox -------------------------------
(***************************************************************************)
(* C45, the Any half as a state machine: one google.protobuf.Any `a` and   *)
(* one destination message `dst` of a fixed registered type T, driven by   *)
(* the anypb API.                                                          *)
(*                                                                         *)
(* Messages are abstract (BoxContent): per message type the harness names  *)
(* four independent slots - s: one singular scalar field (0 = not          *)
(* populated, 1, 2 = two distinct non-zero values), r: one repeated scalar *)
(* field (a sequence over {1, 2}), q: the required fields (0 = none set,   *)
(* 1 = all set, recursively), u: the number of unknown-field records.      *)
(* Which slots a type has is a descriptor fact exported by the harness     *)
(* (BoxFacts, file named by WKT_TYPES).  x counts populated fields outside *)
(* the slots and is always 0.                                              *)
(*                                                                         *)
(* The wire image of a message is a sequence of records (slot, value);     *)
(* BoxMarshal writes the populated slots, BoxDecode merges records into a  *)
(* message one by one (a singular record replaces, a repeated or unknown   *)
(* record appends), and BoxUnmarshal is proto.UnmarshalOptions.Unmarshal:  *)
(*   reset the destination unless Merge; merge every record; report an     *)
(*   error when a required field is missing unless AllowPartial.           *)
(* An empty message has the empty wire image, so unmarshaling it must      *)
(* leave an empty destination whatever the destination held before.        *)
(*                                                                         *)
(* Machine state: url, name and is (MessageName(url), MessageIs(url, T),   *)
(* kept with the URL), w (payload), pt/pc (ghosts: the type index and the  *)
(* content that produced the payload), dst.  Steps [a, t, c, o, u]:        *)
(*   fill  dst := a fresh message with content c                           *)
(*   new   anypb.New(src) resp. MarshalFrom(a, src, {AllowPartial}) with   *)
(*         src of type t and content c; fails (a unchanged) when required  *)
(*         fields are missing and AllowPartial is off                      *)
(*   url   a.TypeUrl := u                                                  *)
(*   to    UnmarshalTo(a, dst, {Merge, AllowPartial}): type mismatch       *)
(*         (MessageIs false) => error, dst untouched; else BoxUnmarshal    *)
(*   unew  UnmarshalNew(a, {Merge, AllowPartial}): the name after the last *)
(*         '/' must be registered; BoxUnmarshal into a new message of it   *)
(* After every step the whole visible state is observed (BoxObs): the      *)
(* verdict of the step, TypeUrl, MessageName, whether the payload is       *)
(* empty, MessageIs(dst), the content of dst, and for unew the type and    *)
(* content of the returned message.                                        *)
(***************************************************************************)
EXTENDS StructVal, Json, IOUtils

BoxTable == JsonDeserialize(IOEnv.WKT_TYPES)
BoxTypes == BoxTable.types                   \* registered full names (character codes), ascending
BoxFacts == BoxTable.facts                   \* [s, r, q : BOOLEAN] per type: which slots the type has
BoxNames == {BoxTypes[i] : i \in 1..Len(BoxTypes)}

\* ---------------------------------------------------------------- abstract messages and their wire image
BoxC(s, r, q, u) == [s |-> s, r |-> r, q |-> q, u |-> u, x |-> 0]
BoxEmpty == BoxC(0, <<>>, 0, 0)
BoxFits(c, f) == (c.s # 0 => f.s) /\ (Len(c.r) # 0 => f.r) /\ (c.q # 0 => f.q)
BoxInitialized(c, f) == f.q => c.q = 1
BoxRec(slot, v) == [f |-> slot, v |-> v]
BoxMarshal(c) ==
  (IF c.q = 1 THEN <<BoxRec("q", 1)>> ELSE <<>>) \o (IF c.s # 0 THEN <<BoxRec("s", c.s)>> ELSE <<>>)
  \o (IF Len(c.r) = 0 THEN <<>> ELSE [i \in 1..Len(c.r) |-> BoxRec("r", c.r[i])])
  \o (IF c.u = 0 THEN <<>> ELSE [i \in 1..c.u |-> BoxRec("u", 1)])
BoxApply(d, rec) ==
  CASE rec.f = "s" -> [d EXCEPT !.s = rec.v]
    [] rec.f = "r" -> [d EXCEPT !.r = Append(@, rec.v)]
    [] rec.f = "q" -> [d EXCEPT !.q = 1]
    [] rec.f = "u" -> [d EXCEPT !.u = @ + 1]
RECURSIVE BoxDecode(_, _, _)
BoxDecode(d, w, i) == IF i > Len(w) THEN d ELSE BoxDecode(BoxApply(d, w[i]), w, i + 1)
\* proto.UnmarshalOptions{Merge: o.merge, AllowPartial: o.part}.Unmarshal(w, d) for a destination of a type with facts f
BoxUnmarshal(w, d, o, f) ==
  LET m == BoxDecode(IF o.merge THEN d ELSE BoxEmpty, w, 1) IN [ok |-> o.part \/ BoxInitialized(m, f), m |-> m]
\* proto.Merge, defined directly on messages (the second definition the laws compare the wire fold with)
BoxMergeC(d, c) == BoxC(IF c.s # 0 THEN c.s ELSE d.s, d.r \o c.r, IF c.q = 1 THEN 1 ELSE d.q, d.u + c.u)

\* ---------------------------------------------------------------- the machine
BoxOpt(merge, part) == [merge |-> merge, part |-> part]
BoxStepRec(a, t, c, o, u) == [a |-> a, t |-> t, c |-> c, o |-> o, u |-> u]
\* name and is are functions of url (MessageName(url), MessageIs(url, name of T)), kept in the state so that they are
\* evaluated once per change of the URL
BoxInit == [url |-> <<>>, name |-> <<>>, is |-> FALSE, w |-> <<>>, pt |-> 0, pc |-> BoxEmpty, dst |-> BoxEmpty]
BoxSetUrl(st, u, Tn) == [st EXCEPT !.url = u, !.name = MessageName(u), !.is = MessageIs(u, Tn)]

\* index of the registered type that UnmarshalNew resolves the URL to (0: none): the text after the last '/' must be a
\* registered name (registered names are full names, so it is MessageName(url))
BoxResolve(st) ==
  IF Len(st.name) = 0 THEN 0
  ELSE IF st.pt # 0 /\ st.name = BoxTypes[st.pt] THEN st.pt
  ELSE IF st.name \in BoxNames THEN CHOOSE i \in 1..Len(BoxTypes) : BoxTypes[i] = st.name ELSE 0

\* one step from state st with a destination of type index T: the next state, the verdict of the step, and for unew the
\* type name and content of the returned message
BoxStep(st, T, p) ==
  LET res(n, ok) == [st |-> n, ok |-> ok, nt |-> <<>>, nm |-> BoxEmpty] IN
  CASE p.a = "fill" -> res([st EXCEPT !.dst = p.c], TRUE)
    [] p.a = "new" ->
         IF p.o.part \/ BoxInitialized(p.c, BoxFacts[p.t])
         THEN res(BoxSetUrl([st EXCEPT !.w = BoxMarshal(p.c), !.pt = p.t, !.pc = p.c], AnyUrlOf(BoxTypes[p.t]), BoxTypes[T]), TRUE)
         ELSE res(st, FALSE)                                            \* required fields missing: no Any is produced
    [] p.a = "url" -> res(BoxSetUrl(st, p.u, BoxTypes[T]), TRUE)
    [] p.a = "to" ->
         IF ~st.is THEN res(st, FALSE)                                  \* mismatched type: dst is not touched
         ELSE LET r == BoxUnmarshal(st.w, st.dst, p.o, BoxFacts[T]) IN res([st EXCEPT !.dst = r.m], r.ok)
    [] p.a = "unew" ->
         LET ri == BoxResolve(st) IN
         IF ri = 0 THEN res(st, FALSE)
         ELSE LET r == BoxUnmarshal(st.w, BoxEmpty, p.o, BoxFacts[ri]) IN [st |-> st, ok |-> r.ok, nt |-> BoxTypes[ri], nm |-> r.m]
\* what is observed after a step: its verdict and the whole visible state
BoxObs(r) == [ok |-> r.ok, url |-> r.st.url, name |-> r.st.name, empty |-> Len(r.st.w) = 0, is |-> r.st.is, dst |-> r.st.dst,
              nt |-> r.nt, nm |-> r.nm]

\* a parse is defined by this model when the payload was produced from the type it is parsed as, or is empty
BoxDefined(st, T, p) ==
  CASE p.a = "to" -> st.is => (st.pt = T \/ Len(st.w) = 0)
    [] p.a = "unew" -> LET ri == BoxResolve(st) IN ri # 0 => (st.pt = ri \/ Len(st.w) = 0)
    [] p.a = "new" -> BoxFits(p.c, BoxFacts[p.t])
    [] p.a = "fill" -> BoxFits(p.c, BoxFacts[T])
    [] OTHER -> TRUE

\* the whole history: the observations, one per step
RECURSIVE BoxRunFrom(_, _, _, _, _)
BoxRunFrom(st, T, steps, i, acc) ==
  IF i > Len(steps) THEN acc
  ELSE LET r == BoxStep(st, T, steps[i]) IN BoxRunFrom(r.st, T, steps, i + 1, Append(acc, BoxObs(r)))
BoxRun(T, steps) == BoxRunFrom(BoxInit, T, steps, 1, <<>>)
\* the step results, one per step (for the laws)
RECURSIVE BoxResultsFrom(_, _, _, _, _)
BoxResultsFrom(st, T, steps, i, acc) ==
  IF i > Len(steps) THEN acc
  ELSE LET r == BoxStep(st, T, steps[i]) IN BoxResultsFrom(r.st, T, steps, i + 1, Append(acc, r))
BoxResults(T, steps) == BoxResultsFrom(BoxInit, T, steps, 1, <<>>)

\* ---------------------------------------------------------------- design-level laws of one history, given its step results
BoxLawsOf(T, steps, rs) ==
  LET Tn == BoxTypes[T]  Tf == BoxFacts[T] IN
  \A i \in 1..Len(steps) :
    LET p == steps[i]  pre == IF i = 1 THEN BoxInit ELSE rs[i - 1].st  o == rs[i]  post == rs[i].st IN
    /\ BoxDefined(pre, T, p)
    /\ (Len(pre.w) = 0) = (pre.pc = BoxEmpty)                                   \* empty payload <=> empty message
    /\ BoxDecode(BoxEmpty, pre.w, 1) = pre.pc                                   \* Marshal ; Unmarshal = id
    /\ post.is = (post.name = Tn)                                               \* MessageIs <=> MessageName =
    /\ (p.a \in {"to", "unew", "fill"} => post.url = pre.url /\ post.w = pre.w) \* reading never changes the Any
    /\ (p.a = "to" =>
          /\ (~pre.is => ~o.ok /\ post.dst = pre.dst)
          /\ (pre.is =>
                /\ (~p.o.merge => post.dst = pre.pc)                            \* THE round trip: whatever dst held before
                /\ (p.o.merge => post.dst = BoxMergeC(pre.dst, pre.pc))         \* wire fold = proto.Merge
                /\ o.ok = (p.o.part \/ BoxInitialized(post.dst, Tf))))
    /\ (p.a = "unew" =>
          /\ post = pre
          /\ (o.ok => o.nt = pre.name /\ o.nt \in BoxNames /\ o.nm = pre.pc)
          /\ (o.ok /\ pre.is => o.nt = Tn))
    /\ (p.a = "new" /\ o.ok => post.pc = p.c /\ post.name = BoxTypes[p.t] /\ post.is = (p.t = T))
BoxLaws(T, steps) == BoxLawsOf(T, steps, BoxResults(T, steps))
=============================================================================
