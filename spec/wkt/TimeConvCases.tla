--------------------------- MODULE TimeConvCases ---------------------------
(***************************************************************************)
(* Expect(e): what TimeConv demands of one case of the Duration/Timestamp  *)
(* helper methods.  Shared by the tour (MC_TimeConv) and by trace          *)
(* validation (Trace_TimeConv).  Integers are character codes of decimal   *)
(* literals.                                                               *)
(***************************************************************************)
EXTENDS TimeConv

Expect(e) ==
  CASE e.op = "dur" ->
         LET s == ZOfChars(e.s)  n == ZOfChars(e.n)  v == DurValid(s, n) IN
         [d |-> CharsOfZ(AsDur(s, n)), valid |-> v, cv |-> v]
    [] e.op = "durnew" ->
         LET d == ZOfChars(e.d)  x == DurNew(d) IN
         [s |-> CharsOfZ(x.s), n |-> CharsOfZ(x.n), back |-> e.d, valid |-> TRUE]
    [] e.op = "ts" ->
         LET s == ZOfChars(e.s)  n == ZOfChars(e.n)  v == TsValid(s, n)  u == AsTimeU(s, n) IN
         [valid |-> v, cv |-> v, utc |-> TRUE] @@
         (IF InInt64(u) THEN [u |-> CharsOfZ(u), ns |-> CharsOfZ(AsTimeNs(s, n)), back |-> CharsOfZ(u)] ELSE [utc |-> TRUE])
    [] e.op = "tsnew" ->
         LET u == ZOfChars(e.u)  ns == ZOfChars(e.ns) IN
         [s |-> e.u, n |-> e.ns, eq |-> TRUE, valid |-> TsValid(u, ns)]
=============================================================================
