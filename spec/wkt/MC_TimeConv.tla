---------------------------- MODULE MC_TimeConv ----------------------------
(***************************************************************************)
(* C43, exhaustive one-shot machine over the boundary domain of the        *)
(* Duration / Timestamp helper functions: every (seconds, nanos) pair of   *)
(* the corner sets below (int64/int32 limits, the multiplication-overflow  *)
(* edge 9223372036/7 s, the clamp edge .854775807 ns, the validity bounds  *)
(* +-1, all sign combinations), every corner time.Duration and time.Time.  *)
(* TLC checks the design-level laws on every case and emits each case with *)
(* the specification's result as a tour line.                              *)
(***************************************************************************)
EXTENDS TimeConvCases, Json, FiniteSets

CONSTANTS Tier   \* "quick" | "thorough"

P(digits) == Z(FALSE, digits)
Around(z) == {ZSub(z, ZOf(1)), z, ZAdd(z, ZOf(1))}
PlusMinus(S) == S \cup {ZNeg(z) : z \in S}
Clip64(S) == {z \in S : InInt64(z)}
Clip32(S) == {z \in S : ZLe(MinInt32, z) /\ ZLe(z, MaxInt32)}

SecsCore == {ZZero, P(<<9,2,2,3,3,7,2,0,3,6>>), P(<<9,2,2,3,3,7,2,0,3,7>>), P(<<9,2,2,3,3,7,2,0,3,9>>),
             MaxDurSeconds, ZNeg(MinTsSeconds), MaxTsSeconds, MaxInt64, P(<<2,1,4,7,4,8,3,6,4,8>>)}
SecsMore == {P(<<4,2,9,4,9,6,7,2,9,6>>), P(<<9,2,2,3,3,7,2,0,4,1>>), P(<<1,0,0,0,0,0,0,0,0,0>>),
             P(<<9,2,2,3,3,7,2,0,3,6,8,5,4>>), P(<<1,8,4,4,6,7,4,4,0,7,4>>), P(<<8,6,4,0,0>>), P(<<3,1,5,5,7,6,0,0>>)}
SecsSet == Clip64(PlusMinus(UNION {Around(z) : z \in SecsCore \cup (IF Tier = "thorough" THEN SecsMore ELSE {})}))

NanosCore == {ZZero, Nano9, P(<<1,0,0,0,0,0,0,0,0,0>>), P(<<1,4,5,2,2,4,1,9,3>>), P(<<8,5,4,7,7,5,8,0,7>>), MaxInt32}
NanosMore == {P(<<2,0,0,0,0,0,0,0,0,0>>), P(<<5,0,0,0,0,0,0,0,0>>), P(<<1,0,0,0,0,0,0,0,0>>), P(<<1,4,7,4,8,3,6,4,8>>)}
NanosSet == Clip32(PlusMinus(UNION {Around(z) : z \in NanosCore \cup (IF Tier = "thorough" THEN NanosMore ELSE {})}))

DurCore == {ZZero, Nano9, P(<<1,0,0,0,0,0,0,0,0,0>>), MaxInt64, P(<<9,2,2,3,3,7,2,0,3,6,0,0,0,0,0,0,0,0,0>>),
            P(<<9,2,2,3,3,7,2,0,3,6,8,5,4,7,7,5,8,0,8>>), P(<<1,0,0,0,0,0,0,0,0,0,0,0,0,0,0,0,0,0>>), P(<<2,0,0,0,0,0,0,0,0,0>>)}
DurSet == Clip64(PlusMinus(UNION {Around(z) : z \in DurCore}))

\* time.Time values: any int64 Unix second, nanosecond 0 .. 999 999 999; three locations
NsSet == {ZZero, ZOf(1), Nano9, P(<<5,0,0,0,0,0,0,0,0>>)}

C(z) == CharsOfZ(z)
Cases ==
       {[op |-> "dur", s |-> C(s), n |-> C(n)] : s \in SecsSet, n \in NanosSet}
  \cup {[op |-> "ts",  s |-> C(s), n |-> C(n)] : s \in SecsSet, n \in NanosSet}
  \cup {[op |-> "durnew", d |-> C(d)] : d \in DurSet}
  \cup {[op |-> "tsnew", u |-> C(u), ns |-> C(ns), loc |-> l] : u \in SecsSet, ns \in NsSet, l \in {0, 1, 2}}

\* ---- design-level laws, checked by TLC on every case
One == ZOf(1)
Law(c) ==
  CASE c.op = "dur" ->
         LET s == ZOfChars(c.s)  n == ZOfChars(c.n)  x == DurExact(s, n)  d == AsDur(s, n) IN
         /\ (InInt64(x) => d = x)                                      \* exact whenever representable
         /\ (~InInt64(x) => d = (IF x.neg THEN MinInt64 ELSE MaxInt64)) \* else saturates towards the exact value
         /\ InInt64(d)
         /\ ZLe(d, AsDur(s, ZAdd(n, One))) /\ ZLe(d, AsDur(ZAdd(s, One), n))   \* monotone in both arguments
         /\ DurExact(ZNeg(s), ZNeg(n)) = ZNeg(x)                        \* odd symmetry of the denotation
         /\ DurValid(s, n) = DurValid(ZNeg(s), ZNeg(n))
         /\ (DurValid(s, n) => ZLe(ZAbs(x), ZAdd(ZShift10(MaxDurSeconds, E9), Nano9)))
    [] c.op = "durnew" ->
         LET d == ZOfChars(c.d)  x == DurNew(d) IN
         /\ AsDur(x.s, x.n) = d                                         \* New ; AsDuration = identity on all of int64
         /\ DurExact(x.s, x.n) = d
         /\ DurValid(x.s, x.n)                                          \* every time.Duration is a valid Duration
         /\ ZLe(ZAbs(x.n), Nano9) /\ ZSign(x.n) \in {0, ZSign(d)} /\ ZSign(x.s) \in {0, ZSign(d)}
    [] c.op = "ts" ->
         LET s == ZOfChars(c.s)  n == ZOfChars(c.n)  u == AsTimeU(s, n)  ns == AsTimeNs(s, n) IN
         /\ ~ns.neg /\ ZLe(ns, Nano9)
         /\ ZAdd(ZShift10(u, E9), ns) = ZAdd(ZShift10(s, E9), n)        \* the instant is preserved exactly
         /\ (TsValid(s, n) => (u = s /\ ns = n))                        \* valid timestamps are already normal
         \* validity = "within the years 1 .. 9999", through the calendar
         /\ LET t == ZSub(s, MinTsSeconds) IN
            (~n.neg /\ ZLe(n, Nano9)) =>
              (TsValid(s, n) = (~t.neg /\ Len(t.m) <= 13 /\
                                 LET q == DivModN(t.m, 86400) IN
                                 IntOfN(q.q) >= 0 /\ IntOfN(q.q) <= LastDay /\ CivilFromDays(IntOfN(q.q)).y \in 1..9999))
    [] c.op = "tsnew" ->
         LET u == ZOfChars(c.u)  ns == ZOfChars(c.ns) IN
         AsTimeU(u, ns) = u /\ AsTimeNs(u, ns) = ns                     \* New ; AsTime = identity
    [] OTHER -> TRUE

\* the documented constants follow from the calendar / the 365.25-day year
BoundsAreDocumented ==
  /\ MaxDurSeconds = P(<<3,1,5,5,7,6,0,0,0,0,0,0>>)
  /\ MinTsSeconds = ZNeg(P(<<6,2,1,3,5,5,9,6,8,0,0>>))
  /\ MaxTsSeconds = P(<<2,5,3,4,0,2,3,0,0,7,9,9>>)
  /\ CivilFromDays(0) = [y |-> 1, m |-> 1, d |-> 1]
  /\ CivilFromDays(LastDay) = [y |-> 9999, m |-> 12, d |-> 31]
  /\ CivilFromDays(UnixEpochDay) = [y |-> 1970, m |-> 1, d |-> 1]

\* WktDec against TLC's native integers where both exist
SelfRange == {-1001, -1000, -999, -101, -100, -99, -11, -10, -9, -1, 0, 1, 9, 10, 11, 99, 100, 101, 999, 1000, 1001, 86399, 86400, 123456}
DecSelfCheck ==
  \A a, b \in SelfRange :
     /\ ZInt(ZAdd(ZOf(a), ZOf(b))) = a + b
     /\ ZInt(ZSub(ZOf(a), ZOf(b))) = a - b
     /\ ZCmp(ZOf(a), ZOf(b)) = (IF a < b THEN -1 ELSE IF a > b THEN 1 ELSE 0)
     /\ (b > -1000 /\ b < 1000 => ZInt(ZMul(ZOf(a), b)) = a * b)
     /\ ZInt(ZFloor10(ZOf(a), 2)) = a \div 100 /\ ZInt(ZMod10(ZOf(a), 2)) = a % 100
     /\ ZInt(ZShift10(ZOf(b), 3)) = b * 1000
     /\ (a >= 0 /\ b > 0 => LET q == DivModN(NatOf(a), b) IN IntOfN(q.q) = a \div b /\ q.r = a % b)
     /\ ZOfChars(CharsOfZ(ZOf(a))) = ZOf(a)
\* every civil date of a few years maps to consecutive days and back
CivilSelfCheck ==
  \A y \in {1, 4, 100, 400, 1900, 1970, 2000, 2023, 2024, 9999} : \A m \in 1..12 : \A d \in 1..DaysInMonth(y, m) :
     CivilFromDays(DaysFromCivil(y, m, d)) = [y |-> y, m |-> m, d |-> d]

VARIABLE cur
Init == cur = [op |-> "init"]
Next == cur.op = "init" /\ \E c \in Cases : cur' = c
Laws == IF cur.op = "init" THEN BoundsAreDocumented /\ DecSelfCheck /\ CivilSelfCheck ELSE Law(cur)
Emit == PrintT("@@" \o ToJson(cur' @@ [exp |-> Expect(cur')]))
=============================================================================
