------------------------------ MODULE WktDec ------------------------------
(***************************************************************************)
(* Exact decimal arithmetic for the well-known-type specifications.        *)
(* TLC integers are 32 bit; seconds counts (int64), durations in           *)
(* nanoseconds (int64) and their products do not fit.  A natural number is *)
(* a big-endian sequence of digits 0..9 without leading zeros (zero is the *)
(* empty sequence); an integer is a record [neg, m] with m a natural and   *)
(* neg = FALSE for zero (canonical, so = is value equality).               *)
(* Integers cross the Go <-> TLA+ boundary as the character codes of their *)
(* decimal literal ("-12" = <<45,49,50>>).                                 *)
(* MC_TimeConv checks these operators against TLC's native integers on the *)
(* range where both exist (law DecSelfCheck).                              *)
(***************************************************************************)
EXTENDS Integers, Sequences

RECURSIVE StripZ(_)
StripZ(d) == IF d # <<>> /\ d[1] = 0 THEN StripZ(Tail(d)) ELSE d
Rev(s) == [i \in 1..Len(s) |-> s[Len(s) + 1 - i]]
\* i-th digit from the right (1-based), 0 beyond the most significant digit
DigR(a, i) == IF i <= Len(a) THEN a[Len(a) + 1 - i] ELSE 0

RECURSIVE LexCmp(_, _, _)
LexCmp(a, b, i) == IF i > Len(a) THEN 0
                   ELSE IF a[i] < b[i] THEN -1 ELSE IF a[i] > b[i] THEN 1 ELSE LexCmp(a, b, i + 1)
\* comparison of naturals: -1, 0, 1
CmpN(a, b) == IF Len(a) # Len(b) THEN (IF Len(a) < Len(b) THEN -1 ELSE 1) ELSE LexCmp(a, b, 1)

RECURSIVE AddLE(_, _, _, _)
AddLE(a, b, i, c) ==
  IF i > Len(a) /\ i > Len(b) THEN (IF c = 0 THEN <<>> ELSE <<c>>)
  ELSE LET s == DigR(a, i) + DigR(b, i) + c IN <<s % 10>> \o AddLE(a, b, i + 1, s \div 10)
AddN(a, b) == StripZ(Rev(AddLE(a, b, 1, 0)))

\* a - b for a >= b
RECURSIVE SubLE(_, _, _, _)
SubLE(a, b, i, br) ==
  IF i > Len(a) THEN <<>>
  ELSE LET s == DigR(a, i) - DigR(b, i) - br IN
       <<IF s < 0 THEN s + 10 ELSE s>> \o SubLE(a, b, i + 1, IF s < 0 THEN 1 ELSE 0)
SubN(a, b) == StripZ(Rev(SubLE(a, b, 1, 0)))

\* native non-negative integer -> natural
RECURSIVE FromNatLE(_)
FromNatLE(n) == IF n = 0 THEN <<>> ELSE <<n % 10>> \o FromNatLE(n \div 10)
NatOf(n) == Rev(FromNatLE(n))

\* a * k for a native 0 <= k < 10^8
RECURSIVE MulLE(_, _, _, _)
MulLE(a, k, i, c) ==
  IF i > Len(a) THEN FromNatLE(c)
  ELSE LET s == DigR(a, i) * k + c IN <<s % 10>> \o MulLE(a, k, i + 1, s \div 10)
MulN(a, k) == StripZ(Rev(MulLE(a, k, 1, 0)))

\* a * 10^k and the pair (a div 10^k, a mod 10^k): digit shifting
Shift10(a, k) == IF a = <<>> THEN <<>> ELSE a \o [i \in 1..k |-> 0]
Div10(a, k) == IF Len(a) <= k THEN <<>> ELSE SubSeq(a, 1, Len(a) - k)
Mod10(a, k) == IF Len(a) <= k THEN a ELSE StripZ(SubSeq(a, Len(a) - k + 1, Len(a)))

\* long division by a native 0 < k < 10^8: [q, r] with r native
RECURSIVE DivFrom(_, _, _, _)
DivFrom(a, k, i, r) ==
  IF i > Len(a) THEN [q |-> <<>>, r |-> r]
  ELSE LET cur == r * 10 + a[i]
           rest == DivFrom(a, k, i + 1, cur % k)
       IN [q |-> <<cur \div k>> \o rest.q, r |-> rest.r]
DivModN(a, k) == LET x == DivFrom(a, k, 1, 0) IN [q |-> StripZ(x.q), r |-> x.r]

\* native value of a natural below 2^31, else -1
RECURSIVE ValFrom(_, _, _)
ValFrom(a, i, acc) == IF i > Len(a) THEN acc ELSE ValFrom(a, i + 1, acc * 10 + a[i])
MaxNat == <<2, 1, 4, 7, 4, 8, 3, 6, 4, 7>>
IntOfN(a) == IF CmpN(a, MaxNat) > 0 THEN -1 ELSE ValFrom(a, 1, 0)

\* ---------------------------------------------------------------- integers
Z(neg, m) == [neg |-> neg /\ m # <<>>, m |-> m]
ZZero == Z(FALSE, <<>>)
ZOf(n) == IF n < 0 THEN Z(TRUE, NatOf(-n)) ELSE Z(FALSE, NatOf(n))     \* n > -2^31
ZNeg(a) == Z(~a.neg, a.m)
ZAbs(a) == Z(FALSE, a.m)
ZSign(a) == IF a.m = <<>> THEN 0 ELSE IF a.neg THEN -1 ELSE 1
ZCmp(a, b) == IF a.neg # b.neg THEN (IF a.neg THEN -1 ELSE 1)
              ELSE IF a.neg THEN CmpN(b.m, a.m) ELSE CmpN(a.m, b.m)
ZLe(a, b) == ZCmp(a, b) <= 0
ZLt(a, b) == ZCmp(a, b) < 0
ZAdd(a, b) == IF a.neg = b.neg THEN Z(a.neg, AddN(a.m, b.m))
              ELSE IF CmpN(a.m, b.m) >= 0 THEN Z(a.neg, SubN(a.m, b.m))
              ELSE Z(b.neg, SubN(b.m, a.m))
ZSub(a, b) == ZAdd(a, ZNeg(b))
ZMul(a, k) == IF k < 0 THEN Z(~a.neg, MulN(a.m, -k)) ELSE Z(a.neg, MulN(a.m, k))   \* native |k| < 10^8
ZShift10(a, k) == Z(a.neg, Shift10(a.m, k))
\* truncated (toward zero) division by 10^k and its remainder, both carrying the sign of a
ZQuot10(a, k) == Z(a.neg, Div10(a.m, k))
ZRem10(a, k) == Z(a.neg, Mod10(a.m, k))
\* floor division by 10^k and the non-negative remainder
ZFloor10(a, k) == IF a.neg /\ Mod10(a.m, k) # <<>> THEN Z(TRUE, AddN(Div10(a.m, k), <<1>>)) ELSE Z(a.neg, Div10(a.m, k))
ZMod10(a, k) == ZSub(a, ZShift10(ZFloor10(a, k), k))
\* native value when |a| < 2^31 (callers guarantee it)
ZInt(a) == IF a.neg THEN -IntOfN(a.m) ELSE IntOfN(a.m)

\* ---------------------------------------------------------------- literals
IsDigitC(c) == c >= 48 /\ c <= 57
DigitsOf(cs) == [i \in 1..Len(cs) |-> cs[i] - 48]
CharsOfN(a) == IF a = <<>> THEN <<48>> ELSE [i \in 1..Len(a) |-> a[i] + 48]
\* "-12" -> integer; the harness only ever sends canonical literals
ZOfChars(cs) == IF cs # <<>> /\ cs[1] = 45 THEN Z(TRUE, StripZ(DigitsOf(Tail(cs)))) ELSE Z(FALSE, StripZ(DigitsOf(cs)))
CharsOfZ(a) == IF a.neg THEN <<45>> \o CharsOfN(a.m) ELSE CharsOfN(a.m)
\* left-pad a natural with zeros to width w
PadN(a, w) == [i \in 1..(w - Len(a)) |-> 0] \o a

MaxInt64 == Z(FALSE, <<9,2,2,3,3,7,2,0,3,6,8,5,4,7,7,5,8,0,7>>)
MinInt64 == Z(TRUE,  <<9,2,2,3,3,7,2,0,3,6,8,5,4,7,7,5,8,0,8>>)
MaxInt32 == Z(FALSE, <<2,1,4,7,4,8,3,6,4,7>>)
MinInt32 == Z(TRUE,  <<2,1,4,7,4,8,3,6,4,8>>)
InInt64(a) == ZLe(MinInt64, a) /\ ZLe(a, MaxInt64)
Clamp64(a) == IF ZLt(a, MinInt64) THEN MinInt64 ELSE IF ZLt(MaxInt64, a) THEN MaxInt64 ELSE a
=============================================================================
