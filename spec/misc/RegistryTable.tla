--------------------------- MODULE RegistryTable ---------------------------
(***************************************************************************)
(* protoregistry.Files and protoregistry.Types as conflict-checking name   *)
(* tables (C33).                                                           *)
(*                                                                         *)
(* An abstract file is [path, pkg, decls]: pkg a sequence of name segments *)
(* (<<>> = no package), decls a forest of declarations                     *)
(*   [k |-> "msg"|"enum"|"val"|"field"|"oneof"|"ext"|"svc"|"meth",         *)
(*    n |-> simple name, p |-> index of the enclosing declaration (0 = the *)
(*    file), num |-> field/extension/enum value number,                    *)
(*    x |-> full name of the extended message (extensions only),           *)
(*    o |-> index of the oneof a field belongs to (0 = none)].             *)
(* Full names are sequences of segments.  A declaration's full name is its *)
(* scope + its name; the scope of an enum value is the scope of its enum   *)
(* (values are siblings of their enum), every other scope is the full name *)
(* of the enclosing declaration, or the package.                           *)
(*                                                                         *)
(* Files: the table maps full names to a package marker or a top-level     *)
(* declaration (messages, enums, their values, extensions, services).      *)
(* RegisterFile succeeds iff the path is new, no prefix of the package is  *)
(* a declaration, and no top-level name of the file is in the table (as a  *)
(* declaration or as a package); a failed registration changes nothing.    *)
(* FindDescriptorByName walks the prefixes of the name from the longest to *)
(* the shortest, stops at the first one in the table and resolves the rest *)
(* inside that declaration (nested messages, fields, oneofs, enums, values *)
(* in the scope of the message, extensions; methods of services).          *)
(* MC_Registry checks this operational lookup equal to the denotation      *)
(* "the unique declaration of a registered file with that full name".      *)
(*                                                                         *)
(* Types: one name table for message, enum and extension types plus a      *)
(* table (extended message, field number) -> extension.                    *)
(*                                                                         *)
(* A case is a whole history {files, steps}; Expect folds the steps.       *)
(* Observations [r, ids, n]: r = "ok" | "err" | "notfound" | "wrong";      *)
(* ids = the declarations found, as <<file index, decl index>> (decl 0 =   *)
(* the file itself), ranges in ascending order; n = a count.               *)
(***************************************************************************)
EXTENDS Integers, Sequences, FiniteSets, TLC

\* ---------------------------------------------------------------- names
RECURSIVE ScopeOf(_, _)
ScopeOf(file, i) ==
  LET d == file.decls[i] IN
  IF d.p = 0 THEN file.pkg
  ELSE IF file.decls[d.p].k = "enum" THEN ScopeOf(file, d.p)
  ELSE ScopeOf(file, d.p) \o <<file.decls[d.p].n>>
FullName(file, i) == ScopeOf(file, i) \o <<file.decls[i].n>>

Decls(file) == 1..Len(file.decls)
\* what RegisterFile enters into the table
IsTop(file, i) ==
  LET d == file.decls[i] IN
  \/ d.p = 0 /\ d.k \in {"msg", "enum", "ext", "svc"}
  \/ d.k = "val" /\ file.decls[d.p].p = 0
Tops(file) == {i \in Decls(file) : IsTop(file, i)}
Prefixes(nm) == {SubSeq(nm, 1, k) : k \in 1..Len(nm)}
KidsOf(file, i) == {j \in Decls(file) : file.decls[j].p = i}

\* shape rules of an abstract file (the generators produce only such files; protodesc accepts exactly these)
WellFormedFile(file) ==
  /\ \A i \in Decls(file) :
       LET d == file.decls[i] IN
       /\ d.p \in 0..(i - 1)
       /\ CASE d.k \in {"msg", "enum", "ext"} -> d.p = 0 \/ file.decls[d.p].k = "msg"
            [] d.k = "svc" -> d.p = 0
            [] d.k = "val" -> d.p # 0 /\ file.decls[d.p].k = "enum"
            [] d.k \in {"field", "oneof"} -> d.p # 0 /\ file.decls[d.p].k = "msg"
            [] d.k = "meth" -> d.p # 0 /\ file.decls[d.p].k = "svc"
            [] OTHER -> FALSE
       /\ (d.k = "enum" => \E j \in KidsOf(file, i) : TRUE)
       /\ (d.k = "oneof" => \E j \in Decls(file) : file.decls[j].k = "field" /\ file.decls[j].o = i)
       /\ (d.k = "field" /\ d.o # 0 => file.decls[d.o].k = "oneof" /\ file.decls[d.o].p = d.p)
       /\ (d.k = "ext" => \E j \in Decls(file) : file.decls[j].k = "msg" /\ FullName(file, j) = d.x)
  /\ \A i, j \in Decls(file) : i # j => FullName(file, i) # FullName(file, j)
  /\ \A i \in Decls(file) : FullName(file, i) \notin Prefixes(file.pkg)

\* ---------------------------------------------------------------- Files
PkgEntry == [k |-> "pkg", f |-> 0, d |-> 0]
Files0 == [tab |-> [x \in {} |-> PkgEntry], paths |-> {}, order |-> <<>>]

RegisterFile(F, fs, f) ==
  LET file == F[f]
      pre == Prefixes(file.pkg)
      tops == Tops(file)
      pathC == file.path \in fs.paths
      pkgC  == \E q \in pre : q \in DOMAIN fs.tab /\ fs.tab[q].k # "pkg"
      nameC == \E i \in tops : FullName(file, i) \in DOMAIN fs.tab
      topNames == {FullName(file, i) : i \in tops}
  IN IF pathC \/ pkgC \/ nameC THEN [fs |-> fs, ok |-> FALSE]
     ELSE [ok |-> TRUE,
           fs |-> [paths |-> fs.paths \cup {file.path},
                   order |-> Append(fs.order, f),
                   tab |-> [nm \in DOMAIN fs.tab \cup pre \cup topNames |->
                              IF nm \in DOMAIN fs.tab THEN fs.tab[nm]
                              ELSE IF nm \in topNames
                                   THEN [k |-> "decl", f |-> f, d |-> CHOOSE i \in tops : FullName(file, i) = nm]
                                   ELSE PkgEntry]]]

NotFound == [r |-> "notfound", ids |-> <<>>, n |-> 0]
Found(f, d) == [r |-> "ok", ids |-> <<<<f, d>>>>, n |-> 0]

\* resolve the remaining segments inside message declaration m of file
RECURSIVE InMessage(_, _, _, _)
InMessage(file, f, m, rest) ==
  LET nm == rest[1]
      kids == KidsOf(file, m)
      direct == {j \in kids : file.decls[j].n = nm}
      vals == {j \in Decls(file) : file.decls[j].k = "val" /\ file.decls[j].n = nm /\ file.decls[j].p \in kids}
  IN IF Len(rest) = 1
     THEN IF direct \cup vals = {} THEN NotFound ELSE Found(f, CHOOSE j \in direct \cup vals : TRUE)
     ELSE LET sub == {j \in direct : file.decls[j].k = "msg"} IN
          IF sub = {} THEN NotFound ELSE InMessage(file, f, CHOOSE j \in sub : TRUE, Tail(rest))

RECURSIVE FindFrom(_, _, _, _)
FindFrom(F, fs, name, k) ==
  IF k = 0 THEN NotFound
  ELSE LET pre == SubSeq(name, 1, k) IN
    IF pre \notin DOMAIN fs.tab THEN FindFrom(F, fs, name, k - 1)
    ELSE LET e == fs.tab[pre]  rest == SubSeq(name, k + 1, Len(name)) IN
      IF e.k = "pkg" THEN NotFound
      ELSE LET file == F[e.f]  kind == file.decls[e.d].k IN
        IF rest = <<>> THEN Found(e.f, e.d)
        ELSE CASE kind = "msg" -> InMessage(file, e.f, e.d, rest)
               [] kind = "svc" ->
                    LET ms == {j \in KidsOf(file, e.d) : file.decls[j].n = rest[1]} IN
                    IF Len(rest) = 1 /\ ms # {} THEN Found(e.f, CHOOSE j \in ms : TRUE) ELSE NotFound
               [] OTHER -> NotFound
FindDescriptorByName(F, fs, name) == FindFrom(F, fs, name, Len(name))

Registered(fs) == {fs.order[k] : k \in 1..Len(fs.order)}
\* ascending sequence of the elements of a set of small naturals
RECURSIVE AscFrom(_, _, _)
AscFrom(S, i, hi) == IF i > hi THEN <<>> ELSE (IF i \in S THEN <<i>> ELSE <<>>) \o AscFrom(S, i + 1, hi)
FilesIn(F, S) == LET q == AscFrom(S, 1, Len(F)) IN [k \in 1..Len(q) |-> <<q[k], 0>>]
InPackage(F, fs, name) ==
  IF name # <<>> /\ (name \notin DOMAIN fs.tab \/ fs.tab[name].k # "pkg") THEN {}
  ELSE {f \in Registered(fs) : F[f].pkg = name}

\* ---------------------------------------------------------------- Types
Types0 == [tn |-> [x \in {} |-> <<>>], xn |-> [x \in {} |-> <<>>]]
KindOf(k) == CASE k = "msg" -> "message" [] k = "enum" -> "enum" [] k = "ext" -> "extension" [] OTHER -> "none"

RegisterType(F, ts, f, d) ==
  LET file == F[f]
      decl == file.decls[d]
      name == FullName(file, d)
      key == <<decl.x, decl.num>>
      numC == decl.k = "ext" /\ key \in DOMAIN ts.xn
      nameC == name \in DOMAIN ts.tn
  IN IF numC \/ nameC THEN [ts |-> ts, ok |-> FALSE]
     ELSE [ok |-> TRUE,
           ts |-> [tn |-> [nm \in DOMAIN ts.tn \cup {name} |-> IF nm = name THEN <<KindOf(decl.k), f, d>> ELSE ts.tn[nm]],
                   xn |-> IF decl.k # "ext" THEN ts.xn
                          ELSE [q \in DOMAIN ts.xn \cup {key} |-> IF q = key THEN <<f, d>> ELSE ts.xn[q]]]]

FindType(ts, name, kind) ==
  IF name \notin DOMAIN ts.tn THEN NotFound
  ELSE IF ts.tn[name][1] = kind THEN Found(ts.tn[name][2], ts.tn[name][3])
  ELSE [r |-> "wrong", ids |-> <<>>, n |-> 0]

TypesOfKind(ts, kind) == {<<ts.tn[nm][2], ts.tn[nm][3]>> : nm \in {x \in DOMAIN ts.tn : ts.tn[x][1] = kind}}
ExtsOf(ts, msg) == {ts.xn[q] : q \in {x \in DOMAIN ts.xn : x[1] = msg}}

\* ascending sequence of a set of <<f, d>> pairs
RECURSIVE PairsFrom(_, _, _)
PairsFrom(F, S, f) ==
  IF f > Len(F) THEN <<>>
  ELSE LET ds == AscFrom({p[2] : p \in {q \in S : q[1] = f}}, 0, Len(F[f].decls)) IN
       [k \in 1..Len(ds) |-> <<f, ds[k]>>] \o PairsFrom(F, S, f + 1)
Listing(F, S) == LET q == PairsFrom(F, S, 1) IN [r |-> "ok", ids |-> q, n |-> Len(q)]
Count(v) == [r |-> "ok", ids |-> <<>>, n |-> v]
Verdict(ok) == [r |-> IF ok THEN "ok" ELSE "err", ids |-> <<>>, n |-> 0]

\* ---------------------------------------------------------------- histories
\* step [op, f, d, name, pre, s, num]
R0 == [fs |-> Files0, ts |-> Types0]

Apply(F, st, x) ==
  CASE x.op = "regf" -> LET r == RegisterFile(F, st.fs, x.f) IN [st |-> [st EXCEPT !.fs = r.fs], obs |-> Verdict(r.ok)]
    [] x.op \in {"regm", "rege", "regx"} ->
         LET r == RegisterType(F, st.ts, x.f, x.d) IN [st |-> [st EXCEPT !.ts = r.ts], obs |-> Verdict(r.ok)]
    [] x.op = "find" -> [st |-> st, obs |-> FindDescriptorByName(F, st.fs, x.name)]
    [] x.op = "path" -> [st |-> st, obs |-> LET fsn == {f \in Registered(st.fs) : F[f].path = x.s} IN
                                            IF fsn = {} THEN NotFound ELSE Found(CHOOSE f \in fsn : TRUE, 0)]
    [] x.op = "nfiles" -> [st |-> st, obs |-> Count(Len(st.fs.order))]
    [] x.op = "npkg" -> [st |-> st, obs |-> Count(Cardinality(InPackage(F, st.fs, x.name)))]
    [] x.op = "rangef" -> [st |-> st, obs |-> LET q == FilesIn(F, Registered(st.fs)) IN [r |-> "ok", ids |-> q, n |-> Len(q)]]
    [] x.op = "rangepkg" -> [st |-> st, obs |-> LET q == FilesIn(F, InPackage(F, st.fs, x.name)) IN [r |-> "ok", ids |-> q, n |-> Len(q)]]
    [] x.op = "findm" -> [st |-> st, obs |-> FindType(st.ts, x.name, "message")]
    [] x.op = "url" -> [st |-> st, obs |-> FindType(st.ts, x.name, "message")]     \* everything up to the last '/' is ignored
    [] x.op = "finde" -> [st |-> st, obs |-> FindType(st.ts, x.name, "enum")]
    [] x.op = "findx" -> [st |-> st, obs |-> FindType(st.ts, x.name, "extension")]
    [] x.op = "findxn" -> [st |-> st, obs |-> IF <<x.name, x.num>> \in DOMAIN st.ts.xn
                                               THEN Found(st.ts.xn[<<x.name, x.num>>][1], st.ts.xn[<<x.name, x.num>>][2]) ELSE NotFound]
    [] x.op = "nm" -> [st |-> st, obs |-> Count(Cardinality(TypesOfKind(st.ts, "message")))]
    [] x.op = "ne" -> [st |-> st, obs |-> Count(Cardinality(TypesOfKind(st.ts, "enum")))]
    [] x.op = "nx" -> [st |-> st, obs |-> Count(Cardinality(TypesOfKind(st.ts, "extension")))]
    [] x.op = "nxm" -> [st |-> st, obs |-> Count(Cardinality(ExtsOf(st.ts, x.name)))]
    [] x.op = "rangem" -> [st |-> st, obs |-> Listing(F, TypesOfKind(st.ts, "message"))]
    [] x.op = "rangee" -> [st |-> st, obs |-> Listing(F, TypesOfKind(st.ts, "enum"))]
    [] x.op = "rangex" -> [st |-> st, obs |-> Listing(F, TypesOfKind(st.ts, "extension"))]
    [] x.op = "rangexm" -> [st |-> st, obs |-> Listing(F, ExtsOf(st.ts, x.name))]

RECURSIVE RunSteps(_, _, _, _, _)
RunSteps(F, st, steps, i, acc) ==
  IF i > Len(steps) THEN [st |-> st, obs |-> acc]
  ELSE LET a == Apply(F, st, steps[i]) IN RunSteps(F, a.st, steps, i + 1, Append(acc, a.obs))

Expect(e) == [obs |-> RunSteps(e.files, R0, e.steps, 1, <<>>).obs]
=============================================================================
