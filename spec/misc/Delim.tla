------------------------------ MODULE Delim ------------------------------
(***************************************************************************)
(* Varint size-delimited message streams (encoding/protodelim), C27.       *)
(*                                                                         *)
(* A stream is a sequence of bytes.  A frame is                            *)
(*        varint(len(body)) ++ body                                        *)
(* (varint as specified by PbWire).  The messages of the model are         *)
(* google.protobuf.BytesValue{value: p}; their body is empty for p = <<>>  *)
(* and  0x0A ++ varint(len p) ++ p  otherwise, so that body lengths can be *)
(* steered onto the boundaries of the size varint (127/128, 16383/16384).  *)
(*                                                                         *)
(* Frame(s, pos, max) is the DENOTATION of one UnmarshalFrom call on the   *)
(* bytes s[pos+1..] with MaxSize = max.  It does not mention the Reader:   *)
(* the property says the result is the same for every conforming Reader;   *)
(* MC_DelimReader checks that an operational reader machine with arbitrary *)
(* chunking computes this denotation, and every tour line / trace event is *)
(* executed on the real code with several reader implementations.          *)
(*                                                                         *)
(*   "eof"      no byte left at pos            (clean message boundary)    *)
(*   "ueof"     stream ends inside the size varint or inside the body      *)
(*   "other"    the size varint overflows 64 bits                          *)
(*   "toolarge" size > effective MaxSize (0 = 4 MiB, -1 = MaxInt64)        *)
(*   "ok"       body = the next size bytes, position advances over them    *)
(*                                                                         *)
(* 64-bit quantities (size, MaxSize) are little-endian byte vectors (VB).  *)
(*                                                                         *)
(* A case is one whole history {rd, steps}; Expect folds the steps over    *)
(* the abstract state [s, pos, wr, k, live] and yields one observation per *)
(* step, up to and including the first failing read.                       *)
(***************************************************************************)
EXTENDS PbWire, TLC

MinusOne8  == <<255,255,255,255,255,255,255,255>>
MaxInt8    == <<255,255,255,255,255,255,255,127>>
DefaultMax == <<0,0,64,0,0,0,0,0>>                 \* 4 MiB

\* MaxSize as the implementation interprets it
EffMax(max) == IF IsZeros(max) THEN DefaultMax ELSE IF max = MinusOne8 THEN MaxInt8 ELSE max

\* ---------------------------------------------------------------- messages and frames
Payload(n, fill) == [k \in 1..n |-> (7*k + fill) % 256]
MsgId(n, fill) == IF n = 0 THEN <<0, 0>> ELSE <<n, fill>>
Body(p) == IF Len(p) = 0 THEN <<>> ELSE <<10>> \o EncBytes(p)
SizeHdr(n) == EncVarint(FromNat8(n))
FrameOf(p) == SizeHdr(Len(Body(p))) \o Body(p)

\* the message identity <<n, fill>> a BytesValue body denotes; <<-1,-1>> when it is not one of the model's messages
BodyId(body) ==
  IF Len(body) = 0 THEN <<0, 0>>
  ELSE IF body[1] # 10 THEN <<-1, -1>>
  ELSE LET r == BytesAt(body, 2) IN
       IF r.n # Len(body) - 1 \/ Len(r.p) = 0 THEN <<-1, -1>>
       ELSE LET fill == (r.p[1] + 249) % 256 IN
            IF r.p = Payload(Len(r.p), fill) THEN <<Len(r.p), fill>> ELSE <<-1, -1>>

\* ---------------------------------------------------------------- one UnmarshalFrom, denotationally
NoRes == [r |-> "eof", hn |-> 0, size |-> Zeros(8), max |-> Zeros(8), body |-> <<>>]
Frame(s, pos, max) ==
  IF pos >= Len(s) THEN NoRes
  ELSE LET d == DecVarint(s, pos + 1) IN
    IF d.n = ErrTruncated THEN [NoRes EXCEPT !.r = "ueof"]
    ELSE IF d.n < 0 THEN [NoRes EXCEPT !.r = "other"]
    ELSE LET eff == EffMax(max) IN
      IF CmpU(d.v, eff) > 0 THEN [NoRes EXCEPT !.r = "toolarge", !.hn = d.n, !.size = d.v, !.max = eff]
      ELSE LET m == ToNat(d.v) IN
        \* sizes of 2^31 and more cannot be complete in any stream of the model
        IF m < 0 \/ m > Len(s) - pos - d.n THEN [NoRes EXCEPT !.r = "ueof", !.hn = d.n, !.size = d.v]
        ELSE [r |-> "ok", hn |-> d.n, size |-> d.v, max |-> eff,
              body |-> SubSeq(s, pos + d.n + 1, pos + d.n + m)]

\* ---------------------------------------------------------------- histories
\* step  [op, a, b, v]:  "w" a=payload length b=fill | "raw" v=bytes | "t" a=new stream length | "r" v=MaxSize (8 bytes)
\* obs   [r, n, m, pos, v]
Obs(r, n, m, pos, v) == [r |-> r, n |-> n, m |-> m, pos |-> pos, v |-> v]

St0 == [s |-> <<>>, pos |-> 0, wr |-> <<>>, k |-> 0, live |-> TRUE, marks |-> <<0>>]

\* Apply one step: [st, obs]
Apply(st, x) ==
  CASE x.op = "w" ->
         LET body == Body(Payload(x.a, x.b))
             hn == Len(SizeHdr(Len(body)))
             f == SizeHdr(Len(body)) \o body
             s2 == st.s \o f
         IN [st |-> [st EXCEPT !.s = s2, !.wr = Append(@, MsgId(x.a, x.b)),
                               !.marks = @ \o <<Len(st.s) + hn, Len(s2)>>],
             obs |-> Obs("ok", Len(f), SubSeq(f, 1, hn), Len(s2), <<>>)]
    [] x.op = "raw" ->
         LET s2 == st.s \o x.v IN
         [st |-> [st EXCEPT !.s = s2, !.marks = Append(@, Len(s2))], obs |-> Obs("ok", Len(x.v), <<>>, Len(s2), <<>>)]
    [] x.op = "t" ->
         LET s2 == SubSeq(st.s, 1, x.a) IN
         [st |-> [st EXCEPT !.s = s2, !.marks = <<0>>], obs |-> Obs("ok", 0, <<>>, Len(s2), <<>>)]
    [] x.op = "r" ->
         LET f == Frame(st.s, st.pos, x.v) IN
         CASE f.r = "ok" ->
                LET id == BodyId(f.body)
                    eq == IF st.k + 1 <= Len(st.wr) /\ st.wr[st.k + 1] = id THEN 1 ELSE 0
                    p2 == st.pos + f.hn + Len(f.body)
                IN [st |-> [st EXCEPT !.pos = p2, !.k = @ + 1], obs |-> Obs("ok", eq, id, p2, <<>>)]
          [] f.r = "eof" -> [st |-> st, obs |-> Obs("eof", 0, <<>>, st.pos, <<>>)]
          [] f.r = "toolarge" -> [st |-> [st EXCEPT !.live = FALSE], obs |-> Obs("toolarge", 0, <<>>, -1, f.size \o f.max)]
          [] OTHER -> [st |-> [st EXCEPT !.live = FALSE], obs |-> Obs(f.r, 0, <<>>, -1, <<>>)]

\* fold; the history ends with the first failing read (what happens to the reader afterwards is not specified)
RECURSIVE Run(_, _, _, _)
Run(st, steps, i, acc) ==
  IF i > Len(steps) \/ ~st.live THEN [st |-> st, obs |-> acc]
  ELSE LET a == Apply(st, steps[i]) IN Run(a.st, steps, i + 1, Append(acc, a.obs))

Expect(e) == [obs |-> Run(St0, e.steps, 1, <<>>).obs]
=============================================================================
