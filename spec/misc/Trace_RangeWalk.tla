---------------------------- MODULE Trace_RangeWalk ----------------------------
(***************************************************************************)
(* Trace validation for protorange (C32).  Every event is one traversal of *)
(* a real message (random values of rw.N with resolvable, unresolvable and *)
(* undecodable Any bodies, and of generated corpus types) recorded with    *)
(* its projection to a tree of steps (made with the plain reflection API). *)
(* Stable traversals must equal RangeWalk!Walk on that tree; unstable ones *)
(* must be accepted by the automaton RangeWalk!Accept; the value shown at  *)
(* every push must be the tree's, the returned error the specification's.  *)
(***************************************************************************)
EXTENDS RangeWalk, Json, IOUtils

Trace == ndJsonDeserialize(IOEnv.TRACE)

VARIABLES l, bad
Agree(e) == LET x == Expect(e) IN \A k \in DOMAIN x : k \in DOMAIN e.out /\ e.out[k] = x[k]
Init == l = 1 /\ bad = <<>>
Next == /\ l <= Len(Trace)
        /\ bad' = IF Agree(Trace[l]) THEN bad ELSE Append(bad, l)
        /\ l' = l + 1
        /\ TLCSet(1, <<l + 1, bad'>>)
Accepted == LET r == TLCGet(1) IN
            /\ PrintT("TRACE-RESULT " \o ToJson([done |-> r[1] - 1, total |-> Len(Trace), bad |-> r[2]]))
            /\ r[1] = Len(Trace) + 1
=============================================================================
