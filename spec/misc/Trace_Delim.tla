---------------------------- MODULE Trace_Delim ----------------------------
(***************************************************************************)
(* Trace validation for protodelim (C27): every recorded history (seeded   *)
(* random message lengths, raw tails, truncation points, MaxSize values    *)
(* and reader implementations) must show, step by step, the observations   *)
(* Delim!Expect derives from the steps alone.  One TLC step per history;   *)
(* disagreeing line numbers are collected.                                 *)
(***************************************************************************)
EXTENDS Delim, Json, IOUtils

Trace == ndJsonDeserialize(IOEnv.TRACE)

VARIABLES l, bad
Agree(e) == LET x == Expect(e) IN \A k \in DOMAIN x : k \in DOMAIN e.out /\ e.out[k] = x[k]
Init == l = 1 /\ bad = <<>>
Next == /\ l <= Len(Trace)
        /\ bad' = IF Agree(Trace[l]) THEN bad ELSE Append(bad, l)
        /\ l' = l + 1
        /\ TLCSet(1, <<l + 1, bad'>>)
Accepted == LET r == TLCGet(1) IN
            /\ PrintT("TRACE-RESULT " \o ToJson([done |-> r[1] - 1, total |-> Len(Trace), bad |-> r[2]]))
            /\ r[1] = Len(Trace) + 1
=============================================================================
