--------------------------- MODULE MC_RangeWalk ---------------------------
(***************************************************************************)
(* C32: every tree of steps with at most MaxNodes nodes over the schema    *)
(*                                                                         *)
(*   message N { int32 a=1; N m=2; repeated int32 ri=3; repeated N rm=4;   *)
(*               map<int32,int32> mi=5; map<int32,N> mm=6; Any y=7;        *)
(*               repeated Any ry=8; oneof o {int32 oi=9; N om=10;}         *)
(*               map<string,int32> ms=11; map<bool,N> mb=12;               *)
(*               extensions 100 to 199; }                                  *)
(*   extend N { int32 xi=100; N xm=101; repeated N xr=102; }               *)
(*                                                                         *)
(* is built node by node in canonical (sorted preorder) form, so that each *)
(* tree is one state.  On every well-formed tree TLC checks the laws below *)
(* for every control value (Break, Terminate, error) injected at every     *)
(* callback position, for all pairs of control values on trees of up to    *)
(* PairMax nodes and for the lattice-relevant pairs at adjacent callbacks  *)
(* on larger trees, and emits one tour line per (tree, control, callback   *)
(* mode) with the specification's walk, plus unordered runs.               *)
(***************************************************************************)
EXTENDS RangeWalk, Json

CONSTANTS Tier

VARIABLE T

Quick == Tier = "quick"
MaxNodes == IF Quick THEN 4 ELSE 5
PairMax  == 3                               \* trees up to this size also get two control values
MaxList  == 2
\* quick: one field per class of step.  thorough: all fields while the tree has fewer than four nodes, then the fifth
\* node is drawn from one field per class
FieldNums == IF Quick THEN {1, 2, 4, 5, 7, 10, 12, 100}
             ELSE IF Len(T) < 4 THEN {1, 2, 3, 4, 5, 6, 7, 8, 9, 10, 11, 12, 100, 101, 102} ELSE {1, 2, 3, 4, 5, 6, 7, 8, 100}

Tab(n) ==
  CASE n \in {1, 9, 100} -> [c |-> "leaf", e |-> "", k |-> ""]
    [] n \in {2, 10, 101} -> [c |-> "msg", e |-> "", k |-> ""]
    [] n = 3   -> [c |-> "list", e |-> "leaf", k |-> ""]
    [] n \in {4, 102} -> [c |-> "list", e |-> "msg", k |-> ""]
    [] n = 5   -> [c |-> "map", e |-> "leaf", k |-> "int"]
    [] n = 6   -> [c |-> "map", e |-> "msg", k |-> "int"]
    [] n = 7   -> [c |-> "anymsg", e |-> "", k |-> ""]
    [] n = 8   -> [c |-> "list", e |-> "anymsg", k |-> ""]
    [] n = 11  -> [c |-> "map", e |-> "leaf", k |-> "str"]
    [] n = 12  -> [c |-> "map", e |-> "msg", k |-> "bool"]
Keys(k) == CASE k = "int" -> {<<-1>>, <<2>>, <<10>>}            \* numeric, not lexicographic: 2 < 10
             [] k = "str" -> {<<>>, <<97>>, <<97, 97>>, <<98>>}   \* "", "a", "aa", "b"
             [] k = "bool" -> {<<0>>, <<1>>}

TypeOf(c) == IF c = "msg" THEN "N" ELSE IF c = "anymsg" THEN "Any" ELSE ""
Node(p, s, f, c, v) == [p |-> p, s |-> s, f |-> f, c |-> c, t |-> TypeOf(c), v |-> IF c = "leaf" THEN v ELSE 0]

RECURSIVE Spine(_, _)
Spine(tr, j) == IF j = 0 THEN {} ELSE {j} \cup Spine(tr, tr[j].p)

\* the nodes that may be appended below node i so that the tree stays in canonical form
NextKids(i) ==
  LET ks == Kids(T, i)
      after(nd) == \A j \in ks : Less(Append(T, nd), j, Len(T) + 1)
      val == 10 + Len(T)
  IN CASE T[i].c = "msg" ->
            {nd \in {Node(i, "field", <<n>>, Tab(n).c, val) : n \in FieldNums} :
                 after(nd) /\ ~(nd.f = <<10>> /\ \E j \in ks : T[j].f = <<9>>)}
            \cup {nd \in {Node(i, "unknown", <<>>, "leaf", 3)} : \A j \in ks : T[j].s # "unknown"}
       [] T[i].c = "anymsg" -> IF ks = {} THEN {Node(i, "any", <<>>, "msg", 0), Node(i, "any", <<>>, "anymsg", 0)} ELSE {}
       [] T[i].c = "list" -> IF Cardinality(ks) < MaxList
                             THEN {Node(i, "index", <<Cardinality(ks)>>, Tab(T[i].f[1]).e, val)} ELSE {}
       [] T[i].c = "map" -> {nd \in {Node(i, "key", k, Tab(T[i].f[1]).e, val) : k \in Keys(Tab(T[i].f[1]).k)} : after(nd)}
       [] OTHER -> {}

Init == T = <<>>
Next == IF T = <<>> THEN T' \in {<<Node(0, "root", <<>>, "msg", 0)>>, <<Node(0, "root", <<>>, "anymsg", 0)>>}
        ELSE /\ Len(T) < MaxNodes
             /\ \E i \in Spine(T, Len(T)) : \E nd \in NextKids(i) : T' = Append(T, nd)

\* ---------------------------------------------------------------- control values
N2(tr) == 2 * Len(tr)
Singles(tr) == {<< <<k, c>> >> : k \in 1..N2(tr), c \in {1, 2, 3}}
Pairs(tr) == IF Len(tr) > PairMax THEN {}
             ELSE UNION {{<< <<k1, c1>>, <<k2, c2>> >> : k2 \in (k1 + 1)..Len(Walk(tr, << <<k1, c1>> >>).walk), c2 \in {1, 2, 3, 4}}
                         : k1 \in 1..N2(tr), c1 \in {1, 2, 3}}
\* on larger trees: a second control value at the very next callback, in the combinations the error lattice distinguishes
Combos == {<<1, 2>>, <<1, 3>>, <<2, 1>>, <<2, 3>>, <<3, 1>>, <<3, 2>>, <<3, 4>>}
AdjPairs(tr) == IF Len(tr) <= PairMax THEN {}
                ELSE UNION {{<< <<k, c[1]>>, <<k + 1, c[2]>> >> : c \in Combos} :
                            k \in {x \in 1..N2(tr) : \E c1 \in {1, 2} : x + 1 <= Len(Walk(tr, << <<x, c1>> >>).walk)}}
Ctls(tr) == {<<>>} \cup Singles(tr) \cup Pairs(tr) \cup AdjPairs(tr)

\* ---------------------------------------------------------------- laws (independent characterisations)
W0 == Walk(T, <<>>).walk

RECURSIVE IsAnc(_, _, _)
IsAnc(tr, i, j) == j = i \/ (j # 1 /\ IsAnc(tr, i, tr[j].p))
Desc(tr, i) == {j \in Nodes(tr) : IsAnc(tr, i, j)}
LaterSibs(tr, i) == IF i = 1 THEN {} ELSE {s \in Kids(tr, tr[i].p) : Less(tr, i, s)}
PushSet(w) == {w[k] : k \in {x \in 1..Len(w) : w[x] > 0}}

\* stack of open steps after a prefix of a walk
RECURSIVE Open(_, _, _)
Open(w, i, stk) == IF i > Len(w) THEN stk
                   ELSE IF w[i] > 0 THEN Open(w, i + 1, Append(stk, w[i]))
                   ELSE Open(w, i + 1, SubSeq(stk, 1, Len(stk) - 1))
Closing(stk) == [k \in 1..Len(stk) |-> -stk[Len(stk) + 1 - k]]

\* pushes and pops are balanced and properly nested, and a step is pushed while its parent step is the innermost open one
RECURSIVE NestedFrom(_, _, _, _)
NestedFrom(tr, w, i, stk) ==
  IF i > Len(w) THEN stk = <<>>
  ELSE IF w[i] > 0 THEN
         /\ IF stk = <<>> THEN w[i] = 1 /\ i = 1 ELSE tr[w[i]].p = stk[Len(stk)]
         /\ NestedFrom(tr, w, i + 1, Append(stk, w[i]))
  ELSE stk # <<>> /\ stk[Len(stk)] = -w[i] /\ NestedFrom(tr, w, i + 1, SubSeq(stk, 1, Len(stk) - 1))

RECURSIVE IsSubseq(_, _, _, _)
IsSubseq(a, b, i, j) == IF i > Len(a) THEN TRUE ELSE IF j > Len(b) THEN FALSE
                        ELSE IF a[i] = b[j] THEN IsSubseq(a, b, i + 1, j + 1) ELSE IsSubseq(a, b, i, j + 1)

Count(w, x) == Cardinality({k \in 1..Len(w) : w[k] = x})

LawNested == WellFormed(T) => \A c \in Ctls(T) : NestedFrom(T, Walk(T, c).walk, 1, <<>>)

\* without control values every populated element is visited exactly once
LawOnce == WellFormed(T) => /\ Len(W0) = N2(T)
                            /\ \A i \in Nodes(T) : Count(W0, i) = 1 /\ Count(W0, -i) = 1
                            /\ Walk(T, <<>>).ret = 0
LawAtMostOnce == WellFormed(T) => \A c \in Ctls(T) : LET w == Walk(T, c).walk IN
                                    \A i \in Nodes(T) : Count(w, i) <= 1 /\ Count(w, -i) = Count(w, i)

\* Break at the push of i skips the subtree of i and the later siblings of i; at the pop of i the later siblings only
LawBreak ==
  WellFormed(T) =>
    \A k \in 1..N2(T) :
      LET i == Abs(W0[k])
          r == Walk(T, << <<k, Break>> >>)
          sibs == UNION {Desc(T, s) : s \in LaterSibs(T, i)}
          skipped == IF W0[k] > 0 THEN (Desc(T, i) \ {i}) \cup sibs ELSE sibs
      IN /\ PushSet(r.walk) = Nodes(T) \ skipped
         /\ r.ret = 0
         /\ IsSubseq(r.walk, W0, 1, 1)

\* Terminate (or an error) at callback k: the walk is the first k events followed by the pops of the open steps
LawStop ==
  WellFormed(T) =>
    \A k \in 1..N2(T) : \A c \in {Terminate, 3} :
      LET r == Walk(T, << <<k, c>> >>)
          pre == SubSeq(W0, 1, k)
      IN r.walk = pre \o Closing(Open(pre, 1, <<>>)) /\ r.ret = (IF c = Terminate THEN 0 ELSE c)

\* the automaton accepts exactly what the recursive definition produces
LawAccept ==
  WellFormed(T) =>
    \A c \in Ctls(T) :
      LET r == Walk(T, c) IN
      /\ Accept(T, c, TRUE, r.walk) = [ok |-> TRUE, ret |-> r.ret]
      /\ Accept(T, c, FALSE, r.walk) = [ok |-> TRUE, ret |-> r.ret]
      /\ (Len(r.walk) > 2 => ~Accept(T, c, FALSE, SubSeq(r.walk, 1, Len(r.walk) - 1)).ok)

\* the mirrored sibling order (lists and the unknown step keep their place) is a traversal for Stable = false,
\* and for Stable = true only if it is the sorted one
Rev(q) == [k \in 1..Len(q) |-> q[Len(q) + 1 - k]]
MirrorK == [i \in Nodes(T) |->
              LET ks == KidsMap(T)[i] IN
              IF T[i].c = "list" THEN ks
              ELSE LET flds == SelectSeq(ks, LAMBDA j : T[j].s # "unknown")  unk == SelectSeq(ks, LAMBDA j : T[j].s = "unknown")
                   IN Rev(flds) \o unk]
LawMirror ==
  WellFormed(T) =>
    \A c \in {<<>>} \cup Singles(T) :
      LET r == Visit(MirrorK, c, 0, 1, [w |-> <<>>, err |-> 0]) IN
      /\ Accept(T, c, FALSE, r.w) = [ok |-> TRUE, ret |-> Ret(r.err)]
      /\ (Accept(T, c, TRUE, r.w).ok = (r.w = Walk(T, c).walk))

\* the automaton is strict where the order is fixed: list elements by index, the unknown step last
FullMirrorK == [i \in Nodes(T) |-> Rev(KidsMap(T)[i])]
LawStrict ==
  WellFormed(T) =>
    LET w == Visit(FullMirrorK, <<>>, 0, 1, [w |-> <<>>, err |-> 0]).w
        m == Visit(MirrorK, <<>>, 0, 1, [w |-> <<>>, err |-> 0]).w
    IN Accept(T, <<>>, FALSE, w).ok = (w = m)

\* with one kind of callback the same steps are visited: the walk is the push (pop) subsequence of the full walk
LawOneSided ==
  WellFormed(T) =>
    /\ WalkCb(T, <<>>, 1).walk = SelectSeq(W0, LAMBDA x : x > 0)
    /\ WalkCb(T, <<>>, 2).walk = SelectSeq(W0, LAMBDA x : x < 0)
    \* Break returned by the only callback at its k-th call acts like Break at that push (pop) of the full walk
    /\ \A k \in 1..Len(T) : \A cb \in {1, 2} :
         LET full == IF cb = 1 THEN SelectSeq(W0, LAMBDA x : x > 0) ELSE SelectSeq(W0, LAMBDA x : x < 0)
             pos == CHOOSE q \in 1..Len(W0) : W0[q] = full[k]
             both == Walk(T, << <<pos, Break>> >>).walk
         IN WalkCb(T, << <<k, Break>> >>, cb).walk = SelectSeq(both, LAMBDA x : IF cb = 1 THEN x > 0 ELSE x < 0)

\* ---------------------------------------------------------------- tour
Case(tr, c, stable, cb) == [tree |-> tr, ctl |-> c, stable |-> stable, cb |-> cb]
Line(e) == PrintT("@@" \o ToJson(e @@ [exp |-> Expect(e)]))
OneSided(tr) == {<<>>} \cup {<< <<k, c>> >> : k \in 1..Len(tr), c \in IF Quick THEN {1, 2} ELSE {1, 2, 3}}
Emit == WellFormed(T') =>
          /\ \A c \in Ctls(T') : Line(Case(T', c, 1, 0))
          /\ \A c \in OneSided(T') : Line(Case(T', c, 1, 1)) /\ Line(Case(T', c, 1, 2))
          /\ \A cb \in {0, 1, 2} : Line(Case(T', <<>>, 0, cb))
=============================================================================
