---------------------------- MODULE MC_Registry ----------------------------
(***************************************************************************)
(* C33: all registration histories up to a bound over a pool of abstract   *)
(* files that overlap in every way the conflict rules distinguish:         *)
(* packages {"", a, a.b, a.b.M.q, b, c}, names {a, b, M, E, V, x, ...} used  *)
(* as package, message, enum, enum value, extension and service in         *)
(* different files, a repeated path, nested declarations of every kind,    *)
(* and extensions sharing (extended message, number) or a name.            *)
(*                                                                         *)
(* mode "f": RegisterFile histories on a Files registry;                   *)
(* mode "t": RegisterMessage/Enum/Extension histories on a Types registry. *)
(* TLC checks the laws below on every reachable state, with ghost sets of  *)
(* what was registered successfully, and emits every transition as a whole *)
(* history followed by a snapshot of every lookup, count and range.        *)
(***************************************************************************)
EXTENDS RegistryTable, Json

CONSTANTS Tier

D(k, n, p) == [k |-> k, n |-> n, p |-> p, num |-> 0, x |-> <<>>, o |-> 0]
Fld(n, p, num, o) == [k |-> "field", n |-> n, p |-> p, num |-> num, x |-> <<>>, o |-> o]
Val(n, p, num) == [k |-> "val", n |-> n, p |-> p, num |-> num, x |-> <<>>, o |-> 0]
Ext(n, p, num, x) == [k |-> "ext", n |-> n, p |-> p, num |-> num, x |-> x, o |-> 0]
File(path, pkg, decls) == [path |-> path, pkg |-> pkg, decls |-> decls]

Pool == <<
  File("p1", <<>>, <<D("msg", "a", 0), Fld("M", 1, 1, 0), D("msg", "b", 1), Fld("a", 3, 1, 0), D("enum", "E", 1), Val("V", 5, 0)>>),
  File("p2", <<"a">>, <<D("msg", "M", 0), Fld("b", 1, 1, 0), D("oneof", "o", 1), Fld("c", 1, 2, 3), D("msg", "M", 1),
                        Ext("x", 0, 100, <<"a", "M">>), D("enum", "E", 0), Val("V", 7, 0), Val("b", 7, 1)>>),
  File("p3", <<"a", "b">>, <<D("msg", "M", 0), D("enum", "E", 1), Val("V", 2, 0), D("svc", "S", 0), D("meth", "m", 4),
                             Ext("x", 1, 100, <<"a", "b", "M">>)>>),
  File("p2", <<"c">>, <<D("msg", "M", 0)>>),
  File("p5", <<"a">>, <<D("msg", "b", 0), Fld("a", 1, 1, 0)>>),
  File("p6", <<"a">>, <<D("svc", "M", 0), D("meth", "a", 1)>>),
  File("p7", <<"a", "b", "M", "q">>, <<D("msg", "Z", 0)>>),
  File("p8", <<"a">>, <<D("msg", "N", 0), Ext("V", 0, 100, <<"a", "N">>)>>),
  File("p9", <<"a">>, <<D("msg", "M", 0), Ext("y", 0, 100, <<"a", "M">>), Ext("x", 0, 101, <<"a", "M">>)>>),
  File("p10", <<"b">>, <<D("enum", "a", 0), Val("M", 1, 0)>>),
  File("p11", <<>>, <<D("enum", "b", 0), Val("a", 1, 0)>>),
  File("p12", <<"a", "b">>, <<D("enum", "S", 0), Val("Z", 1, 0), D("msg", "N", 0), Ext("y", 3, 100, <<"a", "b", "N">>)>>)
>>
F == IF Tier = "quick" THEN SubSeq(Pool, 1, 11) ELSE Pool
MaxF == IF Tier = "quick" THEN 3 ELSE 4
MaxT == IF Tier = "quick" THEN 2 ELSE 3

FileIds == 1..Len(F)
TypeCands == {<<f, d>> \in UNION {{<<f, d>> : d \in Decls(F[f])} : f \in FileIds} : F[f].decls[d].k \in {"msg", "enum", "ext"}}

\* ---------------------------------------------------------------- the names asked about
AllNames == UNION {{FullName(F[f], d) : d \in Decls(F[f])} \cup Prefixes(F[f].pkg) : f \in FileIds}
Universe == AllNames \cup {<<"a", "E", "V">>, <<"a", "M", "o", "c">>, <<"zz">>, <<"a", "b", "S", "m", "q">>, <<"a", "M", "M", "M">>,
                           <<"a", "b", "M", "E", "V">>, <<"a", "zz">>}
PkgNames == {<<>>, <<"zz">>} \cup UNION {Prefixes(F[f].pkg) \cup {FullName(F[f], 1)} : f \in FileIds}
TypeNames == {FullName(F[p[1]], p[2]) : p \in TypeCands} \cup {<<"a", "M", "b">>, <<"zz">>}
ExtKeys == {<<F[p[1]].decls[p[2]].x, F[p[1]].decls[p[2]].num>> : p \in {q \in TypeCands : F[q[1]].decls[q[2]].k = "ext"}}
           \cup {<<<<"a", "M">>, 1>>, <<<<"zz">>, 100>>}
Paths == {F[f].path : f \in FileIds} \cup {"zz"}

\* a set as a sequence, in some fixed order
RECURSIVE SeqOf(_)
SeqOf(S) == IF S = {} THEN <<>> ELSE LET x == CHOOSE y \in S : TRUE IN <<x>> \o SeqOf(S \ {x})

Q(op, f, d, name, pre, s, num) == [op |-> op, f |-> f, d |-> d, name |-> name, pre |-> pre, s |-> s, num |-> num]
Qn(op, name) == Q(op, 0, 0, name, <<>>, "", 0)
SnapF == [i \in 1..Len(SeqOf(Universe)) |-> Qn("find", SeqOf(Universe)[i])]
         \o [i \in 1..Len(SeqOf(Paths)) |-> Q("path", 0, 0, <<>>, <<>>, SeqOf(Paths)[i], 0)]
         \o <<Qn("nfiles", <<>>), Qn("rangef", <<>>)>>
         \o [i \in 1..Len(SeqOf(PkgNames)) |-> Qn("npkg", SeqOf(PkgNames)[i])]
         \o [i \in 1..Len(SeqOf(PkgNames)) |-> Qn("rangepkg", SeqOf(PkgNames)[i])]
SnapT == LET tn == SeqOf(TypeNames)  xk == SeqOf(ExtKeys) IN
         [i \in 1..Len(tn) |-> Qn("findm", tn[i])] \o [i \in 1..Len(tn) |-> Qn("finde", tn[i])] \o [i \in 1..Len(tn) |-> Qn("findx", tn[i])]
         \o [i \in 1..Len(tn) |-> Q("url", 0, 0, tn[i], IF i % 3 = 0 THEN <<>> ELSE IF i % 3 = 1 THEN <<"type.googleapis.com">> ELSE <<"", "x.y", "">>, "", 0)]
         \o [i \in 1..Len(xk) |-> Q("findxn", 0, 0, xk[i][1], <<>>, "", xk[i][2])]
         \o [i \in 1..Len(xk) |-> Qn("nxm", xk[i][1])] \o [i \in 1..Len(xk) |-> Qn("rangexm", xk[i][1])]
         \o <<Qn("nm", <<>>), Qn("ne", <<>>), Qn("nx", <<>>), Qn("rangem", <<>>), Qn("rangee", <<>>), Qn("rangex", <<>>)>>

\* ---------------------------------------------------------------- the machine
VARIABLES mode, hist, st, regF, regT
view == <<mode, st.fs.paths, DOMAIN st.fs.tab, regF, regT>>

Init == mode \in {"f", "t"} /\ hist = <<>> /\ st = R0 /\ regF = {} /\ regT = {}

RegOp(p) == LET k == F[p[1]].decls[p[2]].k IN IF k = "msg" THEN "regm" ELSE IF k = "enum" THEN "rege" ELSE "regx"

Next ==
  \/ /\ mode = "f" /\ Len(hist) < MaxF
     /\ \E f \in FileIds :
          LET x == Q("regf", f, 0, <<>>, <<>>, "", 0)  a == Apply(F, st, x) IN
          /\ hist' = Append(hist, x) /\ st' = a.st
          /\ regF' = IF a.obs.r = "ok" THEN regF \cup {f} ELSE regF
     /\ UNCHANGED <<mode, regT>>
  \/ /\ mode = "t" /\ Len(hist) < MaxT
     /\ \E p \in TypeCands :
          LET x == Q(RegOp(p), p[1], p[2], <<>>, <<>>, "", 0)  a == Apply(F, st, x) IN
          /\ hist' = Append(hist, x) /\ st' = a.st
          /\ regT' = IF a.obs.r = "ok" THEN regT \cup {p} ELSE regT
     /\ UNCHANGED <<mode, regF>>

\* ---------------------------------------------------------------- laws
PoolWellFormed == \A f \in 1..Len(Pool) : WellFormedFile(Pool[f])

\* denotations over the ghost set of registered files
DeclsNamed(name) == {<<f, d>> \in UNION {{<<f, d>> : d \in Decls(F[f])} : f \in regF} : FullName(F[f], d) = name}
TopNamesD == UNION {{FullName(F[f], d) : d \in Tops(F[f])} : f \in regF}
PkgsD == UNION {Prefixes(F[f].pkg) : f \in regF}

\* every declaration of a registered file, and nothing else, is found by its full name
LookupExact ==
  \A name \in Universe :
    LET S == DeclsNamed(name) IN
    /\ Cardinality(S) <= 1
    /\ FindDescriptorByName(F, st.fs, name) = (IF S = {} THEN NotFound ELSE LET p == CHOOSE q \in S : TRUE IN Found(p[1], p[2]))

\* the table holds exactly the packages and top-level names of the registered files, never both for one name
TableExact ==
  /\ DOMAIN st.fs.tab = TopNamesD \cup PkgsD
  /\ TopNamesD \cap PkgsD = {}
  /\ \A nm \in DOMAIN st.fs.tab : (st.fs.tab[nm].k = "pkg") = (nm \in PkgsD)
  /\ Registered(st.fs) = regF /\ Len(st.fs.order) = Cardinality(regF)
  /\ st.fs.paths = {F[f].path : f \in regF}

\* registration succeeds iff it introduces no path, package-versus-declaration or declaration-name conflict
ConflictIff ==
  \A f \in FileIds :
    RegisterFile(F, st.fs, f).ok =
      /\ \A g \in regF : F[g].path # F[f].path
      /\ Prefixes(F[f].pkg) \cap TopNamesD = {}
      /\ {FullName(F[f], d) : d \in Tops(F[f])} \cap (TopNamesD \cup PkgsD) = {}

\* a failed registration changes nothing
FailedChangesNothing ==
  /\ \A f \in FileIds : LET r == RegisterFile(F, st.fs, f) IN ~r.ok => r.fs = st.fs
  /\ \A p \in TypeCands : LET r == RegisterType(F, st.ts, p[1], p[2]) IN ~r.ok => r.ts = st.ts

TypeNameOf(p) == FullName(F[p[1]], p[2])
ExtKeyOf(p) == <<F[p[1]].decls[p[2]].x, F[p[1]].decls[p[2]].num>>
IsExt(p) == F[p[1]].decls[p[2]].k = "ext"
TypesExact ==
  /\ DOMAIN st.ts.tn = {TypeNameOf(p) : p \in regT}
  /\ \A p, q \in regT : p # q => TypeNameOf(p) # TypeNameOf(q) /\ (IsExt(p) /\ IsExt(q) => ExtKeyOf(p) # ExtKeyOf(q))
  /\ \A p \in regT : st.ts.tn[TypeNameOf(p)] = <<KindOf(F[p[1]].decls[p[2]].k), p[1], p[2]>>
  /\ DOMAIN st.ts.xn = {ExtKeyOf(p) : p \in {q \in regT : IsExt(q)}}
  /\ \A p \in TypeCands :
       RegisterType(F, st.ts, p[1], p[2]).ok =
         /\ \A q \in regT : TypeNameOf(q) # TypeNameOf(p)
         /\ (IsExt(p) => \A q \in regT : IsExt(q) => ExtKeyOf(q) # ExtKeyOf(p))
  /\ Cardinality(TypesOfKind(st.ts, "message")) + Cardinality(TypesOfKind(st.ts, "enum")) + Cardinality(TypesOfKind(st.ts, "extension"))
       = Cardinality(regT)

Emit == LET snap == IF mode = "f" THEN SnapF ELSE SnapT
            h == hist' \o snap
        IN PrintT("@@" \o ToJson([files |-> F, steps |-> h, exp |-> Expect([files |-> F, steps |-> h])]))
=============================================================================
