-------------------------- MODULE MC_DelimReader --------------------------
(***************************************************************************)
(* C27, reader independence.  An operational model of one UnmarshalFrom    *)
(* call talking to a Reader:                                               *)
(*                                                                         *)
(*   size phase : ReadByte until a byte < 0x80, ten bytes, or io.EOF       *)
(*                (io.EOF before the first byte is the clean end);         *)
(*   body phase : either bufio's Peek(size)+Discard (only when the bytes   *)
(*                are there) or io.ReadFull, where every Read call may     *)
(*                deliver ANY chunk of 1..K bytes of what is left.         *)
(*                                                                         *)
(* TLC explores every chunking of every stream of the model and checks     *)
(* that the result, the bytes delivered and the number of bytes consumed   *)
(* are exactly those of the denotation Delim!Frame, which does not mention *)
(* the reader at all: "any conforming Reader" in the property statement.   *)
(***************************************************************************)
EXTENDS Delim, FiniteSets

CONSTANTS K            \* largest chunk a Read call returns

Pay == {0, 1, 2}
Msgs == {FrameOf(Payload(n, 3)) : n \in Pay}
Whole == Msgs \cup {a \o b : a, b \in Msgs}
         \cup {<<128>>, <<128, 0>>, <<130, 0, 7, 7>>, <<3, 1>>, <<255, 255, 255, 255, 255, 255, 255, 255, 255, 1>>,
               <<255, 255, 255, 255, 255, 255, 255, 255, 255, 2>>, <<128, 128, 128, 128, 128, 128, 128, 128, 128, 128, 1>>}
Streams == UNION {{SubSeq(w, 1, c) : c \in 0..Len(w)} : w \in Whole}
Maxes == {MinusOne8, Zeros(8), FromNat8(1), FromNat8(2), FromNat8(4), FromNat8(5)}

VARIABLES s, pos0, max, pos, phase, hdr, need, buf, res

Init == /\ s \in Streams /\ max \in Maxes
        /\ pos0 \in 0..Len(s) /\ pos = pos0
        /\ phase = "size" /\ hdr = <<>> /\ need = 0 /\ buf = <<>> /\ res = "none"

Finish(r) == res' = r /\ phase' = "done"

ReadByte ==
  /\ phase = "size"
  /\ IF pos < Len(s)
     THEN LET b == s[pos + 1] IN
          /\ pos' = pos + 1 /\ hdr' = Append(hdr, b)
          /\ phase' = IF b < 128 \/ Len(hdr) = 9 THEN "check" ELSE "size"
          /\ UNCHANGED <<need, buf, res>>
     ELSE IF Len(hdr) = 0 THEN Finish("eof") /\ UNCHANGED <<pos, hdr, need, buf>>
          ELSE phase' = "check" /\ UNCHANGED <<pos, hdr, need, buf, res>>

Check ==
  /\ phase = "check"
  /\ LET d == DecVarint(hdr, 1) IN
     IF d.n = ErrTruncated THEN Finish("ueof") /\ UNCHANGED need
     ELSE IF d.n < 0 THEN Finish("other") /\ UNCHANGED need
     ELSE IF CmpU(d.v, EffMax(max)) > 0 THEN Finish("toolarge") /\ UNCHANGED need
     ELSE IF ToNat(d.v) < 0 THEN Finish("ueof") /\ UNCHANGED need      \* cannot be satisfied by any stream of the model
     ELSE need' = ToNat(d.v) /\ phase' = "body" /\ UNCHANGED res
  /\ UNCHANGED <<pos, hdr, buf>>

\* bufio.Reader.Peek(size) succeeded: the body is handed over in one piece and discarded afterwards
Peek ==
  /\ phase = "body" /\ buf = <<>> /\ Len(s) - pos >= need
  /\ buf' = SubSeq(s, pos + 1, pos + need) /\ pos' = pos + need
  /\ Finish("ok") /\ UNCHANGED <<hdr, need>>

\* io.ReadFull: one Read call per step
ReadChunk ==
  /\ phase = "body"
  /\ IF Len(buf) = need THEN Finish("ok") /\ UNCHANGED <<pos, buf>>
     ELSE IF pos = Len(s) THEN Finish("ueof") /\ UNCHANGED <<pos, buf>>     \* io.EOF -> io.ErrUnexpectedEOF either way
     ELSE \E c \in 1..K :
            /\ c <= need - Len(buf) /\ c <= Len(s) - pos
            /\ buf' = buf \o SubSeq(s, pos + 1, pos + c) /\ pos' = pos + c
            /\ UNCHANGED <<phase, res>>
  /\ UNCHANGED <<hdr, need>>

Next == (ReadByte \/ Check \/ Peek \/ ReadChunk) /\ UNCHANGED <<s, pos0, max>>

\* ---------------------------------------------------------------- laws
ReaderIndependent ==
  phase = "done" =>
    LET f == Frame(s, pos0, max) IN
    /\ res = f.r
    /\ (res = "ok" => buf = f.body /\ pos = pos0 + f.hn + Len(f.body))
    /\ (res = "eof" => pos = pos0)
    /\ (res = "toolarge" => pos = pos0 + f.hn)
\* the call never reads past the frame it returns
NoOverread ==
  LET f == Frame(s, pos0, max) IN f.r = "ok" => pos <= pos0 + f.hn + Len(f.body)
Terminates == phase = "done" \/ ENABLED Next
=============================================================================
