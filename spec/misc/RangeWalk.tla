----------------------------- MODULE RangeWalk -----------------------------
(***************************************************************************)
(* protorange.Range (C32): depth-first traversal of a message value with   *)
(* push/pop callbacks and the control values Break / Terminate / error.    *)
(*                                                                         *)
(* A message value is abstracted to a TREE OF STEPS, a sequence T of nodes *)
(*   [p |-> parent index (0 for node 1, the Root step),                    *)
(*    s |-> "root" | "field" | "index" | "key" | "any" | "unknown",        *)
(*    f |-> sort key: <<field number>>, <<list index>>, map key (<<int>>,  *)
(*          <<0|1>> for bool, the bytes of a string), <<>> otherwise,      *)
(*    c |-> class of the value the step leads to:                          *)
(*          "msg" (children: populated fields, then the unknown set),      *)
(*          "anymsg" (a resolvable Any: its one child is the AnyExpand     *)
(*          step), "list", "map", "leaf",                                  *)
(*    t |-> message type tag (harness use), v |-> code of a leaf value].   *)
(* Nodes may come in any order; the specification orders siblings itself:  *)
(* fields by number, list elements by index, map keys false<true / numeric *)
(* / lexicographic, the unknown step last.                                 *)
(*                                                                         *)
(* Two definitions of the traversal are given and checked equal by TLC:    *)
(*   Walk(T, ctl)            denotational, recursive (Stable order);       *)
(*   Accept(T, ctl, st, w)   an explicit-stack automaton consuming a       *)
(*                           recorded walk event by event; with st = FALSE *)
(*                           it admits every sibling order of fields and   *)
(*                           map entries (Options.Stable = false).         *)
(*                                                                         *)
(* A walk is a sequence of integers: i = push of node i, -i = pop.         *)
(* ctl is a sequence of <<k, code>>: the k-th callback invocation (pushes  *)
(* and pops counted together, from 1) returns code 1 = Break,              *)
(* 2 = Terminate, >= 3 = an ordinary error; every other callback returns   *)
(* nil.  Control semantics as implemented (and confirmed by range_test.go):*)
(* a non-nil state skips the children of the step just pushed, ends the    *)
(* loop over the remaining siblings and suppresses the unknown step; Break *)
(* is consumed where the enclosing composite ends; errors combine by       *)
(*      nil < Break < Terminate < earlier error < later error;             *)
(* Range returns nil for Break/Terminate and the error otherwise.          *)
(***************************************************************************)
EXTENDS Integers, Sequences, FiniteSets, TLC

Break == 1
Terminate == 2

Amend(prev, cur) ==
  IF cur = 0 THEN prev
  ELSE IF cur = Break /\ prev # 0 THEN prev
  ELSE IF cur = Terminate /\ prev # 0 /\ prev # Break THEN prev
  ELSE cur

CtlAt(ctl, k) == IF \E x \in 1..Len(ctl) : ctl[x][1] = k
                 THEN ctl[CHOOSE x \in 1..Len(ctl) : ctl[x][1] = k][2] ELSE 0
Ret(err) == IF err \in {Break, Terminate} THEN 0 ELSE err

\* ---------------------------------------------------------------- trees
Nodes(T) == 1..Len(T)
Kids(T, i) == {j \in Nodes(T) : T[j].p = i}

RECURSIVE LexLess(_, _, _)
LexLess(a, b, i) ==
  IF i > Len(a) THEN i <= Len(b)
  ELSE IF i > Len(b) THEN FALSE
  ELSE IF a[i] # b[i] THEN a[i] < b[i]
  ELSE LexLess(a, b, i + 1)
Rank(T, j) == IF T[j].s = "unknown" THEN 1 ELSE 0
Less(T, a, b) == Rank(T, a) < Rank(T, b) \/ (Rank(T, a) = Rank(T, b) /\ LexLess(T[a].f, T[b].f, 1))

RECURSIVE SortSet(_, _)
SortSet(T, S) == IF S = {} THEN <<>>
                 ELSE LET m == CHOOSE x \in S : \A y \in S \ {x} : Less(T, x, y) IN <<m>> \o SortSet(T, S \ {m})
KidsMap(T) == [i \in Nodes(T) |-> SortSet(T, Kids(T, i))]

RECURSIVE Reaches(_, _, _)
Reaches(T, x, fuel) == IF x = 1 THEN TRUE ELSE IF fuel = 0 THEN FALSE ELSE Reaches(T, T[x].p, fuel - 1)

\* shape rules of a tree of steps
WellFormed(T) ==
  /\ Len(T) >= 1 /\ T[1].p = 0 /\ T[1].s = "root" /\ T[1].c \in {"msg", "anymsg"}
  /\ \A j \in Nodes(T) \ {1} :
       /\ T[j].p \in Nodes(T) /\ T[j].s # "root"
       /\ LET q == T[T[j].p] IN
          CASE q.c = "msg"    -> T[j].s \in {"field", "unknown"}
            [] q.c = "anymsg" -> T[j].s = "any" /\ T[j].c \in {"msg", "anymsg"}
            [] q.c = "list"   -> T[j].s = "index" /\ T[j].c \in {"leaf", "msg", "anymsg"}
            [] q.c = "map"    -> T[j].s = "key" /\ T[j].c \in {"leaf", "msg", "anymsg"}
            [] OTHER          -> FALSE
       /\ (T[j].s = "unknown" => T[j].c = "leaf")
       /\ (T[j].c \in {"list", "map"} => T[j].s = "field")
  /\ \A i \in Nodes(T) :
       LET ks == Kids(T, i) IN
       /\ \A a, b \in ks : a # b => (Less(T, a, b) \/ Less(T, b, a))        \* siblings are distinguishable
       /\ (T[i].c = "anymsg" => Cardinality(ks) = 1)
       /\ (T[i].c \in {"list", "map"} => ks # {})                           \* an empty list or map is not populated
       /\ (T[i].c = "list" => {T[j].f : j \in ks} = {<<x>> : x \in 0..(Cardinality(ks) - 1)})
  /\ \A j \in Nodes(T) : Reaches(T, j, Len(T))                               \* no cycles

\* the value code the visit of node i must show: the leaf's value, or the number of children of a composite
ValOf(T, i) == IF T[i].c = "leaf" THEN T[i].v ELSE Cardinality(Kids(T, i))

\* ---------------------------------------------------------------- denotational traversal (Stable order)
\* cb = 0: push and pop callbacks (Options.Range); 1: push only (the function protorange.Range); 2: pop only.
\* A missing callback is neither recorded nor counted, and returns nothing.
Cb(st, ev, ctl, cb) ==
  IF (ev > 0 /\ cb = 2) \/ (ev < 0 /\ cb = 1) THEN st
  ELSE [w |-> Append(st.w, ev), err |-> Amend(st.err, CtlAt(ctl, Len(st.w) + 1))]

RECURSIVE Visit(_, _, _, _, _), Loop(_, _, _, _, _, _)
Visit(K, ctl, cb, i, st) ==
  LET a == Cb(st, i, ctl, cb)
      b == IF a.err # 0 THEN a
           ELSE LET r == Loop(K, ctl, cb, K[i], 1, a) IN [r EXCEPT !.err = IF @ = Break THEN 0 ELSE @]
  IN Cb(b, -i, ctl, cb)
Loop(K, ctl, cb, ks, j, st) ==
  IF j > Len(ks) \/ st.err # 0 THEN st ELSE Loop(K, ctl, cb, ks, j + 1, Visit(K, ctl, cb, ks[j], st))

WalkCb(T, ctl, cb) ==
  LET r == Visit(KidsMap(T), ctl, cb, 1, [w |-> <<>>, err |-> 0]) IN [walk |-> r.w, ret |-> Ret(r.err)]
Walk(T, ctl) == WalkCb(T, ctl, 0)

Pushes(w) == SelectSeq(w, LAMBDA x : x > 0)
ValsOf(T, w) == LET p == Pushes(w) IN [k \in 1..Len(p) |-> ValOf(T, p[k])]

\* ---------------------------------------------------------------- operational acceptor
\* frame [id, entered (the children loop of id runs), done (children already visited)]
A0 == [stack |-> <<>>, err |-> 0, n |-> 0, ok |-> TRUE, started |-> FALSE]

MayPush(T, stable, top, j) ==
  LET rest == {x \in Kids(T, top.id) : x \notin top.done} IN
  /\ j \in rest
  /\ IF stable \/ T[top.id].c = "list"
     THEN \A y \in rest \ {j} : Less(T, j, y)
     ELSE T[j].s = "unknown" => rest = {j}

AStep(T, ctl, stable, a, ev) ==
  IF ~a.ok THEN a
  ELSE LET d == Len(a.stack)  c == CtlAt(ctl, a.n + 1) IN
    IF ev > 0 THEN
      IF d = 0 THEN
        IF a.started \/ ev # 1 THEN [a EXCEPT !.ok = FALSE]
        ELSE [a EXCEPT !.stack = <<[id |-> 1, entered |-> c = 0, done |-> {}]>>, !.err = c, !.n = 1, !.started = TRUE]
      ELSE LET top == a.stack[d] IN
        IF ~(top.entered /\ a.err = 0 /\ ev \in Nodes(T) /\ MayPush(T, stable, top, ev)) THEN [a EXCEPT !.ok = FALSE]
        ELSE [a EXCEPT !.stack = Append([@ EXCEPT ![d].done = @ \cup {ev}], [id |-> ev, entered |-> c = 0, done |-> {}]),
                       !.err = c, !.n = @ + 1]
    ELSE
      IF d = 0 THEN [a EXCEPT !.ok = FALSE]
      ELSE LET top == a.stack[d] IN
        IF top.id # -ev THEN [a EXCEPT !.ok = FALSE]
        \* a step may only be popped early when something stopped the loop over its children
        ELSE IF top.entered /\ a.err = 0 /\ top.done # Kids(T, top.id) THEN [a EXCEPT !.ok = FALSE]
        ELSE LET e0 == IF top.entered /\ a.err = Break THEN 0 ELSE a.err IN
             [a EXCEPT !.stack = SubSeq(@, 1, d - 1), !.err = Amend(e0, c), !.n = @ + 1]

RECURSIVE ARun(_, _, _, _, _, _)
ARun(T, ctl, stable, a, w, i) ==
  IF i > Len(w) THEN a ELSE ARun(T, ctl, stable, AStep(T, ctl, stable, a, w[i]), w, i + 1)

\* [ok, ret]: is w a complete traversal of T under ctl, and what does Range return
Accept(T, ctl, stable, w) ==
  LET a == ARun(T, ctl, stable, A0, w, 1) IN
  [ok |-> a.ok /\ a.started /\ a.stack = <<>>, ret |-> Ret(a.err)]

\* ---------------------------------------------------------------- what one case must show
\* case {tree | (out.tree), ctl, stable, cb}; out {walk, vals, ret, ok, valid, npush, nev, ids}
\*   ok    = 1: at every callback Path and Values had one entry per open step, the path was the stack of open steps,
\*              and every value equalled the result of applying its step to the value before it (computed by the harness
\*              with Get / List.Get / Map.Get / GetUnknown / Unmarshal of the Any)
\*   valid = 1: constant; the specification decides whether the recorded walk is a traversal
\*   ids      : the nodes of the recorded events, ascending
TreeOf(e) == IF "tree" \in DOMAIN e THEN e.tree ELSE e.out.tree
Abs(x) == IF x < 0 THEN -x ELSE x

Expect(e) ==
  LET T == TreeOf(e) IN
  IF e.stable = 1 THEN
    LET r == WalkCb(T, e.ctl, e.cb) IN [walk |-> r.walk, vals |-> ValsOf(T, r.walk), ret |-> r.ret, ok |-> 1]
  ELSE IF "out" \in DOMAIN e /\ e.cb = 0 THEN
    LET a == Accept(T, e.ctl, FALSE, e.out.walk) IN
    [valid |-> IF a.ok /\ WellFormed(T) THEN 1 ELSE 0, vals |-> ValsOf(T, e.out.walk), ret |-> a.ret, ok |-> 1]
  ELSE \* unstable order, stated in advance (tour) or with one kind of callback only: what does not depend on the order;
       \* such cases carry no control values
    LET r == WalkCb(T, <<>>, e.cb) IN
    [npush |-> Len(Pushes(r.walk)), nev |-> Len(r.walk), ret |-> 0, ok |-> 1, ids |-> [k \in 1..Len(T) |-> k]]
=============================================================================
