---------------------------- MODULE Trace_Registry ----------------------------
(***************************************************************************)
(* Trace validation for protoregistry (C33).  Every event is one history   *)
(* on a fresh local Files and a fresh local Types registry over 2-5        *)
(* randomly generated files (overlapping paths, packages, names, extension *)
(* numbers; nested declarations of every kind): registrations interleaved  *)
(* with lookups by name, path, URL and extension number, counts and        *)
(* ranges.  Each observation must equal RegistryTable!Expect.              *)
(***************************************************************************)
EXTENDS RegistryTable, Json, IOUtils

Trace == ndJsonDeserialize(IOEnv.TRACE)

VARIABLES l, bad
Agree(e) == LET x == Expect(e) IN \A k \in DOMAIN x : k \in DOMAIN e.out /\ e.out[k] = x[k]
Init == l = 1 /\ bad = <<>>
Next == /\ l <= Len(Trace)
        /\ bad' = IF Agree(Trace[l]) THEN bad ELSE Append(bad, l)
        /\ l' = l + 1
        /\ TLCSet(1, <<l + 1, bad'>>)
Accepted == LET r == TLCGet(1) IN
            /\ PrintT("TRACE-RESULT " \o ToJson([done |-> r[1] - 1, total |-> Len(Trace), bad |-> r[2]]))
            /\ r[1] = Len(Trace) + 1
=============================================================================
