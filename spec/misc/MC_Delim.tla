----------------------------- MODULE MC_Delim -----------------------------
(***************************************************************************)
(* C27: bounded state machine over stream histories.                       *)
(*                                                                         *)
(*   phase "w": MarshalTo of up to MaxMsgs messages whose body lengths sit *)
(*              on the boundaries of the size varint;                      *)
(*   then optionally one raw tail (hand-made size headers: non-minimal,    *)
(*              overflowing, larger than 4 MiB / 2^31 / MaxInt64);         *)
(*   then optionally Truncate(at) at every point of a short stream and at  *)
(*              every point within 2 bytes of a header/frame boundary of a *)
(*              long one;                                                  *)
(*   then UnmarshalFrom with MaxSize in {-1, 0, size-1, size, size+1}      *)
(*              until the first error or the second io.EOF.                *)
(*                                                                         *)
(* TLC checks the laws below on every reachable state (they are stated     *)
(* independently of Frame: through the lengths of the written frames and   *)
(* through integer instead of byte-vector comparison) and emits every      *)
(* transition as a whole history, once per reader implementation.          *)
(***************************************************************************)
EXTENDS Delim, Json, FiniteSets

CONSTANTS Tier          \* "quick" | "thorough"

Sizes(k) == IF Tier = "quick" THEN {0, 1, 125, 126, 300}                        \* payload lengths of the k-th message
            ELSE IF k <= 2 THEN {0, 1, 2, 125, 126, 127, 300, 16380, 16381} ELSE {0, 126}
MaxMsgs == IF Tier = "quick" THEN 2 ELSE 3
SmallAll == IF Tier = "quick" THEN 12 ELSE 40
RawAfter == IF Tier = "quick" THEN 1 ELSE 2       \* raw tails follow at most this many written messages

Raws == { <<128>>, <<128, 128>>,                          \* truncated inside the size
          <<128, 0>>, <<129, 128, 0>>,                    \* non-minimal sizes 0 and 1 (the latter without its body)
          <<5, 10, 3, 1>>,                                \* size 5, two bytes short
          <<128, 128, 128, 2>>, <<129, 128, 128, 2>>,     \* 4 MiB (the default limit) and 4 MiB + 1, no body
          <<128, 128, 128, 128, 16>>,                     \* 2^32
          <<128, 128, 128, 128, 128, 128, 128, 128, 128, 1>>,   \* 2^63 = MaxInt64 + 1
          <<255, 255, 255, 255, 255, 255, 255, 255, 255, 1>>,   \* 2^64 - 1
          <<255, 255, 255, 255, 255, 255, 255, 255, 255, 2>>,   \* overflow
          <<128, 128, 128, 128, 128, 128, 128, 128, 128, 128, 1>> }  \* eleven bytes

R(kind, k) == [kind |-> kind, k |-> k]
Readers == IF Tier = "quick"
           THEN <<R("bufio", 16), R("bufio", 4096), R("bufioerr", 64), R("byte", 1), R("full", 0), R("dataerr", 0)>>
           ELSE <<R("bufio", 16), R("bufio", 4096), R("bufioerr", 64), R("byte", 1), R("full", 0), R("dataerr", 0),
                  R("bufio1", 16), R("bufio", 17), R("bufio", 128), R("bufio", 131), R("chunk", 2), R("chunk", 7), R("bufio", 65536)>>
\* the quick tier runs every history through every reader; the thorough tier rotates a third of its larger reader set
\* over its much larger set of histories
ReadersFor(h) == IF Tier = "quick" THEN {Readers[i] : i \in 1..Len(Readers)}
                 ELSE {Readers[i] : i \in {x \in 1..Len(Readers) : (x + h) % 3 = 0}}

VARIABLES steps, st, phase, eofs
view == <<st, phase, eofs>>

Step(op, a, b, v) == [op |-> op, a |-> a, b |-> b, v |-> v]
Fill(i) == (37 * i + 3) % 256

CutPoints == {x \in 0..(Len(st.s) - 1) :
                Len(st.s) <= SmallAll \/ \E j \in 1..Len(st.marks) : x - st.marks[j] \in {-2, -1, 0, 1}}

MaxChoices ==
  LET f == Frame(st.s, st.pos, MinusOne8) IN
  IF f.hn = 0 THEN {Zeros(8)}
  ELSE LET m == ToNat(f.size) IN
       IF m < 0 THEN {Zeros(8), FromNat8(1000)} \cup (IF f.r = "toolarge" THEN {MinusOne8} ELSE {})
       ELSE LET accepting == <<MinusOne8, Zeros(8), FromNat8(m + 1)>> IN
            \* the quick tier rotates through the three limits that cannot matter instead of branching on them
            (IF Tier = "quick" THEN {accepting[((st.k + Len(st.s)) % 3) + 1]} ELSE {MinusOne8, Zeros(8), FromNat8(m + 1)})
            \cup {FromNat8(m)} \cup (IF m >= 1 THEN {FromNat8(m - 1)} ELSE {})

Init == steps = <<>> /\ st = St0 /\ phase = "w" /\ eofs = 0

Do(x) == steps' = Append(steps, x) /\ st' = Apply(st, x).st

Next ==
  \/ /\ phase = "w" /\ Len(st.wr) < MaxMsgs
     /\ \E n \in Sizes(Len(st.wr) + 1) : Do(Step("w", n, Fill(Len(st.wr)), <<>>))
     /\ UNCHANGED <<phase, eofs>>
  \/ /\ phase = "w" /\ Len(st.wr) <= RawAfter
     /\ \E b \in Raws : Do(Step("raw", 0, 0, b))
     /\ phase' = "c" /\ UNCHANGED eofs
  \/ /\ phase \in {"w", "c"}
     /\ \E at \in CutPoints : Do(Step("t", at, 0, <<>>))
     /\ phase' = "r" /\ UNCHANGED eofs
  \/ /\ st.live /\ eofs < 2
     /\ \E mx \in MaxChoices : Do(Step("r", 0, 0, mx))
     /\ phase' = "r"
     /\ eofs' = IF st'.live /\ st'.pos = st.pos THEN eofs + 1 ELSE eofs

\* ---------------------------------------------------------------- laws
\* read everything without a limit: the message identities in order and how the stream ends
RECURSIVE ReadAll(_, _, _)
ReadAll(s, pos, acc) ==
  LET f == Frame(s, pos, MinusOne8) IN
  IF f.r = "ok" THEN ReadAll(s, pos + f.hn + Len(f.body), Append(acc, BodyId(f.body)))
  ELSE [ids |-> acc, end |-> f.r]

\* end offsets of the written frames, from the lengths alone
FrameLen(id) == LET bl == IF id[1] = 0 THEN 0 ELSE 1 + Len(SizeHdr(id[1])) + id[1] IN Len(SizeHdr(bl)) + bl
RECURSIVE EndsFrom(_, _, _)
EndsFrom(wr, i, off) == IF i > Len(wr) THEN <<>> ELSE <<off + FrameLen(wr[i])>> \o EndsFrom(wr, i + 1, off + FrameLen(wr[i]))
Ends == EndsFrom(st.wr, 1, 0)
EndSet == {0} \cup {Ends[j] : j \in 1..Len(Ends)}

LawCuts == IF Len(st.s) <= 700 THEN 0..Len(st.s)
           ELSE {x \in 0..Len(st.s) : \E j \in 1..Len(st.marks) : x - st.marks[j] \in {-2, -1, 0, 1}}

\* (1) what MarshalTo wrote is read back in order; every truncation yields the complete frames before the cut,
\*     then io.EOF exactly if the cut is a frame boundary and io.ErrUnexpectedEOF otherwise
FramingExact ==
  phase = "w" =>
    /\ Len(st.s) = (IF Len(Ends) = 0 THEN 0 ELSE Ends[Len(Ends)])
    /\ \A cut \in LawCuts :
         LET r == ReadAll(SubSeq(st.s, 1, cut), 0, <<>>)
             nfull == Cardinality({j \in 1..Len(Ends) : Ends[j] <= cut})
         IN /\ r.ids = SubSeq(st.wr, 1, nfull)
            /\ r.end = (IF cut \in EndSet THEN "eof" ELSE "ueof")

\* (2) SizeTooLargeError iff size > effective MaxSize, with plain integer comparison
NatMax(mx) == IF IsZeros(mx) THEN 4194304 ELSE ToNat(mx)      \* -1 / huge: ToNat = -1, meaning "no limit below 2^31"
TooLargeIff ==
  LET f == Frame(st.s, st.pos, MinusOne8)  m == ToNat(f.size) IN
  (st.live /\ f.hn > 0 /\ m >= 0) =>
     \A mx \in MaxChoices :
        (Frame(st.s, st.pos, mx).r = "toolarge") = (NatMax(mx) >= 0 /\ m > NatMax(mx))

\* (3) while reading what MarshalTo wrote the position is always a frame boundary, and k frames have been read
PosOnBoundary ==
  (st.live /\ Len(Ends) > 0 /\ st.pos <= Ends[Len(Ends)] /\ st.k <= Len(Ends)) =>
     st.pos = (IF st.k = 0 THEN 0 ELSE Ends[st.k])

\* (4) a failed read is final; the abstract state never moves backwards
Monotone == st.pos <= Len(st.s) /\ st.k <= Len(steps)

\* only histories ending in a read are emitted: every other history is a prefix of one of them
Emit == steps'[Len(steps')].op = "r" =>
        \A rd \in ReadersFor(Len(steps') + st'.pos + Len(st'.s)) :
          PrintT("@@" \o ToJson([steps |-> steps', rd |-> rd, exp |-> Expect([steps |-> steps'])]))
=============================================================================
