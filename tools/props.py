"""Per-property pipelines.  Each takes (res, tier, seed) and fills res (see vlib.Result)."""
import json, os
import vlib
from vlib import tlc, build_harness, replay_tour, drive_and_validate, scratch

CHECKS = {}


def check(prop, level="model_checking"):
    def deco(fn):
        CHECKS[prop] = (fn, level)
        return fn
    return deco


def replay(prop, path):
    """Re-execute exactly the failing case stored in a violation file on freshly built code."""
    v = json.load(open(path))
    case = v["case"]
    mod = case.get("_module") or MODULE_OF[prop]
    b = build_harness(HARNESS_PKGS.get(prop, (mod,)), tags=case.get("_tags", "verif"))
    tp = os.path.join(scratch(), "replay.ndjson")
    c = {k: x for k, x in case.items() if k not in ("out", "diff") and not k.startswith("_")}
    with open(tp, "w") as fh:
        fh.write(json.dumps(c) + "\n")
    vlib.harness(b, ["exec", mod, tp, tp + ".out"], env=case.get("_env"))
    ev = next(vlib.read_ndjson(tp + ".out"))
    print(json.dumps(dict(exp=ev.get("exp"), out=ev.get("out"), diff=ev.get("diff")), indent=1)[:6000])
    bad = bool(ev.get("diff"))
    if "exp" not in ev and case.get("_trace"):
        # some trace modules need constants from the harness (the schema exported from the real descriptors)
        tenv = TRACE_ENV[case["_trace"]](b, case) if case["_trace"] in TRACE_ENV else None
        _, rej = vlib.validate_trace(case["_trace"], tp + ".out", shards=1, env=tenv)
        bad = bool(rej)
    if bad:
        print("VIOLATION property=%s replay=%s" % (prop, path))
        return 1
    print("replay: the real code now agrees with the specification on this case")
    return 0


TRACE_ENV = {}      # trace module -> f(binary, case) -> environment for its TLC run (for --replay)
MODULE_OF = {}      # property -> default harness module name (for --replay)
HARNESS_PKGS = {}   # property -> harness packages to link


def cfg(consts=None, invariants=(), props=(), emit=None, view=None, deadlock=False, constraint=None, spec=None):
    s = ("SPECIFICATION %s\n" % spec) if spec else "INIT Init\nNEXT Next\n"
    for k, v in (consts or {}).items():
        s += "CONSTANT %s = %s\n" % (k, v)
    for i in invariants:
        s += "INVARIANT %s\n" % i
    for p in props:
        s += "PROPERTY %s\n" % p
    if emit:
        s += "ACTION_CONSTRAINT %s\n" % emit
    if constraint:
        s += "CONSTRAINT %s\n" % constraint
    if view:
        s += "VIEW %s\n" % view
    s += "CHECK_DEADLOCK %s\n" % ("TRUE" if deadlock else "FALSE")
    return s


# ============================================================================ C01, C02: wire
MODULE_OF.update(C01="wire", C02="wire")


@check("C01")
def c01(res, tier, seed):
    b = build_harness(("wire",))
    tour = os.path.join(scratch(), "c01.tour")
    r = tlc("MC_PbWire", cfg({"Tier": '"%s"' % tier}, invariants=["Laws"], emit="Emit"), emit_to=tour)
    res.add_tlc(r, "boundary domain of every primitive; laws: round trip, exact size, shortest form, bijectivity")
    res.exhaustive = True
    replay_tour(res, b, "wire", tour, key=lambda e: [e["op"], len(e["exp"].get("enc", []))])
    n = 6000 if tier == "quick" else 300000
    drive_and_validate(res, b, "wire", "Trace_PbWire", seed, n,
                       key=lambda e: [e["op"], len(e["out"].get("enc", [])), e["out"].get("n", 0) if e["out"].get("n", 0) < 0 else 0])
    res.rule = ("tour: TLC enumerates every bit length 0..64 +-1, patterns, field-number boundaries x 8 wire types, byte strings "
                "and group bodies, emitting the specification's encoding; distinct = (primitive, encoded length) classes; "
                "driver: uniform-bit-length random values validated by Trace_PbWire")


@check("C02")
def c02(res, tier, seed):
    b = build_harness(("wire",))
    tour = os.path.join(scratch(), "c02.tour")
    maxlen = 4 if tier == "quick" else 5
    alpha = "{0,1,2,8,9,10,11,12,13,14,15,19,20,127,128,255}"
    r = tlc("MC_PbWireGrammar", cfg({"Alphabet": alpha, "MaxLen": maxlen, "NestLimits": "{0,1,2,3,4}", "NestDepths": "{1,2,3,4,5,6,7}"},
                                    invariants=["Bounded", "TwoDefinitionsAgree", "PrefixClosed", "NestLemmaOnce"], emit="EmitAll"),
            emit_to=tour, timeout=3000)
    res.add_tlc(r, "all strings <= %d over the 16-symbol wire alphabet; denotational grammar = streaming automaton; nesting lemma" % maxlen)
    res.exhaustive = True
    replay_tour(res, b, "wire", tour, key=lambda e: [e["op"], e["exp"].get("n", 0) if e["exp"].get("n", 0) < 0 else "ok"])
    n = 6000 if tier == "quick" else 300000
    drive_and_validate(res, b, "wire", "Trace_PbWire", seed + 1000, n,
                       key=lambda e: [e["op"], e["out"].get("n", 0) if e["out"].get("n", 0) < 0 else "ok", len(e.get("b", [])) // 8])
    res.rule = ("tour: every byte string up to the bound over a corner alphabet, 5 parsing entry points each, with the "
                "specification's length/error verdict; distinct = (entry point, verdict class); driver: structure-aware random "
                "fields + 7 mutation operators, <= 64 bytes, validated by Trace_PbWire")


# ---------------------------------------------------------------------------- other families
import glob as _glob, importlib as _importlib
for _p in sorted(_glob.glob(os.path.join(os.path.dirname(os.path.abspath(__file__)), "props_*.py"))):
    try:
        _importlib.import_module(os.path.basename(_p)[:-3])
    except Exception as _e:   # a broken family file must not take the other families' checks down
        import sys as _sys
        print("[verif] WARNING: cannot load %s: %r" % (_p, _e), file=_sys.stderr)
