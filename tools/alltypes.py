#!/usr/bin/env python3
"""Exploration helper (not a registered check): drive seeded histories over EVERY message type linked into the msg harness
(generated + dynamicpb) and validate them with Trace_PbObject.   usage: alltypes.py [seed] [histories-per-chunk] [chunk-size] [mix]"""
import json, os, sys
sys.path.insert(0, os.path.dirname(os.path.abspath(__file__)))
import vlib, props, props_msg
seed = int(sys.argv[1]) if len(sys.argv) > 1 else 1
n = int(sys.argv[2]) if len(sys.argv) > 2 else 400
cs = int(sys.argv[3]) if len(sys.argv) > 3 else 20
mix = sys.argv[4] if len(sys.argv) > 4 else "mut=10,marshal=3,unmarshal=4,rt=4,merge=2,umerge=1,cat=1,clone=1,equal=1,checkinit=2,size=2,reset=1"
b = vlib.build_harness(props_msg.PKG)
ts = props_msg.all_types(b)
if os.environ.get("ONLY_TYPES"):
    ts = [t for t in ts if any(x in t for x in os.environ["ONLY_TYPES"].split(","))]
    print(ts)
os.environ["VERIF_MIX"] = mix
only = int(os.environ.get("ONLY_CHUNK", "-1"))
for i in range(0, len(ts), cs):
    if only >= 0 and i != only:
        continue
    chunk = ts[i:i + cs]
    types = chunk + [t + ":dyn" for t in chunk]
    res = vlib.Result("C03", "quick", seed)
    try:
        total, bad = props_msg.drive_hist(res, b, seed, n, types=types, shards=4, label="all-%d" % i)
        print("CHUNK %d %s..: %d histories, %d rejected" % (i, chunk[0], total, len(bad)), flush=True)
        for k, f in enumerate(res.failures):
            c = f[0]
            print("  REJECTED", c.get("type"), c.get("dyn"), json.dumps(c.get("steps"))[:900], flush=True)
            with open(os.path.join(os.environ.get("VERIF_TMP", "/tmp"), "all-rej-%d-%d.json" % (i, k)), "w") as fh:
                json.dump(c, fh)
    except vlib.Infra as e:
        print("CHUNK %d INFRA %s" % (i, str(e)[:600]), flush=True)
