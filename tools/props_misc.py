"""Family misc: C27 (protodelim framing), C32 (protorange traversal), C33 (protoregistry name table)."""
import os
import vlib
from props import check, cfg, MODULE_OF, HARNESS_PKGS
from vlib import tlc, build_harness, replay_tour, drive_and_validate, scratch

MODULE_OF.update(C27="delim", C32="rangewalk", C33="registry")
HARNESS_PKGS.update(C27=("misc",), C32=("misc",), C33=("misc",))


def _tier(tier):
    return {"Tier": '"%s"' % tier}


# ============================================================================ C27: protodelim
def _delim_key(e):
    """class of a history: reader kind, the step kinds and the result of every read"""
    obs = (e.get("exp") or e.get("out") or {}).get("obs", [])
    ops = [s["op"] for s in e["steps"]]
    return [e["rd"]["kind"], "".join(o[0] for o in ops[:len(obs)]), [o["r"] for o, s in zip(obs, ops) if s == "r"]]


@check("C27")
def c27(res, tier, seed):
    b = build_harness(("misc",))
    r = tlc("MC_DelimReader", cfg({"K": 3 if tier == "quick" else 4},
                                  invariants=["ReaderIndependent", "NoOverread", "Terminates"]))
    res.add_tlc(r, "operational reader machine (ReadByte loop, Peek or ReadFull with every chunking) = denotation Frame, "
                   "on every prefix of every small stream, every start position and 6 limits")
    tour = os.path.join(scratch(), "c27.tour")
    r = tlc("MC_Delim", cfg(_tier(tier), invariants=["FramingExact", "TooLargeIff", "PosOnBoundary", "Monotone"],
                            emit="Emit", view="view"), emit_to=tour, timeout=3000)
    res.add_tlc(r, "stream histories: MarshalTo x raw tails x truncation points x MaxSize around each size; laws: framing exact "
                   "under every truncation, too-large iff size > limit, position on frame boundaries")
    res.exhaustive = True
    replay_tour(res, b, "delim", tour, key=_delim_key)
    n = 3000 if tier == "quick" else 60000
    drive_and_validate(res, b, "delim", "Trace_Delim", seed, n, key=_delim_key)
    res.rule = ("tour: every transition of the bounded stream machine (messages with body lengths on the size-varint boundaries, "
                "hand-made size headers, truncation at every point near a boundary, MaxSize in {-1, 0, size-1, size, size+1}) "
                "emitted as a whole history once per reader implementation (bufio of several sizes over plain / one-byte / "
                "data-with-EOF sources, byte-at-a-time, chunked, direct); distinct = (reader kind, step kinds, read results); "
                "driver: random histories with up to 4 messages, raw tails, random cuts, limits and readers, validated by Trace_Delim")
    res.assumptions.append("messages are google.protobuf.BytesValue with a patterned payload; body bytes of other message types "
                           "are the business of C03, not of the framing")
    res.notes.append("sizes of 2^31 bytes and more are only exercised where UnmarshalFrom must refuse them (the model never asks the "
                     "real code to allocate them)")


# ============================================================================ C32: protorange
def _range_key(e):
    """class of a traversal: source, stable?, control codes and the kind of position they hit, result, size class"""
    tree = e.get("tree") or (e.get("out") or {}).get("tree") or []
    obs = e.get("out") or e.get("exp") or {}
    walk = obs.get("walk") or []
    kinds = sorted({n["s"] + "/" + n["c"] for n in tree})
    hits = []
    for k, c in e.get("ctl", []):
        if 1 <= k <= len(walk):
            n = tree[abs(walk[k - 1]) - 1] if abs(walk[k - 1]) <= len(tree) else {"s": "?", "c": "?"}
            hits.append([c, "push" if walk[k - 1] > 0 else "pop", n["s"], n["c"]])
        else:
            hits.append([c, "beyond"])
    return [e.get("typ", "tree"), e["stable"], hits, obs.get("ret"), kinds if len(kinds) <= 6 else len(kinds), min(len(tree), 12)]


@check("C32")
def c32(res, tier, seed):
    b = build_harness(("misc",))
    tour = os.path.join(scratch(), "c32.tour")
    r = tlc("MC_RangeWalk", cfg(_tier(tier), invariants=["LawNested", "LawOnce", "LawAtMostOnce", "LawBreak", "LawStop", "LawAccept", "LawMirror"],
                                emit="Emit"), emit_to=tour, timeout=3000)
    res.add_tlc(r, "every canonical tree of steps up to the node bound over the schema rw.N x every control value at every callback "
                   "position (pairs on small trees); laws: nesting, exactly-once, Break/Terminate characterisations, recursive walk = "
                   "stack automaton, mirrored order accepted iff unstable")
    res.exhaustive = True
    replay_tour(res, b, "rangewalk", tour, key=_range_key)
    n = 3000 if tier == "quick" else 60000
    drive_and_validate(res, b, "rangewalk", "Trace_RangeWalk", seed, n, key=_range_key)
    res.rule = ("tour: each tree of steps (fields, list elements, map entries with int/string/bool keys, unknown sets, Any bodies, "
                "extensions, oneof members) is rendered to a dynamicpb message and traversed with Stable order for every single "
                "control value Break/Terminate/error at every push and pop position (and all pairs on small trees), plus once "
                "unordered; the recorded walk, the value shown at each push, the path/value consistency flag and the returned error "
                "must equal the specification's; distinct = (source, order, control hit kinds, result, step kinds, size class); "
                "driver: random messages of rw.N (resolvable / unresolvable / undecodable Any) and 7 generated corpus types, "
                "projected to trees with the plain reflection API, 0-2 control values, both orders, validated by Trace_RangeWalk")
    res.assumptions.append("the projection of a real message to its tree of steps (harness, Message.Range/Get, List.Get, Map.Range, "
                           "GetUnknown, Any resolution) is trusted; sibling order is defined by the specification, not by the harness")
    res.notes.append("'each step's value equals the value obtained by applying that step to its parent value' is evaluated by the harness "
                     "with protoreflect accessors and Value.Equal at every callback and enters the specification as the flag ok = 1; "
                     "leaf values enter as integer codes (small ints verbatim, everything else hashed)")
