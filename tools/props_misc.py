"""Family misc: C27 (protodelim framing), C32 (protorange traversal), C33 (protoregistry name table)."""
import json
import os
import vlib
from props import check, cfg, MODULE_OF, HARNESS_PKGS
from vlib import tlc, build_harness, replay_tour, drive_and_validate, scratch

MODULE_OF.update(C27="delim", C32="rangewalk", C33="registry")
HARNESS_PKGS.update(C27=("misc",), C32=("misc",), C33=("misc",))


def _tier(tier):
    return {"Tier": '"%s"' % tier}


# ============================================================================ C27: protodelim
def _delim_key(e):
    """class of a history: reader kind, the step kinds and the result of every read"""
    obs = (e.get("exp") or e.get("out") or {}).get("obs", [])
    ops = [s["op"] for s in e["steps"]]
    return [e["rd"]["kind"], "".join(o[0] for o in ops[:len(obs)]), [o["r"] for o, s in zip(obs, ops) if s == "r"]]


@check("C27")
def c27(res, tier, seed):
    b = build_harness(("misc",))
    r = tlc("MC_DelimReader", cfg({"K": 3 if tier == "quick" else 4},
                                  invariants=["ReaderIndependent", "NoOverread", "Terminates"]))
    res.add_tlc(r, "operational reader machine (ReadByte loop, Peek or ReadFull with every chunking) = denotation Frame, "
                   "on every prefix of every small stream, every start position and 6 limits")
    tour = os.path.join(scratch(), "c27.tour")
    r = tlc("MC_Delim", cfg(_tier(tier), invariants=["FramingExact", "TooLargeIff", "PosOnBoundary", "Monotone"],
                            emit="Emit", view="view"), emit_to=tour, timeout=3000)
    res.add_tlc(r, "stream histories: MarshalTo x raw tails x truncation points x MaxSize around each size; laws: framing exact "
                   "under every truncation, too-large iff size > limit, position on frame boundaries")
    res.exhaustive = True
    replay_tour(res, b, "delim", tour, key=_delim_key)
    n = 2000 if tier == "quick" else 60000
    drive_and_validate(res, b, "delim", "Trace_Delim", seed, n, key=_delim_key)
    res.rule = ("tour: every transition of the bounded stream machine (messages with body lengths on the size-varint boundaries, "
                "hand-made size headers, truncation at every point near a boundary, MaxSize in {-1, 0, size-1, size, size+1}) "
                "emitted as a whole history once per reader implementation (bufio of several sizes over plain / one-byte / "
                "data-with-EOF sources, byte-at-a-time, chunked, direct); distinct = (reader kind, step kinds, read results); "
                "driver: random histories with up to 4 messages, raw tails, random cuts, limits and readers, validated by Trace_Delim")
    res.assumptions.append("messages are google.protobuf.BytesValue with a patterned payload; body bytes of other message types "
                           "are the business of C03, not of the framing")
    res.notes.append("sizes of 2^31 bytes and more are only exercised where UnmarshalFrom must refuse them (the model never asks the "
                     "real code to allocate them)")


# ============================================================================ C32: protorange
def _range_key(e):
    """class of a traversal: source, stable?, control codes and the kind of position they hit, result, size class"""
    tree = e.get("tree") or (e.get("out") or {}).get("tree") or []
    obs = e.get("out") or e.get("exp") or {}
    walk = obs.get("walk") or []
    kinds = sorted({n["s"] + "/" + n["c"] for n in tree})
    hits = []
    for k, c in e.get("ctl", []):
        if 1 <= k <= len(walk):
            n = tree[abs(walk[k - 1]) - 1] if abs(walk[k - 1]) <= len(tree) else {"s": "?", "c": "?"}
            hits.append([c, "push" if walk[k - 1] > 0 else "pop", n["s"], n["c"]])
        else:
            hits.append([c, "beyond"])
    return [e.get("typ", "tree"), e["stable"], e.get("cb", 0), hits, obs.get("ret"), kinds if len(kinds) <= 6 else len(kinds), min(len(tree), 12)]


def _drive_validate_twice(res, binary, module, trace_module, seed, n, key):
    """C->S for executions that are legitimately nondeterministic (unordered traversals): a rejected event is re-executed and the
    NEW recording is validated again; only a case whose second execution is rejected too is reported (with that recording)."""
    gen = os.path.join(scratch(), "%s-gen-%d.ndjson" % (module, seed))
    tr = os.path.join(scratch(), "%s-trace-%d.ndjson" % (module, seed))
    vlib.harness(binary, ["gen", module, seed, n, gen])
    vlib.harness(binary, ["exec", module, gen, tr])
    total, bad = vlib.validate_trace(trace_module, tr)
    vlib.log("validated %d %s events against %s: %d rejected" % (total, module, trace_module, len(bad)))
    events = list(vlib.read_ndjson(tr))
    for i, ev in enumerate(events):
        k = key(ev)
        res.distinct.add(k if isinstance(k, str) else json.dumps(k, sort_keys=True))
        if i % 1999 == 0:
            res.sample(json.dumps(ev, sort_keys=True)[:1200])
    if bad:
        rp = os.path.join(scratch(), "%s-repro.ndjson" % module)
        with open(rp, "w") as fh:
            for i in bad:
                fh.write(json.dumps({k: v for k, v in events[i].items() if k != "out"}) + "\n")
        vlib.harness(binary, ["exec", module, rp, rp + ".out"])
        _, bad2 = vlib.validate_trace(trace_module, rp + ".out", shards=1)
        again = list(vlib.read_ndjson(rp + ".out"))
        for j in bad2:
            res.fail(dict(again[j], _module=module, _trace=trace_module),
                     "trace: specification rejects the recorded event (rejected again on re-execution)")
    res.trace_events += total
    res.evaluations += total
    res.traces += 1


@check("C32")
def c32(res, tier, seed):
    b = build_harness(("misc",))
    tour = os.path.join(scratch(), "c32.tour")
    r = tlc("MC_RangeWalk", cfg(_tier(tier), invariants=["LawNested", "LawOnce", "LawAtMostOnce", "LawBreak", "LawStop", "LawAccept", "LawMirror", "LawStrict", "LawOneSided"],
                                emit="Emit"), emit_to=tour, timeout=3000)
    res.add_tlc(r, "every canonical tree of steps up to the node bound over the schema rw.N x every control value at every callback "
                   "position (pairs on small trees); laws: nesting, exactly-once, Break/Terminate characterisations, recursive walk = "
                   "stack automaton, mirrored order accepted iff unstable")
    res.exhaustive = True
    replay_tour(res, b, "rangewalk", tour, key=_range_key)
    n = 2000 if tier == "quick" else 60000
    _drive_validate_twice(res, b, "rangewalk", "Trace_RangeWalk", seed, n, _range_key)
    res.rule = ("tour: each tree of steps (fields, list elements, map entries with int/string/bool keys, unknown sets, Any bodies, "
                "extensions, oneof members) is rendered to a dynamicpb message and traversed with Stable order for every single "
                "control value Break/Terminate/error at every push and pop position (and all pairs on small trees), with push-only "
                "(protorange.Range) and pop-only callbacks, plus unordered; the recorded walk, the value shown at each push, the path/value consistency flag and the returned error "
                "must equal the specification's; distinct = (source, order, control hit kinds, result, step kinds, size class); "
                "driver: random messages of rw.N (resolvable / unresolvable / undecodable Any) and 7 generated corpus types, "
                "projected to trees with the plain reflection API, 0-2 control values, both orders, validated by Trace_RangeWalk")
    res.assumptions.append("the projection of a real message to its tree of steps (harness, Message.Range/Get, List.Get, Map.Range, "
                           "GetUnknown, Any resolution) is trusted; sibling order is defined by the specification, not by the harness")
    res.notes.append("'each step's value equals the value obtained by applying that step to its parent value' is evaluated by the harness "
                     "with protoreflect accessors and Value.Equal at every callback and enters the specification as the flag ok = 1; "
                     "leaf values enter as integer codes (small ints verbatim, everything else hashed)")


# ============================================================================ C33: protoregistry
def _reg_key(e):
    """class of a history: which operations occurred with which result, and how many registrations succeeded"""
    obs = (e.get("exp") or e.get("out") or {}).get("obs", [])
    pairs = sorted({(s["op"], o["r"], min(len(o["ids"]), 3)) for s, o in zip(e["steps"], obs)})
    regs = [(s["op"], s["f"], s["d"], o["r"]) for s, o in zip(e["steps"], obs) if s["op"].startswith("reg")]
    return [pairs if len(e["steps"]) < 40 else "snapshot", regs[:6]]


@check("C33")
def c33(res, tier, seed):
    b = build_harness(("misc",))
    tour = os.path.join(scratch(), "c33.tour")
    r = tlc("MC_Registry", cfg(_tier(tier), invariants=["PoolWellFormed", "LookupExact", "TableExact", "ConflictIff", "FailedChangesNothing", "TypesExact"],
                               emit="Emit", view="view"), emit_to=tour, timeout=3000)
    res.add_tlc(r, "all RegisterFile histories (Files) and all RegisterMessage/Enum/Extension histories (Types) up to the bound over a "
                   "pool of files overlapping in path, package, declaration names of every kind and extension (message, number); laws: "
                   "prefix-walk lookup = unique declaration with that full name, table = packages + top-level names, success iff no "
                   "conflict (stated over the set of registered files), failure changes nothing, type tables exact")
    res.exhaustive = True
    replay_tour(res, b, "registry", tour, key=_reg_key)
    n = 1500 if tier == "quick" else 40000
    drive_and_validate(res, b, "registry", "Trace_Registry", seed, n, key=_reg_key)
    res.rule = ("tour: every transition of the bounded registration machine emitted as a whole history followed by a snapshot of every "
                "lookup (each full name of each declaration of each pool file, every package prefix, non-names such as Enum.VALUE, "
                "every path, URL, extension key), count and range; abstract files are rendered to real descriptors with "
                "protodesc.NewFile and dynamicpb types; distinct = (operations x results seen, registration sequence); driver: 2-5 "
                "random files over packages {'', a, a.b, a.b.c, b, c, a.M} and names {a,b,c,M,E,V,S,x} with nested messages, enums, "
                "oneofs, extensions, services, 6-17 random registrations and queries, validated by Trace_Registry")
    res.assumptions.append("results are identified through the harness's map real descriptor -> (file index, declaration index), built by "
                           "walking each descriptor independently of the registries")
    res.notes.append("which of several simultaneous conflicts is reported is not compared (only success/failure); local registries only: the "
                     "conflict policy of the global registries (GOLANG_PROTOBUF_REGISTRATION_CONFLICT) is outside the property")
