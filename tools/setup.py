import glob, os, shutil, subprocess, sys
sys.path.insert(0, os.path.dirname(os.path.abspath(__file__)))
import vlib
d = vlib.spec_dir()
bad = 0
mods = sorted(glob.glob(os.path.join(d, "*.tla")))
import concurrent.futures as cf
def sany(p):
    r = subprocess.run(["tla-sany", p], cwd=d, capture_output=True, text=True)
    ok = r.returncode == 0 and "Semantic errors" not in r.stdout and "Parse Error" not in r.stdout and "Fatal errors" not in r.stdout and "Lexical error" not in r.stdout
    return p, ok, r.stdout[-1500:]
with cf.ThreadPoolExecutor(max_workers=4) as ex:
    for p, ok, out in ex.map(sany, mods):
        if not ok:
            bad += 1
            print("SANY failed:", os.path.basename(p), out)
print("parsed %d specification modules, %d failed" % (len(mods), bad))
vlib.build_harness(("wire",))
sys.exit(1 if bad else 0)
