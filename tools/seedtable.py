#!/usr/bin/env python3
"""Prints the markdown table of /verif/seeded/*/meta.json (pasted into DESIGN.md section 7)."""
import glob, json, os
rows = []
for p in sorted(glob.glob("/verif/seeded/*/meta.json")):
    m = json.load(open(p))
    res = m["checks_run"]["results"]
    caught = ", ".join("%s (%d)" % (k, v["violations"]) for k, v in sorted(res.items()) if v["exit"] == 1 and v["violations"] > 0) or "—"
    missed = ", ".join(k for k, v in sorted(res.items()) if not (v["exit"] == 1 and v["violations"] > 0))
    t = m["title"].split(":", 1)[-1].strip()
    rows.append("| `%s`%s | %s | %s | %s%s |" % (m["id"].split("-")[0], " (r3)" if m.get("round") == 3 else "", ", ".join(os.path.basename(f) for f in m["files_changed"]), t[:150], caught,
                                                (" · not by " + missed) if missed else ""))
print("| property | file changed | seeded change (independent sub-agent; property text only) | caught by (violations reported, quick tier) |\n|---|---|---|---|")
print("\n".join(rows))
