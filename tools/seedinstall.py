#!/usr/bin/env python3
"""Install confirmed seeded changes under /verif/seeded/<id>/ and measure which checks catch them.
   usage: seedinstall.py <seedconfirm.log> <seed-out root> [only-id ...]
For every seed dir <root>/<n>/<Cxx>/ with a RESULT line saying: demonstration ok WITHOUT, FAIL WITH, no suite failures,
copies patch.diff + demonstration + notes.md, runs the property's own check (and the extra ones listed below) against the
patch through tools/seedcheck.py (scratch worktree + build overlay: /repo is never touched) and writes meta.json."""
import json, os, re, shutil, subprocess, sys

EXTRA = {"C09": ["C17"], "C29": ["C17"], "C08": ["C03"], "C05": [], "C46": [], "C47": []}
log, root = sys.argv[1], sys.argv[2]
only = set(sys.argv[3:])
results = {}
for l in open(log):
    m = re.match(r"RESULT (C\d+) pkg=(\S+) WITHOUT: (.*?) \|\| WITH: (.*?) \|\| SUITE-FAILURES: (.*)", l.strip())
    if m:
        results[m.group(1)] = dict(pkg=m.group(2), without=m.group(3).strip(), with_=m.group(4).strip(), suite=m.group(5).strip())

for n in sorted(x for x in os.listdir(root) if os.path.isdir(os.path.join(root, x))):
    for cid in sorted(os.listdir(os.path.join(root, n))):
        if only and cid not in only:
            continue
        d = os.path.join(root, n, cid)
        r = results.get(cid)
        if not r:
            print("skip %s: no RESULT" % cid); continue
        ok = r["without"].startswith("ok") and "FAIL" in r["with_"] and r["suite"] == "none"
        if not ok:
            print("NOT CONFIRMED %s: %s" % (cid, r)); continue
        notes = open(os.path.join(d, "notes.md")).read() if os.path.exists(os.path.join(d, "notes.md")) else ""
        title = (notes.splitlines() or [cid])[0].lstrip("# ").strip()
        m = re.search(r"^##+ *What it needs[^\n]*\n(.*?)(?=^##+ |\Z)", notes, re.S | re.M)
        needs = (m.group(1).strip() if m else "")
        slug = re.sub(r"[^a-z0-9]+", "-", title.lower().split(":", 1)[-1]).strip("-")[:40].strip("-")
        sid = "%s-%s" % (cid, slug or n)
        out = os.path.join("/verif/seeded", sid)
        os.makedirs(out, exist_ok=True)
        shutil.copy(os.path.join(d, "patch.diff"), out)
        demos = [f for f in os.listdir(d) if f.endswith("_test.go")]
        for f in demos:
            shutil.copy(os.path.join(d, f), os.path.join(out, f + ".txt"))   # .txt: never compiled by accident
        if notes:
            shutil.copy(os.path.join(d, "notes.md"), out)
        checks = [cid] + EXTRA.get(cid, [])
        p = subprocess.run(["python3", "/verif/tools/seedcheck.py", os.path.join(out, "patch.diff")] + checks,
                           capture_output=True, text=True)
        caught = {}
        for l in p.stdout.splitlines():
            mm = re.match(r"SEED \S+ (C\d+) rc=(\d+) violations=(\d+)", l)
            if mm:
                caught[mm.group(1)] = {"exit": int(mm.group(2)), "violations": int(mm.group(3))}
        tags = "protolegacy" if cid == "C47" else ""
        meta = {
            "id": sid, "property": cid, "title": title,
            "files_changed": re.findall(r"^diff --git a/(\S+)", open(os.path.join(out, "patch.diff")).read(), re.M),
            "needs_to_manifest": needs,
            "demonstration": {"files": [f + ".txt" for f in demos], "place_in": r["pkg"],
                              "run": "go test %s-count=1 -run 'Seed' ./%s" % ("-tags %s " % tags if tags else "", r["pkg"])},
            "confirmed_by_lead": {
                "how": "tools/seedconfirm.sh in a scratch worktree of /repo HEAD (removed afterwards): demonstration without the patch, "
                       "patch applied + go build ./..., demonstration with the patch, full `go test -count=1 -vet=off ./...` with the patch",
                "demo_without_patch": r["without"], "demo_with_patch": r["with_"], "existing_suite_failures_with_patch": r["suite"]},
            "checks_run": {"how": "tools/seedcheck.py patch.diff %s (quick tier; patch applied in a scratch worktree and overlaid on the harness build)" % " ".join(checks),
                           "results": caught},
            "caught_by": sorted(k for k, v in caught.items() if v["exit"] == 1 and v["violations"] > 0),
        }
        json.dump(meta, open(os.path.join(out, "meta.json"), "w"), indent=1)
        print("INSTALLED %s caught_by=%s results=%s" % (sid, meta["caught_by"], caught), flush=True)
