"""Descriptor family: C34 C35 C36 C37 C38 (spec/desc, harness/desc).

S->C: TLC explores the schema-construction machine (MC_SchemaSpace; for C35 also its invalid neighbourhood, for C38
MC_FeatureResolve) and emits every reachable abstract file with the specification's expectation; the harness renders it
to a FileDescriptorProto and pushes it through protodesc.NewFile / ToFileDescriptorProto / filedesc.Builder.
C->S: files linked into the harness, seeded random schemas, mutants, fuzzed protos and proto2/proto3-vs-editions message
pairs are executed on the real code and every recorded event is validated by TLC (Trace_Schema)."""
import concurrent.futures as cf
import hashlib, json, os, re, subprocess

import vlib
from props import check, cfg, MODULE_OF, HARNESS_PKGS
from vlib import tlc, build_harness, scratch, log, Infra, read_ndjson

for _p in ("C34", "C35", "C36", "C37", "C38"):
    MODULE_OF[_p] = "desc"
    HARNESS_PKGS[_p] = ("desc",)

TRACE_CFG = "INIT Init\nNEXT Next\nPOSTCONDITION Accepted\nCHECK_DEADLOCK FALSE\n"
EXPLAIN_CFG = "INIT Init\nNEXT Next\nCHECK_DEADLOCK FALSE\n"


# --------------------------------------------------------------------------- helpers
def _deep_diff(a, b, path, out):
    """paths (indices stripped) on which observation a differs from expectation b"""
    if isinstance(a, dict) and isinstance(b, dict):
        for k in sorted(set(a) | set(b)):
            if k not in a or k not in b:
                out.add(path + "." + k + ("(absent)" if k not in a else "(unexpected)"))
            else:
                _deep_diff(a[k], b[k], path + "." + k, out)
    elif isinstance(a, list) and isinstance(b, list):
        if len(a) != len(b):
            out.add(path + "(len)")
        else:
            for x, y in zip(a, b):
                _deep_diff(x, y, path + "[]", out)
    elif a != b:
        out.add(path)


def mismatch_of(out, exp):
    d = set()
    for k, v in (exp or {}).items():
        if k not in (out or {}):
            d.add(k + "(absent)")
        else:
            _deep_diff(out[k], v, k, d)
    return sorted(d)


def _diffs(ev):
    """harness diagnostics (where two constructions of the same file differ), lifted to the top level for known-finding matching"""
    o = ev.get("out") or {}
    return {k: o.get(k, []) for k in ("bdiff", "ndiff", "rtdiff")}


def why_classes(mm, ev):
    """accessor-path classes on which the case fails (one violation entry per class, so that a known finding can be
    matched narrowly and any other difference in the same case is still reported)"""
    o = ev.get("out") or {}
    cls = set()
    for p in mm:
        head = p.split(".", 1)[0].split("(", 1)[0]
        if head in ("snap", "bsnap") and "." in p:
            cls.add(p.split(".", 1)[1])
        elif head in ("bsame", "nsame", "rt"):
            paths = o.get({"bsame": "bdiff", "nsame": "ndiff", "rt": "rtdiff"}[head]) or []
            cls.update(paths or [head])
        else:
            cls.add(p)
    return sorted(cls) or ["unclassified"]


def _run_harness(binary, args, env=None, timeout=3000):
    e = dict(os.environ)
    if env:
        e.update(env)
    try:
        r = subprocess.run([binary] + [str(a) for a in args], capture_output=True, text=True, timeout=timeout, env=e)
    except subprocess.TimeoutExpired:
        raise Infra("harness timeout: %s" % (args,))
    if r.returncode != 0:
        raise Infra("harness failed %s: rc=%d\n%s" % (args, r.returncode, (r.stdout + r.stderr)[-4000:]))
    return r


def class_of(ev):
    """what makes a descriptor case distinct: the shape of the schema, not its names"""
    f = ev.get("file") or (ev.get("out") or {}).get("file")
    if ev.get("op") in ("file", "linked") and isinstance(f, dict):
        kinds = sorted({(x["type"], x["label"], bool(x["oneof"]), x["packed"], x["hd"]) for m in f["msgs"] for x in m["fields"]})
        feats = sorted({k + "=" + v for d in [f] + f["msgs"] + f["enums"] + f["exts"] + [x for m in f["msgs"] for x in m["fields"]]
                        for k, v in d["feat"].items() if v})
        return [ev["op"], f["syntax"], f["edition"], len(f["msgs"]), len(f["enums"]), len(f["exts"]), len(f["svcs"]), kinds, feats,
                ev.get("rule", ""), ev.get("allow"), (ev.get("out") or ev.get("exp") or {}).get("ok")]
    if ev.get("op") == "pair":
        o = ev.get("out", {})
        return ["pair", ev.get("pair"), (o.get("a") or {}).get("ok"), (o.get("b") or {}).get("ok"), len(ev.get("b", [])) // 16]
    if ev.get("op") == "xlate":
        o = ev.get("out") or ev.get("exp") or {}
        f = ev.get("file") or {}
        kinds = sorted({("x" if it["x"] else "f", len(it["p"])) for it in ev.get("items", [])})
        return ["xlate", f.get("syntax"), (ev.get("tgt") or {}).get("loc"), kinds, o.get("adec"), o.get("bdec")]
    if ev.get("op") == "fuzz":
        o = ev.get("out", {})
        return ["fuzz", o.get("ok1"), o.get("ok2"), ev.get("n")]
    return [ev.get("op"), ev.get("pair"), ev.get("edition")]


def tour(res, binary, module, cfg_text, label, name, timeout=3000, tags="verif"):
    """TLC exhaustive run -> tour lines (deduplicated) -> replay on the real code."""
    raw = os.path.join(scratch(), name + ".tour.raw")
    r = tlc(module, cfg_text, emit_to=raw, timeout=timeout, workers=2 if '"quick"' in cfg_text else None)
    res.add_tlc(r, label)
    path = os.path.join(scratch(), name + ".tour")
    seen, n = set(), 0
    with open(path, "w") as w:
        for l in open(raw):
            h = hashlib.sha1(l.encode()).digest()
            if h in seen:
                continue
            seen.add(h)
            w.write(l)
            n += 1
    os.remove(raw)
    if n == 0:
        raise Infra("TLC emitted no tour line for %s" % module)
    outp = path + ".out"
    rr = _run_harness(binary, ["exec", "desc", path, outp])
    info = json.loads(rr.stdout.strip().splitlines()[-1])
    log("replayed %s tour: %s (%d distinct lines of %d emitted)" % (name, info, n, r["tour"]))
    k = 0
    for ev in read_ndjson(outp):
        k += 1
        res.distinct.add(json.dumps(class_of(ev), sort_keys=True))
        if k % 499 == 1:
            res.sample(json.dumps({x: ev[x] for x in ev if x not in ("out", "exp")}, sort_keys=True)[:900])
        if ev.get("diff"):
            mm = mismatch_of(ev.get("out"), ev.get("exp"))
            for why in why_classes(mm, ev):
                res.fail(dict(ev, _module="desc", _tags=tags, mismatch=mm, why=why, **_diffs(ev)),
                         "tour: real code disagrees with the specification on %s" % why)
    res.tour_cases += k
    res.evaluations += k
    res.traces += k
    os.remove(outp)
    os.remove(path)
    return r


def _validate(trace_path, n_events, shards):
    """shard the ndjson trace over TLC processes; returns rejected global indices (0-based)"""
    lines = [l for l in open(trace_path) if l.strip()]
    if len(lines) != n_events:
        raise Infra("trace has %d events, expected %d" % (len(lines), n_events))
    shards = max(1, min(shards, len(lines)))
    # balance by size: large snapshots dominate validation time
    order = sorted(range(len(lines)), key=lambda i: -len(lines[i]))
    buckets = [[] for _ in range(shards)]
    loads = [0] * shards
    for i in order:
        b = loads.index(min(loads))
        buckets[b].append(i)
        loads[b] += len(lines[i])

    def one(b):
        idx = sorted(buckets[b])
        if not idx:
            return []
        tp = os.path.join(scratch(), "desc-shard-%d-%s.ndjson" % (b, hashlib.sha1(trace_path.encode()).hexdigest()[:6]))
        with open(tp, "w") as fh:
            fh.writelines(lines[i] for i in idx)
        r = tlc("Trace_Schema", TRACE_CFG, workers=1, timeout=3000, env={"TRACE": tp}, heap="3g")
        m = re.search(r'^"TRACE-RESULT (.*)"$', r["out"], re.M)
        if not m:
            raise Infra("trace validation produced no result:\n%s" % r["out"][-3000:])
        tr = json.loads(json.loads('"' + m.group(1) + '"'))
        if tr["done"] != tr["total"] or tr["total"] != len(idx):
            raise Infra("trace validation consumed %d of %d events" % (tr["done"], len(idx)))
        os.remove(tp)
        return [idx[k - 1] for k in tr["bad"]]

    bad = []
    with cf.ThreadPoolExecutor(max_workers=vlib.NPAR) as ex:
        for b in ex.map(one, range(shards)):
            bad += b
    return sorted(bad)


def _explain(events):
    """second TLC pass over rejected events: what did the specification expect?"""
    tp = os.path.join(scratch(), "desc-explain.ndjson")
    with open(tp, "w") as fh:
        for e in events:
            fh.write(json.dumps(e) + "\n")
    out = os.path.join(scratch(), "desc-explain.out")
    if os.path.exists(out):
        os.remove(out)
    tlc("Explain_Schema", EXPLAIN_CFG, workers=1, timeout=3000, env={"TRACE": tp}, emit_to=out, heap="3g")
    res = {}
    for x in read_ndjson(out):
        res[x["l"]] = x
    os.remove(tp)
    return [res.get(i + 1) for i in range(len(events))]


class Traces:
    """C->S: seeded drivers on the real code; all recorded events of one check are validated by TLC in one sharded pass
    (a JVM start costs more than validating a few hundred events), rejections are explained and reproduced."""

    def __init__(self, res, tier):
        self.res, self.tier, self.groups = res, tier, []

    def add(self, binary, mode, n, seed, want="", tags="verif", name=None):
        name = (name or mode) + ("-legacy" if "protolegacy" in tags else "")
        env = {"DESC_GEN": mode, "DESC_WANT": want}
        gen = os.path.join(scratch(), "desc-%s-gen-%d.ndjson" % (name, seed))
        tr = os.path.join(scratch(), "desc-%s-trace-%d.ndjson" % (name, seed))
        _run_harness(binary, ["gen", "desc", seed, n, gen], env=env)
        rr = _run_harness(binary, ["exec", "desc", gen, tr], env=env)
        total = json.loads(rr.stdout.strip().splitlines()[-1])["cases"]
        os.remove(gen)
        self.groups.append(dict(binary=binary, mode=mode, name=name, env=env, tags=tags, path=tr, total=total))
        return total

    def finish(self):
        import time
        res = self.res
        allp = os.path.join(scratch(), "desc-all-trace.ndjson")
        owner = []
        with open(allp, "w") as w:
            for gi, g in enumerate(self.groups):
                for l in open(g["path"]):
                    if l.strip():
                        w.write(l)
                        owner.append(gi)
        t0 = time.time()
        shards = 2 if self.tier == "quick" else vlib.NPAR
        bad = _validate(allp, len(owner), shards)
        log("validated %d events (%s) against Trace_Schema in %.1fs: %d rejected" % (
            len(owner), ", ".join("%s: %d" % (g["name"], g["total"]) for g in self.groups), time.time() - t0, len(bad)))
        events = list(read_ndjson(allp))
        for i, ev in enumerate(events):
            res.distinct.add(json.dumps(class_of(ev), sort_keys=True))
            if i % 199 == 0:
                res.sample(json.dumps({k: v for k, v in ev.items() if k != "out"}, sort_keys=True)[:900])
        by_group = {}
        for i in bad:
            by_group.setdefault(owner[i], []).append(events[i])
        for gi, rej in by_group.items():
            g = self.groups[gi]
            rp = os.path.join(scratch(), "desc-repro.ndjson")
            with open(rp, "w") as fh:
                for e in rej:
                    fh.write(json.dumps({k: v for k, v in e.items() if k != "out"}) + "\n")
            _run_harness(g["binary"], ["exec", "desc", rp, rp + ".out"], env=g["env"])
            again = list(read_ndjson(rp + ".out"))
            why = _explain(rej)
            for e, e2, w in zip(rej, again, why):
                strip = lambda o: {k: v for k, v in (o or {}).items() if k != "stack"}
                if strip(e2.get("out")) != strip(e.get("out")):
                    raise Infra("event of mode %s is not reproducible; refusing to report\nfirst: %s\nagain: %s" % (
                        g["mode"], json.dumps(e)[:600], json.dumps(e2)[:600]))
                mm = []
                if w and w.get("domain") is False:
                    raise Infra("xlate event outside the specification's domain (the generator's translation or input is not "
                                "what SchemaXlate defines): %s" % json.dumps({k: v for k, v in e.items() if k != "out"})[:1500])
                if "panic" in (e.get("out") or {}):
                    mm = ["panic"]
                elif w:
                    mm = mismatch_of(e.get("out"), w.get("exp"))
                    if not w.get("laws", True):
                        mm.append("viewlaws")
                for cls in why_classes(mm, e):
                    res.fail(dict(e, _module="desc", _trace="Trace_Schema", _tags=g["tags"], _env=g["env"], mismatch=mm, why=cls,
                                  defects=(w or {}).get("defects", []), **_diffs(e)),
                             "trace: specification rejects the recorded event (reproduced); differs on %s" % cls)
        res.trace_events += len(owner)
        res.evaluations += len(owner)
        res.traces += len(self.groups)
        for g in self.groups:
            os.remove(g["path"])
        os.remove(allp)


def mc_cfg(tier, prop, steps, invariants):
    return cfg({"Tier": '"%s"' % tier, "MaxSteps": steps, "Prop": '"%s"' % prop}, invariants=invariants, emit="Emit", view="View")


def _steps(tier, prop=""):
    # C35 multiplies every base state by ~35 injections x 2 AllowUnresolvable settings: depth 2 in both tiers
    # (the thorough tier widens the action set instead)
    return 2 if tier == "quick" or prop == "C35" else 3


BASE_RULE = ("tour: TLC enumerates every abstract file reachable by <= %d construction steps (messages in pre-order, enums, "
             "fields of 5-10 scalar/message/enum shapes -- message/enum fields and extensions also with `type` omitted --, groups, "
             "editions group-like fields, group-like fields whose json_name lower-cases to another field's JSON name (both orders), "
             "fields declared with a zero-value default (\"\", 0, false), "
             "maps, oneofs, proto3 optional, defaults, json names, packed, "
             "lazy, reserved and extension ranges, extensions, services, feature overrides) from empty proto2 / proto3 / "
             "edition 2023 (+ file-level overrides) files; ")
DISTINCT_RULE = ("distinct = (syntax, edition, declaration counts, set of field shapes (type, label, oneof, packed, default), "
                 "set of explicit features, injected rule, AllowUnresolvable, verdict) classes")
LINKED_NOTE = ("linked files whose FileDescriptorProto carries fields outside the abstract domain are judged on acceptance only "
               "(none at present); files with unresolvable imports are run with AllowUnresolvable")


def _nlinked(tier):
    return 12 if tier == "quick" else 1000


# --------------------------------------------------------------------------- C34
@check("C34")
def c34(res, tier, seed):
    b = build_harness(("desc",))
    s = _steps(tier)
    tour(res, b, "MC_SchemaSpace", mc_cfg(tier, "C34", s, ["StaysValid", "NormalForm"]),
         "schema space, %d steps; laws: machine stays valid, Normal idempotent and Views-preserving" % s, "c34")
    res.exhaustive = True
    t = Traces(res, tier)
    t.add(b, "linked", _nlinked(tier), seed, want="snap,back,rt,nsame")
    t.add(b, "schemas", 60 if tier == "quick" else 4000, seed, want="snap,back,rt")
    if tier != "quick":
        t.add(build_harness(("desc",), tags="verif,protolegacy"), "linked", 1000, seed, want="snap,back,rt,nsame", tags="verif,protolegacy")
    t.finish()
    res.rule = (BASE_RULE % s + "each must be accepted by NewFile, show Views(file) on every accessor, come back from "
                "ToFileDescriptorProto as Normal(file) and be reproduced by NewFile(ToFileDescriptorProto(d)); "
                "driver: linked files (generated descriptor = NewFile(ToFileDescriptorProto) = Views) and seeded random schemas; " + DISTINCT_RULE)
    res.assumptions += ["options are an uninterpreted payload: the harness compares each Options() message byte-for-byte with the input "
                        "proto's and the specification demands equality everywhere",
                        "default values of float/bytes kinds are compared in descriptor text form (digits and escapes are C39's subject)",
                        "source_code_info (SourceLocations) is outside the abstract file"]
    res.notes.append(LINKED_NOTE)


# --------------------------------------------------------------------------- C35
@check("C35")
def c35(res, tier, seed):
    b = build_harness(("desc",))
    s = _steps(tier, "C35")
    tour(res, b, "MC_SchemaSpace", mc_cfg(tier, "C35", s, ["StaysValid", "InjectionInvalid"]),
         "schema space, %d steps, x every applicable invalidity injection x both AllowUnresolvable settings; "
         "law: every injection exhibits its defect class" % s, "c35", timeout=6000)
    res.exhaustive = True
    t = Traces(res, tier)
    t.add(b, "mutants", 160 if tier == "quick" else 30000, seed, want="snap")
    t.add(b, "fuzz", 160 if tier == "quick" else 30000, seed + 1)
    t.finish()
    res.rule = (BASE_RULE % s + "plus, from each, every applicable one of ~110 invalidity injections (duplicate names/numbers, "
                "invalid/overlapping ranges, reserved names/numbers, extension-range clashes, malformed maps/groups, oneof "
                "defects, proto3-forbidden constructs, unresolvable references, packed/enum/presence combinations), under both "
                "AllowUnresolvable settings: the base must be accepted, the injected file rejected, NewFile must never panic; "
                "for ranges every relative position of two ranges on a grid around a fixed range's ends (reserved x reserved, "
                "extension x extension, reserved x extension, extension x reserved, enum reserved; both list orders): overlapping "
                "(inclusive ends) => rejected, apart or touching => accepted; "
                "driver: random abstract-level mutants (defect => rejected; accepted => Views and view laws) and reflective "
                "random edits of the rendered proto (no panic; accepted => view laws); " + DISTINCT_RULE)
    res.notes.append("acceptance of duplicate json_name and of field numbers 19000-19999 is not judged (not in the property's list)")


# --------------------------------------------------------------------------- C36
@check("C36")
def c36(res, tier, seed):
    b = build_harness(("desc",))
    s = _steps(tier)
    tour(res, b, "MC_SchemaSpace", mc_cfg(tier, "C36", s, ["StaysValid", "ViewsConsistent"]),
         "schema space, %d steps; law: Views(file) satisfies the view laws (index, first-wins keyed lookups, full names, "
         "parent chains, range/name membership, required numbers, oneof and map links)" % s, "c36")
    res.exhaustive = True
    t = Traces(res, tier)
    t.add(b, "linked", _nlinked(tier), seed + 7, want="snap")
    t.add(b, "schemas", 50 if tier == "quick" else 4000, seed, want="snap,bsnap")
    t.add(b, "mutants", 100 if tier == "quick" else 10000, seed + 2, want="snap")
    if tier != "quick":
        t.add(build_harness(("desc",), tags="verif,protolegacy"), "linked", 1000, seed, want="snap", tags="verif,protolegacy")
    t.finish()
    res.rule = (BASE_RULE % s + "the snapshot of every accessor (incl. ByName/ByNumber/ByJSONName/ByTextName of every element, "
                "lower-case aliases of group-like fields -- which must never shadow a field's exact JSON/text name --, Has at every "
                "range boundary +-1, absent keys) must equal Views(file); "
                "driver: every recorded snapshot (linked files, random schemas, accepted mutants) must satisfy ViewLaws; " + DISTINCT_RULE)
    res.notes.append(LINKED_NOTE)


# --------------------------------------------------------------------------- C37
@check("C37")
def c37(res, tier, seed):
    b = build_harness(("desc",))
    s = _steps(tier)
    tour(res, b, "MC_SchemaSpace", mc_cfg(tier, "C37", s, ["StaysValid"]),
         "schema space, %d steps; filedesc.Builder on the marshalled proto must show Views(file), equal protodesc's "
         "descriptor and not depend on the order in which accessors trigger lazy initialisation" % s, "c37")
    res.exhaustive = True
    t = Traces(res, tier)
    t.add(b, "linked", _nlinked(tier), seed + 13, want="snap,nsame,bsame,blazy")
    t.add(b, "schemas", 60 if tier == "quick" else 4000, seed, want="bsnap,bsame,blazy")
    if tier != "quick":
        t.add(build_harness(("desc",), tags="verif,protolegacy"), "linked", 1000, seed, want="snap,nsame,bsame,blazy", tags="verif,protolegacy")
    t.finish()
    res.rule = (BASE_RULE % s + "three constructions per file -- protodesc.NewFile, filedesc.Builder (accessors in declaration "
                "order), filedesc.Builder (extensions/enums first, messages backwards, file options last) -- must agree with "
                "Views and with each other; linked files additionally compare the descriptor registered by generated code; " + DISTINCT_RULE)
    res.assumptions.append("filedesc.Builder is specified on protoc-shaped protos: fully qualified references, explicit types and labels")


# --------------------------------------------------------------------------- C38
@check("C38")
def c38(res, tier, seed):
    b = build_harness(("desc",))
    quick = tier == "quick"
    runs = [(1000, "small", 1)] if quick else [(1000, "full", 1), (1001, "full", 1), (1000, "small", 2)]
    for ed, skel, k in runs:
        tour(res, b, "MC_FeatureResolve",
             cfg({"Tier": '"%s"' % tier, "MaxOverrides": k, "Edition": ed, "Skel": '"%s"' % skel},
                 invariants=["TwoDefinitionsAgree", "Laws"], emit="Emit", view="View"),
             "edition %d, %s skeleton x <= %d overrides: 22 (feature, value) settings x every placement (file, messages, fields, "
             "enums, extensions); laws: fold = nearest explicit setting, Views reports ResolveNearest, derived semantics" % (ed, skel, k),
             "c38-%d-%s-%d" % (ed, skel, k), timeout=6000)
    xs, xi = (2, 1) if quick else (3, 2)
    tour(res, b, "MC_SchemaXlate",
         cfg({"Tier": '"%s"' % tier, "MaxSteps": xs, "MaxItems": xi}, invariants=["XlateLaw", "VerdictsCoincide"], emit="Emit", view="View"),
         "proto2 / proto3 files (schema machine, %d steps, + two hand-written bases with string fields and string extensions) vs their "
         "editions translation x inputs of <= %d string occurrences over a well-/ill-formed UTF-8 alphabet; law: the translation is "
         "valid and has the same runtime-relevant semantics" % (xs, xi), "c38-xlate", timeout=6000)
    res.exhaustive = True
    t = Traces(res, tier)
    t.add(b, "defaults", 5, seed)
    t.add(b, "pairschema", 10, seed)
    t.add(b, "pair", 1200 if quick else 40000, seed)
    t.add(b, "schemas", 40 if quick else 3000, seed + 3, want="snap,bsnap,bsame")
    t.add(b, "xlate", 40 if quick else 4000, seed + 5)
    t.finish()
    res.rule = ("tour: every valid placement of up to %d feature overrides on editions skeletons, resolved features and derived "
                "accessors (HasPresence, IsPacked, IsClosed, EnforceUTF8, group kind, required cardinality, Go features) of both "
                "constructions vs Resolve; driver: edition defaults of 5 editions, schema equivalence of 6 proto2/proto3-vs-editions "
                "type pairs (exact for editionsfuzztest, up to packing/UTF-8 for test<->testeditions), lock-step decode of random and "
                "mutated wire inputs (verdict, deterministic bytes, size, JSON, text round trip, cross-type content), random editions "
                "schemas; the skeletons also in untyped form (`type` omitted, kind inferred from type_name) x every message_encoding "
                "setting x every placement; xlate tour: every proto2/proto3 file of the bounded schema space and two bases with "
                "string fields/extensions (incl. option extensions of a proto3 file), built together with the specification's "
                "editions translation, fed every single (thorough: pair of) string occurrence(s) over the UTF-8 alphabet -- decode "
                "and encode verdicts must be the resolved utf8_validation's, all observations equal across the pair; driver: the "
                "same on seeded random proto2/proto3 schemas; "
                "distinct = (pair, verdicts, input size class), (syntax, input message kind, item kinds, verdicts) and schema classes"
                % (1 if quick else 2))
    res.assumptions += ["oneof-level feature settings are not placed: the property's chain is file-message-field and the code ignores them",
                        "test.TestAllTypes, TestPackedTypes, TestManyMessageFieldsMessage are not translations of their testeditions namesakes "
                        "(extra fields, open enums) and are not paired"]
