"""Runner library: scratch dirs, harness build (go build -overlay inside /repo's module), TLC runs,
tour extraction, trace validation, known findings, violations, evidence.

Verdict discipline: exit 1 + VIOLATION only when the *real code* reproducibly shows behaviour the
specification forbids.  TLC crash, timeout, build failure, dead driver: exit 2 (never a violation).
"""
import atexit, hashlib, json, os, re, shutil, subprocess, sys, tempfile, time, glob

VERIF = os.path.dirname(os.path.dirname(os.path.abspath(__file__)))
REPO = os.environ.get("VERIF_REPO", "/repo")
SPEC = os.path.join(VERIF, "spec")
HARNESS = os.path.join(VERIF, "harness")
NCPU = os.cpu_count() or 4
# measured: the sandbox advertises 16 cores but delivers ~2.5 cores of throughput; oversubscribing JVMs only adds overhead
NPAR = int(os.environ.get("VERIF_PAR") or min(NCPU, 4))

GOENV = dict(os.environ, GOFLAGS="-mod=mod", GOPROXY="off", GOSUMDB="off", GOTOOLCHAIN="local",
             GONOSUMCHECK="1", GONOSUMDB="*")


class Infra(Exception):
    """Infrastructure failure: never a violation (exit 2)."""


_scratch = None


def scratch():
    global _scratch
    if _scratch is None:
        base = os.environ.get("VERIF_TMP") or tempfile.gettempdir()
        _scratch = tempfile.mkdtemp(prefix="verif-run-", dir=base)
        if not os.environ.get("VERIF_KEEP"):
            atexit.register(lambda: shutil.rmtree(_scratch, ignore_errors=True))
    return _scratch


def sub(name):
    d = os.path.join(scratch(), name)
    os.makedirs(d, exist_ok=True)
    return d


def log(*a):
    print("[verif]", *a, file=sys.stderr, flush=True)


# --------------------------------------------------------------------------- harness build
_built = {}


def overlay_file(extra=None):
    """Overlay mapping /repo/internal/verifh/... -> /verif/harness/...  (extra: {repo path: file})."""
    rep = {}
    for root, _, files in os.walk(HARNESS):
        for f in files:
            if f.endswith(".go") or f.endswith(".s"):
                src = os.path.join(root, f)
                rel = os.path.relpath(src, HARNESS)
                rep[os.path.join(REPO, "internal", "verifh", rel)] = src
    if extra:
        rep.update(extra)
    # calibration only: VERIF_MUTANT="repo/rel/path.go=/abs/mutated.go,..." replaces repository files in the build
    for item in filter(None, (os.environ.get("VERIF_MUTANT") or "").split(",")):
        rel, src = item.split("=")
        rep[os.path.join(REPO, rel)] = src
    p = os.path.join(scratch(), "overlay-%s.json" % hashlib.sha1(json.dumps(rep, sort_keys=True).encode()).hexdigest()[:8])
    with open(p, "w") as fh:
        json.dump({"Replace": rep}, fh)
    return p


def build_harness(tags="verif", race=False, extra_overlay=None):
    key = (tags, race, json.dumps(extra_overlay, sort_keys=True))
    if key in _built:
        return _built[key]
    out = os.path.join(scratch(), "verifh-" + hashlib.sha1(repr(key).encode()).hexdigest()[:8])
    cmd = ["go", "build", "-overlay", overlay_file(extra_overlay), "-tags", tags, "-o", out]
    if race:
        cmd.append("-race")
    cmd.append("./internal/verifh/cmd/verifh")
    t = time.time()
    r = subprocess.run(cmd, cwd=REPO, env=GOENV, capture_output=True, text=True)
    if r.returncode != 0:
        raise Infra("harness build failed (tags=%s):\n%s" % (tags, r.stdout + r.stderr))
    log("built harness tags=%s race=%s in %.1fs" % (tags, race, time.time() - t))
    _built[key] = out
    return out


def harness(binary, args, timeout=1200, env=None, check=True):
    e = dict(os.environ)
    if env:
        e.update(env)
    try:
        r = subprocess.run([binary] + [str(a) for a in args], capture_output=True, text=True, timeout=timeout, env=e)
    except subprocess.TimeoutExpired:
        raise Infra("harness timeout: %s" % (args,))
    if check and r.returncode != 0:
        raise Infra("harness failed %s: rc=%d\n%s" % (args, r.returncode, (r.stdout + r.stderr)[-4000:]))
    return r


# --------------------------------------------------------------------------- TLC
def spec_dir():
    """Flat scratch copy of all .tla files (module names are globally unique)."""
    d = os.path.join(scratch(), "spec")
    if not os.path.isdir(d):
        os.makedirs(d)
        for p in glob.glob(os.path.join(SPEC, "**", "*.tla"), recursive=True):
            shutil.copy(p, d)
    return d


_tlc_seq = [0]


def tlc(module, cfg, workers=None, timeout=600, env=None, simulate=None, depth=None, extra=None, coverage=False,
        dfs=False, emit_to=None, xss="512m", heap=None):
    """Run TLC on module with the given cfg text.  Returns dict(ok, states, distinct, out, tour, violated, wall_s).
    Lines printed as "@@<json>" are collected into emit_to (ndjson)."""
    _tlc_seq[0] += 1
    d = spec_dir()
    name = "%s_%d" % (module, _tlc_seq[0])
    cfgp = os.path.join(d, name + ".cfg")
    with open(cfgp, "w") as fh:
        fh.write(cfg)
    meta = os.path.join(scratch(), "meta-%s" % name)
    jopts = "-Xss%s" % xss
    if heap:
        jopts += " -Xmx%s" % heap
    if dfs:
        jopts += " -Dtlc2.tool.queue.IStateQueue=StateDeque"
    if (workers or NPAR) == 1:
        jopts += " -XX:ParallelGCThreads=2 -XX:CICompilerCount=2"
    e = dict(os.environ, JAVA_TOOL_OPTIONS=jopts)
    if env:
        e.update({k: str(v) for k, v in env.items()})
    cmd = ["timeout", str(timeout), "tlc", "-workers", str(workers or NPAR), "-metadir", meta, "-config", cfgp, "-noGenerateSpecTE"]
    if simulate:
        cmd += ["-simulate", simulate]
    if depth:
        cmd += ["-depth", str(depth)]
    if coverage:
        cmd += ["-coverage", "1"]
    if extra:
        cmd += extra
    cmd.append(os.path.join(d, module + ".tla"))
    t = time.time()
    outp = os.path.join(scratch(), name + ".out")
    tour_n = 0
    with open(outp, "w") as fo:
        p = subprocess.Popen(cmd, cwd=d, env=e, stdout=subprocess.PIPE, stderr=subprocess.STDOUT, text=True, bufsize=1 << 20)
        tf = open(emit_to, "a") if emit_to else None
        for line in p.stdout:
            if line.startswith('"@@'):
                if tf:
                    try:
                        tf.write(json.loads(line)[2:] + "\n")
                        tour_n += 1
                    except Exception:
                        fo.write(line)
            else:
                fo.write(line)
        p.wait()
        if tf:
            tf.close()
    shutil.rmtree(meta, ignore_errors=True)
    out = open(outp).read()
    res = dict(rc=p.returncode, out=out, wall_s=round(time.time() - t, 2), tour=tour_n, states=0, distinct=0,
               module=module, violated=None)
    m = re.search(r"(\d+) states generated, (\d+) distinct states found", out)
    if m:
        res["states"], res["distinct"] = int(m.group(1)), int(m.group(2))
    if p.returncode == 124:
        raise Infra("TLC timeout on %s after %ss" % (module, timeout))
    m = re.search(r"Invariant (\S+) is violated|Action property (\S+) is violated|Temporal properties were violated|Deadlock reached", out)
    if m:
        res["violated"] = m.group(0)
    log("tlc %s: %d distinct, %d emitted, %.1fs" % (module, res["distinct"], tour_n, res["wall_s"]))
    res["ok"] = (p.returncode == 0 and "Model checking completed. No error has been found." in out) or \
                (simulate is not None and p.returncode == 0)
    if not res["ok"] and not res["violated"]:
        raise Infra("TLC failed on %s (rc=%s):\n%s" % (module, p.returncode, out[-3000:]))
    return res


def tlc_coverage_zero(out):
    """Names of actions/lines that -coverage reports as never taken."""
    return re.findall(r"<(\w+) line \d+, col \d+ to line \d+, col \d+ of module \w+>: 0:0", out)


# --------------------------------------------------------------------------- trace validation
TRACE_CFG = "INIT Init\nNEXT Next\nPOSTCONDITION Accepted\nCHECK_DEADLOCK FALSE\n"


def validate_trace(trace_module, trace_path, shards=None, timeout=900, cfg=TRACE_CFG, env=None):
    """Shard an ndjson trace over TLC processes.  Returns (n_events, bad_global_indices)."""
    lines = [l for l in open(trace_path) if l.strip()]
    if not lines:
        raise Infra("empty trace %s" % trace_path)
    shards = min(shards or NPAR, max(1, len(lines) // 500))
    size = (len(lines) + shards - 1) // shards
    procs = []
    d = spec_dir()
    for s in range(shards):
        chunk = lines[s * size:(s + 1) * size]
        if not chunk:
            continue
        tp = os.path.join(scratch(), "%s-shard%d-%d.ndjson" % (trace_module, s, _tlc_seq[0]))
        with open(tp, "w") as fh:
            fh.writelines(chunk)
        procs.append((s * size, len(chunk), tp))
    import concurrent.futures as cf
    bad = []

    def one(args):
        off, n, tp = args
        e = {"TRACE": tp}
        if env:
            e.update(env)
        r = tlc(trace_module, cfg, workers=1, timeout=timeout, env=e, heap="2g")
        m = re.search(r'^"TRACE-RESULT (.*)"$', r["out"], re.M)
        if not m:
            raise Infra("trace validation of %s produced no result:\n%s" % (trace_module, r["out"][-3000:]))
        tr = json.loads(json.loads('"' + m.group(1) + '"'))
        done, total = tr["done"], tr["total"]
        if done != total or total != n:
            raise Infra("trace validation consumed %d of %d events (%s)" % (done, n, trace_module))
        idx = tr["bad"]
        return [off + i - 1 for i in idx]

    with cf.ThreadPoolExecutor(max_workers=NPAR) as ex:
        for b in ex.map(one, procs):
            bad += b
    return len(lines), sorted(bad)


# --------------------------------------------------------------------------- findings, violations, evidence
def load_known():
    p = os.path.join(VERIF, "known_findings.json")
    if not os.path.exists(p):
        return []
    return [k for k in json.load(open(p))["findings"]]


def _match(entry, prop, case):
    if entry.get("status") != "known" or prop not in entry.get("properties", [entry.get("property")]):
        return False
    m = entry.get("match", {})
    for k, v in m.items():
        if k.endswith("_regex"):
            f = k[:-6]
            val = case.get(f)
            if isinstance(val, list):
                try:
                    val = bytes(val).decode("latin-1")
                except Exception:
                    return False
            if not isinstance(val, str) or not re.search(v, val):
                return False
        elif k.endswith("_in"):
            if case.get(k[:-3]) not in v:
                return False
        elif k.endswith("_superset"):
            have = case.get(k[:-9]) or []
            if not set(v) <= set(have):
                return False
        else:
            if case.get(k) != v:
                return False
    return True


class Result:
    """Accumulates what one check run covered and found."""

    def __init__(self, prop, tier, seed, level="model_checking"):
        self.prop, self.tier, self.seed, self.level = prop, tier, seed, level
        self.t0 = time.time()
        self.states = self.transitions = 0
        self.tour_cases = self.trace_events = self.traces = 0
        self.evaluations = 0
        self.distinct = set()
        self.samples = []
        self.tlc_runs = []
        self.failures = []      # (case dict, note)
        self.notes = []
        self.assumptions = []
        self.extra = {}
        self.rule = ""
        self.exhaustive = False
        self.zero_coverage = []

    def add_tlc(self, r, label=None):
        self.states += r["distinct"]
        self.transitions += max(r["states"] - 1, 0)
        self.tlc_runs.append(dict(module=r["module"], label=label, distinct=r["distinct"], generated=r["states"],
                                  tour=r["tour"], wall_s=r["wall_s"]))
        if r.get("violated"):
            raise Infra("specification-level property failed in %s: %s\n%s" % (r["module"], r["violated"], r["out"][-2500:]))

    def fail(self, case, note):
        self.failures.append((case, note))

    def sample(self, x, cap=6):
        if len(self.samples) < cap:
            self.samples.append(x)

    def finish(self):
        known = load_known()
        viol, seen_known = [], {}
        vdir = os.path.join(os.environ.get("VERIF_OUT") or os.path.join(VERIF, "out"), "violations")
        for case, note in self.failures:
            hit = None
            for k in known:
                if _match(k, self.prop, case):
                    hit = k
                    break
            if hit:
                seen_known.setdefault(hit["id"], hit)
                continue
            os.makedirs(vdir, exist_ok=True)
            blob = json.dumps(dict(property=self.prop, case=case, note=note, seed=self.seed, tier=self.tier), sort_keys=True)
            path = os.path.join(vdir, "%s-%s.json" % (self.prop, hashlib.sha1(blob.encode()).hexdigest()[:12]))
            with open(path, "w") as fh:
                fh.write(blob)
            viol.append(path)
        for k in seen_known.values():
            print("KNOWN-FINDING: property=%s %s" % (self.prop, k["what"]))
        cov = dict(states=self.states, transitions=self.transitions,
                   traces_validated_against_impl=self.traces,
                   samples=self.samples or ["(none)"],
                   evaluations=self.evaluations, distinct_nontrivial=len(self.distinct),
                   rule=self.rule, tour_cases_replayed=self.tour_cases, trace_events_validated=self.trace_events,
                   tlc_runs=self.tlc_runs, exhaustive=self.exhaustive, zero_coverage_actions=self.zero_coverage,
                   known_findings_seen=sorted(seen_known), notes=self.notes)
        cov.update(self.extra)
        ev = dict(property_id=self.prop, tier=self.tier, seed=self.seed, level=self.level, coverage=cov,
                  assumptions=self.assumptions, wall_s=round(time.time() - self.t0, 2), violations=len(viol))
        os.makedirs(os.path.join(VERIF, "evidence"), exist_ok=True)
        with open(os.path.join(VERIF, "evidence", self.prop + ".json"), "w") as fh:
            json.dump(ev, fh, indent=1, sort_keys=True)
        shown = set()
        for p in viol[:20]:
            print("VIOLATION property=%s replay=%s" % (self.prop, p))
        if len(viol) > 20:
            print("... %d more violation files under %s" % (len(viol) - 20, vdir))
        return 1 if viol else 0


# --------------------------------------------------------------------------- generic pipelines
def read_ndjson(path):
    with open(path) as fh:
        for l in fh:
            l = l.strip()
            if l:
                yield json.loads(l)


def replay_tour(res, binary, module, tour_path, key=None, timeout=1200, env=None):
    """S->C: execute every tour line on the real code and compare exp with out."""
    outp = tour_path + ".out"
    r = harness(binary, ["exec", module, tour_path, outp], timeout=timeout, env=env)
    info = json.loads(r.stdout.strip().splitlines()[-1])
    log("replayed %s tour: %s" % (module, info))
    n = 0
    for ev in read_ndjson(outp):
        n += 1
        k = key(ev) if key else json.dumps({x: ev[x] for x in ev if x not in ("out", "exp", "diff")}, sort_keys=True)
        res.distinct.add(k if isinstance(k, str) else json.dumps(k, sort_keys=True))
        if n % 997 == 1:
            res.sample(json.dumps({x: ev[x] for x in ev if x != "out"}, sort_keys=True)[:1200])
        if ev.get("diff"):
            res.fail(dict(ev, _module=module), "tour: real code disagrees with the specification on %s" % ev["diff"])
    res.tour_cases += n
    res.evaluations += n
    res.traces += n
    os.remove(outp)
    return info


def drive_and_validate(res, binary, module, trace_module, seed, n, key=None, env=None, shards=None, timeout=1200,
                       reproduce=True):
    """C->S: seeded random cases on the real code, every event validated by TLC against the spec."""
    gen = os.path.join(scratch(), "%s-gen-%d.ndjson" % (module, seed))
    tr = os.path.join(scratch(), "%s-trace-%d.ndjson" % (module, seed))
    harness(binary, ["gen", module, seed, n, gen], env=env)
    harness(binary, ["exec", module, gen, tr], timeout=timeout, env=env)
    t0 = time.time()
    total, bad = validate_trace(trace_module, tr, shards=shards, timeout=timeout)
    log("validated %d %s events against %s in %.1fs: %d rejected" % (total, module, trace_module, time.time() - t0, len(bad)))
    events = list(read_ndjson(tr))
    for i, ev in enumerate(events):
        k = key(ev) if key else ev.get("op", "")
        res.distinct.add(k if isinstance(k, str) else json.dumps(k, sort_keys=True))
        if i % 1999 == 0:
            res.sample(json.dumps(ev, sort_keys=True)[:1200])
    if bad and reproduce:
        # reproduce: run exactly the rejected cases again on the freshly built code
        rp = os.path.join(scratch(), "%s-repro.ndjson" % module)
        with open(rp, "w") as fh:
            for i in bad:
                c = {k: v for k, v in events[i].items() if k != "out"}
                fh.write(json.dumps(c) + "\n")
        rp2 = rp + ".out"
        harness(binary, ["exec", module, rp, rp2], env=env)
        again = list(read_ndjson(rp2))
        for i, ev2 in zip(bad, again):
            strip = lambda o: {k: v for k, v in (o or {}).items() if k != "stack"}
            if strip(ev2.get("out")) == strip(events[i].get("out")):
                res.fail(dict(events[i], _module=module, _trace=trace_module), "trace: specification rejects the recorded event (reproduced)")
            else:
                raise Infra("event %d of module %s is not reproducible; refusing to report\nfirst: %s\nagain: %s" % (i, module, json.dumps(events[i])[:800], json.dumps(ev2)[:800]))
    elif bad:
        for i in bad:
            res.fail(dict(events[i], _module=module, _trace=trace_module), "trace: specification rejects the recorded event")
    res.trace_events += total
    res.evaluations += total
    res.traces += 1
    return total, bad
