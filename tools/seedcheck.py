#!/usr/bin/env python3
"""Calibration helper: run checks against a seeded breaking change WITHOUT touching /repo.
   usage: seedcheck.py <patch.diff> Cxx [Cyy ...] [--tier quick]
The patch is applied in a scratch worktree of /repo's HEAD; every changed file is overlaid (VERIF_MUTANT) on the build."""
import os, subprocess, sys, tempfile, shutil
patch = os.path.abspath(sys.argv[1]); props = [a for a in sys.argv[2:] if a.startswith("C")]
tier = "thorough" if "--thorough" in sys.argv else "quick"
wt = tempfile.mkdtemp(prefix="seedwt-", dir=os.environ.get("VERIF_TMP") or "/tmp")
os.rmdir(wt)
subprocess.run(["git", "-C", "/repo", "worktree", "add", "-q", "--detach", wt, "HEAD"], check=True)
try:
    r = subprocess.run(["git", "-C", wt, "apply", "--whitespace=nowarn", patch], capture_output=True, text=True)
    if r.returncode != 0:
        print("PATCH DOES NOT APPLY:", r.stderr[:500]); sys.exit(3)
    files = subprocess.run(["git", "-C", wt, "diff", "--name-only"], capture_output=True, text=True).stdout.split()
    keep = tempfile.mkdtemp(prefix="seedfiles-", dir=os.environ.get("VERIF_TMP") or "/tmp")
    maps = []
    for f in files:
        dst = os.path.join(keep, f.replace("/", "__"))
        shutil.copy(os.path.join(wt, f), dst)
        maps.append("%s=%s" % (f, dst))
    env = dict(os.environ, VERIF_MUTANT=",".join(maps), VERIF_OUT=os.path.join(keep, "out"))
    for p in props:
        r = subprocess.run(["./check", p, "--tier", tier], cwd="/verif", env=env, capture_output=True, text=True)
        nv = sum(1 for l in r.stdout.splitlines() if l.startswith("VIOLATION"))
        infra = [l for l in r.stderr.splitlines() if "INFRA" in l][:1]
        print("SEED %s %s rc=%d violations=%d %s" % (os.path.basename(os.path.dirname(patch)), p, r.returncode, nv, infra[0][:160] if infra else ""), flush=True)
    shutil.rmtree(keep, ignore_errors=True)
finally:
    subprocess.run(["git", "-C", "/repo", "worktree", "remove", "--force", wt])
