#!/usr/bin/env python3
"""Regenerates MANIFEST.json from the table below + props.CHECKS (single source of truth)."""
import json, os, subprocess, sys
HERE = os.path.dirname(os.path.abspath(__file__))
sys.path.insert(0, HERE)
import props
VERIF = os.path.dirname(HERE)

# per property metadata lives in tools/meta/<family>.json: {"Cxx": {"technique", "text", "note", "ref"}}
import glob
META = {}
for _p in sorted(glob.glob(os.path.join(HERE, "meta", "*.json"))):
    for _k, _v in json.load(open(_p)).items():
        META[_k] = (_v["technique"], _v["text"], _v["note"], _v["ref"])

REPLAY = "./check {id} --replay {{path}}"

def main():
    hooks_commits = subprocess.run(["git", "-C", "/repo", "log", "--format=%H %s"], capture_output=True, text=True).stdout.splitlines()
    hook_shas = [l.split()[0] for l in hooks_commits if l.split(" ", 1)[1].startswith("verif:")]
    allp = [json.loads(l)["id"] for l in open(os.path.join(VERIF, "properties.jsonl"))]
    na_reasons = json.load(open(os.path.join(HERE, "not_applicable.json")))
    checks = []
    for pid in allp:
        if pid not in props.CHECKS or pid not in META:
            continue
        tech, text, note, ref = META[pid]
        checks.append(dict(property_id=pid,
                           quick_cmd="./check %s --tier quick" % pid,
                           thorough_cmd="./check %s --tier thorough" % pid,
                           evidence_file="/verif/evidence/%s.json" % pid,
                           replay_cmd_template="./check %s --replay {path}" % pid,
                           engine="tlc+verifh",
                           level_claimed=dict(category=props.CHECKS[pid][1], text=text, design_ref=ref),
                           level_note=note, technique=tech))
    claimed = {c["property_id"] for c in checks}
    na = [dict(property_id=p, reason=na_reasons.get(p, "check not built yet in this round (see DESIGN.md section 8 build order)"))
          for p in allp if p not in claimed]
    m = dict(version=1, setup_cmd="./setup.sh",
             hooks=dict(guard="verif", enable="go build -tags verif (harness compiled inside the repo module with go build -overlay; see tools/vlib.py build_harness)",
                        baseline_off_cmd="cd /repo && go test -mod=mod -json -vet=off -count=1 -timeout 25m ./...",
                        source_commits=hook_shas, add_only=True),
             engines=[dict(name="tlc+verifh", path="/verif/check", serves_properties=sorted(claimed),
                           kind_free_text="TLA+ specifications under spec/ checked by TLC (exhaustive configs emit transition tours); Go conformance harness under harness/ compiled into the repository module replays tours and records seeded traces that TLC validates against the same specifications")],
             checks=checks, not_applicable=na,
             notes="Every check: ./check Cxx [--tier quick|thorough]; exit 0 held, 1 VIOLATION, 2 infrastructure failure (never a violation). known_findings.json lists genuine defects (fixed: with commit; known: narrowly matched).")
    with open(os.path.join(VERIF, "MANIFEST.json"), "w") as fh:
        json.dump(m, fh, indent=1)
    try:
        import jsonschema
        jsonschema.validate(m, json.load(open("/root/.vp/MANIFEST.schema.json")))
        print("MANIFEST.json valid: %d checks, %d not_applicable" % (len(checks), len(na)))
    except ImportError:
        print("MANIFEST.json written (jsonschema not available): %d checks" % len(checks))

main()
