"""C31: typed nil messages behave as empty read-only messages."""
import json, os
import vlib
from props import check, cfg, MODULE_OF, HARNESS_PKGS
from vlib import tlc, build_harness, drive_and_validate, scratch

MODULE_OF.update(C31="nilmsg")
HARNESS_PKGS.update(C31=("nilm",))


@check("C31")
def c31(res, tier, seed):
    b = build_harness(("nilm",))
    r = tlc("MC_PbNil", cfg({}, invariants=["ReadsIgnoreValidity", "NilReadsAsEmpty", "EqualEquivalence", "NilDistinct"]), workers=1)
    res.add_tlc(r, "object model [valid, content]: reads depend on content only; Equal compares validity; nil rows")
    # the quantifier of C31 is "every registered generated type x every read-only entry point": one event per type
    drive_and_validate(res, b, "nilmsg", "Trace_PbNil", seed, 100000, key=lambda e: e["type"], shards=2)
    if tier != "quick":
        bl = build_harness(("nilm",), tags="verif,protolegacy")
        drive_and_validate(res, bl, "nilmsg", "Trace_PbNil", seed, 100000, key=lambda e: "legacy:" + e["type"], shards=2)
    res.exhaustive = True
    res.rule = ("one event per generated message type linked into the harness (776 types of the corpus and of types/...): Marshal, deterministic "
                "Marshal, Size, Clone, Equal (3 ways), CheckInitialized, protojson/prototext Marshal and Format, reflection Has/Get/Range/"
                "WhichOneof/GetUnknown over every field, every generated Get*/Has* method through reflection; distinct = type")
    res.notes.append("level model_checking in the sense that the nil rows are derived from the TLA+ object model and checked by TLC; breadth comes from the registry loop, not from TLC")
