"""Concurrency family: C18 (lazy-field publication protocol), C19 (concurrent first use)."""
import json, os, re, time
import vlib
from props import check, cfg, MODULE_OF, HARNESS_PKGS
from vlib import tlc, build_harness, replay_tour, scratch, harness, read_ndjson, log, spec_dir

MODULE_OF.update(C18="lazyconc")
HARNESS_PKGS.update(C18=("conc",))

LAZY_PROPS = ("INVARIANT SameInstance\nINVARIANT OneWinner\nINVARIANT NoLocalEscape\nINVARIANT PublishedIsDecoded\n"
              "PROPERTY PublishOnce\nPROPERTY Terminates\n")


def mc_lazy(res, progs, built, tour=None, workers=2):
    d = spec_dir()
    name = "MC_LazyConc_%s_%s" % ("".join(p[0] for p in progs), "b" if built else "n")
    with open(os.path.join(d, name + ".tla"), "w") as fh:
        fh.write("---- MODULE %s ----\nEXTENDS MC_LazyConc\nProgDef == <<%s>>\n====\n" % (name, ", ".join('"%s"' % p for p in progs)))
    c = ("SPECIFICATION Spec\nCONSTANT Prog0 <- ProgDef\nCONSTANT IndexBuilt = %s\n" % ("TRUE" if built else "FALSE")) + LAZY_PROPS + \
        "VIEW View\nCHECK_DEADLOCK FALSE\n" + ("ACTION_CONSTRAINT Emit\n" if tour else "")
    r = tlc(name, c, emit_to=tour, workers=workers, timeout=1800)
    res.add_tlc(r, "LazyConc readers %s, index %s: all interleavings; SameInstance, OneWinner, NoLocalEscape, PublishedIsDecoded, PublishOnce, "
                   "termination under weak fairness" % (progs, "pre-built" if built else "not yet built (model only)"))
    return r


def validate_free(res, binary, seed, n, env=None):
    gen = os.path.join(scratch(), "lazyfree-gen-%d.ndjson" % seed)
    out = os.path.join(scratch(), "lazyfree-%d.ndjson" % seed)
    harness(binary, ["gen", "lazyfree", seed, n, gen], env=env)
    harness(binary, ["exec", "lazyfree", gen, out], env=env)
    events = list(read_ndjson(out))
    c = ("INIT TInit\nNEXT TNext\nCONSTANT Prog0 <- EmptyProg\nCONSTANT IndexBuilt = TRUE\nINVARIANT TInv\nVIEW TView\n"
         "POSTCONDITION Accepted\nCHECK_DEADLOCK FALSE\n")
    start, rounds = 0, 0
    while start < len(events) and rounds < 6:
        rounds += 1
        part = os.path.join(scratch(), "lazyfree-part-%d.ndjson" % rounds)
        with open(part, "w") as fh:
            for e in events[start:]:
                fh.write(json.dumps(e) + "\n")
        r = tlc("Trace_LazyConc", c, workers=1, dfs=True, env={"TRACE": part}, timeout=1800, heap="3g")
        if r.get("violated"):
            # an explained interleaving violates a LazyConc property: the trace being explained is the culprit
            m = re.search(r"k = (\d+)", r["out"])
            bad = start + (int(m.group(1)) - 1 if m else 0)
            res.fail(dict(events[bad], _module="lazyfree"), "free run: an interleaving explaining the recorded execution violates %s" % r["violated"])
            start = bad + 1
            continue
        m = re.search(r'TRACE-RESULT (.*)"', r["out"])
        if not m:
            raise vlib.Infra("Trace_LazyConc produced no result:\n" + r["out"][-2000:])
        tr = json.loads(json.loads('"' + m.group(1) + '"'))
        res.states += r["distinct"]
        if tr["done"] >= tr["total"]:
            start = len(events)
            break
        bad = start + tr["done"]
        res.fail(dict(events[bad], _module="lazyfree"),
                 "free run: no interleaving of the LazyConc protocol explains the readers' observations and results")
        start = bad + 1
    for i, e in enumerate(events):
        res.distinct.add(json.dumps(["free", e["progs"], e["out"]["rets"]]))
        if i % 97 == 0:
            res.sample(json.dumps(e)[:600])
    res.trace_events += sum(len(o) for e in events for o in e["out"]["obs"])
    res.evaluations += len(events)
    res.traces += len(events)


@check("C18")
def c18(res, tier, seed):
    b = build_harness(("conc",))
    tour = os.path.join(scratch(), "c18.tour")
    configs = [["getter", "getter"], ["getter", "refl", "raw"]]
    if tier != "quick":
        configs += [["getter", "getter", "refl"], ["getter", "getter", "getter"], ["refl", "refl", "raw"], ["getter", "refl", "getter", "raw"]]
    for progs in configs:
        mc_lazy(res, progs, True, tour=tour)
    # the index-building branch is reachable only when Unmarshal has not stored the index: checked on the model only
    mc_lazy(res, ["getter", "getter"], False)
    if tier != "quick":
        mc_lazy(res, ["getter", "refl", "raw"], False)
    res.exhaustive = True
    replay_tour(res, b, "lazyconc", tour, key=lambda e: ["gated", e["progs"], [s["at"] + str(s["obs"]) for s in e["steps"]][-3:]])
    validate_free(res, b, seed, 300 if tier == "quick" else 6000)
    if tier != "quick":
        br = build_harness(("conc",), race=True)
        validate_free(res, br, seed + 1, 1500, env={"GORACE": "halt_on_error=1"})
        res.notes.append("free runs repeated on a -race build (a race report aborts the harness: exit 2 is then investigated, not ignored)")
    res.rule = ("gated: TLC enumerates every interleaving of N readers (getter / reflection / raw-size programs) of the publication protocol; "
                "every transition is replayed on real goroutines parked at verifhook gates, comparing the gate reached and the value observed "
                "at every step and the final instances; distinct = (programs, last three step observations). free: unsynchronised goroutines on "
                "a shared lazily decoded message log their own observation sequences; Trace_LazyConc searches an explaining interleaving")
    res.assumptions += ["the Go memory model is not modelled: the specification works at the granularity of atomic operations; data-race freedom is observed by the race detector in the thorough tier",
                        "IndexBuilt = FALSE configurations are model-only: unmarshalPointerLazy always stores the index before readers exist"]
