"""Concurrency family: C18 (lazy-field publication protocol), C19 (concurrent first use)."""
import json, os, re, time
import vlib
from props import check, cfg, MODULE_OF, HARNESS_PKGS
from vlib import tlc, build_harness, replay_tour, scratch, harness, read_ndjson, log, spec_dir

MODULE_OF.update(C18="lazyconc")
HARNESS_PKGS.update(C18=("conc",))

LAZY_PROPS = ("INVARIANT SameInstance\nINVARIANT OneWinner\nINVARIANT NoLocalEscape\nINVARIANT PublishedIsDecoded\n"
              "PROPERTY PublishOnce\nPROPERTY Terminates\n")


def mc_lazy(res, progs, built, tour=None, workers=2):
    d = spec_dir()
    name = "MC_LazyConc_%s_%s" % ("".join(p[0] for p in progs), "b" if built else "n")
    with open(os.path.join(d, name + ".tla"), "w") as fh:
        fh.write("---- MODULE %s ----\nEXTENDS MC_LazyConc\nProgDef == <<%s>>\n====\n" % (name, ", ".join('"%s"' % p for p in progs)))
    c = ("SPECIFICATION Spec\nCONSTANT Prog0 <- ProgDef\nCONSTANT IndexBuilt = %s\n" % ("TRUE" if built else "FALSE")) + LAZY_PROPS + \
        "VIEW View\nCHECK_DEADLOCK FALSE\n" + ("ACTION_CONSTRAINT Emit\n" if tour else "")
    r = tlc(name, c, emit_to=tour, workers=workers, timeout=1800)
    res.add_tlc(r, "LazyConc readers %s, index %s: all interleavings; SameInstance, OneWinner, NoLocalEscape, PublishedIsDecoded, PublishOnce, "
                   "termination under weak fairness" % (progs, "pre-built" if built else "not yet built (model only)"))
    return r


def validate_free(res, binary, seed, n, env=None):
    gen = os.path.join(scratch(), "lazyfree-gen-%d.ndjson" % seed)
    out = os.path.join(scratch(), "lazyfree-%d.ndjson" % seed)
    harness(binary, ["gen", "lazyfree", seed, n, gen], env=env)
    harness(binary, ["exec", "lazyfree", gen, out], env=env)
    events = list(read_ndjson(out))
    c = ("INIT TInit\nNEXT TNext\nCONSTANT Prog0 <- EmptyProg\nCONSTANT IndexBuilt = TRUE\nINVARIANT TInv\nVIEW TView\n"
         "POSTCONDITION Accepted\nCHECK_DEADLOCK FALSE\n")
    start, rounds = 0, 0
    while start < len(events) and rounds < 6:
        rounds += 1
        part = os.path.join(scratch(), "lazyfree-part-%d.ndjson" % rounds)
        with open(part, "w") as fh:
            for e in events[start:]:
                fh.write(json.dumps(e) + "\n")
        r = tlc("Trace_LazyConc", c, workers=1, dfs=True, env={"TRACE": part}, timeout=1800, heap="3g")
        if r.get("violated"):
            # an explained interleaving violates a LazyConc property: the trace being explained is the culprit
            m = re.search(r"k = (\d+)", r["out"])
            bad = start + (int(m.group(1)) - 1 if m else 0)
            res.fail(dict(events[bad], _module="lazyfree"), "free run: an interleaving explaining the recorded execution violates %s" % r["violated"])
            start = bad + 1
            continue
        m = re.search(r'TRACE-RESULT (.*)"', r["out"])
        if not m:
            raise vlib.Infra("Trace_LazyConc produced no result:\n" + r["out"][-2000:])
        tr = json.loads(json.loads('"' + m.group(1) + '"'))
        res.states += r["distinct"]
        if tr["done"] >= tr["total"]:
            start = len(events)
            break
        bad = start + tr["done"]
        res.fail(dict(events[bad], _module="lazyfree"),
                 "free run: no interleaving of the LazyConc protocol explains the readers' observations and results")
        start = bad + 1
    for i, e in enumerate(events):
        res.distinct.add(json.dumps(["free", e["progs"], e["out"]["rets"]]))
        if i % 97 == 0:
            res.sample(json.dumps(e)[:600])
    res.trace_events += sum(len(o) for e in events for o in e["out"]["obs"])
    res.evaluations += len(events)
    res.traces += len(events)


@check("C18")
def c18(res, tier, seed):
    b = build_harness(("conc",))
    tour = os.path.join(scratch(), "c18.tour")
    configs = [["getter", "getter"], ["getter", "refl", "raw"]]
    if tier != "quick":
        configs += [["getter", "getter", "refl"], ["getter", "getter", "getter"], ["refl", "refl", "raw"], ["getter", "refl", "getter", "raw"]]
    for progs in configs:
        mc_lazy(res, progs, True, tour=tour)
    # the index-building branch is reachable only when Unmarshal has not stored the index: checked on the model only
    mc_lazy(res, ["getter", "getter"], False)
    if tier != "quick":
        mc_lazy(res, ["getter", "refl", "raw"], False)
    res.exhaustive = True
    replay_tour(res, b, "lazyconc", tour, key=lambda e: ["gated", e["progs"], [s["at"] + str(s["obs"]) for s in e["steps"]][-3:]])
    # the same schedules on a message whose lazy field occurs twice, non-contiguously: lazyUnmarshal then merges several index
    # entries into its private object; the protocol (nothing visible before the compare-and-swap, one winner) must not change
    with open(tour + ".split", "w") as fh:
        for e in read_ndjson(tour):
            fh.write(json.dumps(dict(e, input="split")) + "\n")
    replay_tour(res, b, "lazyconc", tour + ".split", key=lambda e: ["gated-split", e["progs"], [s["at"] + str(s["obs"]) for s in e["steps"]][-3:]])
    validate_free(res, b, seed, 300 if tier == "quick" else 6000)
    if tier != "quick":
        br = build_harness(("conc",), race=True)
        validate_free(res, br, seed + 1, 1500, env={"GORACE": "halt_on_error=1"})
        res.notes.append("free runs repeated on a -race build (a race report aborts the harness: exit 2 is then investigated, not ignored)")
    res.rule = ("gated: TLC enumerates every interleaving of N readers (getter / reflection / raw-size programs) of the publication protocol; "
                "every transition is replayed on real goroutines parked at verifhook gates, comparing the gate reached and the value observed "
                "at every step and the final instances; distinct = (programs, last three step observations). free: unsynchronised goroutines on "
                "a shared lazily decoded message log their own observation sequences; Trace_LazyConc searches an explaining interleaving")
    res.assumptions += ["the Go memory model is not modelled: the specification works at the granularity of atomic operations; data-race freedom is observed by the race detector in the thorough tier",
                        "IndexBuilt = FALSE configurations are model-only: unmarshalPointerLazy always stores the index before readers exist"]


# ============================================================================ C19
MODULE_OF.update(C19="onceinit")
HARNESS_PKGS.update(C19=("conc",))
ONCE_PROPS = ("INVARIANT UseSeesAll\nINVARIANT FlagImpliesComplete\nINVARIANT BodyOnce\nINVARIANT Mutex\nPROPERTY FlagMonotone\nPROPERTY Terminates\n")


def mc_once(res, g, flag0, tour=None, k=3):
    c = "SPECIFICATION Spec\nCONSTANT G = %d\nCONSTANT K = %d\nCONSTANT Flag0 = %d\n" % (g, k, flag0) + ONCE_PROPS + \
        "VIEW View\nCHECK_DEADLOCK FALSE\n" + ("ACTION_CONSTRAINT Emit\n" if tour else "")
    r = tlc("MC_OnceInit", c, emit_to=tour, workers=2, timeout=1800)
    res.add_tlc(r, "OnceInit G=%d K=%d Flag0=%d: all interleavings; UseSeesAll, FlagImpliesComplete, BodyOnce, Mutex, FlagMonotone, termination" % (g, k, flag0))
    return r


def retarget(src, dst, target):
    with open(dst, "w") as fh:
        for e in read_ndjson(src):
            fh.write(json.dumps(dict(e, target=target)) + "\n")


def first_use_runs(res, binary, seed, nproc, env=None, label=""):
    """Fresh processes: the first is the sequential reference (one goroutine, every item), the others make concurrent first use."""
    import random
    rnd = random.Random(seed)
    cases = [dict(seed=seed, g=1, frac=1)] + [dict(seed=rnd.randrange(1 << 30), g=rnd.choice([2, 4, 8, 16, 32]), frac=rnd.choice([1, 2, 3, 5]))
                                             for _ in range(nproc)]
    trace = os.path.join(scratch(), "firstuse%s-%d.ndjson" % (label, seed))
    with open(trace, "w") as out:
        for i, c in enumerate(cases):
            inp = os.path.join(scratch(), "fu.in")
            with open(inp, "w") as fh:
                fh.write(json.dumps(c) + "\n")
            r = harness(binary, ["exec", "firstuse", inp, inp + ".out"], env=env, check=False)
            if r.returncode != 0:
                if "DATA RACE" in (r.stdout + r.stderr):
                    res.fail(dict(c, _module="firstuse", race=(r.stdout + r.stderr)[-1500:]), "first use: the race detector reported a data race")
                    continue
                raise vlib.Infra("firstuse process failed: %s" % (r.stdout + r.stderr)[-1500:])
            out.write(open(inp + ".out").read())
    total, bad = vlib.validate_trace("FirstUseMemo", trace, shards=1, timeout=1800)
    events = list(read_ndjson(trace))
    for i in bad:
        res.fail(dict({k: v for k, v in events[i].items() if k != "out"}, _module="firstuse",
                      note=str(events[i]["out"].get("panic", "digest differs from the sequential reference"))[:400]),
                 "first use: a goroutine observed a descriptor/behaviour digest different from the sequential program (or panicked)")
    for e in events:
        res.distinct.add(json.dumps(["firstuse", e["g"], e["frac"]]))
    res.sample(json.dumps({k: v for k, v in events[-1].items() if k != "out"}) + " -> %d (name, digest) observations" % len(events[-1]["out"].get("digs", {})))
    res.trace_events += sum(len(e["out"].get("digs", {})) for e in events)
    res.evaluations += len(events)
    res.traces += len(events)


@check("C19")
def c19(res, tier, seed):
    b = build_harness(("conc",))
    tour = os.path.join(scratch(), "c19.tour")
    mc_once(res, 2, 0, tour=tour)
    mc_once(res, 2, 1, tour=tour)
    mc_once(res, 3, 0)           # two waiters: the Go mutex decides who acquires, so G=3 is model-checked but not gate-replayed
    if tier != "quick":
        mc_once(res, 4, 0)
    res.exhaustive = True
    replay_tour(res, b, "onceinit", tour, key=lambda e: ["gated", e["g"], e["flag0"], [s["at"] + str(s["obs"]) for s in e["steps"]][-3:]])
    # the same protocol with a one-stage body is filedesc.File.lazyInit/lazyInitOnce (K = 2: lazyRawInit, then the store);
    # every schedule runs on a File built again from a registered file's raw descriptor, never lazily initialised before
    ftour = os.path.join(scratch(), "c19-file.tour")
    mc_once(res, 2, 0, tour=ftour, k=2)
    mc_once(res, 2, 1, tour=ftour, k=2)
    retarget(ftour, ftour + ".file", "file")
    replay_tour(res, b, "onceinit", ftour + ".file", key=lambda e: ["gated-file", e["g"], e["flag0"], [s["at"] + str(s["obs"]) for s in e["steps"]][-3:]])
    first_use_runs(res, b, seed, 6 if tier == "quick" else 60)
    # the race detector is a sensor of the conformance harness: a DATA RACE report during concurrent first use is a violation
    br = build_harness(("conc",), race=True)
    nrace = 2 if tier == "quick" else 12
    first_use_runs(res, br, seed + 7, nrace, env={"GORACE": "halt_on_error=1 exitcode=66"}, label="-race")
    res.notes.append("%d fresh -race processes of concurrent first use" % nrace)
    res.rule = ("gated: TLC enumerates every interleaving of 2 goroutines through MessageInfo.init/initOnce (K=3) and through "
                "filedesc.File.lazyInit/lazyInitOnce (K=2), flag initially clear or set; every transition is replayed on real goroutines parked "
                "at verifhook gates on a message type not used before in the process / on a File freshly built from a registered raw descriptor, "
                "comparing the flag value / table completeness observed at every step and the descriptor digest each goroutine reads afterwards; free: fresh processes in which 2-32 goroutines make concurrent first "
                "use of a seeded subset of ~1500 registered types, enums, extensions and files; every (item, digest) must equal the sequential "
                "reference (FirstUseMemo); distinct = step-observation suffixes and (goroutines, subset) classes")
    res.assumptions += ["gated replay covers impl.MessageInfo.init (generated and opaque paths) and filedesc.File.lazyInit; legacy wrappers and the global registries are covered by the free-running digests only",
                        "the Go memory model is not modelled; -race runs in the thorough tier"]
