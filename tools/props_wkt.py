"""Well-known-type family: C23 (JSON forms), C43 (time helpers), C44 (FieldMask algebra), C45 (Struct/Value/Any)."""
import json, os
import vlib
from props import check, cfg, MODULE_OF, HARNESS_PKGS
from vlib import tlc, build_harness, replay_tour, drive_and_validate, scratch

import threading


class _AtomicSeq:
    """vlib.tlc numbers its runs with `_tlc_seq[0] += 1` followed by a separate read; validate_trace calls it from several
    threads, and under load two shards then share one metadir and delete each other's files (seen as FileNotFoundException in
    TLC).  This drop-in makes the increment atomic and the following read thread-local."""

    def __init__(self, start):
        self._n, self._lock, self._local = start, threading.Lock(), threading.local()

    def __getitem__(self, i):
        return getattr(self._local, "v", self._n)

    def __setitem__(self, i, v):
        with self._lock:
            self._n += 1
            self._local.v = self._n


if isinstance(getattr(vlib, "_tlc_seq", None), list):
    vlib._tlc_seq = _AtomicSeq(vlib._tlc_seq[0])

MODULE_OF.update(C23="wkt", C43="timeconv", C44="fieldmask", C45="structval")
HARNESS_PKGS.update(C23=("wkt",), C43=("wkt",), C44=("wkt",), C45=("wkt",))


def _txt(v):
    try:
        return bytes(v).decode("latin-1")
    except Exception:
        return str(v)


# ============================================================================ C43
@check("C43")
def c43(res, tier, seed):
    b = build_harness(("wkt",))
    tour = os.path.join(scratch(), "c43.tour")
    r = tlc("MC_TimeConv", cfg({"Tier": '"%s"' % tier}, invariants=["Laws"], emit="Emit"), emit_to=tour)
    res.add_tlc(r, "corner (seconds, nanos) pairs, time.Duration and time.Time values; laws: New;As = id, exact-or-saturated, "
                   "monotone, instant preserved, validity = years 1..9999 via the calendar, documented constants derived")
    res.exhaustive = True

    def cls(e):
        o = e.get("exp") or e.get("out") or {}
        d = _txt(o.get("d", []))
        sat = "max" if d == "9223372036854775807" else "min" if d == "-9223372036854775808" else "exact"
        sg = lambda k: "-" if _txt(e.get(k, [48])).startswith("-") else "0" if _txt(e.get(k, [48])) == "0" else "+"
        return [e["op"], sg("s") + sg("n") + sg("d") + sg("u"), sat if e["op"] == "dur" else "", o.get("valid"), len(e.get("s", e.get("d", e.get("u", []))))]
    replay_tour(res, b, "timeconv", tour, key=cls)
    n = 6000 if tier == "quick" else 300000
    drive_and_validate(res, b, "timeconv", "Trace_TimeConv", seed, n, key=cls)
    res.rule = ("tour: TLC enumerates corner seconds x corner nanos (int64/int32 limits, 9223372036/7 s multiplication edge, "
                ".854775807 clamp edge, validity bounds +-1, all sign combinations) for AsDuration/IsValid/CheckValid/AsTime, "
                "corner time.Duration and time.Time values for New, each with the specification's exact result; distinct = "
                "(op, sign pattern, exact/saturated, validity, magnitude) classes; driver: corner-biased and bit-length-uniform "
                "random values validated by Trace_TimeConv")
    res.assumptions.append("time.Time values are built with time.Unix(sec, nsec) in three locations; monotonic readings are not modelled")


# ============================================================================ C44
def tla_chars(s):
    return "<<" + ",".join(str(b) for b in s.encode()) + ">>"


def tla_set(items):
    return "{" + ", ".join(items) + "}"


FM_ROOTS = ["goproto.proto.test.TestAllTypes", "goproto.proto.test3.TestAllTypes", "goproto.proto.testeditions.TestAllTypes"]
FM_EXPORT = FM_ROOTS + ["goproto.proto.test.TestRequired", "google.protobuf.FieldMask"]
FM_GOOD = {"goproto.proto.test.TestAllTypes": "optional_nested_message.a",
           "goproto.proto.test3.TestAllTypes": "singular_nested_message.a",
           "goproto.proto.testeditions.TestAllTypes": "optional_nested_message.a"}


def export_schema(b, segs=()):
    """Asks the harness for the descriptor facts of the corpus types and hands them to TLC through WKT_SCHEMA."""
    p = os.path.join(scratch(), "wkt-schema-req.ndjson")
    with open(p, "w") as fh:
        fh.write(json.dumps({"op": "schema", "roots": FM_EXPORT}) + "\n")
    vlib.harness(b, ["exec", "fieldmask", p, p + ".out"])
    ev = next(vlib.read_ndjson(p + ".out"))
    msgs = ev["out"]["msgs"]
    if not msgs or any(not m["fields"] for m in msgs if m["full"] in FM_ROOTS):
        raise vlib.Infra("schema export is empty")
    sp = os.path.join(scratch(), "wkt-schema.json")
    with open(sp, "w") as fh:
        json.dump({"msgs": msgs, "roots": FM_ROOTS, "segs": [list(x.encode()) for x in segs],
                   "good": [list(FM_GOOD[r].encode()) for r in FM_ROOTS]}, fh)
    os.environ["WKT_SCHEMA"] = sp
    return msgs


# `./check C44 --replay FILE` re-validates a recorded event with Trace_FieldMaskAlg, which reads the schema file: provide it.
import sys as _sys
if len(_sys.argv) > 2 and _sys.argv[1] == "C44" and "--replay" in _sys.argv:
    try:
        export_schema(build_harness(("wkt",)))
    except Exception as _e:                      # the replay itself will report what is wrong
        vlib.log("C44 replay: schema export failed: %r" % (_e,))


@check("C44")
def c44(res, tier, seed):
    b = build_harness(("wkt",))
    quick = tier == "quick"
    segs = ["optional_int32", "optional_nested_message", "repeated_nested_message", "map_string_nested_message", "OptionalGroup",
            "optionalgroup", "not_group_like_delimited", "a", "corecursive", "singular_nested_message", ""]
    if not quick:
        segs += ["RepeatedGroup", "oneof_nested_message", "nosuch"]
    msgs = export_schema(b, segs)
    # ---- algebra
    nuni = 8 if quick else 16
    tour = os.path.join(scratch(), "c44a.tour")
    r = tlc("MC_FieldMaskAlg", cfg({"Tier": '"%s"' % tier, "MaxNorm": 3, "MaxA": 2, "MaxB": 2, "MaxC": 1},
                                   invariants=["Laws"], emit="Emit"), emit_to=tour, timeout=3000)
    res.add_tlc(r, "all masks <= 3 paths, all pairs (<= 2 paths each) and small triples%s over %d corner paths; laws: idempotent, sorted, prefix-free, coverage equalities, "
                   "absorption, commutativity, denotational = algorithmic, order = segment-wise lexicographic" % ("", nuni))
    fkey = lambda e: [e["op"], len(e.get("paths", [])), [len(m) for m in e.get("m", [])], len((e.get("exp") or e.get("out")).get("r", (e.get("exp") or e.get("out")).get("norm", [])))]
    replay_tour(res, b, "fieldmask", tour, key=fkey)
    # ---- validity
    tour2 = os.path.join(scratch(), "c44v.tour")
    r = tlc("MC_FieldMaskValid", cfg({"MaxDepth": 3 if quick else 4}, invariants=["Laws", "TableLaws", "GoodIsValid"], emit="Emit"),
            emit_to=tour2, timeout=3000)
    res.add_tlc(r, "all paths of <= %d segments over %d segment names from 3 corpus roots; laws: chain definition = left-to-right walk, "
                   "prefix-closed exactly through singular message fields" % (3 if quick else 4, len(segs)))
    res.exhaustive = True
    vkey = lambda e: ["valid", e["msg"].split(".")[-2], _txt(e["paths"]).count(","), (e.get("exp") or e.get("out"))["n"], _txt(e["paths"]).count(".")]
    replay_tour(res, b, "fieldmask", tour2, key=vkey)
    n = 5000 if quick else 200000
    drive_and_validate(res, b, "fieldmask", "Trace_FieldMaskAlg", seed, n,
                       key=lambda e: vkey(e) if e["op"] == "valid" else fkey(e))
    res.extra["schema_messages"] = len(msgs)
    res.rule = ("tour A: every mask/pair/small triple%s of masks over a corner path universe (nested prefixes, string-prefix siblings, a byte below '.', "
                "duplicates) with the specified Normalize/Union/Intersect result; tour V: every path up to the depth bound over a segment "
                "alphabet covering scalar/message/repeated/map/group/delimited/oneof fields, missing and empty segments, from 3 corpus roots, "
                "alone and inside a list; distinct = (op, list sizes, result size) resp. (root, list size, #accepted, depth) classes; driver: "
                "random lists over abstract segments and over real corpus field names (random descriptor walks + 7 damage operators)"
                % "")
    res.assumptions.append("the schema facts (field name, kind, cardinality, message type) are exported from the real descriptors by the harness")


# ============================================================================ C23
@check("C23")
def c23(res, tier, seed):
    b = build_harness(("wkt",))
    quick = tier == "quick"
    tour = os.path.join(scratch(), "c23t.tour")
    r = tlc("MC_WktTime", cfg({"Tier": '"%s"' % tier, "DurLen": 4 if quick else 6}, invariants=["Laws"], emit="Emit"), emit_to=tour, timeout=3000)
    res.add_tlc(r, "Duration: all strings <= %d over {-+.019s space} + edit neighbourhoods of boundary literals; Timestamp: edit neighbourhoods "
                   "of RFC 3339 seeds; corner (seconds, nanos) pairs; laws: automaton = decomposition, accepted => valid, "
                   "canonical output parses back, marshal ok <=> valid" % (4 if quick else 6))
    res.exhaustive = True

    def tkey(e):
        o = e.get("exp") or e.get("out") or {}
        if e["op"] in ("durparse", "tsparse"):
            s = _txt(e["s"])
            return [e["op"], o.get("ok"), min(len(s), 12) if e["op"] == "durparse" else len(s), sum(ch in s for ch in "-+.,:TZtz s")]
        if e["op"] in ("tojson", "fromjson"):
            t = e["m"]["t"] if e["op"] == "tojson" else e["t"]
            shape = json.dumps(e.get("j", e.get("m")))
            return [e["op"], t, o.get("ok"), shape.count('"k"') + shape.count('"t"'), (e.get("j") or {}).get("k", "")]
        return [e["op"], o.get("ok"), len(o.get("str", [])), _txt(e["secs"])[:1], _txt(e["nanos"])[:1]]
    replay_tour(res, b, "wkt", tour, key=tkey)
    tour2 = os.path.join(scratch(), "c23f.tour")
    r = tlc("MC_WktForms", cfg({"Tier": '"%s"' % tier, "FmLen": 3 if quick else 5, "Depth": 1 if quick else 2}, invariants=["Laws"], emit="Emit"),
            emit_to=tour2, timeout=3000)
    res.add_tlc(r, "FieldMask strings <= %d over {aB_1., space}; wrapper range limits; Value/Struct/ListValue of depth <= %d; Any: embedded corner "
                   "messages x URL classes, member sequences <= 3; cross-type parsing; laws: marshal;parse = id, parse;marshal;parse stable, "
                   "camel/snake reversibility = shape, base64 inverse" % (3 if quick else 5, 1 if quick else 2))
    replay_tour(res, b, "wkt", tour2, key=tkey)
    n = 5000 if quick else 200000
    drive_and_validate(res, b, "wkt", "Trace_Wkt", seed, n, key=tkey)
    res.rule = ("tour T: every Duration string up to the length bound over {-+.019s space}, the edit-distance-1 neighbourhoods (insert/"
                "replace/delete over digits and -+.,:TtZzs space) of boundary Duration literals and of RFC 3339 seeds (range limits, leap "
                "days, fraction lengths 0..10, offsets), and corner (seconds, nanos) pairs for marshaling, each with the specified verdict, "
                "value and canonical text; tour F: FieldMask strings, wrapper range limits, nested Struct/Value/ListValue, Any member "
                "sequences and URL classes, cross-type parsing, each with the specified abstract JSON / message; distinct = (op, verdict, "
                "length, separator set) resp. (op, type, verdict, size, top-level kind) classes; driver: structured + damaged random "
                "Duration/Timestamp strings, random (seconds, nanos) pairs, random nested messages and JSON documents")
    res.assumptions.append("JSON text <-> abstract JSON (numbers by value, members sorted) is done by the harness with encoding/json and strconv; "
                           "non-integer number literals are uninterpreted tokens that must be preserved (DESIGN 6)")
    res.assumptions.append("the RFC 3339 leap second ':60' and lower-case 't'/'z' are outside the specified grammar (protobuf-go rejects them; "
                           "the property statement is silent)")
    res.notes.append("base64 leniency on input (URL alphabet, missing padding) and JSON number spellings other than canonical integers "
                     "are the business of C22 and are not asserted here")


# ============================================================================ C45
def export_any_types(b):
    """The message types registered in the harness binary and which abstract slots (AnyBox) each has; handed to TLC (both the
    exhaustive run and trace validation) through WKT_TYPES."""
    p = os.path.join(scratch(), "wkt-types-req.ndjson")
    with open(p, "w") as fh:
        fh.write(json.dumps({"op": "types"}) + "\n")
    vlib.harness(b, ["exec", "structval", p, p + ".out"])
    out = next(vlib.read_ndjson(p + ".out"))["out"]
    types, facts = out["types"], out["facts"]
    if len(types) < 50 or len(facts) != len(types):
        raise vlib.Infra("only %d registered message types / %d fact records" % (len(types), len(facts)))
    tp = os.path.join(scratch(), "wkt-types.json")
    with open(tp, "w") as fh:
        json.dump({"types": types, "facts": facts}, fh)
    os.environ["WKT_TYPES"] = tp
    return types, facts


def _c45_trace_env(b, case):
    export_any_types(b)
    return {"WKT_TYPES": os.environ["WKT_TYPES"]}


try:
    from props import TRACE_ENV
    TRACE_ENV["Trace_StructVal"] = _c45_trace_env
except ImportError:
    pass


def _box_empty(c):
    return c["s"] == 0 and not c["r"] and c["q"] == 0 and c["u"] == 0


def box_shapes(e):
    """What one AnyBox history exercised: for every UnmarshalTo step, payload empty? x destination dirty before? x type match? x
    options x verdict; for the other steps their kind (and the verdict)."""
    o = e.get("exp") or e.get("out") or {}
    obs, sh = o.get("obs", []), []
    for i, p in enumerate(e["steps"]):
        if i >= len(obs):
            break
        prev = obs[i - 1] if i else {"empty": True, "is": False, "dst": {"s": 0, "r": [], "q": 0, "u": 0}}
        if p["a"] == "to":
            sh.append("to:%s%s%s%s%s%s" % ("E" if prev["empty"] else "p", "D" if not _box_empty(prev["dst"]) else "c", "=" if prev["is"] else "x",
                                           "M" if p["o"]["merge"] else "-", "P" if p["o"]["part"] else "-", "+" if obs[i]["ok"] else "!"))
        elif p["a"] == "unew":
            sh.append("unew:%s%s%s" % ("E" if prev["empty"] else "p", "P" if p["o"]["part"] else "-", "+" if obs[i]["ok"] else "!"))
        elif p["a"] == "url":
            u = _txt(p["u"])
            sh.append("url:%s%s" % ("/" if "/" in u else "-", "=" if obs[i]["is"] else "x"))
        else:
            sh.append(p["a"] + ("+" if obs[i]["ok"] else "!"))
    return sh


@check("C45")
def c45(res, tier, seed):
    b = build_harness(("wkt",))
    quick = tier == "quick"
    types, facts = export_any_types(b)
    tour = os.path.join(scratch(), "c45.tour")
    seeds = "{1}" if quick else "{1, 2, 3, 4, 5, 6, 7, 8}"
    r = tlc("MC_StructVal", cfg({"Tier": '"%s"' % tier, "Depth": 1 if quick else 2, "UrlLen": 4 if quick else 6, "Seeds": seeds,
                                "BoxOps": 1 if quick else 2, "BoxRounds": 1 if quick else 2},
                                invariants=["Laws"], emit="Emit"), emit_to=tour, timeout=3000)
    res.add_tlc(r, "Go values of depth <= %d over 46 leaves; Any URLs <= %d over {ab./} x 5 names; %d registered types x seeds; laws: "
                   "NewValue ok <=> convertible, AsInterface.NewValue = Conv, identity on normal forms, idempotent, encoding/json = protojson "
                   "when finite, MessageIs <=> MessageName =, New round trips; AnyBox machine: histories fill;new;[url];op{<=%d} x %d round(s) "
                   "for representative types + sweeps over all %d types and all suffix-name pairs; laws: UnmarshalTo without Merge leaves "
                   "exactly the packed message whatever dst held, with Merge = proto.Merge, mismatch leaves dst alone, empty payload <=> "
                   "empty message, MessageIs <=> MessageName =" % (1 if quick else 2, 4 if quick else 6, len(types), 1 if quick else 2,
                                                                   1 if quick else 2, len(types)))
    res.exhaustive = True

    def key(e):
        o = e.get("exp") or e.get("out") or {}
        if e["op"] == "newvalue":
            sh = json.dumps(e["v"])
            return ["newvalue", e["v"]["g"], o.get("ok"), o.get("pjok"), sh.count('"g"'), sorted(set(x for x in
                    ("int8", "int16", "int32", "int64", "uint8", "uint16", "uint32", "uint64", "float32", "jnum", "bytes", "bad", "nan", "inf") if '"%s"' % x in sh))]
        if e["op"] == "anyurl":
            return ["anyurl", _txt(e["n"]), o.get("is"), o.get("new"), len(_txt(o.get("name", []))) > 0, _txt(e["url"]).count("/")]
        if e["op"] == "anybox":
            sh = box_shapes(e)
            f = facts[e["T"] - 1]
            for x in sh:
                if x.startswith("to:ED="):          # empty payload into a populated destination of the right type
                    shape_types.add(_txt(e["tn"]))
                    if f["q"]:
                        shape_req_types.add(_txt(e["tn"]))
            return ["anybox", "".join(k for k in "srq" if f[k]), sorted(set(sh))]
        return ["anyrt", _txt(e["type"])]
    shape_types, shape_req_types = set(), set()
    replay_tour(res, b, "structval", tour, key=key)
    tour_shape = len(shape_types)
    shape_types.clear(); shape_req_types.clear()
    n = 5000 if quick else 150000
    drive_and_validate(res, b, "structval", "Trace_StructVal", seed, n, key=key)
    res.extra["registered_types"] = len(types)
    res.extra["any_suffix_name_pairs"] = sum(1 for x in types for y in types if x != y and _txt(y).endswith(_txt(x)))
    res.extra["types_with_empty_payload_into_dirty_destination"] = {"tour": tour_shape, "driver": len(shape_types),
                                                                    "driver_with_required_fields": len(shape_req_types)}
    if tour_shape < len(types):
        raise vlib.Infra("the sweep reached the empty-payload x dirty-destination shape for %d of %d types" % (tour_shape, len(types)))
    res.rule = ("tour: every JSON-like Go value up to the depth bound over 46 leaves (all integer widths at their limits and around 2^53, "
                "floats incl. NaN/Inf/-0, json.Number, valid/invalid UTF-8, []byte, a non-JSON type) with the specified Value, AsInterface "
                "result, encoding/json and protojson images; every URL string up to the bound x 5 message names; every registered message "
                "type x seeds through anypb.New/UnmarshalTo/UnmarshalNew/MessageIs/MessageName; distinct = (op, kind set, verdicts, size) "
                "resp. (name, verdicts) resp. type; every history of the AnyBox machine (Any + destination of a registered type; steps "
                "fill / new / url / UnmarshalTo / UnmarshalNew with Merge and AllowPartial; contents empty, populated, partially "
                "initialised; sources: own type, suffix-name partner, unrelated type; URL variants incl. last segment merely ending in "
                "the name) up to the bounds for representative types, plus for EVERY registered type the empty payload into a dirty "
                "destination and for every suffix-name pair each member offered to the other, with the specified observation after "
                "every step; distinct = (slot class, set of step shapes: payload empty? x destination dirty? x type match? x options x "
                "verdict); driver: random nested Go values, random URLs, random types with random contents, random AnyBox histories "
                "over all registered types (a third start with a dirty destination and a mostly empty message)")
    res.assumptions.append("float64(n) for integers |n| > 2^53 is an uninterpreted function: its value travels with the case (computed by the "
                           "Go conversion in the driver, quoted from IEEE 754 in the tour)")
    res.assumptions.append("MessageSet types are excluded from the anypb round trips (they need the protolegacy build tag)")
    res.assumptions.append("AnyBox: message contents are abstract (one singular scalar slot, one repeated scalar slot, the required fields, "
                           "unknown-field records); the harness maps them onto the first suitable fields of each registered type and "
                           "projects real messages back, reporting any populated field outside the slots; which slots a type has is "
                           "exported from the real descriptors")
