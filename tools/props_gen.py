"""Family gen: C40 (generation is deterministic), C41 (generated code compiles and is faithful), C42 (Go identifiers).

Specs: spec/gen/*.tla.  Harness: harness/gen/*.go (modules gonames, gen, gencomp).
"""
import concurrent.futures as cf
import json, os, re, shutil, subprocess, time
import vlib
from props import check, cfg, MODULE_OF, HARNESS_PKGS
from vlib import tlc, build_harness, scratch, harness, read_ndjson, log, Infra

MODULE_OF.update(C40="gen", C41="gencomp", C42="gonames")
HARNESS_PKGS.update(C40=("gen",), C41=("gen",), C42=("gen",))


def _S(xs):
    return "{" + ", ".join('"%s"' % x for x in xs) + "}"


def _txt(codes):
    return "".join(chr(c) if c >= 0 else "\\x%02x" % -c for c in codes)


def _parallel(jobs):
    """Run TLC jobs (thunks) concurrently, one single-worker JVM each (measured here: several 1-worker JVMs beat one
    multi-worker JVM by a wide margin).  Starts are staggered because vlib.tlc numbers its runs with a plain counter."""
    out = [None] * len(jobs)
    with cf.ThreadPoolExecutor(max_workers=max(1, min(len(jobs), vlib.NPAR))) as ex:
        futs = []
        for i, j in enumerate(jobs):
            futs.append(ex.submit(j))
            time.sleep(0.15)
        for i, f in enumerate(futs):
            out[i] = f.result()
    return out


def _validate(trace_module, trace_path, shards=None, timeout=900):
    """Like vlib.validate_trace, but also returns the drift indices and the "@@" explanation lines the trace
    specification prints for rejected events.  -> (n, bad, drift, {global index: explanation})"""
    lines = [l for l in open(trace_path) if l.strip()]
    if not lines:
        raise Infra("empty trace %s" % trace_path)
    shards = min(shards or vlib.NPAR, max(1, len(lines) // 400))
    size = (len(lines) + shards - 1) // shards
    parts = []
    for s in range(shards):
        chunk = lines[s * size:(s + 1) * size]
        if chunk:
            tp = os.path.join(scratch(), "%s-part%d-%d.ndjson" % (trace_module, s, int(time.time() * 1000) % 10 ** 9))
            with open(tp, "w") as fh:
                fh.writelines(chunk)
            parts.append((s * size, len(chunk), tp))

    def one(a):
        off, n, tp = a
        r = tlc(trace_module, vlib.TRACE_CFG, workers=1, timeout=timeout, env={"TRACE": tp}, heap="2g", emit_to=tp + ".why")
        m = re.search(r'^"TRACE-RESULT (.*)"$', r["out"], re.M)
        if not m:
            raise Infra("trace validation of %s produced no result:\n%s" % (trace_module, r["out"][-3000:]))
        tr = json.loads(json.loads('"' + m.group(1) + '"'))
        if tr["done"] != tr["total"] or tr["total"] != n:
            raise Infra("trace validation consumed %d of %d events (%s)" % (tr["done"], n, trace_module))
        why = {}
        if os.path.exists(tp + ".why"):
            for w in read_ndjson(tp + ".why"):
                why[off + w["l"] - 1] = w
        return [off + i - 1 for i in tr["bad"]], [off + i - 1 for i in tr.get("drift", [])], why

    bad, drift, why = [], [], {}
    for b, d, w in _parallel([(lambda a=a: one(a)) for a in parts]):
        bad += b
        drift += d
        why.update(w)
    return len(lines), sorted(bad), sorted(drift), why


# ============================================================================ C42
_VOCAB_Q = dict(F=["foo", "Foo", "foo_", "foo_1", "get_foo", "set_foo", "proto_reflect", "descriptor"],
                O=["Foo", "get_foo", "bar"], N=["Foo"], E=[], kinds=["f", "m"], any=2, plain=3)
# package-level identifiers (MC_GoNamesPkg): Default_<Msg>_<Field> constants, enum value constants, enum maps
_PKG_Q = dict(PFieldVocab=["foo", "foo__foo"], PNestedVocab=["Foo", "foo"], PNFieldVocab=["foo", "foo__foo"], PEnumVocab=["Foo", "Bar"],
              PValueVocab=["Foo", "builder", "Foo_name", "Foo_case", "Foo_builder"], PExtVocab=["foo"], MaxF=2)
_PKG_T = dict(PFieldVocab=["foo", "Foo", "foo_", "foo__foo", "foo_Foo", "Foo_Foo", "descriptor"], PNestedVocab=["Foo", "foo", "Foo_", "Foo_Foo", "_foo"],
              PNFieldVocab=["foo", "Foo", "foo__foo", "reset", "x"], PEnumVocab=["Foo", "Bar", "X_foo"],
              PValueVocab=["Foo", "foo", "builder", "Foo_name", "Foo_value", "Foo_case", "Foo_builder", "Bar_not_set_case", "Foo_"],
              PExtVocab=["foo", "Foo", "x"], MaxF=2)
_VOCAB_T = dict(F=["foo", "Foo", "_foo", "X_foo", "foo_", "foo_1", "foo_2", "get_foo", "GetFoo", "set_foo", "has_foo", "clear_foo",
                   "which_foo", "build", "reset", "descriptor", "proto_reflect", "proto_message"],
                O=["foo", "Foo", "get_foo", "has_foo", "which_foo", "bar"], N=["Foo", "Foo_", "_foo"], E=["X_foo"], kinds=["f", "m", "r"], any=2, plain=3)


def _msg_readable(ev):
    return dict(level=ev.get("level"),
                field_names=[_txt(f["n"]) for f in ev.get("fields", [])],
                field_kinds=[("oneof-member" if f["mem"] else "repeated" if f["rep"] else "optional") + (" default" if f.get("dflt") else "")
                             for f in ev.get("fields", [])],
                oneof_name=_txt(ev.get("oname", [])),
                nested_names=[_txt(x) for x in ev.get("nested", [])] + [_txt(x) for x in ev.get("enums", [])],
                nested_field_names=[[_txt(y) for y in x] for x in ev.get("nfields", [])],
                enum_value_names=[[_txt(y) for y in x] for x in ev.get("evals", [])],
                extension_names=[_txt(x) for x in ev.get("exts", [])],
                toplevel_enum=[[_txt(t["n"])] + [_txt(y) for y in t["vals"]] for t in ev.get("tenum", [])])


def _msg_failures(res, ev, why, note, extra):
    """One failure per repeated identifier of a msgnames event, attributed by the SPECIFICATION's explanation of that
    identifier (why: list of {ns, n, roles, cause}); an identifier the specification does not predict gets cause
    "unpredicted".  known_findings.json entries match on `cause` (narrow: other repetitions stay violations)."""
    pred = {w["ns"] + "." + _txt(w["n"]): w for w in (why or [])}
    dups = ev.get("out", {}).get("dups")
    if not dups:
        res.fail(dict(ev, **extra), note)
        return
    for d in dups:
        w = pred.get(d)
        res.fail(dict(ev, dup=d, cause=w["cause"] if w else "unpredicted", roles="+".join(sorted(w["roles"])) if w else "",
                      **_msg_readable(ev), **extra), note + " (identifier %s declared more than once)" % d)


def _c42_key(ev):
    o = ev.get("out", {})
    if ev["op"] == "msgnames":
        kinds = "".join("m" if f["mem"] else "r" if f["rep"] else "f" for f in ev["fields"])
        return ["msgnames", ev["level"], kinds, len(ev.get("nested", [])) + len(ev.get("enums", [])),
                any(f.get("dflt") for f in ev["fields"]), sum(len(x) for x in ev.get("nfields", [])), sum(len(x) for x in ev.get("evals", [])),
                sorted(o.get("dups", []))[:2]]
    if ev["op"] == "fieldmask":
        return ["fieldmask", len(ev["s"]), o.get("acc")]
    return [ev["op"], len(ev["s"]), len(o.get("r", [])) - len(ev["s"]), o.get("ident")]


@check("C42")
def c42(res, tier, seed):
    b = build_harness(("gen",))
    q = tier == "quick"
    v = _VOCAB_Q if q else _VOCAB_T
    t_str, t_san = os.path.join(scratch(), "c42-str.tour"), os.path.join(scratch(), "c42-san.tour")
    jobs = [
        lambda: tlc("MC_GoNames", cfg({"AlphabetName": '"ident"', "MaxLen": 4 if q else 6, "Ops": _S(["camel", "fieldmask"])},
                                      invariants=["Laws", "KeywordLaws"], emit="EmitAll"), emit_to=t_str, workers=1, timeout=1500),
        lambda: tlc("MC_GoNames", cfg({"AlphabetName": '"runes"', "MaxLen": 3 if q else 4,
                                       "Ops": _S(["sanitize"])},
                                      invariants=["Laws", "KeywordLaws"], emit="EmitAll"), emit_to=t_san, workers=1, timeout=1500),
    ]
    msg_tours = []
    pv = _PKG_Q if q else _PKG_T
    msg_consts = lambda lvs: {"FieldVocab": _S(v["F"]), "OneofVocab": _S(v["O"]), "NestedVocab": _S(v["N"]), "EnumVocab": _S(v["E"]),
                              "Levels": _S(lvs), "KindsAny": _S(v["kinds"]), "MaxAny": v["any"], "MaxPlain": v["plain"]}
    pkg_consts = dict({k: _S(x) for k, x in pv.items() if k != "MaxF"}, Levels=_S(["open", "hybrid", "opaque"]), MaxF=pv["MaxF"])
    lab_msg = ("message declarations over the collision vocabulary, API level %s: well-formedness, reserved names avoided, "
               "names are identifiers, every predicted repetition explained by a known naming defect")
    lab_pkg = ("package-level identifiers of message declarations (Default_<Message>_<Field> constants of M and of a nested message, enum "
               "value constants and enum maps of a nested and of a top-level enum, E_ extension variables, File_ variable) over a collision "
               "vocabulary x 3 API levels: every predicted repetition has a named cause, Default_ collisions = ambiguity of the '_'-joined "
               "pair, the extended model is conservative over the message-level one")
    if q:
        # one JVM for both enumerations of declarations (MC_GoNamesDecl = disjoint union of MC_GoNamesMsg and MC_GoNamesPkg)
        tp = os.path.join(scratch(), "c42-decl.tour")
        msg_tours.append(tp)
        jobs.append(lambda: tlc("MC_GoNamesDecl", cfg(dict(msg_consts(("open", "hybrid", "opaque")), **pkg_consts), invariants=["Laws"], emit="Emit"),
                                emit_to=tp, workers=1, timeout=3000))
        labels = [lab_msg % "open/hybrid/opaque" + "; " + lab_pkg]
    else:
        labels = []
        for lvs in [("open",), ("hybrid",), ("opaque",)]:          # thorough: one JVM per level
            tp = os.path.join(scratch(), "c42-msg-%s.tour" % "-".join(lvs))
            msg_tours.append(tp)
            jobs.append(lambda lvs=lvs, tp=tp: tlc("MC_GoNamesMsg", cfg(msg_consts(lvs), invariants=["Laws"], emit="Emit"),
                                                   emit_to=tp, workers=1, timeout=3000))
            labels.append(lab_msg % "/".join(lvs))
        t_pkg = os.path.join(scratch(), "c42-pkg.tour")
        msg_tours.append(t_pkg)
        jobs.append(lambda: tlc("MC_GoNamesPkg", cfg(pkg_consts, invariants=["Laws"], emit="Emit"), emit_to=t_pkg, workers=1, timeout=3000))
        labels.append(lab_pkg)
    runs = _parallel(jobs)
    res.add_tlc(runs[0], "all strings over {a b A _ 1 .} up to the bound: GoCamelCase loop = local definition, exported-ness on "
                         "full names, idempotence; snake(camel(s)) = s characterised; FieldMask path round trip")
    res.add_tlc(runs[1], "all rune strings over {g o A _ 1 - e-acute arabic-3 superscript-2 snowman rawbyte} up to the bound + all "
                         "keyword variants: GoSanitized yields a non-keyword Go identifier and keeps good identifiers")
    for r, lab in zip(runs[2:], labels):
        res.add_tlc(r, lab)
    res.exhaustive = True

    # ---- S->C: replay the tours
    drift_n = 0
    predicted = {}
    str_outs = []
    for tour in (t_str, t_san) + tuple(msg_tours):
        outp = tour + ".out"
        r = harness(b, ["exec", "gonames", tour, outp], timeout=2400)
        log("replayed %s: %s" % (os.path.basename(tour), r.stdout.strip().splitlines()[-1]))
        n = 0
        for ev in read_ndjson(outp):
            n += 1
            res.distinct.add(json.dumps(_c42_key(ev), sort_keys=True))
            if n % 2999 == 1:
                res.sample(json.dumps({k: ev[k] for k in ev if k != "out"}, sort_keys=True)[:900])
            out, pred = ev.get("out", {}), ev.get("pred", {})
            if ev["op"] == "msgnames":
                pd = sorted(w["ns"] + "." + _txt(w["n"]) for w in pred.get("why", []))
                for w in pred.get("why", []):
                    predicted[w["cause"]] = predicted.get(w["cause"], 0) + 1
                if pd != sorted(out.get("dups", [])):
                    drift_n += 1
                if ev.get("diff"):
                    _msg_failures(res, {k: x for k, x in ev.items() if k != "pred"}, pred.get("why"),
                                  "tour: the generated Go file declares an identifier twice", dict(_module="gonames"))
            else:
                if any(k in out and out[k] != pv for k, pv in pred.items()):
                    drift_n += 1
                if ev.get("diff"):
                    res.fail(dict(ev, _module="gonames", text=_txt(ev["s"])),
                             "tour: real code disagrees with the specification on %s" % ev["diff"])
        res.tour_cases += n
        res.evaluations += n
        res.traces += n
        if tour in (t_str, t_san):
            str_outs.append(outp)
        else:
            os.remove(outp)

    # ---- C->S: seeded random cases; they and the REAL results of every enumerated string are validated event by event
    # by Trace_GoNames (the specification's own grammars judge the real results)
    n = 2000 if q else 40000
    gen = os.path.join(scratch(), "gonames-gen-%d.ndjson" % seed)
    drv = os.path.join(scratch(), "gonames-drv-%d.ndjson" % seed)
    tr = os.path.join(scratch(), "gonames-trace-%d.ndjson" % seed)
    harness(b, ["gen", "gonames", seed, n, gen])
    harness(b, ["exec", "gonames", gen, drv], timeout=2400)
    nt = 0
    with open(tr, "w") as fh:
        for p in str_outs + [drv]:
            for l in open(p):
                if l.strip():
                    fh.write(l)
                    nt += p != drv
    t0 = time.time()
    total, bad, drift, why = _validate("Trace_GoNames", tr, shards=3 if q else None, timeout=3000)
    log("validated %d gonames events (%d replayed tour results, %d driver events) against Trace_GoNames in %.1fs: %d rejected, %d drift"
        % (total, nt, total - nt, time.time() - t0, len(bad), len(drift)))
    events = list(read_ndjson(tr))
    for i, ev in enumerate(events[nt:]):
        res.distinct.add(json.dumps(_c42_key(ev), sort_keys=True))
        if i % 1499 == 0:
            res.sample(json.dumps(ev, sort_keys=True)[:900])
    for i in [i for i in bad if i < nt]:
        if not events[i].get("diff"):
            res.fail(dict(events[i], _module="gonames", _trace="Trace_GoNames", text=_txt(events[i]["s"])),
                     "tour: the specification's grammar rejects the real result")
    bad = [i for i in bad if i >= nt]
    drift = [i for i in drift if i >= nt]
    if bad:
        rp = os.path.join(scratch(), "gonames-repro.ndjson")
        with open(rp, "w") as fh:
            for i in bad:
                fh.write(json.dumps({k: x for k, x in events[i].items() if k != "out"}) + "\n")
        harness(b, ["exec", "gonames", rp, rp + ".out"])
        for i, ev2 in zip(bad, read_ndjson(rp + ".out")):
            strip = lambda o: {k: x for k, x in (o or {}).items() if k != "stack"}
            if strip(ev2.get("out")) != strip(events[i].get("out")):
                raise Infra("gonames event %d is not reproducible; refusing to report" % i)
            extra = dict(_module="gonames", _trace="Trace_GoNames")
            if events[i]["op"] == "msgnames":
                _msg_failures(res, events[i], (why.get(i) or {}).get("why"),
                              "trace: the specification rejects the recorded event (reproduced)", extra)
            else:
                res.fail(dict(events[i], text=_txt(events[i]["s"]), **extra), "trace: the specification rejects the recorded event (reproduced)")
    res.trace_events += total
    res.evaluations += total - nt
    res.traces += 1
    drift_n += len(drift)
    res.extra["drift"] = drift_n
    res.extra["predicted_repetitions_by_cause"] = predicted
    if drift_n:
        res.notes.append("%d case(s) where the real names differ from the transcription although the property holds (spec drift)" % drift_n)
    res.rule = ("tour: every string up to the bound over two corner alphabets (ASCII identifier symbols; letters/digits/keyword letters/"
                "non-ASCII classes/raw byte) through GoCamelCase, GoSanitized, JSONCamelCase/JSONSnakeCase + protojson FieldMask, and every "
                "field list (ordered, <= 2 fields of any kind or 3 plain fields over a collision vocabulary) x oneof name x nested type "
                "x API level, and every declaration of the package-level vocabulary (<= 2 defaulted fields x nested message with a "
                "defaulted field | nested enum with a named value) x API level through protoc-gen-go, identifiers read back from the emitted "
                "file with go/parser; distinct = (op, length, result class) resp. (level, field kinds, nested, defaults, nested fields, enum "
                "values, repeated identifiers); driver: random identifiers, random Unicode strings, random declarations of up to 5 fields "
                "(defaults, nested fields, enum values) validated by Trace_GoNames")
    res.assumptions += ["Unicode class (letter / decimal digit / other) of non-ASCII runes is taken from Go's unicode tables as an input",
                        "message naming is exercised on one message M with proto2 int32 fields, at most one oneof, nested messages with plain defaulted "
                        "fields, nested enums; collisions between different top-level declarations of a file are outside the model"]


# ============================================================================ C40
def _c40_key(ev):
    o = ev.get("out", {})
    obs = o.get("obs") or []
    opt = ev["base"].get("opt") or {}
    return [ev["base"].get("set", 0) if ev["base"].get("set", 0) < 0 else ev["base"]["set"] % 69,
            [opt.get("site"), opt.get("typ"), opt.get("n"), opt.get("decl")] if opt else ev["base"].get("par", 0) % 32,
            "".join(s["mode"][0] + str(s["perm"]) for s in ev["steps"])[:6], sorted({x.get("err", "") for x in obs})]


@check("C40", "exploration")
def c40(res, tier, seed):
    b = build_harness(("gen",))
    q = tier == "quick"
    tour = os.path.join(scratch(), "c40.tour")
    # fresh processes are the expensive part (0.1 s each on an idle machine, 0.3 s when it is shared)
    sites = ["file", "message", "field", "oneof", "enum", "value", "service", "method", "range"]
    if q:
        # custom-option request shapes: every shape, every in-process plan of two runs (fresh processes see them in the driver)
        configs = [dict(Modes=["in", "fresh"], Perms="{0, 1}", MaxPlan=2, Bases="{0, 13, 31}", ShapeSites=sites, ShapeModes=["in"], ShapePerms="{0, 1}")]
    else:
        bases = "{0, 2, 3, 4, 9, 10, 13, 14, 20, 27, 28, 30, 31, 39, 58, 62}"
        configs = [dict(Modes=["in", "fresh"], Perms="{0, 1, 2}", MaxPlan=2, Bases=bases, ShapeSites=["file", "method"],
                        ShapeModes=["in", "fresh"], ShapePerms="{0, 1}"),
                   dict(Modes=["in"], Perms="{0, 1, 2}", MaxPlan=3, Bases=bases, ShapeSites=sites, ShapeModes=["in"], ShapePerms="{0, 1}")]
    for c in configs:
        r = tlc("MC_GenHistory", cfg({"Modes": _S(c["Modes"]), "Perms": c["Perms"], "Digs": "{1, 2}", "MaxPlan": c["MaxPlan"],
                                      "Bases": c["Bases"], "Par0": seed % 32, "ShapeSites": _S(c["ShapeSites"]),
                                      "ShapeModes": _S(c["ShapeModes"]), "ShapePerms": c["ShapePerms"]}, invariants=["Laws"], emit="Emit"),
                emit_to=tour, workers=1, timeout=1500)
        res.add_tlc(r, "abstract possibly-nondeterministic generator: every plan of <= %d runs over modes %s x permutations %s with every "
                       "combination of observed digests; memo-table = relational definition of determinism, prefix closure, sensitivity"
                    % (c["MaxPlan"], "/".join(c["Modes"]), c["Perms"]))
    res.exhaustive = True
    env = {"GOMAXPROCS": "2"}
    vlib.replay_tour(res, b, "gen", tour, key=_c40_key, timeout=3000, env=env)
    n = 15 if q else 250
    # C->S.  A nondeterministic generator never repeats an observation exactly, so "reproduced" means here: the same plan,
    # executed again, yields again a history that the specification rejects.
    gen = os.path.join(scratch(), "gen-gen-%d.ndjson" % seed)
    tr = os.path.join(scratch(), "gen-trace-%d.ndjson" % seed)
    harness(b, ["gen", "gen", seed, n, gen], env=env)
    harness(b, ["exec", "gen", gen, tr], timeout=3000, env=env)
    total, bad, _, _ = _validate("Trace_Gen", tr, shards=1 if q else None, timeout=3000)
    log("validated %d gen histories against Trace_Gen: %d rejected" % (total, len(bad)))
    events = list(read_ndjson(tr))
    for i, ev in enumerate(events):
        res.distinct.add(json.dumps(_c40_key(ev), sort_keys=True))
        if i % 199 == 0:
            res.sample(json.dumps(ev, sort_keys=True)[:1200])
    if bad:
        rp = os.path.join(scratch(), "gen-repro.ndjson")
        with open(rp, "w") as fh:
            for i in bad:
                fh.write(json.dumps({k: x for k, x in events[i].items() if k != "out"}) + "\n")
        harness(b, ["exec", "gen", rp, rp + ".out"], timeout=3000, env=env)
        _, bad2, _, _ = _validate("Trace_Gen", rp + ".out", shards=1, timeout=3000)
        for k, i in enumerate(bad):
            if k in bad2:
                res.fail(dict(events[i], _module="gen", _trace="Trace_Gen"),
                         "trace: the specification rejects the recorded history, and again when the plan is re-executed")
        if len(bad2) < len(bad):
            res.notes.append("%d rejected histories were accepted when re-executed (not reported)" % (len(bad) - len(bad2)))
    res.trace_events += total
    res.evaluations += total
    res.traces += total
    res.rule = ("tour: every plan of <= 2 generator runs over {in-process, fresh process} x permutations of file_to_generate (as listed, "
                "reversed%s) on %d linked file sets with rotating parameter combinations (API level x import-path mode x annotate_code), "
                "response and per-file digests compared; the same for every custom-option request shape of GenRequest (9 option sites x 12 "
                "payload/entry-count combinations x same-file/imported declaration; quick: in-process plans of 2 runs; thorough: fresh processes "
                "for the sites file/method, in-process plans of 3 runs for all); driver: random plans of 6-12 runs (1/6 in fresh "
                "processes) over all 69 linked file sets, random schemas and option shapes x 32 parameter combinations, histories validated by "
                "Trace_Gen; distinct = (file set | option shape, parameters, plan shape, error classes)" % ("" if q else ", rotated; plus every in-process plan of <= 3 runs", 3 if q else 16))
    res.assumptions += ["nondeterminism can only be OBSERVED (Go randomises map iteration per range statement and per process); "
                        "the specification cannot force an iteration order, hence level exploration",
                        "requests the plugin refuses before producing a response (no go_package, MessageSet without protolegacy) are "
                        "recorded as err=new and only required to be refused consistently"]


# ============================================================================ C41
_STAGES = ("generated", "gofmt", "compiles", "descriptor", "wire", "json", "reflect")
_ALLPASS = {k: True for k in _STAGES}


def _c41_key(it, out):
    flags = "".join("1" if out.get(k) else "0" for k in _STAGES)
    if it["op"] == "shapes":
        return ["shapes", it["syn"], it["level"], flags]
    if it["op"] == "services":
        return ["services", it["level"], flags, sorted({(m["in"] != m["out"], m["cs"], m["ss"]) for m in it["methods"]})[:8],
                out.get("methods") == [{k: m[k] for k in ("in", "out", "cs", "ss")} for m in it["methods"]]]
    if it["op"] == "msgnames":
        return ["msgnames", it["level"], "".join("m" if f["mem"] else "f" for f in it["fields"]), flags, out.get("dups", [])[:2]]
    return ["schema", it["level"], it["seed"] % 7, flags, min(out.get("messages", 0), 6)]


def _c41_fail(res, it, out, why, note):
    """Failure(s) of one pipeline item.  A msgnames declaration that does not compile because identifiers are declared
    twice is attributed, identifier by identifier, through the GoNamesMsg specification's explanation (why)."""
    case = dict(it, out=out, _module="gencomp")
    dups = out.get("dups") or []
    if it["op"] == "msgnames" and out.get("generated") and not out.get("compiles") and dups:
        pred = {}
        for w in why or []:
            pred[(w["ns"], _txt(w["n"]))] = w
        done = set()
        for d in dups:
            ns, _, name = d.partition(".")
            w = None
            if ns == "field":                       # "X redeclared": a struct field, of M or of M_builder
                w = pred.get(("M", name)) or pred.get(("M_builder", name))
            elif ns in ("M", "M_builder", "pkg"):
                w = pred.get((ns, name))
            elif ("pkg", ns) in pred:               # a method of a type that is itself declared twice
                w = pred[("pkg", ns)]
            label = (w["ns"] + "." + _txt(w["n"])) if w else d
            if label in done:
                continue
            done.add(label)
            res.fail(dict(case, dup=label, cause=w["cause"] if w else "unpredicted", roles="+".join(sorted(w["roles"])) if w else "",
                          **_msg_readable(it)), note + " (does not compile: %s declared more than once)" % label)
        return
    res.fail(case, note)


@check("C41")
def c41(res, tier, seed):
    b = build_harness(("gen",))
    q = tier == "quick"
    t_shape, t_pipe = os.path.join(scratch(), "c41-shape.tour"), os.path.join(scratch(), "c41-pipe.tour")
    t_svc = os.path.join(scratch(), "c41-svc.tour")
    kinds = ["bool", "int32", "string", "enum", "message", "group"] if q else \
        ["bool", "int32", "sint32", "uint32", "int64", "sint64", "uint64", "sfixed32", "fixed32", "float", "sfixed64", "fixed64",
         "double", "string", "bytes", "enum", "message", "group"]
    runs = _parallel([
        lambda: tlc("MC_GenSchema", cfg({"Kinds": _S(kinds)}, invariants=["Laws"], emit="Emit"), emit_to=t_shape, workers=1, timeout=1500),
        lambda: tlc("MC_GenPipe", cfg({"Levels": _S(["open", "hybrid", "opaque"]), "Pick": '"one"' if q else '"all"'},
                                     invariants=["Laws"], emit="Emit"), emit_to=t_pipe, workers=1, timeout=1500),
        lambda: tlc("MC_GenService", cfg({"MaxM": 2 if q else 3}, invariants=["Laws"], emit="Emit"), emit_to=t_svc, workers=1, timeout=1500)])
    res.add_tlc(runs[0], "every field shape (syntax x cardinality x kind x container x packed x lazy x default): prohibitions = generative "
                         "grammar; presence discipline of the derived semantics")
    res.add_tlc(runs[1], "hostile and clean message declarations: every known naming defect is exhibited by its declaration, the clean "
                         "ones are predicted free of repeated identifiers")
    res.add_tlc(runs[2], "every list of <= %d methods over 4 message types (two top-level, one nested, one imported): the generator's "
                         "goTypes/depIdxs tables read the way the runtime reads them bind every reference as declared; a layout taking "
                         "outputs from inputs is exposed exactly by methods with different input and output" % (2 if q else 3))
    res.exhaustive = True
    # ---- items: the valid shapes of each syntax packed into one message, at every API level; the declarations; random schemas
    by_syn = {}
    for e in read_ndjson(t_shape):
        by_syn.setdefault(e["shape"]["syn"], []).append(e)
    items, whys = [], []
    for syn in ("proto2", "proto3", "editions"):
        es = by_syn.get(syn, [])
        for lv in ("open", "hybrid", "opaque"):
            items.append(dict(op="shapes", syn=syn, level=lv, shapes=[e["shape"] for e in es],
                              exp=dict(_ALLPASS, presence=[e["exp"]["presence"] for e in es], packed=[e["exp"]["packed"] for e in es])))
            whys.append(None)
    # every method (input x output x streaming flags x service) of the GenService tour in one file with two services
    meths = list(read_ndjson(t_svc))
    for lv in ("open", "hybrid", "opaque"):
        items.append(dict(op="services", level=lv, methods=[e["m"] for e in meths], exp=dict(_ALLPASS, methods=[e["exp"] for e in meths])))
        whys.append(None)
    n_fixed = len(items)
    for e in read_ndjson(t_pipe):
        whys.append(e.pop("pred")["why"])
        items.append(e)
    n_tour = len(items)
    gen = os.path.join(scratch(), "gencomp-gen-%d.ndjson" % seed)
    harness(b, ["gen", "gencomp", seed, 3 if q else 45, gen])
    for e in read_ndjson(gen):
        items.append(e)
        whys.append(None)
    env = {} if q else {"VERIF_GEN_TWIN": "1"}

    def run(its):
        bp = os.path.join(scratch(), "gencomp-batch-%d.ndjson" % len(its))
        with open(bp, "w") as fh:
            fh.write(json.dumps(dict(op="batch", items=its)) + "\n")
        harness(b, ["exec", "gencomp", bp, bp + ".out"], timeout=6000, env=env)
        ev = next(read_ndjson(bp + ".out"))
        if "results" not in ev.get("out", {}):
            raise Infra("gencomp batch failed: %s" % json.dumps(ev.get("out"))[:3000])
        return ev["out"]["results"]

    t0 = time.time()
    outs = run(items)
    log("pipeline: %d packages generated, formatted, compiled and self-tested in %.1fs" % (len(items), time.time() - t0))
    # ---- S->C: tour items carry the specification's expectation
    for it, out, why in list(zip(items, outs, whys))[:n_tour]:
        res.distinct.add(json.dumps(_c41_key(it, out), sort_keys=True))
        if out.get("diff"):
            _c41_fail(res, it, {k: x for k, x in out.items() if k != "diff"}, why,
                      "tour: the generated package misses the specification on %s" % out["diff"])
    res.sample(json.dumps({k: x for k, x in items[-1].items()}, sort_keys=True)[:600])
    res.tour_cases += n_tour
    res.evaluations += n_tour
    res.traces += n_tour
    # ---- C->S: every item (tour and random schemas) as a recorded event, judged by Trace_GenPipe
    tr = os.path.join(scratch(), "gencomp-trace.ndjson")
    with open(tr, "w") as fh:
        for it, out in zip(items, outs):
            fh.write(json.dumps(dict({k: x for k, x in it.items() if k != "exp"}, out={k: x for k, x in out.items() if k != "diff"})) + "\n")
    total, bad, _, _ = _validate("Trace_GenPipe", tr, shards=1)
    log("validated %d pipeline events against Trace_GenPipe: %d rejected" % (total, len(bad)))
    drv_bad = [i for i in bad if i >= n_tour]
    for i in bad:
        if i < n_tour and not outs[i].get("diff"):
            raise Infra("Trace_GenPipe rejects tour item %d that matched its expectation" % i)
    for i in range(n_tour, len(items)):
        res.distinct.add(json.dumps(_c41_key(items[i], outs[i]), sort_keys=True))
    if drv_bad:
        again = run([items[i] for i in drv_bad])
        for i, o2 in zip(drv_bad, again):
            if [o2.get(k) for k in _STAGES] != [outs[i].get(k) for k in _STAGES]:
                raise Infra("pipeline item %d is not reproducible; refusing to report" % i)
            _c41_fail(res, dict(items[i], _trace="Trace_GenPipe"), outs[i], None, "trace: the specification rejects the recorded pipeline event (reproduced)")
    res.trace_events += total
    res.evaluations += total - n_tour
    res.traces += 1
    res.extra["packages_compiled"] = sum(1 for o in outs if o.get("compiles"))
    res.extra["messages_checked"] = sum(o.get("messages", 0) for o in outs)
    res.extra["message_values_compared"] = sum(o.get("values", 0) for o in outs)
    res.rule = ("tour: every valid field shape over %d kinds (TLC) packed into one message per syntax x 3 API levels; every method "
                "(4 input x 4 output types x 4 streaming combinations x 2 services) in one file x 3 API levels, the registered descriptor's "
                "view of each method compared with the declaration; %d hostile/clean declarations from the GoNamesMsg vocabulary; driver: %d seeded random schemas (nested messages, oneofs, maps, groups, "
                "extensions, enums, services with streaming methods, editions features, lazy fields, > 64 fields, names that collide with generated identifiers); each "
                "package: protoc-gen-go -> gofmt -> go build -> self-test binary (descriptor equality, wire/JSON/reflection equivalence "
                "with dynamicpb on seeded random values); distinct = (item kind, level, stage verdicts)"
                % (len(kinds), n_tour - n_fixed, len(items) - n_tour))
    res.assumptions += ["gofmt (go/format) and the Go compiler are sensors: their verdicts are recorded observations",
                        "descriptor equality is taken in protodesc's canonical rendering of both sides (an explicit syntax=\"proto2\" is dropped by every descriptor)",
                        "generated schemas carry no source info and no source-retention options, so their stripping is covered only trivially",
                        "accessor methods of the generated types are not called (C29); equivalence is checked through Unmarshal/Marshal, protojson and protoreflect"]
