"""Core message family (module PbCodec / PbObject): C03-C17, C28-C31 share one specification and one harness package."""
import json, os, subprocess, time
import vlib
from props import check, cfg, MODULE_OF, HARNESS_PKGS, TRACE_ENV
from vlib import tlc, build_harness, replay_tour, scratch, harness, validate_trace, read_ndjson, log

PKG = ("msg",)
BASE_TE = "goproto.proto.testeditions.TestAllTypes"
BASE_T3 = "goproto.proto.test3.TestAllTypes"
BASE_T2 = "goproto.proto.test.TestAllTypes"


def flavors(base):
    """(type name, dyn) for every implementation of one schema family."""
    fl = [(base, False), (base, True)]
    if base in (BASE_TE, BASE_T3) or base.startswith(("goproto.proto.testeditions.", "goproto.proto.test3.", "goproto.proto.messageset.")):
        fl += [("hybrid." + base, False), ("opaque." + base, False)]
    return fl


_schema = {}


def export_schema(binary, types=()):
    key = (binary, tuple(types))
    if key not in _schema:
        p = os.path.join(scratch(), "schema-%d.json" % len(_schema))
        inp = p + ".in"
        with open(inp, "w") as fh:
            fh.write(json.dumps({"types": list(types)}) + "\n")
        harness(binary, ["exec", "schema", inp, inp + ".out"])
        sch = next(read_ndjson(inp + ".out"))["out"]["schema"]
        with open(p, "w") as fh:
            json.dump(sch, fh)
        _schema[key] = p
    return _schema[key]


_all_types = {}


def all_types(binary):
    """every message type registered in the harness process (see module typelist)"""
    if binary not in _all_types:
        inp = os.path.join(scratch(), "typelist.in")
        with open(inp, "w") as fh:
            fh.write("{}\n")
        harness(binary, ["exec", "typelist", inp, inp + ".out"])
        _all_types[binary] = next(read_ndjson(inp + ".out"))["out"]["types"]
    return _all_types[binary]


def _case_schema(binary, case):
    ts = case.get("_types") or [case["type"]]
    return {"SCHEMA": export_schema(binary, tuple(ts))}


TRACE_ENV["Trace_PbObject"] = _case_schema
TRACE_ENV["Trace_PbDecode"] = _case_schema
TRACE_ENV["Trace_PbTextCodecs"] = lambda binary, case: {"SCHEMA": det_schema(binary)}
TRACE_ENV["Trace_PbDet"] = lambda binary, case: {"SCHEMA": det_schema(binary)}


def tlaset(xs):
    return "{" + ",".join(str(x) for x in xs) + "}"


def drive_hist(res, binary, seed, n, types=None, shards=None, label="hist", tags="verif", pkgs=PKG, gen_file=None):
    """Seeded random histories on the real code (all corpus types and flavours), validated by Trace_PbObject."""
    schema = export_schema(binary, tuple(types or ()))
    env = {"VERIF_TYPES": ",".join(types)} if types else None
    for k in ("VERIF_HIST_SWEEP", "VERIF_SWEEP_LARGE", "VERIF_MIX"):
        if os.environ.get(k):
            env = dict(env or {}, **{k: os.environ[k]})
    gen = os.path.join(scratch(), "%s-gen-%d.ndjson" % (label, seed))
    tr = os.path.join(scratch(), "%s-trace-%d.ndjson" % (label, seed))
    if gen_file:
        gen = gen_file
    else:
        harness(binary, ["gen", "hist", seed, n, gen], env=env)
    harness(binary, ["exec", "hist", gen, tr], env=env)
    t0 = time.time()
    total, bad = validate_trace("Trace_PbObject", tr, shards=shards, env={"SCHEMA": schema}, timeout=3000)
    log("validated %d histories against Trace_PbObject in %.1fs: %d rejected" % (total, time.time() - t0, len(bad)))
    events = list(read_ndjson(tr))
    nsteps = 0
    for i, ev in enumerate(events):
        nsteps += len(ev["steps"])
        for s in ev["steps"]:
            res.distinct.add(json.dumps([ev["type"], ev["dyn"], s["op"]]))
        if i % 701 == 0:
            res.sample(json.dumps({"type": ev["type"], "dyn": ev["dyn"], "steps": ev["steps"]})[:1500])
    if bad:
        # reproduce: execute exactly the rejected histories again on the freshly built code and validate the new recordings
        # (outputs of default, non-deterministic marshaling may legitimately differ between runs, so the VERDICT is compared)
        rp = os.path.join(scratch(), "%s-repro.ndjson" % label)
        with open(rp, "w") as fh:
            for i in bad:
                fh.write(json.dumps({k: v for k, v in events[i].items() if k != "out"}) + "\n")
        harness(binary, ["exec", "hist", rp, rp + ".out"], env=env)
        _, bad2 = validate_trace("Trace_PbObject", rp + ".out", shards=1, env={"SCHEMA": schema}, timeout=3000)
        again = list(read_ndjson(rp + ".out"))
        if not bad2:
            raise vlib.Infra("rejected histories %s were accepted when executed again; refusing to report" % bad[:5])
        for j in bad2:
            res.fail(dict(again[j], _module="hist", _trace="Trace_PbObject", _tags=tags, _pkgs=list(pkgs), _types=list(types or ())),
                     "trace: PbObject rejects the recorded history (reproduced)")
    res.trace_events += nsteps
    res.evaluations += total
    res.traces += total
    res.extra["histories"] = res.extra.get("histories", 0) + total
    return total, bad


# ============================================================================ the repository's own decode tables as inputs
_tables = {}


def repo_tables(tags="verif"):
    """Inputs (type, wire bytes, options) of proto/testmessages_test.go and messageset_test.go, dumped by a test file that is
    overlaid into /repo/proto for one `go test` run.  Only inputs are taken: what must happen is the specification's business."""
    if tags not in _tables:
        out = os.path.join(scratch(), "repo-tables-%s.ndjson" % tags.replace(",", "_"))
        ov = vlib.overlay_file({os.path.join(vlib.REPO, "proto", "zz_verif_export_test.go"):
                                os.path.join(vlib.HARNESS, "repotests", "proto_tables_test.go.txt")})
        r = subprocess.run(["go", "test", "-overlay", ov, "-tags", tags, "-vet=off", "-count=1", "-run", "^TestVerifExportTables$", "./proto"],
                           cwd=vlib.REPO, env=dict(vlib.GOENV, VERIF_EXPORT=out), capture_output=True, text=True)
        if r.returncode != 0 or not os.path.exists(out):
            raise vlib.Infra("exporting the repository's decode tables failed:\n" + (r.stdout + r.stderr)[-3000:])
        _tables[tags] = list(read_ndjson(out))
    return _tables[tags]


def table_inputs(binary, tags="verif", tables=("valid", "invalid"), maxlen=300, sample=None):
    known = set(all_types(binary))
    seen, rows = set(), []
    for t in repo_tables(tags):
        k = json.dumps([t["type"], t["b"], t.get("b2"), t["partial"], t["discard"], t["limit"], t["merge"], t["nolazy"]])
        if t["table"] in tables and t["type"] in known and len(t["b"]) <= maxlen and t["limit"] < 1000 and k not in seen:
            seen.add(k)
            rows.append(t)
    if sample and len(rows) > sample[1]:
        import random
        rows = random.Random(sample[0]).sample(rows, sample[1])
    return rows


def tables_dec(res, binary, tags="verif", tables=("valid", "invalid"), sample=None):
    """every table input through module dec (fresh Unmarshal + validator), generated and dynamicpb, lazy and eager; Trace_PbDecode decides"""
    rows = table_inputs(binary, tags, tables, sample=sample)
    types = sorted({t["type"] for t in rows})
    schema = export_schema(binary, tuple(types))
    gen = os.path.join(scratch(), "tables-dec.ndjson"); tr = gen + ".out"
    with open(gen, "w") as fh:
        for t in rows:
            for dyn in (False, True):
                for nolazy in (False, True):
                    fh.write(json.dumps({"type": t["type"], "dyn": dyn, "b": t["b"], "limit": t["limit"], "partial": t["partial"],
                                         "discard": t["discard"], "nolazy": nolazy, "desc": t["desc"][:80]}) + "\n")
    harness(binary, ["exec", "dec", gen, tr])
    total, bad = validate_trace("Trace_PbDecode", tr, shards=3, env={"SCHEMA": schema}, timeout=3000)
    log("repository decode tables: %d inputs -> %d decode events, %d rejected" % (len(rows), total, len(bad)))
    events = list(read_ndjson(tr))
    for ev in events:
        res.distinct.add(json.dumps(["table", ev["type"], ev["dyn"], ev["desc"]]))
    for i in bad:
        res.fail(dict(events[i], _module="dec", _trace="Trace_PbDecode", _types=types), "trace: PbDecodeCases rejects the Unmarshal of an input of the repository's own decode tables")
    res.trace_events += total; res.evaluations += total; res.traces += 1
    res.notes.append("%d inputs of the repository's decode tables %s decoded on 4 routes each and validated by Trace_PbDecode" % (len(rows), list(tables)))


def tables_hist(res, binary, tags="verif", tables=("valid",), label="tables", pkgs=PKG, sample=None):
    """every table input as the start of a history: unmarshal, checkinit, size, marshal, round trip, equal, clone, concatenation"""
    rows = table_inputs(binary, tags, tables, sample=sample)
    types = sorted({t["type"] for t in rows})
    gen = os.path.join(scratch(), "%s-hist.ndjson" % label)
    with open(gen, "w") as fh:
        for t in rows:
            um = {"op": "unmarshal", "o": 0, "b": t["b"], "merge": False, "partial": True, "discard": t["discard"], "limit": t["limit"], "nolazy": False}
            tail = [{"op": "checkinit", "o": 0}, {"op": "size", "o": 0, "det": True}, {"op": "marshal", "o": 0, "det": True, "partial": True},
                    {"op": "rt", "o": 0, "o2": 1, "det": False, "nolazy": True}, {"op": "equal", "o": 0, "o2": 1},
                    {"op": "clone", "o": 0, "o2": 2}, {"op": "equal", "o": 2, "o2": 0},
                    {"op": "cat", "o": 0, "o2": 1, "o3": 2, "det": True, "nolazy": False}, {"op": "marshal", "o": 2, "det": True, "partial": False}]
            for dyn in (False, True):
                for lastonly in (False, True):
                    for nolazy in ((False, True) if not dyn else (True,)):
                        fh.write(json.dumps({"type": t["type"], "dyn": dyn, "lastonly": lastonly, "steps": [dict(um, nolazy=nolazy)] + tail}) + "\n")
    res.notes.append("%d inputs of the repository's decode tables %s continued as histories (checkinit, size, marshal, round trip, equal, clone, "
                     "concatenation; generated lazy/eager + dynamicpb; projected every step / only at the end) validated by Trace_PbObject" % (len(rows), list(tables)))
    return drive_hist(res, binary, 0, 0, types=types, shards=3, label=label, tags=tags, pkgs=pkgs, gen_file=gen)


def tables_merge(res, binary, label="tables-merge", sample=None):
    """proto/merge_test.go's table: destination and source (as the encodings of the messages the table builds) merged four ways"""
    rows = table_inputs(binary, "verif", ("merge",), sample=sample)
    types = sorted({t["type"] for t in rows})
    gen = os.path.join(scratch(), "%s-hist.ndjson" % label)
    with open(gen, "w") as fh:
        for t in rows:
            for dyn in (False, True):
                um = lambda o, b: {"op": "unmarshal", "o": o, "b": b, "merge": False, "partial": True, "discard": False, "limit": 0, "nolazy": dyn}
                steps = [um(0, t["b"]), um(1, t["b2"]), {"op": "cat", "o": 0, "o2": 1, "o3": 2, "det": True, "nolazy": True},
                         {"op": "merge", "o": 0, "o2": 1}, {"op": "equal", "o": 0, "o2": 2}, um(2, t["b"]),
                         {"op": "umerge", "o": 2, "o2": 1, "nolazy": False}, {"op": "equal", "o": 2, "o2": 0},
                         {"op": "marshal", "o": 0, "det": True, "partial": True}, {"op": "size", "o": 2, "det": True}]
                for lastonly in (False, True):
                    fh.write(json.dumps({"type": t["type"], "dyn": dyn, "lastonly": lastonly, "steps": steps}) + "\n")
    res.notes.append("%d (destination, source) pairs of proto/merge_test.go merged by Merge, by concatenated decoding and by Unmarshal{Merge}, validated by Trace_PbObject" % len(rows))
    return drive_hist(res, binary, 0, 0, types=types, shards=3, label=label, gen_file=gen)


# ============================================================================ registered checks
ALL_LAWS = ["AllWellFormed", "RoundTripLaw", "EqLaws", "MergeIsConcat", "MergeOptionLaw", "DetInjective", "DiscardLaw", "InitLaw"]


def mc(res, binary, label, base, fields, glob, steps, nobj=2, nest_at=0, nest_fields=(), laws=ALL_LAWS, bad_utf8=False,
       wire_recs=(), max_recs=0, flavs=None, also=(), base_module="MC_PbObject", emit="Emit", replay="hist", keyf=None, wire_limits=(0,)):
    """also: further harness binaries (other builds) on which the same tour is replayed"""
    schema = export_schema(binary, (base,))
    tour = os.path.join(scratch(), "obj-%s.tour" % label)
    c = cfg({"Type": '"%s"' % base, "Fields": tlaset(fields), "NestAt": nest_at, "NestFields": tlaset(nest_fields),
             "Global": tlaset('"%s"' % g for g in glob), "MaxSteps": steps, "NObj": nobj, "BadUtf8": "TRUE" if bad_utf8 else "FALSE",
             "MaxRecs": max_recs, "WireLimits": tlaset(wire_limits)},
            invariants=laws, emit=emit, view="View") + "CONSTANT WireRecs <- WireRecsDef\n"
    # tuples cannot be written in a cfg file: the record alphabet goes into a generated wrapper module
    modname = "MC_PbObject_" + "".join(ch if ch.isalnum() else "_" for ch in label)
    with open(os.path.join(vlib.spec_dir(), modname + ".tla"), "w") as fh:
        fh.write("---- MODULE %s ----\nEXTENDS %s\nWireRecsDef == %s\n====\n" % (
            modname, base_module, tlaset("<<" + ",".join(str(x) for x in r) + ">>" for r in wire_recs)))
    r = tlc(modname, c, emit_to=tour, env={"SCHEMA": schema}, timeout=3000)
    res.add_tlc(r, "%s: %s fields %s nest %s/%s ops %s depth %d objs %d laws %s" % (
        label, base, list(fields), nest_at, list(nest_fields), sorted(glob), steps, nobj, laws))
    lines = list(read_ndjson(tour))
    for (tname, dyn) in (flavs or flavors(base)):
        fp = tour + "." + tname.split(".")[0] + ("-dyn" if dyn else "")
        with open(fp, "w") as fh:
            for l in lines:
                fh.write(json.dumps(dict(l, type=tname, dyn=dyn)) + "\n")
        for bi, bb in enumerate((binary,) + tuple(also)):
            replay_tour(res, bb, replay, fp,
                        key=keyf or (lambda e: [bi, e["type"], e["dyn"], e["steps"][-1]["op"], e["steps"][-1].get("f", 0), len(e["steps"])]))
        os.remove(fp)
    res.exhaustive = True
    return r


RULE = ("tour: TLC enumerates every history up to the depth bound over a sub-view (selected field numbers) of a real corpus "
        "message type, checks the specification-level laws in every reachable state and emits every transition with the "
        "expected projection of all objects; each line is replayed on the open, hybrid, opaque and dynamicpb flavour of the "
        "type. distinct = (flavour, last operation, field, history length). driver: seeded random histories over %d corpus "
        "types/flavours, every step's result and the projection of all objects validated by Trace_PbObject; "
        "distinct += (type, flavour, operation)")


SWEEP_TYPES = ["goproto.proto.testeditions.TestAllTypes:dyn", "opaque.goproto.proto.testeditions.TestAllTypes",
               "goproto.proto.test.TestAllTypes", "goproto.proto.test3.TestAllTypes:dyn"]


def finish(res, binary, seed, tier, mix, nq=300, nt=12000, types=None, sweep=False, rotate=False):
    n = nq if tier == "quick" else nt
    os.environ["VERIF_MIX"] = mix
    try:
        drive_hist(res, binary, seed, n, types=types, shards=3 if tier == 'quick' else 4)
        if rotate:
            # the rotating part of the corpus: message shapes nobody hand-picked (F26 lived in one).  quick: 8 types drawn
            # by the seed from EVERY message type linked into the harness; thorough: all of them, in chunks.
            import random
            every = all_types(binary)
            if tier == "quick":
                pick = random.Random(seed * 7919 + int(res.prop[1:])).sample(every, 8)
                drive_hist(res, binary, seed, 100, types=pick + [t + ":dyn" for t in pick[:4]], shards=2, label="hist-rot")
            else:
                for i in range(0, len(every), 40):
                    chunk = every[i:i + 40]
                    drive_hist(res, binary, seed, 1500, types=chunk + [t + ":dyn" for t in chunk], shards=4, label="hist-rot%d" % i)
            res.notes.append("rotating corpus: %d message types linked into the harness (MessageSet-reaching types only in protolegacy builds)" % len(every))
        if sweep:
            # systematic: every length-delimited body length around 127/128 and 16383/16384, three routes, fast and reflection path
            os.environ["VERIF_HIST_SWEEP"] = "boundary"
            if tier != "quick":
                os.environ["VERIF_SWEEP_LARGE"] = "1"
            drive_hist(res, binary, seed, 1, types=SWEEP_TYPES[:2] if tier == "quick" else SWEEP_TYPES, shards=3, label="hist-boundary")
    finally:
        os.environ.pop("VERIF_MIX", None)
        os.environ.pop("VERIF_HIST_SWEEP", None)
        os.environ.pop("VERIF_SWEEP_LARGE", None)
    res.rule = RULE % (len(types) if types else 24)
    res.assumptions += ["schema constant exported from the real descriptors through protoreflect accessors (their correctness is C34-C38)",
                        "projection through protoreflect Range/Get/GetUnknown (cross-checked against Has/WhichOneof/defaults by the harness's contract self-check)"]


for _p in ("C03", "C04", "C07", "C09", "C10", "C11", "C12", "C13", "C14", "C15", "C16", "C28", "C30"):
    MODULE_OF[_p] = "hist"
    HARNESS_PKGS[_p] = PKG

D = lambda tier, q, t: q if tier == "quick" else t


def mc2(tier, *a, **k):
    """secondary configurations run in the thorough tier only (quick tier budget)"""
    if tier != "quick":
        mc(*a, **k)


@check("C03")
def c03(res, tier, seed):
    b = build_harness(PKG)
    mc(res, b, "rt-te", BASE_TE, [1, 5, 12, 14, 16, 31, 44, 56, 112], ["rt", "setu"], D(tier, 2, 3), nest_at=18, nest_fields=[1])
    mc2(tier, res, b, "rt-t3", BASE_T3, [1, 81, 91, 92, 94, 31, 56, 112], ["rt"], D(tier, 2, 3))
    # implicit-presence scalars of both float widths in every tier: -0.0 is populated (only +0.0 is the zero value), per width
    mc(res, b, "rt-implicit", BASE_T3, [81, 91, 92], ["rt"], 2)
    mc2(tier, res, b, "rt-t2", BASE_T2, [1, 12, 16, 31, 56, 112], ["rt", "setu"], 2)
    # the repository's own curated decode inputs, continued as histories (quick: a seeded sample of 50)
    tables_hist(res, b, sample=(seed, 50) if tier == "quick" else None)
    finish(res, b, seed, tier, "mut=10,marshal=3,unmarshal=3,rt=5,reset=1,clone=1,boundary=3", sweep=True, rotate=True)


@check("C04")
def c04(res, tier, seed):
    b = build_harness(PKG)
    mc(res, b, "size-te", BASE_TE, [1, 6, 12, 134, 135, 14, 31, 48, 69, 112], ["size", "setu"], D(tier, 2, 3), nest_at=18, nest_fields=[1, 2])
    mc2(tier, res, b, "size-t3", BASE_T3, [81, 92, 94, 31, 69], ["size"], D(tier, 2, 3))
    finish(res, b, seed, tier, "mut=10,size=6,marshal=3,unmarshal=1,rt=2,boundary=3", sweep=True)


@check("C07")
def c07(res, tier, seed):
    b = build_harness(PKG)
    mc(res, b, "merge-te", BASE_TE, [1, 124, 135, 31, 69, 112, 113], ["merge", "umerge", "cat"], D(tier, 2, 3), nobj=3, nest_at=18, nest_fields=[1])
    # a singular group field (DELIMITED) present on both sides with complementary sub-fields: merge, never replace
    mc(res, b, "merge-group", BASE_TE, [16], ["merge", "umerge", "cat"], 3, nobj=3, nest_at=16, nest_fields=[17, 16])
    mc2(tier, res, b, "merge-t3", BASE_T3, [81, 31, 71, 112], ["merge", "umerge", "cat", "setu"], 2, nobj=3, nest_at=98, nest_fields=[1])
    tables_merge(res, b, sample=(seed, 20) if tier == "quick" else None)
    finish(res, b, seed, tier, "mut=10,merge=4,umerge=3,cat=3,unmarshal=1,clone=1")


@check("C09")
def c09(res, tier, seed):
    b = build_harness(PKG)
    mc(res, b, "unk-te", BASE_TE, [1, 18, 48], ["setu", "rt", "udisc", "uenc", "merge"], D(tier, 2, 3), nest_at=18, nest_fields=[1, 2])
    # schema evolution: every deletion of one or two of the touched fields (scalar, packed list, string list, group, message, map, oneof members)
    mc(res, b, "evo-te", BASE_TE, [5, 16, 31, 44, 48, 56, 112, 113], ["evo", "setu"], 2, nest_at=0, laws=["AllWellFormed", "RoundTripLaw", "EvolutionLaw"],
       flavs=[(BASE_TE, False), (BASE_TE, True), ("opaque." + BASE_TE, False)] if tier == "quick" else None)
    mc2(tier, res, b, "unk-t2", BASE_T2, [1, 16, 18], ["setu", "rt", "udisc"], 2, nest_at=18, nest_fields=[1])
    # DiscardUnknown on a lazily decoded message: unknown fields inside a still-deferred submessage must not come back on Marshal
    mc(res, b, "unk-lazy", LAZY_BASE, [99], ["uwire", "uwdisc", "rt"], 2, wire_recs=[[154, 6, 3, 160, 31, 7], [154, 6, 2, 8, 1], [160, 31, 1]],
       max_recs=3, flavs=LAZY_FLAVS[:2] if tier == "quick" else LAZY_FLAVS, laws=["AllWellFormed"])
    finish(res, b, seed, tier, "mut=8,unmarshal=5,rt=3,marshal=2,merge=1,evo=4")


REQ_TE = "goproto.proto.testeditions.TestRequiredForeign"
REQ_T2 = "goproto.proto.test.TestRequiredForeign"
REQ_TYPES = [REQ_T2, REQ_T2 + ":dyn", "goproto.proto.test.TestRequired", REQ_TE, REQ_TE + ":dyn", "hybrid." + REQ_TE, "opaque." + REQ_TE,
             "opaque.goproto.proto.testeditions.TestRequired", "opaque.goproto.proto.testeditions.TestRequiredLazy",
             "goproto.proto.testeditions.TestRequiredLazy", "goproto.proto.testeditions.TestRequiredGroupFields",
             "goproto.proto.test.TestRequiredGroupFields", "goproto.proto.test.TestAllExtensions",
             "goproto.proto.test.TestOneofWithRequired", "goproto.proto.testeditions.TestOneofWithRequired",
             "opaque.goproto.proto.testeditions.TestOneofWithRequired", "hybrid.goproto.proto.testeditions.TestOneofWithRequired"]
REQ_ONEOF = "goproto.proto.testeditions.TestOneofWithRequired"


@check("C10")
def c10(res, tier, seed):
    b = build_harness(PKG)
    mc(res, b, "req-te", REQ_TE, [1, 2, 3, 4], ["checkinit", "marshal", "uenc", "merge"], D(tier, 2, 3), nest_at=1, nest_fields=[1])
    # a oneof whose SECOND member carries the required field (F26: the table decoder consulted only the first member's isInit)
    mc(res, b, "req-oneof", REQ_ONEOF, [1, 2], ["checkinit", "marshal", "uenc", "merge"], D(tier, 2, 3), nest_at=2, nest_fields=[1])
    # a map entry whose value occurs twice (complete, then adding a submessage that lacks its required field), once, and complete
    # with the incomplete submessage in one occurrence, decoded with and without AllowPartial (F36; rv2.Top: map<int32, Val>)
    mc(res, b, "req-mapval", "rv2.Top", [1], ["uwire", "uwstrict", "checkinit"], 2,
       wire_recs=[[10, 10, 8, 7, 18, 2, 8, 1, 18, 2, 18, 0], [10, 6, 8, 7, 18, 2, 8, 1], [10, 8, 8, 7, 18, 4, 8, 1, 18, 0], [10, 4, 18, 2, 18, 0]],
       max_recs=2, laws=["AllWellFormed"])
    # list elements (repeated_message = 2) complete and partial in every order of up to three, strict and partial decoding, then
    # CheckInitialized: an incomplete element ANYWHERE in the list makes the message uninitialized
    mc(res, b, "req-list", REQ_TE, [2], ["uwire", "uwstrict", "checkinit"], 2, wire_recs=[[18, 0], [18, 2, 8, 1]], max_recs=3,
       laws=["AllWellFormed"])
    mc2(tier, res, b, "req-t2", REQ_T2, [1, 2, 3], ["checkinit", "marshal", "uenc"], 2, nest_at=1, nest_fields=[1])
    finish(res, b, seed, tier, "mut=10,checkinit=4,marshal=3,unmarshal=4,rt=1,merge=1", types=REQ_TYPES, rotate=True)


@check("C11")
def c11(res, tier, seed):
    b = build_harness(PKG)
    mc(res, b, "pres-te", BASE_TE, [1, 11, 15, 124, 134, 135, 137, 138, 18, 31, 56], ["rt", "clone", "reset", "merge"], D(tier, 2, 3))
    mc2(tier, res, b, "pres-t3", BASE_T3, [1, 18, 81, 92, 94, 95, 98], ["rt", "clone", "merge"], D(tier, 2, 3))
    mc2(tier, res, b, "pres-t2", BASE_T2, [1, 12, 15, 18, 81], ["rt", "clone"], 2)
    finish(res, b, seed, tier, "mut=14,rt=3,clone=2,merge=2,reset=1,unmarshal=1")


@check("C12")
def c12(res, tier, seed):
    b = build_harness(PKG)
    mc(res, b, "oneof-te", BASE_TE, [111, 112, 113, 114, 119, 121, 120], ["merge", "rt", "cat", "clone"], D(tier, 2, 3), nobj=3, nest_at=112, nest_fields=[1])
    # member records with the right and with a WRONG wire type (which must go to the unknown fields and leave the oneof alone)
    mc(res, b, "oneof-wire", BASE_TE, [111, 113], ["uwire", "uwmerge"], 2, wire_recs=[[248, 6, 1], [138, 7, 1, 97], [136, 7, 1], [130, 7, 0], [128, 7, 5], [250, 6, 1, 97]],
       max_recs=2, laws=["AllWellFormed"])
    mc2(tier, res, b, "oneof-t3", BASE_T3, [111, 112, 113, 114, 1, 18], ["merge", "rt", "umerge"], 2, nest_at=112, nest_fields=[1])
    finish(res, b, seed, tier, "mut=12,merge=3,cat=3,umerge=2,rt=2,unmarshal=2")


@check("C13")
def c13(res, tier, seed):
    b = build_harness(PKG)
    r = tlc("MC_Utf8", cfg({"Alphabet": "{0,65,127,128,159,160,191,192,194,224,237,239,240,244,245}", "MaxLen": D(tier, 3, 4)},
                           invariants=["DefinitionsAgree", "PrefixLaw"]))
    res.add_tlc(r, "VUtf8: table-driven DFA = definitional decoder on all strings over the 15-byte corner alphabet")
    # validated strings (editions VERIFY / proto3) and non-validated (proto2) in every position: singular, repeated, oneof, map key/value
    mc(res, b, "utf8-te", BASE_TE, [14, 44, 69, 71, 113, 15], ["marshal", "rt", "uenc"], 2, bad_utf8=True, laws=["AllWellFormed", "RoundTripLaw"])
    # string EXTENSIONS: validated when declared in an editions (VERIFY by default) file, not validated in a proto2 file (F29)
    # (20006/20007: the harness's edition-2023 string extensions; the repository's own editions extension file opts out of validation)
    mc(res, b, "utf8-ext-te", "goproto.proto.testeditions.TestAllExtensions", [14, 20006, 20007], ["marshal", "rt", "uenc"], 2, bad_utf8=True,
       laws=["AllWellFormed", "RoundTripLaw"])
    mc2(tier, res, b, "utf8-ext-t2", "goproto.proto.test.TestAllExtensions", [14, 44], ["marshal", "rt", "uenc"], 2, bad_utf8=True,
        laws=["AllWellFormed", "RoundTripLaw"])
    mc2(tier, res, b, "utf8-t3", BASE_T3, [94, 44, 69, 113], ["marshal", "rt", "uenc"], 2, bad_utf8=True, laws=["AllWellFormed", "RoundTripLaw"])
    mc2(tier, res, b, "utf8-t2", BASE_T2, [14, 44, 69, 113, 15], ["marshal", "rt", "uenc"], 2, bad_utf8=True, laws=["AllWellFormed", "RoundTripLaw"])
    finish(res, b, seed, tier, "mut=10,marshal=4,unmarshal=4,rt=3")
    res.notes.append("protojson/prototext UTF-8 verdicts are covered by the json/text families (C20/C24/C26 drivers)")


@check("C14")
def c14(res, tier, seed):
    b = build_harness(PKG)
    mc(res, b, "alias-te", BASE_TE, [15, 45, 70, 114], ["clone", "merge", "scribble", "rt", "umerge"], D(tier, 2, 3), nest_at=18, nest_fields=[1])
    # unknown bytes: after Clone / Merge both sides receive more unknown fields (appends into a shared backing array would clobber)
    mc(res, b, "alias-unknown", BASE_TE, [1], ["clone", "merge", "uwire", "uwall", "uwmerge"], 4, wire_recs=[[192, 196, 7, 1], [194, 196, 7, 2, 8, 1]],
       max_recs=1, laws=["AllWellFormed"], flavs=[(BASE_TE, False), ("opaque." + BASE_TE, False)] if tier == "quick" else None)
    mc2(tier, res, b, "alias-t3", BASE_T3, [95, 45, 70, 98], ["clone", "merge", "scribble", "rt"], D(tier, 2, 3), nest_at=98, nest_fields=[1])
    finish(res, b, seed, tier, "mut=8,clone=4,merge=4,scribble=4,unmarshal=3,rt=2,umerge=2,cat=1")
    res.notes.append("every Unmarshal input buffer is overwritten right after the call (harness), so an aliasing decode shows as a changed projection at the next step; protodelim aliasing is covered by C27")


@check("C15")
def c15(res, tier, seed):
    b = build_harness(PKG)
    mc(res, b, "reset-te", BASE_TE, [1, 124, 18, 31, 69, 112], ["reset", "ubad", "uenc", "setu"], D(tier, 2, 3), nest_at=18, nest_fields=[1])
    mc2(tier, res, b, "reset-lazy", "goproto.proto.testeditions.TestRequiredLazy", [1], ["reset", "ubad", "uenc"], 2, nest_at=1, nest_fields=[1])
    finish(res, b, seed, tier, "mut=8,unmarshal=8,reset=3,rt=1,merge=1")


@check("C16")
def c16(res, tier, seed):
    b = build_harness(PKG)
    mc(res, b, "cache-te", BASE_TE, [1, 18, 48], ["size", "rt", "marshal"], D(tier, 3, 4), nobj=2, nest_at=18, nest_fields=[1, 2])
    mc(res, b, "cache-ext", "goproto.proto.test.TestAllExtensions", [18], ["size", "rt"], 4, nest_at=18, nest_fields=[1],
       laws=["AllWellFormed", "RoundTripLaw"])
    # the cached sizes of a lazily decoded message: Size, then read-only access that makes deferred fields decode, then
    # Marshal{UseCachedSize} (nothing was changed, the precondition of UseCachedSize holds).  The record nests two lazy levels whose
    # innermost int32 is encoded non-minimally (81 00), so re-encoding a level changes its length (known finding K1)
    mc(res, b, "cache-lazy", "opaque.lazy_tree.Node", [99], ["uwire", "touch", "marshalc"], 3, nobj=1, nest_at=99, nest_fields=[1],
       wire_recs=[[154, 6, 6, 154, 6, 3, 8, 129, 0], [154, 6, 2, 8, 1]], max_recs=1,
       flavs=[("opaque.lazy_tree.Node", False), ("lazy_tree.Node", True)], laws=["AllWellFormed"])
    finish(res, b, seed, tier, "mut=10,size=5,marshal=5,rt=3,equal=1,clone=1")


LAZY_BASE = "opaque.lazy_tree.Node"
LAZY_FLAVS = [(LAZY_BASE, False), (LAZY_BASE, True), ("hybrid.lazy_tree.Node", False), ("lazy_tree.Node", False)]
# wire records for lazy_tree.Node: field 99 (lazy nested Node) valid empty / valid with content / wrong wire type (varint) /
# non-minimal length / ill-formed inside; field 1 (eager int32); an unknown field
LAZY_RECS = [[154, 6, 0], [154, 6, 2, 8, 1], [152, 6, 5], [154, 6, 130, 0, 8, 1], [154, 6, 1, 255], [8, 1], [160, 31, 1],
             [154, 6, 3, 160, 31, 7],      # an unknown field INSIDE the lazy submessage
             [15]]                         # an invalid tag: whatever was deferred before it stays behind in a failed decode (F27)
LAZY_TYPES = ["goproto.proto.test.OpaqueLazy", "goproto.proto.test.HybridLazy", "goproto.proto.test.OpaqueLazy:dyn", "opaque.lazy_tree.Node", "hybrid.lazy_tree.Node", "lazy_tree.Node", "opaque.lazy_tree.Node:dyn",
              "opaque.goproto.proto.testeditions.TestRequiredLazy", "goproto.proto.testeditions.TestRequiredLazy",
              "opaque.goproto.proto.testeditions.TestAllTypes", "hybrid.goproto.proto.testeditions.TestAllTypes",
              "opaque.goproto.proto.test3.TestAllTypes"]
MODULE_OF["C17"] = "hist"
HARNESS_PKGS["C17"] = PKG


def lazy_groups_config(res, b):
    """sibling groups inside a lazily decoded submessage, at and around the recursion limit: the validator used for deferring must
    count nesting exactly like the decoder (top 1 > lazy message 2 > corecursive 3 > group 4), on every flavour"""
    g = [131, 1, 132, 1]
    def lazy_groups(k):
        body = g * k
        return [194, 1, len(body) + 2, 18, len(body)] + body
    OPQ = "opaque." + BASE_TE
    mc(res, b, "lazy-groups", OPQ, [24], ["uwire", "rt"], 2, wire_recs=[lazy_groups(k) for k in (1, 2, 3, 5)], max_recs=1, wire_limits=(3, 4, 5),
       flavs=[(OPQ, False), ("hybrid." + BASE_TE, False), (BASE_TE, False), (BASE_TE, True)], laws=["AllWellFormed"])


@check("C17")
def c17(res, tier, seed):
    b = build_harness(PKG)
    # every input of up to 2 (quick) / 3 (thorough) records, decoded lazily and eagerly (nolazy both ways), followed by accesses:
    # re-marshal (default and deterministic) into another object, size, clone, equal, merge, checkinit
    # (merging decodes have their own configuration below: with uwmerge here the thorough tour had 21.8 M lines / 68 min)
    mc(res, b, "lazy-node", LAZY_BASE, [1, 99], ["uwire", "uwdisc", "rt", "size", "clone", "equal", "checkinit"],
       2, nest_at=99, nest_fields=[1], wire_recs=[LAZY_RECS[i] for i in (0, 1, 2, 7, 5, 8)] if tier == "quick" else LAZY_RECS,
       max_recs=2, flavs=LAZY_FLAVS, laws=["AllWellFormed", "RoundTripLaw"])
    lazy_groups_config(res, b)
    # a lazy field of a type with a required field, strict and partial: complete / incomplete / wrong-wire-type occurrences in every
    # order - an incomplete one after a deferred one sends the decoder into its second pass (F38)
    RL = "goproto.proto.testeditions.TestRequiredLazy"
    mc(res, b, "lazy-later", "opaque." + RL, [1], ["uwire", "uwstrict", "rt"], 2, nest_at=1, nest_fields=[1],
       wire_recs=[[10, 2, 8, 1], [10, 0], [8, 77]] + ([] if tier == "quick" else [[13, 7, 0, 0, 0]]), max_recs=3,
       flavs=[("opaque." + RL, False), (RL, True)] + ([] if tier == "quick" else [(RL, False), ("hybrid." + RL, False)]), laws=["AllWellFormed"])
    # a lazily decodable message used as a DELIMITED field (rv2.Top.grp: Lz), its lazy field twice (complete, then incomplete alone),
    # followed by a sibling (F37)
    mc(res, b, "lazy-in-group", "rv2.Top", [2, 3], ["uwire", "uwstrict", "rt"], 2,
       wire_recs=[[19, 10, 2, 8, 1, 10, 2, 16, 2, 20], [24, 5], [19, 16, 1, 20], [19, 10, 2, 16, 2, 20]], max_recs=2, laws=["AllWellFormed"])
    # chains lazy > lazy > lazy ... of depth 2..5 under recursion limits at, just above and twice the depth: every deferred level must be
    # decoded with exactly the budget that was left when it was validated (a budget recorded off by one is lost once per level, so
    # it shows only when the chain is deeper than half the limit)
    def chain(k):
        body = [8, 1]
        for _ in range(k):
            body = [154, 6, len(body)] + body
        return body
    mc(res, b, "lazy-chain", LAZY_BASE, [99], ["uwire", "rt"], 2, nest_at=99, nest_fields=[1], wire_recs=[chain(k) for k in (2, 3, 4, 5)], max_recs=1,
       wire_limits=(3, 4, 5, 6, 7, 10), flavs=LAZY_FLAVS[:2] if tier == "quick" else LAZY_FLAVS, laws=["AllWellFormed"])
    # merging decodes (lazy then eager, eager then lazy) into one object: found F22
    mc(res, b, "lazy-merge", LAZY_BASE, [99], ["uwire", "uwmerge", "rt"], 3, nobj=2, wire_recs=[LAZY_RECS[1], LAZY_RECS[0], [154, 6, 2, 16, 5]],
       max_recs=1, flavs=LAZY_FLAVS[:2] if tier == "quick" else LAZY_FLAVS, laws=["AllWellFormed"])
    finish(res, b, seed, tier, "mut=5,unmarshal=10,rt=4,marshal=3,size=2,equal=2,clone=2,checkinit=2,merge=2,umerge=1", types=LAZY_TYPES)
    res.notes.append("lazy and eager decoding are bound to the SAME specification (nolazy is not a parameter of PbObject), so agreement of both with it is their observational equivalence")


@check("C28")
def c28(res, tier, seed):
    b = build_harness(PKG)
    mc(res, b, "refl-te", BASE_TE, [1, 124, 18, 31, 48, 69, 71, 111, 112, 121], ["reset", "setu"], D(tier, 2, 3), nest_at=112, nest_fields=[1, 2])
    mc2(tier, res, b, "refl-t3", BASE_T3, [1, 18, 81, 98, 31, 71, 111, 112], ["reset"], 2, nest_at=18, nest_fields=[1])
    mc2(tier, res, b, "refl-ext", "goproto.proto.test.TestAllExtensions", [1, 18, 31, 48], ["reset", "rt"], 2, nest_at=18, nest_fields=[1])
    finish(res, b, seed, tier, "mut=20,reset=1,rt=1,clone=1")


@check("C30")
def c30(res, tier, seed):
    b = build_harness(PKG)
    mc(res, b, "eq-te", BASE_TE, [11, 12, 135, 15, 18, 31, 69], ["equal", "clone", "rt", "setu"], D(tier, 2, 3), nobj=3, nest_at=18, nest_fields=[1])
    # defaults and empty submessages set explicitly on one side only, equal numbers of populated fields (both argument orders)
    mc(res, b, "eq-default", BASE_TE, [11, 12, 18], ["equal"], 3, nobj=2, laws=["AllWellFormed", "EqLaws"])
    # containers emptied in place (residue) on extension and ordinary fields
    mc(res, b, "eq-residue", "goproto.proto.test.TestAllExtensions", [1, 31], ["equal"], 4, nobj=2, laws=["AllWellFormed", "EqLaws"])
    mc2(tier, res, b, "eq-t3", BASE_T3, [91, 92, 95, 98], ["equal", "clone", "rt"], 2, nobj=3, nest_at=98, nest_fields=[1])
    finish(res, b, seed, tier, "mut=10,equal=6,clone=3,rt=3,unmarshal=1")
    res.notes.append("agreement with protoreflect.Value.Equal and protocmp.Transform: see evidence key equal_variants (harness cross-check in every equal step)")


# ============================================================================ C06: total decoding + validator
MODULE_OF["C06"] = "dec"
HARNESS_PKGS["C06"] = PKG
LAZY_NODE = "opaque.lazy_tree.Node"


def mc_decode(res, binary, label, base, alphabet, maxlen, limits, flavs=None):
    schema = export_schema(binary, (base,))
    tour = os.path.join(scratch(), "dec-%s.tour" % label)
    r = tlc("MC_PbDecode", cfg({"Type": '"%s"' % base, "Alphabet": tlaset(alphabet), "MaxLen": maxlen, "Limits": tlaset(limits)},
                               invariants=["LimitMonotone", "FirstFieldSplit"], emit="Emit"),
            emit_to=tour, env={"SCHEMA": schema}, timeout=3000)
    res.add_tlc(r, "%s: all byte strings <= %d over %d symbols for %s, recursion limits %s" % (label, maxlen, len(alphabet), base, limits))
    lines = list(read_ndjson(tour))
    for (tname, dyn) in (flavs or flavors(base)):
        fp = tour + "." + tname.split(".")[0] + ("-dyn" if dyn else "")
        with open(fp, "w") as fh:
            for l in lines:
                fh.write(json.dumps(dict(l, type=tname, dyn=dyn)) + "\n")
        replay_tour(res, binary, "dec", fp, key=lambda e: [e["type"], e["dyn"], e["exp"]["err"], e["limit"], len(e["b"])])
        os.remove(fp)
    res.exhaustive = True


@check("C06")
def c06(res, tier, seed):
    b = build_harness(PKG)
    # single-byte tags of testeditions.TestAllTypes: 08 field 1 varint, 0a/0d wrong wire types, 10 field 2, 1a field 3 (wrong type),
    # 72 field 14 string, 82/83/84 01: field 16 bytes / start group / end group, 92 01: field 18 message; lengths, payload, continuation
    # c0 03: field 56 (a map) with the varint wire type - an unknown field that must not count as a nesting level (F34)
    alpha = [0, 1, 2, 3, 8, 10, 13, 15, 16, 26, 114, 127, 128, 130, 131, 132, 192, 255]
    mc_decode(res, b, "te", BASE_TE, alpha + ([146] if tier != "quick" else []), 3 if tier == "quick" else 4, [0, 1, 2])
    # containers exactly at and one beyond the recursion limit: group start/end of field 16 (83 01 / 84 01), message field 18 (92 01 len),
    # nested inside each other, under limits 1..3
    mc_decode(res, b, "nest", BASE_TE, [0, 1, 2, 8, 131, 132, 146], 4 if tier == "quick" else 6, [1, 2, 3])
    if tier != "quick":
        # lazy tree node: field 1 int32 (08), 2 nested lazy message (12), 99 lazy (9a 06), wrong wire types for them
        mc_decode(res, b, "lazy", LAZY_NODE, [0, 1, 2, 6, 8, 16, 18, 21, 128, 152, 154, 255], 4, [0, 1, 2, 3],
                  flavs=[(LAZY_NODE, False), (LAZY_NODE, True), ("hybrid.lazy_tree.Node", False), ("lazy_tree.Node", False)])
    # every input of the repository's own valid/invalid decode tables (inputs only; the verdict is the specification's)
    tables_dec(res, b)
    n = 1500 if tier == "quick" else 60000
    from vlib import drive_and_validate
    schema = export_schema(b, ())
    gen = os.path.join(scratch(), "dec-gen.ndjson"); tr = os.path.join(scratch(), "dec-trace.ndjson")
    harness(b, ["gen", "dec", seed, n, gen]); harness(b, ["exec", "dec", gen, tr])
    t0 = time.time()
    total, bad = validate_trace("Trace_PbDecode", tr, shards=3 if tier == "quick" else 4, env={"SCHEMA": schema}, timeout=3000)
    log("validated %d decode events in %.1fs: %d rejected" % (total, time.time() - t0, len(bad)))
    events = list(read_ndjson(tr))
    for i, ev in enumerate(events):
        res.distinct.add(json.dumps([ev["type"], ev["dyn"], ev["out"].get("err"), ev["out"].get("val"), ev["limit"] > 0]))
        if i % 499 == 0:
            res.sample(json.dumps(ev)[:1200])
    if bad:
        rp = os.path.join(scratch(), "dec-repro.ndjson")
        with open(rp, "w") as fh:
            for i in bad:
                fh.write(json.dumps({k: v for k, v in events[i].items() if k != "out"}) + "\n")
        harness(b, ["exec", "dec", rp, rp + ".out"])
        strip = lambda o: {k: v for k, v in (o or {}).items() if k != "stack"}
        for i, ev2 in zip(bad, read_ndjson(rp + ".out")):
            if strip(ev2.get("out")) != strip(events[i].get("out")):
                raise vlib.Infra("decode event %d not reproducible" % i)
            res.fail(dict(events[i], _module="dec", _trace="Trace_PbDecode"), "trace: PbDecodeCases rejects the recorded Unmarshal (reproduced)")
    res.trace_events += total; res.evaluations += total; res.traces += 1
    res.rule = ("tour: every byte string up to the bound over a schema-aware alphabet x recursion limits x lazy on/off, with the "
                "specification's verdict and decoded content, replayed on all flavours (+ validator consistency); distinct = (flavour, "
                "verdict, limit, length); driver: valid encodings + mutations + noise on 24 corpus types validated by Trace_PbDecode")


# ============================================================================ C05, C29, C08: deterministic bytes, flavours, builds
for _p in ("C05", "C29", "C08"):
    MODULE_OF[_p] = "det"
    HARNESS_PKGS[_p] = PKG
DET_EXTRA = ("goproto.proto.testeditions.TestRequiredForeign", "goproto.proto.testeditions.TestAllExtensions",
             "google.protobuf.Value", "google.protobuf.Struct", "google.protobuf.ListValue", "google.protobuf.Any")


def det_schema(binary):
    import subprocess
    # default corpus + the flavour bases
    inp = os.path.join(scratch(), "detschema.in")
    # ask the harness for its default type list by exporting with an empty list, then add the extras
    return export_schema(binary, tuple(sorted(set(t.split(":")[0] for t in DEFAULT_TYPES) | set(DET_EXTRA))))


DEFAULT_TYPES = [
    "goproto.proto.test.TestAllTypes", "goproto.proto.test.TestAllExtensions", "goproto.proto.test.TestRequired",
    "goproto.proto.test.TestRequiredForeign", "goproto.proto.test.TestPackedTypes", "goproto.proto.test.TestUnpackedTypes",
    "goproto.proto.test.TestPackedExtensions", "goproto.proto.test3.TestAllTypes", "hybrid.goproto.proto.test3.TestAllTypes",
    "opaque.goproto.proto.test3.TestAllTypes", "goproto.proto.testeditions.TestAllTypes", "hybrid.goproto.proto.testeditions.TestAllTypes",
    "opaque.goproto.proto.testeditions.TestAllTypes", "opaque.goproto.proto.testeditions.TestAllExtensions",
    "opaque.goproto.proto.testeditions.TestRequired", "opaque.goproto.proto.testeditions.TestRequiredLazy",
    "opaque.goproto.proto.testeditions.TestManyMessageFieldsMessage", "opaque.lazy_tree.Node", "hybrid.lazy_tree.Node", "lazy_tree.Node"]


def det_run(res, binaries, seed, n, mix_ops=None, label="det"):
    """Runs the same seeded det/flav/decdet cases in every given binary (process / build) and validates the concatenated
    trace: each event against PbDetCases and the deterministic bytes per case id across binaries (memo)."""
    schema = det_schema(binaries[0][1])
    gen = os.path.join(scratch(), "%s-gen-%d.ndjson" % (label, seed))
    harness(binaries[0][1], ["gen", "det", seed, n, gen])
    if mix_ops:
        keep = [json.dumps(c) for c in read_ndjson(gen) if c["op"] in mix_ops]
        with open(gen, "w") as fh:
            fh.write("\n".join(keep) + "\n")
    trace = os.path.join(scratch(), "%s-trace-%d.ndjson" % (label, seed))
    allev = []
    with open(trace, "w") as out:
        for (bname, b) in binaries:
            o = gen + "." + bname
            harness(b, ["exec", "det", gen, o])
            for ev in read_ndjson(o):
                ev["_build"] = bname
                allev.append(ev)
                out.write(json.dumps(ev) + "\n")
    t0 = time.time()
    # the memo needs one TLC process to see all builds of one id: shard by id ranges is not needed at this size
    total, bad = validate_trace("Trace_PbDet", trace, shards=1, env={"SCHEMA": schema}, timeout=3000)
    log("validated %d det events (%d builds/processes) in %.1fs: %d rejected" % (total, len(binaries), time.time() - t0, len(bad)))
    for i, ev in enumerate(allev):
        res.distinct.add(json.dumps([ev["op"], ev.get("type") or ev.get("base"), ev.get("dyn", False), ev["_build"]]))
        if i % 211 == 0:
            res.sample(json.dumps({k: v for k, v in ev.items() if k != "out"})[:900])
    for i in bad:
        ev = allev[i]
        res.fail(dict(ev, _module="det", _trace="Trace_PbDet"), "trace: PbDetCases rejects the event, or its deterministic bytes differ from another process/build")
    res.trace_events += total; res.evaluations += total; res.traces += len(binaries)


@check("C05")
def c05(res, tier, seed):
    b = build_harness(PKG)
    # spec-level: identical canonical encodings imply equality, over all reachable pairs (DetInjective), and the tour over map/field insertion
    mc(res, b, "det-te", BASE_TE, [1, 12, 14, 31, 56, 69, 71, 112], ["clone", "rt"], D(tier, 2, 3), laws=["AllWellFormed", "RoundTripLaw", "DetInjective", "EqLaws"])
    # two separate processes of the same binary (Go re-seeds map iteration per process and per range statement)
    det_run(res, [("p1", b), ("p2", b)], seed, 500 if tier == "quick" else 20000, mix_ops=("det",))
    res.rule = ("every seeded content is built along 8 histories (shuffled field and map insertion, overwrite after Reset, clone, decode of the "
                "default encoding, repeated marshals) in two separate processes; all deterministic encodings must be identical and must decode "
                "(specification Decode) to the content, which gives the Equal direction; distinct = (operation, type, flavour, process)")
    res.assumptions.append("hidden map-iteration nondeterminism is exposed by repetition (8 builds x 2 processes per content), not enumerated")


@check("C29")
def c29(res, tier, seed):
    b = build_harness(PKG)
    mc(res, b, "flav-te", BASE_TE, [1, 124, 14, 18, 31, 69, 112, 121], ["rt", "clone"], D(tier, 2, 3))
    mc2(tier, res, b, "flav-t3", BASE_T3, [1, 81, 18, 98, 31, 71, 112], ["rt", "clone"], 2)
    lazy_groups_config(res, b)      # a lazy-capable flavour must accept exactly what the others accept
    det_run(res, [("p1", b)], seed, 400 if tier == "quick" else 12000, mix_ops=("flav",), label="flav")
    res.rule = ("tour: every bounded history replayed on the open, hybrid, opaque and dynamicpb flavour with the same expected projection; "
                "driver: one seeded content per case built in every flavour: identical deterministic bytes, and every flavour decodes every "
                "other flavour's binary, JSON and text output to the content; distinct = (operation, schema family)")


@check("C08")
def c08(res, tier, seed):
    b = build_harness(PKG)
    br = build_harness(PKG, tags="verif,protoreflect")
    # the reflection build is bound to the same specification as the fast path: exhaustive tour on both builds ...
    mc(res, b, "builds-te", BASE_TE, [1, 124, 12, 14, 18, 31, 69, 112], ["rt", "merge", "clone", "equal", "checkinit", "size"], 2,
       nest_at=18, nest_fields=[1], also=(br,), laws=["AllWellFormed", "RoundTripLaw", "EqLaws", "MergeIsConcat"])
    mc(res, b, "builds-ext", "goproto.proto.test.TestAllExtensions", [1, 31], ["equal", "merge"], 4, nobj=2, also=(br,), laws=["AllWellFormed", "EqLaws"])
    # ... seeded histories on the reflection build ...
    os.environ["VERIF_MIX"] = "mut=10,marshal=2,size=2,unmarshal=4,rt=2,merge=2,clone=2,equal=2,checkinit=2,umerge=1,cat=1"
    try:
        drive_hist(res, br, seed, 250 if tier == "quick" else 8000, shards=3, label="hist-reflect", tags="verif,protoreflect")
    finally:
        os.environ.pop("VERIF_MIX", None)
    # ... and both builds (+ dynamicpb inside each) must produce the same deterministic bytes / verdicts / Size / CheckInitialized for the same case
    det_run(res, [("fast", b), ("reflect", br)], seed, 500 if tier == "quick" else 20000, mix_ops=("det", "decdet"), label="builds")
    res.rule = ("the harness is built twice (default; -tags protoreflect); seeded histories of the reflection build are validated by Trace_PbObject "
                "(the same specification the fast path is bound to), and the same seeded det/decdet cases run in both builds must give identical "
                "deterministic bytes, verdicts and CheckInitialized results (memo per case id); dynamicpb types run inside both; distinct = "
                "(operation, type, flavour, build)")


# ============================================================================ C47: MessageSet (legacy builds)
MODULE_OF["C47"] = "hist"
HARNESS_PKGS["C47"] = ("msg", "mset")
MSET = "goproto.proto.messageset.MessageSet"
MSET_TYPES = [MSET, MSET + ":dyn", "hybrid." + MSET, "opaque." + MSET, "goproto.proto.messageset.MessageSetContainer",
              "opaque.goproto.proto.messageset.MessageSetContainer", "goproto.proto.messageset.MessageSetContainer:dyn"]
# items: {type_id 1000, message {08 01}} in both field orders; type id twice (last wins); message twice (concatenated); missing
# type id; unknown type id 2000; payload with the wrong content for the extension (ill-formed: error); a foreign field inside an
# item; a foreign field outside items
MSET_RECS = [[11, 16, 232, 7, 26, 2, 8, 1, 12], [11, 26, 2, 16, 5, 16, 232, 7, 12], [11, 16, 233, 7, 16, 232, 7, 26, 0, 12],
             [11, 16, 232, 7, 26, 2, 8, 1, 26, 2, 16, 2, 12], [11, 26, 0, 12], [11, 16, 208, 15, 26, 1, 255, 12],
             [11, 16, 232, 7, 26, 1, 255, 12], [11, 16, 233, 7, 40, 1, 26, 2, 8, 3, 12], [8, 1]]


@check("C47")
def c47(res, tier, seed):
    b = build_harness(("msg", "mset"), tags="verif,protolegacy")
    br = build_harness(("msg", "mset"), tags="verif,protolegacy,protoreflect")
    mc(res, b, "mset", MSET, [1000] if tier == "quick" else [1000, 1001], ["uwire", "uwmerge", "rt", "size"] + ([] if tier == "quick" else ["clone", "equal", "marshal"]),
       2, nobj=2, nest_at=0 if tier == "quick" else 1000, nest_fields=[1],
       wire_recs=MSET_RECS[:6] if tier == "quick" else MSET_RECS, max_recs=2, also=(br,), laws=["AllWellFormed", "RoundTripLaw"])
    # the repository's own MessageSet decode tables (inputs only), as fresh decodes and as histories
    tables_dec(res, b, tags="verif,protolegacy", tables=("messageset", "messageset-invalid"))
    tables_hist(res, b, tags="verif,protolegacy", tables=("messageset",), label="tables-mset", pkgs=("msg", "mset"))
    for bb, lab in ((b, "fast"), (br, "reflect")):
        os.environ["VERIF_MIX"] = "mut=10,marshal=3,size=3,unmarshal=4,rt=3,merge=1,clone=1,equal=1,checkinit=1,cat=1"
        try:
            drive_hist(res, bb, seed, 150 if tier == "quick" else 6000, types=MSET_TYPES, shards=3, label="hist-mset-" + lab, tags="verif,protolegacy" + (",protoreflect" if lab == "reflect" else ""), pkgs=("msg", "mset"))
        finally:
            os.environ.pop("VERIF_MIX", None)
    res.rule = ("tour: every concatenation of up to 2 item records (both field orders, duplicate type id, split payload, missing type id, unknown "
                "type id, ill-formed payload, foreign fields) decoded, re-marshaled, sized and compared, on the generated fast path and the "
                "reflection path of a -tags protolegacy build and on all API flavours; driver: random histories on MessageSet and container types "
                "in both builds; every Marshal output is parsed by the specification's item-format decoder; distinct = (build, flavour, operation)")


# ============================================================================ C20, C24: protojson / prototext round trips
for _p in ("C20", "C24"):
    MODULE_OF[_p] = "codec"
    HARNESS_PKGS[_p] = PKG


def codec_run(res, b, seed, n, fmt):
    schema = det_schema(b)
    gen = os.path.join(scratch(), "codec-%s-gen.ndjson" % fmt); tr = os.path.join(scratch(), "codec-%s-trace.ndjson" % fmt)
    harness(b, ["gen", "codec", seed, 2 * n, gen])
    keep = [json.dumps(c) for c in read_ndjson(gen) if c["fmt"] == fmt]
    with open(gen, "w") as fh:
        fh.write("\n".join(keep) + "\n")
    harness(b, ["exec", "codec", gen, tr])
    t0 = time.time()
    total, bad = validate_trace("Trace_PbTextCodecs", tr, shards=3, env={"SCHEMA": schema}, timeout=3000)
    log("validated %d %s round trips in %.1fs: %d rejected" % (total, fmt, time.time() - t0, len(bad)))
    events = list(read_ndjson(tr))
    for i, ev in enumerate(events):
        res.distinct.add(json.dumps([ev["fmt"], ev["type"], ev["dyn"], ev["opts"]]))
        if i % 301 == 0:
            res.sample(json.dumps({k: v for k, v in ev.items() if k != "out"})[:900])
    for i in bad:
        res.fail(dict(events[i], _module="codec", _trace="Trace_PbTextCodecs"), "trace: PbTextCodecs rejects the recorded round trip")
    res.trace_events += total; res.evaluations += total; res.traces += 1


def codec_check(res, tier, seed, fmt, fields_te, fields_t3):
    b = build_harness(PKG)
    keyf = lambda e: [e["fmt"], e["type"], e["dyn"], e["opts"], len(json.dumps(e["lit"])) // 40]
    def only(fmt_):
        return lambda e: keyf(e)
    mc(res, b, "codec-te-" + fmt, BASE_TE, fields_te, ["reset"], 2, nobj=1, nest_at=18, nest_fields=[1], base_module="MC_PbCodecTour",
       emit="EmitCodec", replay="codec", keyf=keyf, laws=["AllWellFormed", "StripLaw"], bad_utf8=True)
    mc2(tier, res, b, "codec-t3-" + fmt, BASE_T3, fields_t3, ["reset"], 2, nobj=1, base_module="MC_PbCodecTour", emit="EmitCodec",
        replay="codec", keyf=keyf, laws=["AllWellFormed", "StripLaw"], bad_utf8=True)
    codec_run(res, b, seed, 700 if tier == "quick" else 30000, fmt)
    res.rule = ("tour: every content reachable in the bounded object machine, under a spread of option masks, with the specification's expected "
                "round-trip content (unknown fields stripped) or UTF-8 error, replayed on all flavours; driver: random contents of 20 corpus "
                "types x random option masks validated by Trace_PbTextCodecs; distinct = (format, type, flavour, option mask[, size class])")
    return b


@check("C20")
def c20(res, tier, seed):
    codec_check(res, tier, seed, "json", [1, 2, 11, 12, 14, 15, 21, 31, 44, 69, 71, 112, 124], [1, 81, 92, 94, 31, 69, 112])
    res.notes.append("the MC tour emits both formats; well-known-type JSON forms, Any, FieldMask, Struct are decided by C23; JSON grammar by C21")


@check("C24")
def c24(res, tier, seed):
    b = codec_check(res, tier, seed, "text", [1, 11, 12, 14, 15, 16, 21, 31, 41, 44, 69, 112], [81, 91, 92, 94, 31, 69, 112])
    # float32: Parse(Format(bits)) = Canon(bits) through the real prototext encoder/decoder (uninterpreted pair, DESIGN 6)
    n = (1 << 16) if tier == "quick" else (1 << 24)
    if os.environ.get("VERIF_FULL_FLOAT32"):
        n = 1 << 32
    inp = os.path.join(scratch(), "f32.in")
    chunks = 16
    with open(inp, "w") as fh:
        for k in range(chunks):
            fh.write(json.dumps({"fmt": "f32", "chunk": k, "chunks": chunks, "n": n // chunks, "seed": seed}) + "\n")
    harness(b, ["exec", "codec", inp, inp + ".out"], timeout=20000)
    swept = 0
    for ev in read_ndjson(inp + ".out"):
        swept += ev["out"]["swept"]
        for bits in ev["out"]["fails"]:
            res.fail(dict(fmt="f32bits", bits=bits, _module="codec"), "float32 bit pattern does not survive prototext Marshal/Unmarshal")
    res.extra["float32_patterns_swept"] = swept
    res.evaluations += swept


# ============================================================================ C46: legacy (struct-tag-only) messages
MODULE_OF["C46"] = "hist"
HARNESS_PKGS["C46"] = ("msg", "legacy")
LEG2 = ["proto2_20160225", "proto2_20160519", "proto2_20180125", "proto2_20180430", "proto2_20180814", "proto2_20190205"]
LEG3 = ["proto3_20160225", "proto3_20160519", "proto3_20180125", "proto3_20180430", "proto3_20180814", "proto3_20190205"]
legname = lambda g: "google.golang.org.%s.Message" % g


@check("C46")
def c46(res, tier, seed):
    b = build_harness(("msg", "legacy"))
    # every generation of the schema (and dynamicpb over each derived descriptor) is one more implementation of the SAME specification
    f2 = [(legname(g), False) for g in (LEG2 if tier != "quick" else [LEG2[0], LEG2[3], LEG2[5]])] + [(legname(LEG2[5]), True), (legname(LEG2[0]), True)]
    f3 = [(legname(g), False) for g in (LEG3 if tier != "quick" else [LEG3[0], LEG3[5]])] + [(legname(LEG3[0]), True)]
    mc(res, b, "legacy2", legname(LEG2[5]), [101, 113, 114, 116, 120, 212, 501, 516, 613, 616, 701], ["rt", "clone", "merge", "equal", "checkinit"], 2,
       nest_at=116, nest_fields=[1, 3], flavs=f2)
    # a singular message field whose Go type is itself a legacy message, present on both sides of a merge / in both halves of a
    # concatenation with complementary sub-fields (merge, never replace): Merge, concatenated decoding, Unmarshal{Merge}
    mc(res, b, "legacy2-merge", legname(LEG2[5]), [116], ["merge", "cat", "umerge"], 3, nobj=3, nest_at=116, nest_fields=[1, 2], flavs=f2,
       laws=["AllWellFormed", "MergeIsConcat", "MergeOptionLaw"])
    # occurrences of the legacy-typed message field 116 with the right (a2 07) and with WRONG wire types (a0 07 varint, a5 07 fixed32):
    # the wrong ones are unknown fields and must not populate the field (F35)
    mc(res, b, "legacy2-wire", legname(LEG2[5]), [116], ["uwire", "uwmerge"], 2, nest_at=116, nest_fields=[1],
       wire_recs=[[160, 7, 1], [162, 7, 0], [165, 7, 1, 0, 0, 0], [162, 7, 2, 10, 0]], max_recs=2, flavs=f2, laws=["AllWellFormed"])
    mc(res, b, "legacy3", legname(LEG3[5]), [101, 201, 300], ["rt", "clone", "merge", "equal"], 2, flavs=f3)
    types = [legname(g) for g in LEG2 + LEG3] + [legname(g) + ":dyn" for g in (LEG2[0], LEG2[5], LEG3[0], LEG3[5])]
    os.environ["VERIF_MIX"] = "mut=10,marshal=3,size=1,unmarshal=3,rt=3,merge=2,clone=2,equal=2,checkinit=2,umerge=1,cat=1"
    try:
        drive_hist(res, b, seed, 240 if tier == "quick" else 8000, types=types, shards=3, label="hist-legacy", pkgs=("msg", "legacy"))
    finally:
        os.environ.pop("VERIF_MIX", None)
    # derived descriptors: all generations of one syntax must yield the same descriptor (relative names), newest generation = reference
    trace = os.path.join(scratch(), "legacydesc.ndjson")
    with open(trace, "w") as out:
        for g in [LEG2[5]] + LEG2[:5] + LEG3:
            inp = os.path.join(scratch(), "ld.in")
            with open(inp, "w") as fh:
                fh.write(json.dumps({"gen": g}) + "\n")
            harness(b, ["exec", "legacydesc", inp, inp + ".out"])
            out.write(open(inp + ".out").read())
    # proto3 generations have no proto2 reference entries: validate the two syntaxes separately (first line = reference)
    lines = open(trace).read().splitlines()
    for part, label in ((lines[:6], "proto2"), (lines[6:], "proto3")):
        tp = trace + "." + label
        with open(tp, "w") as fh:
            fh.write("\n".join(part) + "\n")
        total, bad = validate_trace("FirstUseMemo", tp, shards=1)
        for i in bad:
            ev = json.loads(part[i])
            res.fail(dict(gen=ev["gen"], _module="legacydesc"), "derived descriptor of this generation differs from the reference generation")
        res.traces += total
    res.rule = ("tour: bounded histories over a sub-view of the legacy Message schema replayed on every historical generation (wrapped legacy "
                "code) and on dynamicpb over the derived descriptors; driver: random histories on all twelve generations validated by "
                "Trace_PbObject; derived descriptors of all generations of a syntax memoised against the newest one; distinct = (generation, "
                "flavour, operation, field)")
