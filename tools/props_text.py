"""Family "text": C25 (text string literals, EmitUnknown rendering) and C39 (textual default values)."""
import json, os
import vlib
from props import check, cfg, MODULE_OF, HARNESS_PKGS
from vlib import tlc, build_harness, replay_tour, drive_and_validate, scratch

MODULE_OF.update(C25="text", C39="defval")
HARNESS_PKGS.update(C25=("text",), C39=("text",))


def _drift(res, binary, module, tour_path, label):
    """Predicted-but-not-demanded behaviour (DESIGN 3.2): count tour cases whose out.drift is non-empty.
    Spec drift is reported in the evidence and never affects the verdict."""
    outp = tour_path + ".drift"
    vlib.harness(binary, ["exec", module, tour_path, outp])
    n = d = 0
    sample = None
    for ev in vlib.read_ndjson(outp):
        n += 1
        if (ev.get("out") or {}).get("drift"):
            d += 1
            if sample is None:
                sample = {k: v for k, v in ev.items() if k not in ("exp",)}
    os.remove(outp)
    res.extra.setdefault("drift", {})[label] = dict(cases=n, predicted_misses=d)
    if d:
        res.notes.append("spec drift (%s): %d of %d cases differ from the *predicted* behaviour although everything the "
                         "property demands holds; first: %s" % (label, d, n, json.dumps(sample)[:600]))
    return d


# ============================================================================ C25
def _k_str(e):
    b = e.get("b", [])
    cls = sorted({("c0" if c < 32 else "q" if c in (34, 39, 92) else "asc" if c < 127 else "del" if c == 127 else
                   "cont" if c < 192 else "l2" if c < 224 else "l3" if c < 240 else "l4" if c < 245 else "bad") for c in b})
    return ["str", cls, min(len(b), 6)]


def _k_lit(e):
    s = e.get("s", [])
    esc = sorted({chr(s[i + 1]) if 32 <= s[i + 1] < 127 else "?" for i in range(len(s) - 1) if s[i] == 92})
    verdict = (e.get("exp") or e.get("out") or {}).get("ok", False)
    return ["lit", esc, bool(verdict), s[0] if s else 0]


def _k_unk(e):
    b = e.get("b", [])
    o = e.get("out") or {}
    kinds = sorted({(it["k"], min(it["d"], 3)) for it in (e.get("pred") or o.get("items") or [])})
    return ["unk", e.get("mode"), e.get("ascii"), e.get("multi"), kinds, min(len(b) // 8, 6)]


def _k25(e):
    return {"str": _k_str, "lit": _k_lit, "unk": _k_unk}[e["op"]](e)


@check("C25")
def c25(res, tier, seed):
    b = build_harness(("text",))
    q = tier == "quick"
    inv_lex = ["TwoUtf8DefinitionsAgree", "RoundTrip", "StreamAgree", "AsciiClean", "Utf8Clean", "FirstLit",
               "AltFormsDenote", "SplitAnywhere", "PassThrough"]
    inv_lit = ["TwoDefinitionsAgree", "Canonical", "Concatenation", "FirstIsPrefix", "QuoteIndependent"]
    inv_unk = ["ClosedIsValid", "OpenIsInvalid", "ParserInvertsBuilder", "MismatchInvalid"]
    runs = [
        ("MC_TextLex", cfg({"MaxTok": 2 if q else 3, "WideTok": 2 if q else 2}, invariants=inv_lex, emit="Emit", view="View"),
         "byte strings of <= %d corner tokens + all 256 single bytes; laws: escape/unescape round trip (both decoder definitions), "
         "printable ASCII, well-formed output, 6 alternative literal forms denote the string, unit-wise splitting, "
         "two UTF-8 definitions agree" % (2 if q else 3)),
        ("MC_TextLit", cfg({"MaxTok": 3 if q else 4, "WideTok": 1 if q else 1}, invariants=inv_lit, emit="Emit", view="View"),
         "literal texts of <= %d lexical fragments in both quote styles; laws: denotational decoder = streaming automaton, "
         "canonical re-encoding, concatenation, first-literal prefix, quote independence" % (3 if q else 4)),
        ("MC_TextUnknown", cfg({"MaxSteps": 3 if q else 4, "MaxDepth": 2 if q else 3, "Tier": '"%s"' % tier}, invariants=inv_unk, emit="Emit"),
         "unknown-field sets built from <= %d corner elements (nested groups, loose varints, big field numbers); laws: "
         "builder output is valid for the PbWire recogniser, parser inverts builder, open/mismatched groups are invalid" % (3 if q else 4)),
    ]
    import concurrent.futures as cf
    tours = [os.path.join(scratch(), "c25-%d.tour" % i) for i in range(len(runs))]
    vlib.spec_dir()
    with cf.ThreadPoolExecutor(max_workers=3) as ex:
        futs = [ex.submit(tlc, m, c, timeout=3000, emit_to=tours[i]) for i, (m, c, _) in enumerate(runs)]
        rs = [f.result() for f in futs]
    for r, (_, _, label) in zip(rs, runs):
        res.add_tlc(r, label)
    res.exhaustive = True
    for t, (m, _, _) in zip(tours, runs):
        replay_tour(res, b, "text", t, key=_k25)
        _drift(res, b, "text", t, m)
    n = 4000 if q else 150000
    drive_and_validate(res, b, "text", "Trace_Text", seed, n, key=_k25)
    res.rule = ("tour: (1) every byte string over a 64-token UTF-8/escape corner alphabet up to the bound and all single bytes, "
                "each with six specification-chosen literals, through the real encoder (EmitASCII off/on), the real decoder, "
                "UnmarshalString and a prototext bytes/string field; (2) every literal text over a 56-fragment lexical alphabet "
                "with the specification's value; (3) every valid unknown-field set of the constructive machine x 4 option "
                "combinations through prototext Format/Marshal(EmitUnknown) at top level and inside singular/repeated/map "
                "submessages; distinct = (byte classes, length) / (escape letters, verdict, quote) / (options, item kinds x depth) "
                "classes; driver: random byte strings, independently written random literals with mutations, random valid "
                "unknown sets, validated by Trace_Text (the specification's decoder applied to the real encoder's output)")
    res.assumptions.append("the exact escape chosen by the encoder, the rejection of ill-formed literals and the structure of the "
                           "unknown-field rendering are predicted, not demanded (reported as drift)")
