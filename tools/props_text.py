"""Family "text": C25 (text string literals, EmitUnknown rendering) and C39 (textual default values)."""
import json, os
import vlib
from props import check, cfg, MODULE_OF, HARNESS_PKGS
from vlib import tlc, build_harness, replay_tour, drive_and_validate, scratch

MODULE_OF.update(C25="text", C39="defval")
HARNESS_PKGS.update(C25=("text",), C39=("text",))


def _replay(res, binary, module, tour_path, key, label):
    """S->C tour replay (same bookkeeping as vlib.replay_tour) that also counts *predicted-but-not-demanded*
    behaviour (DESIGN 3.2): a case whose out.drift is non-empty differs from what the specification predicts
    although everything the property demands holds.  Drift is reported in the evidence, never in the verdict."""
    outp = tour_path + ".out"
    r = vlib.harness(binary, ["exec", module, tour_path, outp], timeout=3600)
    vlib.log("replayed %s tour %s: %s" % (module, label, r.stdout.strip().splitlines()[-1]))
    n = d = 0
    sample = None
    for ev in vlib.read_ndjson(outp):
        n += 1
        res.distinct.add(json.dumps(key(ev), sort_keys=True))
        if n % 997 == 1:
            res.sample(json.dumps({x: ev[x] for x in ev if x != "out"}, sort_keys=True)[:1200])
        if ev.get("diff"):
            res.fail(dict(ev, _module=module), "tour: real code disagrees with the specification on %s" % ev["diff"])
        elif (ev.get("out") or {}).get("drift"):
            d += 1
            if sample is None:
                sample = {k: v for k, v in ev.items() if k != "exp"}
    res.tour_cases += n
    res.evaluations += n
    res.traces += n
    os.remove(outp)
    res.extra.setdefault("drift", {})[label] = dict(cases=n, predicted_misses=d)
    if d:
        res.notes.append("spec drift (%s): %d of %d cases differ from the *predicted* behaviour although everything the "
                         "property demands holds; first: %s" % (label, d, n, json.dumps(sample)[:600]))


# ============================================================================ C25
def _k_str(e):
    b = e.get("b", [])
    cls = sorted({("c0" if c < 32 else "q" if c in (34, 39, 92) else "asc" if c < 127 else "del" if c == 127 else
                   "cont" if c < 192 else "l2" if c < 224 else "l3" if c < 240 else "l4" if c < 245 else "bad") for c in b})
    return ["str", cls, min(len(b), 6)]


def _k_lit(e):
    s = e.get("s", [])
    esc = sorted({chr(s[i + 1]) if 32 <= s[i + 1] < 127 else "?" for i in range(len(s) - 1) if s[i] == 92})
    verdict = (e.get("exp") or e.get("out") or {}).get("ok", False)
    return ["lit", esc, bool(verdict), s[0] if s else 0]


def _k_unk(e):
    b = e.get("b", [])
    o = e.get("out") or {}
    kinds = sorted({(it["k"], min(it["d"], 3)) for it in (e.get("pred") or o.get("items") or [])})
    return ["unk", e.get("mode"), e.get("ascii"), e.get("multi"), kinds, min(len(b) // 8, 6)]


def _k25(e):
    return {"str": _k_str, "lit": _k_lit, "unk": _k_unk}[e["op"]](e)


@check("C25")
def c25(res, tier, seed):
    b = build_harness(("text",))
    q = tier == "quick"
    inv_lex = ["TwoUtf8DefinitionsAgree", "RoundTrip", "StreamAgree", "AsciiClean", "Utf8Clean", "FirstLit",
               "AltFormsDenote", "SplitAnywhere", "PassThrough"]
    inv_lit = ["TwoDefinitionsAgree", "Canonical", "Concatenation", "FirstIsPrefix", "QuoteIndependent"]
    inv_unk = ["ClosedIsValid", "OpenIsInvalid", "ParserInvertsBuilder", "MismatchInvalid"]
    runs = [
        ("MC_TextLex", cfg({"MaxTok": 2 if q else 3, "WideTok": 2 if q else 2}, invariants=inv_lex, emit="Emit", view="View"),
         "byte strings of <= %d corner tokens + all 256 single bytes; laws: escape/unescape round trip (both decoder definitions), "
         "printable ASCII, well-formed output, 6 alternative literal forms denote the string, unit-wise splitting, "
         "two UTF-8 definitions agree" % (2 if q else 3)),
        ("MC_TextLit", cfg({"MaxTok": 3 if q else 4, "WideTok": 1 if q else 1}, invariants=inv_lit, emit="Emit", view="View"),
         "literal texts of <= %d lexical fragments in both quote styles; laws: denotational decoder = streaming automaton, "
         "canonical re-encoding, concatenation, first-literal prefix, quote independence" % (3 if q else 4)),
        ("MC_TextUnknown", cfg({"MaxSteps": 3 if q else 4, "MaxDepth": 2 if q else 3, "Tier": '"%s"' % tier}, invariants=inv_unk, emit="Emit"),
         "unknown-field sets built from <= %d corner elements (nested groups, loose varints, big field numbers); laws: "
         "builder output is valid for the PbWire recogniser, parser inverts builder, open/mismatched groups are invalid" % (3 if q else 4)),
    ]
    import concurrent.futures as cf
    tours = [os.path.join(scratch(), "c25-%d.tour" % i) for i in range(len(runs))]
    vlib.spec_dir()
    with cf.ThreadPoolExecutor(max_workers=3) as ex:
        futs = [ex.submit(tlc, m, c, workers=2, timeout=3000, emit_to=tours[i]) for i, (m, c, _) in enumerate(runs)]
        rs = [f.result() for f in futs]
    for r, (_, _, label) in zip(rs, runs):
        res.add_tlc(r, label)
    res.exhaustive = True
    for t, (m, _, _) in zip(tours, runs):
        _replay(res, b, "text", t, _k25, m)
    n = 3000 if q else 60000
    drive_and_validate(res, b, "text", "Trace_Text", seed, n, key=_k25)
    res.rule = ("tour: (1) every byte string over a 64-token UTF-8/escape corner alphabet up to the bound and all single bytes, "
                "each with six specification-chosen literals, through the real encoder (EmitASCII off/on), the real decoder, "
                "UnmarshalString and a prototext bytes/string field; (2) every literal text over a 56-fragment lexical alphabet "
                "with the specification's value; (3) every valid unknown-field set of the constructive machine x 4 option "
                "combinations through prototext Format/Marshal(EmitUnknown) at top level and inside singular/repeated/map "
                "submessages; distinct = (byte classes, length) / (escape letters, verdict, quote) / (options, item kinds x depth) "
                "classes; driver: random byte strings, independently written random literals with mutations, random valid "
                "unknown sets, validated by Trace_Text (the specification's decoder applied to the real encoder's output)")
    res.assumptions.append("the exact escape chosen by the encoder, the rejection of ill-formed literals and the structure of the "
                           "unknown-field rendering are predicted, not demanded (reported as drift)")


# ============================================================================ C39
def _k39(e):
    if e["op"] == "sweep32":
        return ["sweep32", e["sign"], e["ex"]]
    v = e.get("v", [])
    kind = e["kind"]
    if kind in ("float", "double"):
        if kind == "float":
            ex = ((v[3] & 127) << 1) | (v[2] >> 7)
            mz = (v[2] & 127) == 0 and v[1] == 0 and v[0] == 0
            top = 255
        else:
            ex = ((v[7] & 127) << 4) | (v[6] >> 4)
            mz = (v[6] & 15) == 0 and not any(v[:6])
            top = 2047
        cls = ("inf" if mz else "nan") if ex == top else ("zero" if mz else "sub") if ex == 0 else "norm"
        return [kind, e["fmt"], e.get("hs", 0), cls, v[-1] >> 7, ex if kind == "float" else ex >> 3]
    if kind in ("string", "bytes"):
        cls = sorted({("c0" if c < 32 else "q" if c in (34, 39, 92) else "asc" if c < 127 else "hi") for c in v})
        return [kind, e["fmt"], cls, min(len(v), 5)]
    if kind == "enum":
        return [kind, e["fmt"], e.get("idx"), len(e.get("enum", []))]
    nz = [i for i, c in enumerate(v) if c]
    return [kind, e["fmt"], (nz[-1] if nz else -1), (v[-1] >> 7) if v else 0]


@check("C39")
def c39(res, tier, seed):
    b = build_harness(("text",))
    q = tier == "quick"
    full = os.environ.get("VERIF_FULL_FLOAT32") == "1"
    stride = 0 if q else (1 if full else 64)       # thorough: every 64th mantissa of each of the 512 strata (2^26 patterns)
    tour = os.path.join(scratch(), "c39.tour")
    r = tlc("MC_DefVal", cfg({"Tier": '"%s"' % tier, "MaxTok": 2 if q else 3, "SweepStride": stride, "SweepStart": seed * 7919},
                             invariants=["Laws", "ExactOnce"], emit="Emit"), emit_to=tour, timeout=3000)
    res.add_tlc(r, "every integer boundary 2^n-1, 2^n, 2^n+1 at every width/signedness, byte strings of <= %d corner tokens, enum "
                   "shapes, float/double bit-pattern grids, exact decimal texts; laws: Parse(Format(v)) = v per kind, canonical "
                   "numerals, agreement with native integers, range rejection, C-escape printable and readable as one text-format "
                   "value, NaN canonicalisation, the two exact float constructions agree" % (2 if q else 3))
    res.exhaustive = True
    # sweep lines are long-running: split them off so that failing patterns can be turned into single cases
    plain, sweeps = tour + ".plain", tour + ".sweep"
    ns = 0
    with open(plain, "w") as fp, open(sweeps, "w") as fs:
        for line in open(tour):
            if '"sweep32"' in line:
                fs.write(line); ns += 1
            else:
                fp.write(line)
    replay_tour(res, b, "defval", plain, key=_k39)
    if ns:
        outp = sweeps + ".out"
        info = json.loads(vlib.harness(b, ["exec", "defval", sweeps, outp], timeout=7200).stdout.strip().splitlines()[-1])
        vlib.log("float32 sweep: %s" % info)
        swept, cands = 0, []
        for ev in vlib.read_ndjson(outp):
            swept += ev["out"].get("n", 0)
            res.distinct.add(json.dumps(_k39(ev)))
            if ev.get("diff"):
                cands += ev["out"].get("fails", [])
                if not ev["out"].get("fails"):
                    res.fail(dict(ev, _module="defval"), "sweep: real code disagrees with the specification on %s" % ev["diff"])
        res.tour_cases += ns
        res.evaluations += swept
        res.extra["float32_patterns_swept"] = swept
        res.extra["float32_sweep"] = "all 2^32 patterns" if full else "every %dth mantissa of each (sign, exponent) stratum, offset by seed" % stride
        if cands:
            # the verdict on each candidate comes from the specification (Trace_DefVal), one ordinary event per pattern and format
            cp = os.path.join(scratch(), "c39-cands.ndjson")
            with open(cp, "w") as fh:
                for bits in cands[:200]:
                    for f in ("desc", "gotag"):
                        fh.write(json.dumps(dict(op="rt", kind="float", fmt=f, v=bits, enum=[], idx=0, hs=0, str=[])) + "\n")
            tr = cp + ".out"
            vlib.harness(b, ["exec", "defval", cp, tr])
            total, bad = vlib.validate_trace("Trace_DefVal", tr)
            events = list(vlib.read_ndjson(tr))
            for i in bad:
                res.fail(dict(events[i], _module="defval", _trace="Trace_DefVal"),
                         "sweep candidate: specification rejects the recorded event")
            res.trace_events += total
    n = 3000 if q else 60000
    drive_and_validate(res, b, "defval", "Trace_DefVal", seed, n, key=_k39)
    res.rule = ("tour: TLC enumerates the value space per kind (all 15 integer kinds, bool, enum shapes, string, bytes, float, double) "
                "x both formats with the text the specification writes; the real Marshal/Unmarshal, the real Unmarshal of the "
                "specification's text and NewFile/ToFileDescriptorProto/NewFile must reproduce the value; distinct = (kind, format, "
                "magnitude or character or float class) classes; driver: seeded random values incl. hard float patterns and their "
                "neighbours, validated by Trace_DefVal (the specification's Parse applied to the real Marshal output)"
                + ("; float32: stratified sweep through the real code, candidates re-judged by the specification" if ns else ""))
    res.assumptions.append("float <-> decimal conversion is an uninterpreted relation constrained by Parse(Format(bits)) = Canon(bits); "
                           "the specification defines float values only for decimal texts that denote a binary float exactly")
    if not full:
        res.notes.append("float32 space: %s; set VERIF_FULL_FLOAT32=1 with --tier thorough for all 2^32 patterns; float64 is sampled"
                         % ("hard patterns, class grid and random patterns (quick)" if q else "2^26 stratified patterns + grid + random"))
