#!/bin/bash
# usage: seedconfirm.sh <seed dir with patch.diff and zz_seed_*_test.go> [go test tags]
# Confirms in a scratch worktree of /repo: the patch applies and builds, the existing test suite passes with it,
# the demonstration fails with it and passes without it.  Prints one RESULT line.
set -u
export GOFLAGS=-mod=mod GOPROXY=off GOSUMDB=off GOTOOLCHAIN=local
d=$(readlink -f "$1"); tags=${2:-}
id=$(basename "$d")
wt=$(mktemp -d /tmp/seedconf-XXXX); rmdir "$wt"
git -C /repo worktree add -q --detach "$wt" HEAD || exit 3
trap 'git -C /repo worktree remove --force "$wt" >/dev/null 2>&1' EXIT
cd "$wt"
demo=$(ls "$d"/zz_seed_*_test.go 2>/dev/null | head -1)
[ -z "$demo" ] && { echo "RESULT $id no-demo"; exit 3; }
pname=$(grep -m1 "^package " "$demo" | awk '{print $2}')
# 1) the notes usually quote the command:  go test ... -run TestSeedCxx ./some/pkg
pkg=$(grep -ho "\-run [A-Za-z0-9_|]* \./[A-Za-z0-9_/]*" "$d"/notes.md 2>/dev/null | head -1 | awk '{print $3}' | sed 's|^\./||')
# 2) otherwise: the unique directory whose non-test files declare the package
if [ -z "$pkg" ] || [ ! -d "$pkg" ]; then
  pkg=$(grep -rl --include=*.go "^package ${pname%_test}\$" . 2>/dev/null | grep -v _test.go | xargs -n1 dirname | sort -u | head -1 | sed 's|^\./||')
fi
cp "$demo" "$pkg/" || { echo "RESULT $id cannot-place-demo $pkg"; exit 3; }
t=${tags:+-tags $tags}
without=$(go test $t -count=1 -run 'Seed|seed|ZZ' ./$pkg/ 2>&1 | tail -3 | tr '\n' ' ')
git apply --whitespace=nowarn "$d/patch.diff" || { echo "RESULT $id patch-does-not-apply"; exit 3; }
go build ./... 2>&1 | tail -2
with=$(go test $t -count=1 -run 'Seed|seed|ZZ' ./$pkg/ 2>&1 | tail -3 | tr '\n' ' ')
rm -f "$pkg"/zz_seed_*_test.go
suite=$(go test -count=1 -vet=off ./... 2>&1 | grep -v "^ok\|no test files" | head -5 | tr '\n' ' ')
echo "RESULT $id pkg=$pkg WITHOUT: ${without:0:120} || WITH: ${with:0:160} || SUITE-FAILURES: ${suite:-none}"
